#!/bin/sh
# Full .vo build of the development, the Print Assumptions logs, and the extracted model.
set -e
cd "$(dirname "$0")"
exec 9>.build.lock; flock 9
python3 gen_dispatch.py
{ echo "-Q theories BFG"; echo "-Q props BFGProps"; find theories props -name '*.v' | sort; } > _CoqProject
coq_makefile -f _CoqProject -o Makefile.coq >/dev/null 2>&1
timeout 3000 make -f Makefile.coq -j16 >build.log 2>&1 || { tail -40 build.log; exit 1; }
mkdir -p extract/out ../bin
# the binaries are rebuilt only when something they are made from is newer, and are moved into place atomically:
# checks of different properties may run at the same time and must never see a half-written bin/model or bin/argvrec
if [ ! -x ../bin/model ] || [ -n "$(find theories -name '*.vo' -newer ../bin/model | head -1)" ] \
   || [ extract/Extract.v -nt ../bin/model ] || [ extract/driver.ml -nt ../bin/model ]; then
  cd extract/out
  timeout 600 coqc -Q ../../theories BFG ../Extract.v -o Extract.vo >/dev/null 2>&1 || timeout 600 coqc -Q ../../theories BFG ../Extract.v
  cp ../driver.ml .
  ocamlfind ocamlopt -w -a -O2 model.mli model.ml driver.ml -o model.new 2>/dev/null || ocamlfind ocamlopt -w -a model.mli model.ml driver.ml -o model.new
  mv -f model.new ../../../bin/model
  cd ../..
fi
if [ ! -x ../bin/argvrec ] || [ ../harness/csrc/argvrec.c -nt ../bin/argvrec ]; then
  gcc -O1 -o ../bin/argvrec.new ../harness/csrc/argvrec.c
  mv -f ../bin/argvrec.new ../bin/argvrec
fi
echo build-ok
