From BFG Require Import Dispatch.
Require Extraction.
Require Import ExtrOcamlBasic.
Extraction "model.ml" dispatch.
