(* Generic driver: each input line is  NAME <sx> ; prints the result <sx>.
   sx grammar:  NAT | '[' sx* ']'  (blank separated).  Hand-written, trusted; guarded by
   re-evaluating a sample of every run inside Coq with vm_compute. *)
open Model
let rec pos_of_int n = if n = 1 then XH else if n land 1 = 0 then XO (pos_of_int (n lsr 1)) else XI (pos_of_int (n lsr 1))
let n_of_int n = if n = 0 then N0 else Npos (pos_of_int n)
let rec int_of_pos = function XH -> 1 | XO p -> 2 * int_of_pos p | XI p -> 2 * int_of_pos p + 1
let int_of_n = function N0 -> 0 | Npos p -> int_of_pos p
let bit c i = (Char.code c lsr i) land 1 = 1
let ascii_of_char c = Ascii (bit c 0, bit c 1, bit c 2, bit c 3, bit c 4, bit c 5, bit c 6, bit c 7)
let coq_string s =
  let r = ref EmptyString in
  for i = String.length s - 1 downto 0 do r := String (ascii_of_char s.[i], !r) done; !r
let parse line pos =
  let n = String.length line in
  let rec skip () = if !pos < n && (line.[!pos] = ' ' || line.[!pos] = '\t') then (incr pos; skip ()) in
  let rec value () =
    skip ();
    if !pos >= n then failwith "eof"
    else if line.[!pos] = '[' then begin
      incr pos;
      let items = ref [] in
      let rec loop () =
        skip ();
        if !pos >= n then failwith "unterminated"
        else if line.[!pos] = ']' then incr pos
        else (items := value () :: !items; loop ()) in
      loop (); L (List.rev !items) end
    else begin
      let st = !pos in
      while !pos < n && line.[!pos] >= '0' && line.[!pos] <= '9' do incr pos done;
      if st = !pos then failwith "bad char";
      A (n_of_int (int_of_string (String.sub line st (!pos - st)))) end in
  value ()
let rec print b = function
  | A n -> Buffer.add_string b (string_of_int (int_of_n n))
  | L l -> Buffer.add_char b '[';
           List.iteri (fun i x -> if i > 0 then Buffer.add_char b ' '; print b x) l;
           Buffer.add_char b ']'
let () =
  try while true do
    let line = input_line stdin in
    let sp = try String.index line ' ' with Not_found -> String.length line in
    let name = String.sub line 0 sp in
    let pos = ref sp in
    let arg = parse line pos in
    let r = dispatch (coq_string name) arg in
    let b = Buffer.create 256 in
    print b r; print_endline (Buffer.contents b)
  done with End_of_file -> ()
