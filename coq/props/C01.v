(* C01 - Make backend: every argument reaches the spawned process unchanged.
   Only statements; proofs live in theories/. *)
From BFG Require Import Base.Chars Shell.PosixQuote Shell.Sh Shell.PosixQuoteProofs.

(* one quoted argument is read back by sh as exactly that argument, for every string and every
   classification of non-ASCII code points *)
Theorem C01_quote_word : forall uw s, sh_words uw (quote uw s) = Some [s].
Proof. exact quote_word. Qed.
Print Assumptions C01_quote_word.

(* the de-duplication of quotes in wrap_quotes never changes the denoted word, in any context *)
Theorem C01_wrap_quotes_sound : forall uw s inw cur rest,
  lex uw false inw cur (wrap_quotes (esc s) ++ rest) = lex uw false true (cur ++ fl true s) rest.
Proof. exact wrap_ok. Qed.
Print Assumptions C01_wrap_quotes_sound.

(* a joined argument list is split by sh into exactly the arguments *)
Theorem C01_join_words : forall uw args, sh_words uw (join uw args) = Some args.
Proof. exact join_words. Qed.
Print Assumptions C01_join_words.

(* ---- Make layer ---- *)
From Coq Require Import String.
From BFG Require Import Make.MakeWrite Make.MakeRead Make.MakeProofs.

(* the $ -> $$ escaping is undone by Make's expansion, whatever the variable table *)
Theorem C01_make_dollar_roundtrip : forall v s, expand v (dollar_esc s) = Some s.
Proof. exact expand_dollar_esc_id. Qed.
Print Assumptions C01_make_dollar_roundtrip.

(* channel R: a recipe line written for a list of argument words is handed by Make to sh as a text that sh
   splits into exactly those words, provided the (quoted) command word does not start with a recipe prefix
   character @ - + *)
Theorem C01_recipe : forall uw us v ws line,
  write_recipe_line uw us (words_items ws) = Some line ->
  head_ok uw ws = true ->
  match recipe_shell_text v line with Some t => sh_words uw t | None => None end = Some ws.
Proof. exact recipe_roundtrip. Qed.
Print Assumptions C01_recipe.

(* channel V: NAME := words (as written now, with # escaped) gives the variable the sh text of the words,
   hence a reference to it in a recipe delivers exactly the words *)
Theorem C01_var_assign : forall uw us v ws text,
  write_value uw us (words_items ws) SynShell = Some text ->
  match assign_value v text with Some t => sh_words uw t | None => None end = Some ws.
Proof. exact assign_words. Qed.
Print Assumptions C01_var_assign.

(* Make's comment rule undoes the # escaping for every string and every pending backslash run *)
Theorem C01_hash_escape_roundtrip : forall s, strip_comment 0 (bs_esc hash_special 0 s) = s.
Proof. intros s. exact (strip_comment_hash_esc s 0). Qed.
Print Assumptions C01_hash_escape_roundtrip.

(* the writer before the repair (no # escaping) truncated flags: documented refutation *)
Theorem C01_var_assign_unfixed_refuted : exists ws text,
  write_value_unfixed (fun _ => false) (fun _ => false) (words_items ws) SynShell = Some text /\
  match assign_value (fun _ => []) text with Some t => sh_words (fun _ => false) t | None => None end <> Some ws.
Proof. exists [STR "-DFOO=a#b"], (STR "'-DFOO=a#b'"). split; [reflexivity|]. vm_compute. discriminate. Qed.
Print Assumptions C01_var_assign_unfixed_refuted.

(* non-vacuity: a concrete word list with quotes, $, #, blanks, ~ and % meets the guards and round-trips *)
Example C01_recipe_nonvacuous :
  let ws := [STR "cc"; STR "-DFOO=a#b"; STR "it's"; STR "$HOME"; STR "a b"; STR "~x"; STR "%k"; STR "i,j"] in
  exists line, write_recipe_line (fun _ => false) (fun _ => false) (words_items ws) = Some line /\
    head_ok (fun _ => false) ws = true /\
    match recipe_shell_text (fun _ => []) line with Some t => sh_words (fun _ => false) t | None => None end = Some ws.
Proof. eexists. split; [vm_compute; reflexivity|]. split; vm_compute; reflexivity. Qed.

(* channel P: a path is written as <root variable reference><suffix> inside ONE pair of quotes (the reference
   is a literal bit, so the unit is always quoted); after Make substituted the root's value the text sh sees
   is path_text, and sh reads it back as root value ++ suffix for every suffix, provided the root value is
   non-empty and contains no single quote *)
Theorem C01_path_unit : forall uw rootval sfx,
  no_sq rootval = true -> rootval <> [] ->
  sh_words uw (path_text rootval sfx) = Some [rootval ++ sfx].
Proof. exact path_unit_words. Qed.
Print Assumptions C01_path_unit.

(* ---- channel F: define NAME ... endef and the recipe  $(call NAME,words,words...)  ---- *)
From BFG Require Import Make.MakeCall Make.MakeCallProofs.

(* For every rule name that needs no quoting, every list of argument word lists whose words are non-empty, free
   of newlines, have balanced parentheses and no comma outside parentheses, and every body whose lines start with a
   plain word and refer to the parameters 1..9 that the call supplies: bfg9000 writes the call and the define, and
   GNU Make (arguments split at top-level commas before expansion, each expanded once, bound to the numbered
   variables, body expanded, one sh command per line, recipe prefix removed) hands sh command lines that sh
   splits into exactly the declared words, with each parameter replaced by the word list of that argument. *)
Theorem C01_call_arg : forall uw us v func args body,
  fname_ok uw (var_name us func) = true ->
  args_ok args = true ->
  v [c_comma] = [c_comma] ->
  body <> [] -> forallb (body_line_ok uw (List.length args)) body = true ->
  exists text e body_lines,
    write uw us (call_frag us func (map words_items args)) SynShell QInfo = Some (text, e) /\
    write_body_lines uw us (map body_line_items body) = Some body_lines /\
    forall defs, defs (var_name us func) = Some (join_nl body_lines) ->
      exists lines, recipe_call_lines v defs text = Some lines /\
        Forall2 (fun l line => sh_words uw line = Some (line_words args l)) body lines.
Proof. exact call_arg_roundtrip. Qed.
Print Assumptions C01_call_arg.

(* the two guards named in the design (no comma at all, balanced parentheses) are a special case of the guard *)
Theorem C01_call_arg_guards : forall w,
  negb (has_nl w) && match w with [] => false | _ => true end && no_comma w && parens_balanced w = true ->
  call_word_ok w = true.
Proof. exact simple_guards. Qed.
Print Assumptions C01_call_arg_guards.

Definition c01_v : vars := fun n => if str_eqb n [c_comma] then [c_comma] else [].
Definition c01_body : list (bool * list bitem) :=
  [(false, [BW (STR "cc"); BW (STR "-o"); BP 2; BP 1]); (true, [BW (STR "touch"); BW (STR "a b")])].
(* what sh is handed and splits, or the empty list when Make stops with an error *)
Definition c01_call_run (args : list (list str)) : list (option (list str)) :=
  let nu := fun _ : char => false in
  match write nu nu (call_frag nu (STR "RULE") (map words_items args)) SynShell QInfo,
        write_body_lines nu nu (map body_line_items c01_body) with
  | Some (text, _), Some bl =>
    match recipe_call_lines c01_v (fun n => if str_eqb n (STR "RULE") then Some (join_nl bl) else None) text with
    | Some lines => map (sh_words nu) lines
    | None => []
    end
  | _, _ => []
  end.
Definition c01_call_want (args : list (list str)) : list (option (list str)) :=
  map (fun l => Some (line_words args l)) c01_body.

(* non-vacuity: words with quotes, dollar signs, blanks, hashes, balanced parentheses and a comma inside parentheses *)
Example C01_call_arg_nonvacuous :
  let args := [[STR "a.o"; STR "b c.o"; STR "it's"; STR "$x#y"; STR "f(a,b).o"]; [STR "out (1)"]] in
  args_ok args = true /\ fname_ok (fun _ => false) (var_name (fun _ => false) (STR "RULE")) = true /\
  forallb (body_line_ok (fun _ => false) (List.length args)) c01_body = true /\
  c01_call_run args = c01_call_want args.
Proof. repeat split; vm_compute; reflexivity. Qed.

(* a comma outside parentheses: Make splits the argument at the comma of the written escape (dollar comma), the
   linker is handed a truncated name (open finding C04-make-call-comma) *)
Theorem C01_call_arg_comma_refuted : exists args,
  forallb (forallb (fun w => negb (has_nl w) && parens_balanced w)) args = true /\
  c01_call_run args <> c01_call_want args.
Proof. exists [[STR "ma,in.o"]; [STR "prog"]]. split; [reflexivity|]. vm_compute. discriminate. Qed.
Print Assumptions C01_call_arg_comma_refuted.

(* an unbalanced parenthesis: unterminated call to function, Make stops (open finding C04-make-call-paren) *)
Theorem C01_call_arg_paren_refuted : exists args,
  forallb (forallb (fun w => negb (has_nl w) && no_comma w)) args = true /\
  c01_call_run args <> c01_call_want args.
Proof. exists [[STR "o(ne.o"]; [STR "prog"]]. split; [reflexivity|]. vm_compute. discriminate. Qed.
Print Assumptions C01_call_arg_paren_refuted.

(* ---- channel N: nested test drivers (tests.py _build_commands, collapse=True) ---- *)
From BFG Require Import Make.MakeNested Make.MakeNestedProofs.

(* shell quoting commutes with the doubling of dollar signs: quoting the already written (dollar-doubled) child
   command line as a whole, as _build_commands does, is the dollar-doubling of the quoted command line; so one
   expansion by Make removes the doubling at every nesting depth at once *)
Theorem C01_quote_dollar_commute : forall uw x, quote uw (dollar_esc x) = dollar_esc (quote uw x).
Proof. exact quote_dollar_esc. Qed.
Print Assumptions C01_quote_dollar_commute.

(* the literal handed to the parent for a test (any nesting depth) is the dollar-doubling of a text that sh reads,
   in any context, as ONE word, namely the argument string [arg_of] ... *)
Theorem C01_nested_collapsed : forall uw us w, wf w = true ->
  build_collapsed uw us (to_tnode w) = Some (MLit (dollar_esc (sh_text uw w))) /\ img uw (sh_text uw w) (arg_of uw w).
Proof. intros uw us w H. split; [now apply collapsed_text|now apply sh_text_img]. Qed.
Print Assumptions C01_nested_collapsed.

(* ... and that argument string delivers the test: by induction on the nesting, a one-word test without children
   is the word itself, every other test is a command line which one more round of sh splits into exactly its
   declared words followed by one argument per child, each delivering that child *)
Theorem C01_nested_delivers : forall uw w, wf w = true -> delivers uw w (arg_of uw w).
Proof. exact delivers_arg_of. Qed.
Print Assumptions C01_nested_delivers.

(* top level: the recipe line written for a test (driver) with any tree of tests below it is handed by Make to sh
   as a text that sh splits into the declared words of the driver followed by one argument per child, and every
   argument delivers its child through the further rounds of sh (k+1 rounds for a leaf at depth k) *)
Theorem C01_nested : forall uw us v ws kids line,
  wf (WNode ws kids) = true -> head_ok uw ws = true ->
  test_recipe uw us [to_tnode (WNode ws kids)] = Some [line] ->
  exists args,
    match recipe_shell_text v line with Some t => sh_words uw t | None => None end = Some (ws ++ args) /\
    delivers_all uw kids args.
Proof. exact nested_roundtrip. Qed.
Print Assumptions C01_nested.

(* non-vacuity: a driver with a multi-word child, a one-word child with a blank, and a nested driver whose leaf
   carries a quote, a dollar sign and a blank; three rounds of sh, computed *)
Definition c01_tree : wnode :=
  WNode [STR "drv"; STR "x y"]
    [WNode [STR "c1"; STR "$a"; STR "it's"] []; WNode [STR "solo arg"] [];
     WNode [STR "d2"; STR "-v"] [WNode [STR "leaf"; STR "q'$"; STR "a b"] []]].
Example C01_nested_nonvacuous :
  let nu := fun _ : char => false in
  wf c01_tree = true /\
  match test_recipe nu nu [to_tnode c01_tree] with
  | Some [line] =>
    match (match recipe_shell_text (fun _ => []) line with Some t => sh_words nu t | None => None end) with
    | Some [w1; w2; a1; a2; a3] =>
      w1 = STR "drv" /\ w2 = STR "x y" /\ sh_words nu a1 = Some [STR "c1"; STR "$a"; STR "it's"] /\ a2 = STR "solo arg" /\
      match sh_words nu a3 with
      | Some [d2; v; b1] => d2 = STR "d2" /\ v = STR "-v" /\ sh_words nu b1 = Some [STR "leaf"; STR "q'$"; STR "a b"]
      | _ => False
      end
    | _ => False
    end
  | _ => False
  end.
Proof. vm_compute. repeat split. Qed.

(* ---- environment channel: export NAME=value && ... (global_env) and NAME=value cmd (local_env) ---- *)
From BFG Require Import Shell.PosixEnv Shell.PosixEnvProofs Make.MakeEnvProofs.

(* R side: [sh_run] is the sh model WITH tilde expansion (at the start of a word, and after = and : in assignment words
   and in the assignment arguments of export, HOME taken from the shell variables), assignment words, the export builtin
   and the environment carried along an && list (Shell/Sh.v, second layer; validated against the real dash with a private
   HOME on every run). W side: global_env / local_env / join_lines as in shell/posix.py, every item quoted by quote.

   For every environment whose names are identifiers (other than OPTIND) and ALL values (every string: quotes, blanks,
   tildes, colons, equals signs, dollars; no guard at all), every initial environment and every non-empty list of
   commands whose command word does not read as an assignment and is not a shell builtin: the line written by
   global_env runs exactly the commands, in order, each with exactly its declared words, in an environment that maps
   every declared name to its declared value (the last declaration of a name wins) and every other name to the value
   it had before; and the whole list runs. *)
Theorem C01_env_global : forall uw env0 env cmds,
  forallb name_ok (map fst env) = true -> cmds_ok uw cmds = true ->
  exists penv,
    sh_run uw env0 (sh_text uw (global_env env (map words_line cmds))) = Some (mkprocs penv cmds, true) /\
    forall n, env_get penv n = match assoc_last env n with Some v => Some v | None => assoc_last env0 n end.
Proof. exact env_global. Qed.
Print Assumptions C01_env_global.

(* the same for NAME=value ... cmd words *)
Theorem C01_env_local : forall uw env0 env cmd,
  forallb name_ok (map fst env) = true -> cmd_ok uw cmd = true ->
  exists penv,
    sh_run uw env0 (sh_text uw (local_env env (words_line cmd))) = Some (mkprocs penv [cmd], true) /\
    forall n, env_get penv n = match assoc_last env n with Some v => Some v | None => assoc_last env0 n end.
Proof. exact env_local. Qed.
Print Assumptions C01_env_local.

(* composed with the Make layer (channel R): the recipe line that write_shell writes for the items is handed by Make to
   sh as the sh text of the items - the dollar doubling is undone for every value, and no recipe prefix is eaten: the
   line starts with export or with an identifier; only without any environment word the command word must not start
   with a recipe prefix character (the guard of C01_recipe) *)
Theorem C01_env_through_make : forall uw us v env0 env cmds line,
  forallb name_ok (map fst env) = true -> cmds_ok uw cmds = true ->
  env_head_ok uw env (hd [] cmds) = true ->
  write_recipe_line uw us (map item_frags (global_env env (map words_line cmds))) = Some line ->
  exists penv,
    run_recipe uw v env0 line = Some (mkprocs penv cmds, true) /\
    forall n, env_get penv n = match assoc_last env n with Some x => Some x | None => assoc_last env0 n end.
Proof. exact env_global_make. Qed.
Print Assumptions C01_env_through_make.

Theorem C01_env_local_through_make : forall uw us v env0 env cmd line,
  forallb name_ok (map fst env) = true -> cmd_ok uw cmd = true ->
  env_head_ok uw env cmd = true ->
  write_recipe_line uw us (map item_frags (local_env env (words_line cmd))) = Some line ->
  exists penv,
    run_recipe uw v env0 line = Some (mkprocs penv [cmd], true) /\
    forall n, env_get penv n = match assoc_last env n with Some x => Some x | None => assoc_last env0 n end.
Proof. exact env_local_make. Qed.
Print Assumptions C01_env_local_through_make.

(* the reason no unquoted tilde ever reaches sh: quote leaves a word unquoted only if it has no character outside
   the safe set, and the tilde is outside it; on such words tilde expansion is the identity *)
Theorem C01_env_no_unquoted_tilde : forall uw home vt se ap s w,
  wimg uw s w -> texp home vt se ap w = Some (fl (needs_quote uw s) s).
Proof. exact texp_written. Qed.
Print Assumptions C01_env_no_unquoted_tilde.

Definition c01_nu : char -> bool := fun _ => false.
Definition c01_env0 : list (str * str) := [(STR "HOME", STR "/h"); (STR "PATH", STR "/bin")].
Definition c01_env : list (str * str) :=
  [(STR "VAR", STR "~/x:~"); (STR "A_1", STR "it's a=b:~ $HOME ''"); (STR "x", []); (STR "P", STR "a:~/b"); (STR "VAR", STR "=~")].
Definition c01_cmds : list (list str) := [[STR "cc"; STR "~"; STR "a b"; STR "X=~"]; [STR "ld"; STR "~/y"; []]].

(* non-vacuity: values with tildes, colons, equals signs, quotes, blanks, dollars, an empty value, a name declared
   twice; the guards hold and the run is computed *)
Example C01_env_global_nonvacuous :
  forallb name_ok (map fst c01_env) = true /\ cmds_ok c01_nu c01_cmds = true /\
  match sh_run c01_nu c01_env0 (sh_text c01_nu (global_env c01_env (map words_line c01_cmds))) with
  | Some ([p1; p2], true) =>
    p_argv p1 = [STR "cc"; STR "~"; STR "a b"; STR "X=~"] /\ p_argv p2 = [STR "ld"; STR "~/y"; []] /\ p_env p1 = p_env p2 /\
    env_get (p_env p1) (STR "VAR") = Some (STR "=~") /\ env_get (p_env p1) (STR "A_1") = Some (STR "it's a=b:~ $HOME ''") /\
    env_get (p_env p1) (STR "x") = Some [] /\ env_get (p_env p1) (STR "P") = Some (STR "a:~/b") /\
    env_get (p_env p1) (STR "HOME") = Some (STR "/h") /\ env_get (p_env p1) (STR "Q") = None
  | _ => False
  end.
Proof. vm_compute. repeat split. Qed.

Example C01_env_local_nonvacuous :
  cmd_ok c01_nu (hd [] c01_cmds) = true /\
  match sh_run c01_nu c01_env0 (sh_text c01_nu (local_env c01_env (words_line (hd [] c01_cmds)))) with
  | Some ([p1], true) =>
    p_argv p1 = [STR "cc"; STR "~"; STR "a b"; STR "X=~"] /\
    env_get (p_env p1) (STR "VAR") = Some (STR "=~") /\ env_get (p_env p1) (STR "P") = Some (STR "a:~/b") /\
    env_get (p_env p1) (STR "HOME") = Some (STR "/h")
  | _ => False
  end.
Proof. vm_compute. repeat split. Qed.

(* the R model is not blind to the tilde: the same values written WITHOUT quotes are expanded by sh_run exactly as dash
   does (after = and : in the assignment argument of export and in a prefix assignment, at the start of an ordinary
   word, not in X=~ as an ordinary argument), so the theorems above do say something *)
Example C01_env_model_expands_tilde :
  match sh_run c01_nu c01_env0 (STR "export P=a:~/b && VAR=~ cc ~ X=~ a:~ '~'") with
  | Some ([p1], true) =>
    p_argv p1 = [STR "cc"; STR "/h"; STR "X=~"; STR "a:~"; STR "~"] /\
    env_get (p_env p1) (STR "P") = Some (STR "a:/h/b") /\ env_get (p_env p1) (STR "VAR") = Some (STR "/h")
  | _ => False
  end.
Proof. vm_compute. repeat split. Qed.

(* a name that is not an identifier is NOT delivered (candidate finding C01-env-name-not-identifier): with global_env
   the shell stops at export (bad variable name) and nothing runs; with local_env the word NAME=value is taken for the
   command *)
Theorem C01_env_name_refuted : exists env cmd,
  forallb (fun n => negb (mem_char c_eq n) && negb (mem_char 0%N n) && match n with [] => false | _ => true end) (map fst env) = true /\
  cmd_ok c01_nu cmd = true /\
  sh_run c01_nu c01_env0 (sh_text c01_nu (global_env env [words_line cmd])) = Some ([], false) /\
  match sh_run c01_nu c01_env0 (sh_text c01_nu (local_env env (words_line cmd))) with
  | Some ([p], true) => p_argv p = STR "1A=x" :: cmd
  | _ => False
  end.
Proof. exists [(STR "1A", STR "x")], [STR "cc"; STR "-c"]. vm_compute. repeat split. Qed.
Print Assumptions C01_env_name_refuted.

(* ====================================================================== flag variables and the goal (target-specific /
   pattern-specific variables with inheritance).  R model Make/MakeTVars.v: GNU Make's lookup of a variable in the recipe
   of a target built on behalf of a chain of dependents - own target-specific, then own pattern-specific, then the
   effective value of the direct dependent (recursively), then global; := definitions expanded while the Makefile is
   read (validated against /usr/bin/make, harness/c01tv.py stage R:make tvars).  W model Graph/FlagsVars.v: the lines
   flags_vars and make_compile / make_link write for one kind X:  GLOBAL_X := g ;  %: X := $(GLOBAL_X)  (always) ;
   tgt: X := $(GLOBAL_X) own  for the steps with own values (tie: stage W:flags_vars lines). *)
From BFG Require Import Make.MakeTVars Graph.BackendAgree Graph.FlagsVars Graph.FlagsVarsProofs.

(* For every flag kind X, every global word list g (the empty one included), every set of targets with own word lists
   (an empty list = a step without own values: it gets no line), and every Makefile [defs] whose definitions of GLOBAL_X
   and X are exactly the written ones (definitions of other variables may stand anywhere in between): the words sh gets
   from $(X) in the recipe of ANY target t are g ++ own t, whatever the chain of dependents [chain] on whose behalf Make
   builds t - the value does not depend on the goal.
   Guards: X is made of ASCII word characters; the targets with own values are distinct (Makefile.rule rejects a second
   rule for a target); no written target-specific line has a ; in its text ([tline_plain]: GNU Make reads such a line as a
   rule line first and the first unquoted ; changes the meaning of # and of backslashes behind / in front of it - the
   complement is C01_flags_target_semicolon_refuted, open finding C01-target-flag-semicolon; global words are unrestricted).
   [read_defs ... = Some st]: the other definitions are inside the fragment MakeRead interprets. *)
Theorem C01_flags_goal_independent : forall uw us fname g own written defs gl st,
  name_ok fname = true ->
  NoDup (map fst own) ->
  flag_defs uw us true fname (words_items g) (own_items own) = Some written ->
  forallb tline_plain written = true ->
  filter (about (global_name fname) fname) defs = written ->
  read_defs (mkVS gl [] []) defs = Some st ->
  forall t chain, sh_words uw (lookup st fname t chain) = Some (g ++ own_words own t).
Proof. exact flags_goal_independent. Qed.
Print Assumptions C01_flags_goal_independent.

(* the special case of a Makefile with the written lines only *)
Theorem C01_flags_goal_independent_plain : forall uw us fname g own written gl st,
  name_ok fname = true ->
  NoDup (map fst own) ->
  flag_defs uw us true fname (words_items g) (own_items own) = Some written ->
  forallb tline_plain written = true ->
  read_defs (mkVS gl [] []) written = Some st ->
  forall t chain, sh_words uw (lookup st fname t chain) = Some (g ++ own_words own t).
Proof. exact flags_goal_independent_plain. Qed.
Print Assumptions C01_flags_goal_independent_plain.

(* The same Makefile WITHOUT the pattern-specific line (flag_defs false), no global words: a prerequisite without own
   values (libinner.so) built as its own goal sees no words, built on behalf of prog it sees the words of prog. *)
Theorem C01_flags_without_pattern_line_refuted : exists fname own written st t p,
  name_ok fname = true /\ NoDup (map fst own) /\
  flag_defs c01_nu c01_nu false fname (words_items []) (own_items own) = Some written /\
  read_defs (mkVS [] [] []) written = Some st /\
  own_words own t = [] /\ own_words own p <> [] /\
  sh_words c01_nu (lookup st fname t []) = Some [] /\
  sh_words c01_nu (lookup st fname t [p]) = Some (own_words own p).
Proof.
  exists (STR "LDLIBS"), [(STR "prog", [STR "./libinner.so"]); (STR "libinner.so", [])].
  eexists. eexists. exists (STR "libinner.so"), (STR "prog").
  split; [reflexivity|]. split; [repeat constructor; cbn; intuition discriminate|].
  split; [vm_compute; reflexivity|]. split; [vm_compute; reflexivity|].
  split; [reflexivity|]. split; [discriminate|]. split; vm_compute; reflexivity.
Qed.
Print Assumptions C01_flags_without_pattern_line_refuted.

(* The guard [tline_plain] is needed: own words -DA=x;y -DB=h#i of one step.  The line
     main.o: CFLAGS := $(GLOBAL_CFLAGS) '-DA=x;y' '-DB=h\#i'
   is cut by GNU Make at the ; and the rest put back verbatim, so the tool gets -DB=h\#i (validated against /usr/bin/make;
   the same words as GLOBAL words arrive unchanged: C01_var_assign).  Likewise a backslash directly in front of a ; is lost. *)
Theorem C01_flags_target_semicolon_refuted : exists fname g own written st t,
  name_ok fname = true /\ NoDup (map fst own) /\
  flag_defs c01_nu c01_nu true fname (words_items g) (own_items own) = Some written /\
  read_defs (mkVS [] [] []) written = Some st /\
  g ++ own_words own t = [STR "-DA=x;y"; STR "-DB=h#i"; STR "a\;b"] /\
  sh_words c01_nu (lookup st fname t []) = Some [STR "-DA=x;y"; STR "-DB=h\#i"; STR "a\;b"] /\
  (exists st2 written2,
     flag_defs c01_nu c01_nu true fname (words_items g) (own_items [(t, [STR "a\;b"; STR "c"])]) = Some written2 /\
     read_defs (mkVS [] [] []) written2 = Some st2 /\
     sh_words c01_nu (lookup st2 fname t []) = Some [STR "a;b"; STR "c"]).
Proof.
  exists (STR "CFLAGS"), [], [(STR "main.o", [STR "-DA=x;y"; STR "-DB=h#i"; STR "a\;b"])].
  eexists. eexists. exists (STR "main.o").
  split; [reflexivity|]. split; [repeat constructor; cbn; intuition discriminate|].
  split; [vm_compute; reflexivity|]. split; [vm_compute; reflexivity|].
  split; [reflexivity|]. split; [vm_compute; reflexivity|].
  eexists. eexists. split; [vm_compute; reflexivity|]. split; vm_compute; reflexivity.
Qed.
Print Assumptions C01_flags_target_semicolon_refuted.

(* non-vacuity: two kinds interleaved the way the backend writes them (all GLOBAL_ lines, all pattern lines, then the
   lines of the rules), words with blanks, quotes, # and $; the hypotheses hold and the library, built on behalf of prog
   on behalf of all, gets the global words only, prog gets global ++ own. *)
Definition c01_tv_own : list (str * list str) :=
  [(STR "prog", [STR "./libinner.so"; STR "-DX=a#b $c"]); (STR "libinner.so", []); (STR "o t/x'y.stamp", [STR "-l:z"])].
Definition c01_tv_g : list str := [STR "-lm"; STR "-L/a b"; STR "x;y#z"].
Definition c01_tv_defs : list vdef :=
  [mkDef ScGlobal (STR "GLOBAL_LDFLAGS") (STR "-Wl,-O1");
   mkDef ScGlobal (STR "GLOBAL_LDLIBS") (STR "-lm '-L/a b' 'x;y\#z'");
   mkDef ScPattern (STR "LDFLAGS") (STR "$(GLOBAL_LDFLAGS)");
   mkDef ScPattern (STR "LDLIBS") (STR "$(GLOBAL_LDLIBS)");
   mkDef (ScTarget (STR "prog")) (STR "LDFLAGS") (STR "$(GLOBAL_LDFLAGS) -s");
   mkDef (ScTarget (STR "prog")) (STR "LDLIBS") (STR "$(GLOBAL_LDLIBS) ./libinner.so '-DX=a\#b $$c'");
   mkDef (ScTarget (STR "o t/x'y.stamp")) (STR "LDLIBS") (STR "$(GLOBAL_LDLIBS) -l:z")].
Example C01_flags_goal_independent_nonvacuous :
  name_ok (STR "LDLIBS") = true /\ NoDup (map fst c01_tv_own) /\
  (exists written st,
    flag_defs c01_nu c01_nu true (STR "LDLIBS") (words_items c01_tv_g) (own_items c01_tv_own) = Some written /\
    forallb tline_plain written = true /\
    filter (about (global_name (STR "LDLIBS")) (STR "LDLIBS")) c01_tv_defs = written /\
    read_defs (mkVS [] [] []) c01_tv_defs = Some st /\
    sh_words c01_nu (lookup st (STR "LDLIBS") (STR "libinner.so") [STR "prog"; STR "all"]) = Some c01_tv_g /\
    sh_words c01_nu (lookup st (STR "LDLIBS") (STR "prog") [STR "all"]) =
      Some [STR "-lm"; STR "-L/a b"; STR "x;y#z"; STR "./libinner.so"; STR "-DX=a#b $c"] /\
    lookup st (STR "LDFLAGS") (STR "libinner.so") [STR "prog"] = STR "-Wl,-O1" /\
    def_lines c01_nu written = Some [STR "GLOBAL_LDLIBS := -lm '-L/a b' 'x;y\#z'"; STR "%: LDLIBS := $(GLOBAL_LDLIBS)";
      STR "prog: LDLIBS := $(GLOBAL_LDLIBS) ./libinner.so '-DX=a\#b $$c'";
      STR "o\ t/x'y.stamp: LDLIBS := $(GLOBAL_LDLIBS) -l:z"]).
Proof.
  split; [reflexivity|]. split; [repeat constructor; cbn; intuition discriminate|].
  eexists. eexists. split; [vm_compute; reflexivity|]. split; [vm_compute; reflexivity|]. split; [vm_compute; reflexivity|].
  split; [vm_compute; reflexivity|]. repeat split; vm_compute; reflexivity.
Qed.
