(* C01 - Make backend: every argument reaches the spawned process unchanged.
   Only statements; proofs live in theories/. *)
From BFG Require Import Base.Chars Shell.PosixQuote Shell.Sh Shell.PosixQuoteProofs.

(* one quoted argument is read back by sh as exactly that argument, for every string and every
   classification of non-ASCII code points *)
Theorem C01_quote_word : forall uw s, sh_words uw (quote uw s) = Some [s].
Proof. exact quote_word. Qed.
Print Assumptions C01_quote_word.

(* the de-duplication of quotes in wrap_quotes never changes the denoted word, in any context *)
Theorem C01_wrap_quotes_sound : forall uw s inw cur rest,
  lex uw false inw cur (wrap_quotes (esc s) ++ rest) = lex uw false true (cur ++ fl true s) rest.
Proof. exact wrap_ok. Qed.
Print Assumptions C01_wrap_quotes_sound.

(* a joined argument list is split by sh into exactly the arguments *)
Theorem C01_join_words : forall uw args, sh_words uw (join uw args) = Some args.
Proof. exact join_words. Qed.
Print Assumptions C01_join_words.
