(* C01 - Make backend: every argument reaches the spawned process unchanged.
   Only statements; proofs live in theories/. *)
From BFG Require Import Base.Chars Shell.PosixQuote Shell.Sh Shell.PosixQuoteProofs.

(* one quoted argument is read back by sh as exactly that argument, for every string and every
   classification of non-ASCII code points *)
Theorem C01_quote_word : forall uw s, sh_words uw (quote uw s) = Some [s].
Proof. exact quote_word. Qed.
Print Assumptions C01_quote_word.

(* the de-duplication of quotes in wrap_quotes never changes the denoted word, in any context *)
Theorem C01_wrap_quotes_sound : forall uw s inw cur rest,
  lex uw false inw cur (wrap_quotes (esc s) ++ rest) = lex uw false true (cur ++ fl true s) rest.
Proof. exact wrap_ok. Qed.
Print Assumptions C01_wrap_quotes_sound.

(* a joined argument list is split by sh into exactly the arguments *)
Theorem C01_join_words : forall uw args, sh_words uw (join uw args) = Some args.
Proof. exact join_words. Qed.
Print Assumptions C01_join_words.

(* ---- Make layer ---- *)
From Coq Require Import String.
From BFG Require Import Make.MakeWrite Make.MakeRead Make.MakeProofs.

(* the $ -> $$ escaping is undone by Make's expansion, whatever the variable table *)
Theorem C01_make_dollar_roundtrip : forall v s, expand v (dollar_esc s) = Some s.
Proof. exact expand_dollar_esc_id. Qed.
Print Assumptions C01_make_dollar_roundtrip.

(* channel R: a recipe line written for a list of argument words is handed by Make to sh as a text that sh
   splits into exactly those words, provided the (quoted) command word does not start with a recipe prefix
   character @ - + *)
Theorem C01_recipe : forall uw us v ws line,
  write_recipe_line uw us (words_items ws) = Some line ->
  head_ok uw ws = true ->
  match recipe_shell_text v line with Some t => sh_words uw t | None => None end = Some ws.
Proof. exact recipe_roundtrip. Qed.
Print Assumptions C01_recipe.

(* channel V: NAME := words (as written now, with # escaped) gives the variable the sh text of the words,
   hence a reference to it in a recipe delivers exactly the words *)
Theorem C01_var_assign : forall uw us v ws text,
  write_value uw us (words_items ws) SynShell = Some text ->
  match assign_value v text with Some t => sh_words uw t | None => None end = Some ws.
Proof. exact assign_words. Qed.
Print Assumptions C01_var_assign.

(* Make's comment rule undoes the # escaping for every string and every pending backslash run *)
Theorem C01_hash_escape_roundtrip : forall s, strip_comment 0 (bs_esc hash_special 0 s) = s.
Proof. intros s. exact (strip_comment_hash_esc s 0). Qed.
Print Assumptions C01_hash_escape_roundtrip.

(* the writer before the repair (no # escaping) truncated flags: documented refutation *)
Theorem C01_var_assign_unfixed_refuted : exists ws text,
  write_value_unfixed (fun _ => false) (fun _ => false) (words_items ws) SynShell = Some text /\
  match assign_value (fun _ => []) text with Some t => sh_words (fun _ => false) t | None => None end <> Some ws.
Proof. exists [STR "-DFOO=a#b"], (STR "'-DFOO=a#b'"). split; [reflexivity|]. vm_compute. discriminate. Qed.
Print Assumptions C01_var_assign_unfixed_refuted.

(* non-vacuity: a concrete word list with quotes, $, #, blanks, ~ and % meets the guards and round-trips *)
Example C01_recipe_nonvacuous :
  let ws := [STR "cc"; STR "-DFOO=a#b"; STR "it's"; STR "$HOME"; STR "a b"; STR "~x"; STR "%k"; STR "i,j"] in
  exists line, write_recipe_line (fun _ => false) (fun _ => false) (words_items ws) = Some line /\
    head_ok (fun _ => false) ws = true /\
    match recipe_shell_text (fun _ => []) line with Some t => sh_words (fun _ => false) t | None => None end = Some ws.
Proof. eexists. split; [vm_compute; reflexivity|]. split; vm_compute; reflexivity. Qed.

(* channel P: a path is written as <root variable reference><suffix> inside ONE pair of quotes (the reference
   is a literal bit, so the unit is always quoted); after Make substituted the root's value the text sh sees
   is path_text, and sh reads it back as root value ++ suffix for every suffix, provided the root value is
   non-empty and contains no single quote *)
Theorem C01_path_unit : forall uw rootval sfx,
  no_sq rootval = true -> rootval <> [] ->
  sh_words uw (path_text rootval sfx) = Some [rootval ++ sfx].
Proof. exact path_unit_words. Qed.
Print Assumptions C01_path_unit.
