(* C02 - Ninja backend: every argument reaches the spawned process unchanged.
   The Ninja reader (Ninja/NinjaRead.v) is a trusted model: no ninja binary exists in the sandbox. *)
From BFG Require Import Base.Chars Shell.PosixQuote Shell.Sh Make.MakeWrite Make.MakeRead
  Ninja.NinjaWrite Ninja.NinjaRead Ninja.NinjaProofs.

(* value mode: the text written for a list of argument words evaluates to their sh-joined form *)
Theorem C02_value_roundtrip : forall uw env ws text,
  nwrite_each uw (nwords_items ws) NShell = Some text ->
  option_map (neval env) (lex_value text) = Some (join uw ws).
Proof. exact value_roundtrip. Qed.
Print Assumptions C02_value_roundtrip.

(* path mode: an escaped file name is lexed back to exactly that name (no newline, no |) *)
Theorem C02_path_roundtrip : forall env s rest,
  forallb path_char_ok s = true ->
  (rest = [] \/ exists c r, rest = c :: r /\ (N.eqb c c_sp || N.eqb c c_colon || N.eqb c c_pipe || N.eqb c c_nl = true)) ->
  match lex_path (nj_path_esc s ++ rest) with
  | Some (ts, rest') => Some (neval env ts, rest')
  | None => None
  end = Some (s, rest).
Proof. exact path_roundtrip. Qed.
Print Assumptions C02_path_roundtrip.

(* channel B: rule command = ${cmd}, edge binding cmd = words: sh receives exactly the words *)
Theorem C02_cmd : forall uw file ins outs ws text ts,
  nwrite_each uw (nwords_items ws) NShell = Some text ->
  lex_value text = Some ts ->
  sh_words uw (rule_command file (eval_edge_bindings file [] [(s_cmd, ts)]) ins outs [TV s_cmd]) = Some ws.
Proof. exact command_rule_roundtrip. Qed.
Print Assumptions C02_cmd.

Example C02_nonvacuous :
  let ws := ([[99; 99]; [45; 68; 70; 61; 97; 35; 98]; [105; 116; 39; 115]; [36; 72]; [97; 32; 98]]%N : list str) in
  exists text ts, nwrite_each (fun _ => false) (nwords_items ws) NShell = Some text /\ lex_value text = Some ts /\
    sh_words (fun _ => false) (rule_command (fun _ => []) (eval_edge_bindings (fun _ => []) [] [(s_cmd, ts)]) [] [] [TV s_cmd]) = Some ws.
Proof. eexists. eexists. split; [vm_compute; reflexivity|]. split; vm_compute; reflexivity. Qed.

(* channel IO: Ninja's own escaping of $in / $out is split by sh into exactly the paths *)
Theorem C02_in_out : forall uw paths,
  Forall (fun p => p <> []) paths -> sh_words uw (nj_in_out paths) = Some paths.
Proof. exact in_out_words. Qed.
Print Assumptions C02_in_out.
