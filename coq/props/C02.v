(* C02 - Ninja backend: every argument reaches the spawned process unchanged.
   The Ninja reader (Ninja/NinjaRead.v) is a trusted model: no ninja binary exists in the sandbox. *)
From BFG Require Import Base.Chars Shell.PosixQuote Shell.Sh Make.MakeWrite Make.MakeRead
  Ninja.NinjaWrite Ninja.NinjaRead Ninja.NinjaProofs.

(* value mode: the text written for a list of argument words evaluates to their sh-joined form *)
Theorem C02_value_roundtrip : forall uw env ws text,
  nwrite_each uw (nwords_items ws) NShell = Some text ->
  option_map (neval env) (lex_value text) = Some (join uw ws).
Proof. exact value_roundtrip. Qed.
Print Assumptions C02_value_roundtrip.

(* path mode: an escaped file name is lexed back to exactly that name (no newline, no |) *)
Theorem C02_path_roundtrip : forall env s rest,
  forallb path_char_ok s = true ->
  (rest = [] \/ exists c r, rest = c :: r /\ (N.eqb c c_sp || N.eqb c c_colon || N.eqb c c_pipe || N.eqb c c_nl = true)) ->
  match lex_path (nj_path_esc s ++ rest) with
  | Some (ts, rest') => Some (neval env ts, rest')
  | None => None
  end = Some (s, rest).
Proof. exact path_roundtrip. Qed.
Print Assumptions C02_path_roundtrip.

(* channel B: rule command = ${cmd}, edge binding cmd = words: sh receives exactly the words *)
Theorem C02_cmd : forall uw file ins outs ws text ts,
  nwrite_each uw (nwords_items ws) NShell = Some text ->
  lex_value text = Some ts ->
  sh_words uw (rule_command file (eval_edge_bindings file [] [(s_cmd, ts)]) ins outs [TV s_cmd]) = Some ws.
Proof. exact command_rule_roundtrip. Qed.
Print Assumptions C02_cmd.

Example C02_nonvacuous :
  let ws := ([[99; 99]; [45; 68; 70; 61; 97; 35; 98]; [105; 116; 39; 115]; [36; 72]; [97; 32; 98]]%N : list str) in
  exists text ts, nwrite_each (fun _ => false) (nwords_items ws) NShell = Some text /\ lex_value text = Some ts /\
    sh_words (fun _ => false) (rule_command (fun _ => []) (eval_edge_bindings (fun _ => []) [] [(s_cmd, ts)]) [] [] [TV s_cmd]) = Some ws.
Proof. eexists. eexists. split; [vm_compute; reflexivity|]. split; vm_compute; reflexivity. Qed.

(* channel IO: Ninja's own escaping of $in / $out is split by sh into exactly the paths *)
Theorem C02_in_out : forall uw paths,
  Forall (fun p => p <> []) paths -> sh_words uw (nj_in_out paths) = Some paths.
Proof. exact in_out_words. Qed.
Print Assumptions C02_in_out.

(* ---------------------------------------------------------------------------------------------------------------
   Phase 2: the manifest STRUCTURE is read by the model too (Ninja/NinjaManifest.v: parse_manifest, command_of),
   the text layout is the W model of NinjaFile.write (Ninja/NinjaFileWrite.v). *)
From BFG Require Import Graph.BackendAgree Ninja.NinjaManifest Ninja.NinjaFileWrite Ninja.NinjaManifestProofs.

(* channel B at the level of the whole build.ninja text: for the text NinjaFile.write produces for
   writer.py command_build (rule command / console_command with command = ${cmd}, edge binding cmd = words, optional
   description, pool = console and ninja_required_version), the parser succeeds and the command Ninja runs for every
   output is split by sh into exactly the command words.
   Guards: the build.bfg path has no newline; outputs / inputs are non-empty names without newline and |
   (path_ok); phony = false (the PHONY helper edge is covered by the run-time oracle only). *)
Theorem C02_manifest_cmd : forall uw bfg outs ins imp oo ws console desc text o,
  has_nl bfg = false ->
  Forall (fun p => path_ok p = true) outs -> Forall (fun p => path_ok p = true) ins ->
  Forall (fun p => path_ok p = true) imp -> Forall (fun p => path_ok p = true) oo -> In o outs ->
  nf_write uw (w_command_build bfg outs ins imp oo ws console false desc) = Some text ->
  exists m cmd, parse_manifest text = Some m /\ command_of m o = Some cmd /\ sh_words uw cmd = Some ws.
Proof. exact manifest_cmd. Qed.
Print Assumptions C02_manifest_cmd.

Example C02_manifest_cmd_nonvacuous :
  let uw := fun _ : char => false in
  let ws := ([[99; 99]; [45; 68; 70; 61; 97; 35; 98]; [105; 116; 39; 115]; [36; 72]; [97; 32; 98]]%N : list str) in
  let outs := ([[111; 32; 49]; [111; 36; 50]]%N : list str) in
  exists text m cmd,
    nf_write uw (w_command_build [98; 46; 98; 102; 103]%N outs [[105; 58; 110]%N] [] [[120]%N] ws true false (Some [100; 32; 36; 120]%N)) = Some text /\
    Forall (fun p => path_ok p = true) outs /\
    parse_manifest text = Some m /\ command_of m [111; 36; 50]%N = Some cmd /\ sh_words uw cmd = Some ws /\
    description_of m [111; 32; 49]%N = Some [100; 32; 36; 120]%N.
Proof.
  eexists. eexists. eexists. split; [vm_compute; reflexivity|]. split; [repeat constructor|].
  split; [vm_compute; reflexivity|]. split; [vm_compute; reflexivity|]. split; vm_compute; reflexivity.
Qed.

(* an edge binding always wins over a file-level variable of the same name (whatever the file scope holds, and
   whatever the rule binds under that name); in / out are the only names that precede edge bindings *)
Theorem C02_edge_shadows_file : forall f esc file file' rb e n v,
  str_eqb n s_in = false -> str_eqb n s_out = false -> lookup_val (e_binds e) n = Some v ->
  edge_lookup (S f) esc file rb e n = Some v /\ edge_lookup (S f) esc file' rb e n = Some v.
Proof. exact edge_shadows_file. Qed.
Print Assumptions C02_edge_shadows_file.

(* x = file / rule r: command = echo $x / build o: r with x = edge  -> echo edge ; build p: r -> echo file *)
Example C02_edge_shadows_file_nonvacuous :
  let text := ([120; 32; 61; 32; 102; 105; 108; 101; 10;
                114; 117; 108; 101; 32; 114; 10; 32; 32; 99; 111; 109; 109; 97; 110; 100; 32; 61; 32; 101; 99; 104; 111; 32; 36; 120; 10;
                98; 117; 105; 108; 100; 32; 111; 58; 32; 114; 10; 32; 32; 120; 32; 61; 32; 101; 100; 103; 101; 10;
                98; 117; 105; 108; 100; 32; 112; 58; 32; 114; 10]%N : str) in
  exists m, parse_manifest text = Some m /\
            command_of m [111]%N = Some [101; 99; 104; 111; 32; 101; 100; 103; 101]%N /\
            command_of m [112]%N = Some [101; 99; 104; 111; 32; 102; 105; 108; 101]%N.
Proof. eexists. split; [vm_compute; reflexivity|]. split; vm_compute; reflexivity. Qed.

(* channels G + E + IO at the level of the whole build.ninja text (the shape flags_vars / cmd_var / ninja_compile
   produce): file level  cc = ccw ; global_cflags = g ; cflags = ${global_cflags};
   rule cc with  command = ${cc} ${cflags} -c ${in} -o ${out};  edge  build obj: cc src  with
   cflags = ${global_cflags} t.  The text is parsed and the command of obj is
       <cc> <flags> -c <in> -o <out>
   where sh splits <cc> into ccw, <flags> into g ++ t in order (the rule-level ${cflags} sees the EDGE binding and
   the edge binding sees the FILE-level global_cflags), <in> into [src] and <out> into [obj].
   Guards: build.bfg path without newline, src / obj non-empty without newline and |.  (The whole line is a
   blank-separated concatenation of these pieces; splitting of the whole line is checked by the real dash.) *)
Theorem C02_scoping : forall uw bfg ccw g t src obj text,
  has_nl bfg = false -> path_ok src = true -> path_ok obj = true ->
  nf_write uw (w_compile_file bfg ccw g t src obj) = Some text ->
  exists m flags,
    parse_manifest text = Some m /\
    command_of m obj = Some (join uw ccw ++ c_sp :: flags ++ s_sp_c ++ nj_in_out [src] ++ s_sp_o ++ nj_in_out [obj]) /\
    sh_words uw (join uw ccw) = Some ccw /\ sh_words uw flags = Some (g ++ t) /\
    sh_words uw (nj_in_out [src]) = Some [src] /\ sh_words uw (nj_in_out [obj]) = Some [obj].
Proof. exact scoping. Qed.
Print Assumptions C02_scoping.

Example C02_scoping_nonvacuous :
  let uw := fun _ : char => false in
  let g := ([[45; 68; 71; 61; 49]; [45; 68; 88; 61; 97; 32; 98]]%N : list str) in
  let t := ([[45; 102; 80; 73; 67]; [45; 68; 76; 61; 36; 120]]%N : list str) in
  let src := ([105; 110; 32; 112; 117; 116; 46; 99]%N : str) in
  let obj := ([111; 32; 117; 116; 46; 111]%N : str) in
  exists text m cmd,
    nf_write uw (w_compile_file [98; 46; 98; 102; 103]%N [[99; 99]%N] g t src obj) = Some text /\
    path_ok src = true /\ path_ok obj = true /\
    parse_manifest text = Some m /\ command_of m obj = Some cmd /\
    sh_words uw cmd = Some ([[99; 99]%N] ++ (g ++ t) ++ [[45; 99]%N; src; [45; 111]%N; obj]).
Proof.
  eexists. eexists. eexists. split; [vm_compute; reflexivity|]. split; [reflexivity|]. split; [reflexivity|].
  split; [vm_compute; reflexivity|]. split; vm_compute; reflexivity.
Qed.

(* the structure parser succeeds on every text the W model of NinjaFile.write produces for well-formed contents.
   Guards (all enforced or implied by NinjaFile itself except the first three):
   - the build.bfg path has no newline;
   - file-level names are ASCII identifiers that are neither statement keywords nor reserved rule keys (wvar_ok),
     values consist of strings, shell literals and variable references ${name} (items_ok; no other literals, no Paths);
   - edge outputs / inputs / defaults are plain non-empty names without newline and | (path_ok);
   - rule names are ASCII identifiers, distinct, not phony; every edge names a declared rule or phony. *)
Theorem C02_parse_total_on_written : forall uw wf pbs dflt text,
  has_nl (wf_bfgfile wf) = false ->
  Forall wvar_ok (wf_path wf) -> Forall wvar_ok (wf_command wf) -> Forall wvar_ok (wf_flags wf) ->
  Forall wvar_ok (wf_other wf) -> rules_ok [] (wf_rules wf) ->
  wf_builds wf = map to_wbuild pbs -> Forall (pbuild_ok (map wr_name (wf_rules wf))) pbs ->
  wf_defaults wf = path_items dflt -> Forall (fun p => path_ok p = true) dflt ->
  nf_write uw wf = Some text -> exists m, parse_manifest text = Some m.
Proof. exact parse_total_on_written. Qed.
Print Assumptions C02_parse_total_on_written.

(* the guard is satisfiable on a file with every kind of statement *)
Example C02_parse_total_nonvacuous :
  let uw := fun _ : char => false in
  let x := ([120]%N : str) in let r := ([114]%N : str) in let o := ([111; 32; 49]%N : str) in
  let wf := mkWFile [98]%N (Some [49; 46; 53]%N) [(x, [[NStr [97; 32; 98]%N]])] [] [] [([121]%N, [[NLit (var_use x)]; [NStr [39]%N]])]
              [mkWRule r [[NStr [101]%N]; [NLit (var_use x)]] (Some [[NLit (var_use t_out); NStr [46; 100]%N]]) None
                       (Some [[NStr [100; 36]%N]]) true (Some [[NStr t_console]]) false]
              [to_wbuild (mkPB [o] r [[105]%N] [] [[113]%N] [(t_description, [[NStr [36; 32]%N]]); (x, [[NStr [122; 32]%N]])]);
               to_wbuild (mkPB [[97; 108; 108]%N] s_phony [o] [] [] [])]
              (path_items [o]) in
  exists text, nf_write uw wf = Some text /\
    Forall wvar_ok (wf_path wf) /\ Forall wvar_ok (wf_other wf) /\ rules_ok [] (wf_rules wf) /\
    Forall (pbuild_ok (map wr_name (wf_rules wf)))
      [mkPB [o] r [[105]%N] [] [[113]%N] [(t_description, [[NStr [36; 32]%N]]); (x, [[NStr [122; 32]%N]])]; mkPB [[97; 108; 108]%N] s_phony [o] [] [] []] /\
    exists m, parse_manifest text = Some m /\ length (m_edges m) = 2%nat.
Proof.
  eexists. split; [vm_compute; reflexivity|].
  split; [repeat constructor|]. split; [repeat constructor|].
  split.
  { cbn [rules_ok wf_rules]. split; [|repeat split; reflexivity].
    unfold wrule_ok. cbn. split; [reflexivity|]. split; [repeat constructor|].
    split; [intros v E; inversion E; repeat constructor|]. split; [discriminate|].
    split; intros v E; inversion E; repeat constructor. }
  split.
  { constructor; [|constructor; [|constructor]].
    - split; [|reflexivity]. unfold wbuild_ok. cbn. repeat split; try discriminate; repeat constructor; discriminate.
    - split; [|reflexivity]. unfold wbuild_ok. cbn. repeat split; try discriminate; repeat constructor. }
  eexists. split; vm_compute; reflexivity.
Qed.
