(* C02 - Ninja backend: every argument reaches the spawned process unchanged.
   The Ninja reader (Ninja/NinjaRead.v) is a trusted model: no ninja binary exists in the sandbox. *)
From BFG Require Import Base.Chars Shell.PosixQuote Shell.Sh Make.MakeWrite Make.MakeRead
  Ninja.NinjaWrite Ninja.NinjaRead Ninja.NinjaProofs.

(* value mode: the text written for a list of argument words evaluates to their sh-joined form *)
Theorem C02_value_roundtrip : forall uw env ws text,
  nwrite_each uw (nwords_items ws) NShell = Some text ->
  option_map (neval env) (lex_value text) = Some (join uw ws).
Proof. exact value_roundtrip. Qed.
Print Assumptions C02_value_roundtrip.

(* path mode: an escaped file name is lexed back to exactly that name (no newline, no |) *)
Theorem C02_path_roundtrip : forall env s rest,
  forallb path_char_ok s = true ->
  (rest = [] \/ exists c r, rest = c :: r /\ (N.eqb c c_sp || N.eqb c c_colon || N.eqb c c_pipe || N.eqb c c_nl = true)) ->
  match lex_path (nj_path_esc s ++ rest) with
  | Some (ts, rest') => Some (neval env ts, rest')
  | None => None
  end = Some (s, rest).
Proof. exact path_roundtrip. Qed.
Print Assumptions C02_path_roundtrip.

(* channel B: rule command = ${cmd}, edge binding cmd = words: sh receives exactly the words *)
Theorem C02_cmd : forall uw file ins outs ws text ts,
  nwrite_each uw (nwords_items ws) NShell = Some text ->
  lex_value text = Some ts ->
  sh_words uw (rule_command file (eval_edge_bindings file [] [(s_cmd, ts)]) ins outs [TV s_cmd]) = Some ws.
Proof. exact command_rule_roundtrip. Qed.
Print Assumptions C02_cmd.

Example C02_nonvacuous :
  let ws := ([[99; 99]; [45; 68; 70; 61; 97; 35; 98]; [105; 116; 39; 115]; [36; 72]; [97; 32; 98]]%N : list str) in
  exists text ts, nwrite_each (fun _ => false) (nwords_items ws) NShell = Some text /\ lex_value text = Some ts /\
    sh_words (fun _ => false) (rule_command (fun _ => []) (eval_edge_bindings (fun _ => []) [] [(s_cmd, ts)]) [] [] [TV s_cmd]) = Some ws.
Proof. eexists. eexists. split; [vm_compute; reflexivity|]. split; vm_compute; reflexivity. Qed.

(* channel IO: Ninja's own escaping of $in / $out is split by sh into exactly the paths *)
Theorem C02_in_out : forall uw paths,
  Forall (fun p => p <> []) paths -> sh_words uw (nj_in_out paths) = Some paths.
Proof. exact in_out_words. Qed.
Print Assumptions C02_in_out.

(* ---------------------------------------------------------------------------------------------------------------
   Phase 2: the manifest STRUCTURE is read by the model too (Ninja/NinjaManifest.v: parse_manifest, command_of),
   the text layout is the W model of NinjaFile.write (Ninja/NinjaFileWrite.v). *)
From BFG Require Import Graph.BackendAgree Ninja.NinjaManifest Ninja.NinjaFileWrite Ninja.NinjaManifestProofs.

(* channel B at the level of the whole build.ninja text: for the text NinjaFile.write produces for
   writer.py command_build (rule command / console_command with command = ${cmd}, edge binding cmd = words, optional
   description, pool = console and ninja_required_version), the parser succeeds and the command Ninja runs for every
   output is split by sh into exactly the command words.
   Guards: the build.bfg path has no newline; outputs / inputs are non-empty names without newline and |
   (path_ok); phony = false (the PHONY helper edge is covered by the run-time oracle only). *)
Theorem C02_manifest_cmd : forall uw bfg outs ins imp oo ws console desc text o,
  has_nl bfg = false ->
  Forall (fun p => path_ok p = true) outs -> Forall (fun p => path_ok p = true) ins ->
  Forall (fun p => path_ok p = true) imp -> Forall (fun p => path_ok p = true) oo -> In o outs ->
  nf_write uw (w_command_build bfg outs ins imp oo ws console false desc) = Some text ->
  exists m cmd, parse_manifest text = Some m /\ command_of m o = Some cmd /\ sh_words uw cmd = Some ws.
Proof. exact manifest_cmd. Qed.
Print Assumptions C02_manifest_cmd.

Example C02_manifest_cmd_nonvacuous :
  let uw := fun _ : char => false in
  let ws := ([[99; 99]; [45; 68; 70; 61; 97; 35; 98]; [105; 116; 39; 115]; [36; 72]; [97; 32; 98]]%N : list str) in
  let outs := ([[111; 32; 49]; [111; 36; 50]]%N : list str) in
  exists text m cmd,
    nf_write uw (w_command_build [98; 46; 98; 102; 103]%N outs [[105; 58; 110]%N] [] [[120]%N] ws true false (Some [100; 32; 36; 120]%N)) = Some text /\
    Forall (fun p => path_ok p = true) outs /\
    parse_manifest text = Some m /\ command_of m [111; 36; 50]%N = Some cmd /\ sh_words uw cmd = Some ws /\
    description_of m [111; 32; 49]%N = Some [100; 32; 36; 120]%N.
Proof.
  eexists. eexists. eexists. split; [vm_compute; reflexivity|]. split; [repeat constructor|].
  split; [vm_compute; reflexivity|]. split; [vm_compute; reflexivity|]. split; vm_compute; reflexivity.
Qed.

(* an edge binding always wins over a file-level variable of the same name (whatever the file scope holds, and
   whatever the rule binds under that name); in / out are the only names that precede edge bindings *)
Theorem C02_edge_shadows_file : forall f esc file file' rb e n v,
  str_eqb n s_in = false -> str_eqb n s_out = false -> lookup_val (e_binds e) n = Some v ->
  edge_lookup (S f) esc file rb e n = Some v /\ edge_lookup (S f) esc file' rb e n = Some v.
Proof. exact edge_shadows_file. Qed.
Print Assumptions C02_edge_shadows_file.

(* x = file / rule r: command = echo $x / build o: r with x = edge  -> echo edge ; build p: r -> echo file *)
Example C02_edge_shadows_file_nonvacuous :
  let text := ([120; 32; 61; 32; 102; 105; 108; 101; 10;
                114; 117; 108; 101; 32; 114; 10; 32; 32; 99; 111; 109; 109; 97; 110; 100; 32; 61; 32; 101; 99; 104; 111; 32; 36; 120; 10;
                98; 117; 105; 108; 100; 32; 111; 58; 32; 114; 10; 32; 32; 120; 32; 61; 32; 101; 100; 103; 101; 10;
                98; 117; 105; 108; 100; 32; 112; 58; 32; 114; 10]%N : str) in
  exists m, parse_manifest text = Some m /\
            command_of m [111]%N = Some [101; 99; 104; 111; 32; 101; 100; 103; 101]%N /\
            command_of m [112]%N = Some [101; 99; 104; 111; 32; 102; 105; 108; 101]%N.
Proof. eexists. split; [vm_compute; reflexivity|]. split; vm_compute; reflexivity. Qed.

(* channels G + E + IO at the level of the whole build.ninja text (the shape flags_vars / cmd_var / ninja_compile
   produce): file level  cc = ccw ; global_cflags = g ; cflags = ${global_cflags};
   rule cc with  command = ${cc} ${cflags} -c ${in} -o ${out};  edge  build obj: cc src  with
   cflags = ${global_cflags} t.  The text is parsed and the command of obj is
       <cc> <flags> -c <in> -o <out>
   where sh splits <cc> into ccw, <flags> into g ++ t in order (the rule-level ${cflags} sees the EDGE binding and
   the edge binding sees the FILE-level global_cflags), <in> into [src] and <out> into [obj].
   Guards: build.bfg path without newline, src / obj non-empty without newline and |.  (The whole line is a
   blank-separated concatenation of these pieces; splitting of the whole line is checked by the real dash.) *)
Theorem C02_scoping : forall uw bfg ccw g t src obj text,
  has_nl bfg = false -> path_ok src = true -> path_ok obj = true ->
  nf_write uw (w_compile_file bfg ccw g t src obj) = Some text ->
  exists m flags,
    parse_manifest text = Some m /\
    command_of m obj = Some (join uw ccw ++ c_sp :: flags ++ s_sp_c ++ nj_in_out [src] ++ s_sp_o ++ nj_in_out [obj]) /\
    sh_words uw (join uw ccw) = Some ccw /\ sh_words uw flags = Some (g ++ t) /\
    sh_words uw (nj_in_out [src]) = Some [src] /\ sh_words uw (nj_in_out [obj]) = Some [obj].
Proof. exact scoping. Qed.
Print Assumptions C02_scoping.

Example C02_scoping_nonvacuous :
  let uw := fun _ : char => false in
  let g := ([[45; 68; 71; 61; 49]; [45; 68; 88; 61; 97; 32; 98]]%N : list str) in
  let t := ([[45; 102; 80; 73; 67]; [45; 68; 76; 61; 36; 120]]%N : list str) in
  let src := ([105; 110; 32; 112; 117; 116; 46; 99]%N : str) in
  let obj := ([111; 32; 117; 116; 46; 111]%N : str) in
  exists text m cmd,
    nf_write uw (w_compile_file [98; 46; 98; 102; 103]%N [[99; 99]%N] g t src obj) = Some text /\
    path_ok src = true /\ path_ok obj = true /\
    parse_manifest text = Some m /\ command_of m obj = Some cmd /\
    sh_words uw cmd = Some ([[99; 99]%N] ++ (g ++ t) ++ [[45; 99]%N; src; [45; 111]%N; obj]).
Proof.
  eexists. eexists. eexists. split; [vm_compute; reflexivity|]. split; [reflexivity|]. split; [reflexivity|].
  split; [vm_compute; reflexivity|]. split; vm_compute; reflexivity.
Qed.

(* the structure parser succeeds on every text the W model of NinjaFile.write produces for well-formed contents.
   Guards (all enforced or implied by NinjaFile itself except the first three):
   - the build.bfg path has no newline;
   - file-level names are ASCII identifiers that are neither statement keywords nor reserved rule keys (wvar_ok),
     values consist of strings, shell literals and variable references ${name} (items_ok; no other literals, no Paths);
   - edge outputs / inputs / defaults are plain non-empty names without newline and | (path_ok);
   - rule names are ASCII identifiers, distinct, not phony; every edge names a declared rule or phony. *)
Theorem C02_parse_total_on_written : forall uw wf pbs dflt text,
  has_nl (wf_bfgfile wf) = false ->
  Forall wvar_ok (wf_path wf) -> Forall wvar_ok (wf_command wf) -> Forall wvar_ok (wf_flags wf) ->
  Forall wvar_ok (wf_other wf) -> rules_ok [] (wf_rules wf) ->
  wf_builds wf = map to_wbuild pbs -> Forall (pbuild_ok (map wr_name (wf_rules wf))) pbs ->
  wf_defaults wf = path_items dflt -> Forall (fun p => path_ok p = true) dflt ->
  nf_write uw wf = Some text -> exists m, parse_manifest text = Some m.
Proof. exact parse_total_on_written. Qed.
Print Assumptions C02_parse_total_on_written.

(* the guard is satisfiable on a file with every kind of statement *)
Example C02_parse_total_nonvacuous :
  let uw := fun _ : char => false in
  let x := ([120]%N : str) in let r := ([114]%N : str) in let o := ([111; 32; 49]%N : str) in
  let wf := mkWFile [98]%N (Some [49; 46; 53]%N) [(x, [[NStr [97; 32; 98]%N]])] [] [] [([121]%N, [[NLit (var_use x)]; [NStr [39]%N]])]
              [mkWRule r [[NStr [101]%N]; [NLit (var_use x)]] (Some [[NLit (var_use t_out); NStr [46; 100]%N]]) None
                       (Some [[NStr [100; 36]%N]]) true (Some [[NStr t_console]]) false]
              [to_wbuild (mkPB [o] r [[105]%N] [] [[113]%N] [(t_description, [[NStr [36; 32]%N]]); (x, [[NStr [122; 32]%N]])]);
               to_wbuild (mkPB [[97; 108; 108]%N] s_phony [o] [] [] [])]
              (path_items [o]) in
  exists text, nf_write uw wf = Some text /\
    Forall wvar_ok (wf_path wf) /\ Forall wvar_ok (wf_other wf) /\ rules_ok [] (wf_rules wf) /\
    Forall (pbuild_ok (map wr_name (wf_rules wf)))
      [mkPB [o] r [[105]%N] [] [[113]%N] [(t_description, [[NStr [36; 32]%N]]); (x, [[NStr [122; 32]%N]])]; mkPB [[97; 108; 108]%N] s_phony [o] [] [] []] /\
    exists m, parse_manifest text = Some m /\ length (m_edges m) = 2%nat.
Proof.
  eexists. split; [vm_compute; reflexivity|].
  split; [repeat constructor|]. split; [repeat constructor|].
  split.
  { cbn [rules_ok wf_rules]. split; [|repeat split; reflexivity].
    unfold wrule_ok. cbn. split; [reflexivity|]. split; [repeat constructor|].
    split; [intros v E; inversion E; repeat constructor|]. split; [discriminate|].
    split; intros v E; inversion E; repeat constructor. }
  split.
  { constructor; [|constructor; [|constructor]].
    - split; [|reflexivity]. unfold wbuild_ok. cbn. repeat split; try discriminate; repeat constructor; discriminate.
    - split; [|reflexivity]. unfold wbuild_ok. cbn. repeat split; try discriminate; repeat constructor. }
  eexists. split; vm_compute; reflexivity.
Qed.

(* ---------------------------------------------------------------------------------------------------------------
   The ENVIRONMENT channel (builtins/command.py ninja_command: cmd = shell.global_env(rule.env, rule.cmds);
   builtins/tests.py: local_env per test).  W side: global_env / local_env / join_lines of shell/posix.py
   (Shell/PosixEnv.v) and Writer.write_shell of backends/ninja/syntax.py on the flat item list (every str bit quoted,
   every bit dollar-escaped, a blank between the items: nwrite_each on item_nfrags, Ninja/NinjaEnv.v).  R side: the
   Ninja lexer in value mode, evaluation of the generic rule  command = ${cmd}  with the edge binding cmd, then
   sh_run = the sh model with assignment words, export, tilde expansion and the environment carried along an && list
   (Shell/Sh.v, validated against the real dash).  *)
From BFG Require Import Shell.PosixEnv Shell.PosixEnvProofs Ninja.NinjaEnv Ninja.NinjaEnvProofs.
From Coq Require Import String.

(* every list of items (words, NAME=value words, shell literals such as && or a whole string-form command line):
   the written binding is always lexed by Ninja, and sh runs on the command of the edge exactly as on the sh text
   of the items: the dollar doubling is undone for every text, whatever the file scope, in and out hold *)
Theorem C02_items_through_ninja : forall uw env0 file ins outs items text,
  nwrite_each uw (map item_nfrags items) NShell = Some text ->
  exists ts, lex_value text = Some ts /\
    sh_run uw env0 (rule_command file (eval_edge_bindings file [] [(s_cmd, ts)]) ins outs [TV s_cmd]) =
    sh_run uw env0 (sh_text uw items).
Proof. exact items_ninja. Qed.
Print Assumptions C02_items_through_ninja.

(* a step (command / build_step): for every environment whose names are identifiers (other than OPTIND) and ALL values,
   every initial environment env0 and every non-empty list of command lines whose command words do not read as an
   assignment and are not shell builtins (cmds_ok, the guard of C01_env_global): if the Ninja writer writes the items of
   global_env as text, Ninja lexes the text, and the command it hands to sh starts exactly the processes cmds, in order,
   each with exactly its words and each in the environment env0 overridden by env (the last declaration of a name
   wins), and the whole list runs *)
Theorem C02_env_through_ninja : forall uw env0 file ins outs env cmds text,
  forallb name_ok (map fst env) = true -> cmds_ok uw cmds = true ->
  nwrite_each uw (map item_nfrags (global_env env (map words_line cmds))) NShell = Some text ->
  exists ts penv,
    lex_value text = Some ts /\
    sh_run uw env0 (rule_command file (eval_edge_bindings file [] [(s_cmd, ts)]) ins outs [TV s_cmd]) =
      Some (mkprocs penv cmds, true) /\
    forall n, env_get penv n = match assoc_last env n with Some x => Some x | None => assoc_last env0 n end.
Proof. exact env_global_ninja. Qed.
Print Assumptions C02_env_through_ninja.

(* a test: the same for  NAME=value ... cmd words  (local_env) *)
Theorem C02_env_local_through_ninja : forall uw env0 file ins outs env cmd text,
  forallb name_ok (map fst env) = true -> cmd_ok uw cmd = true ->
  nwrite_each uw (map item_nfrags (local_env env (words_line cmd))) NShell = Some text ->
  exists ts penv,
    lex_value text = Some ts /\
    sh_run uw env0 (rule_command file (eval_edge_bindings file [] [(s_cmd, ts)]) ins outs [TV s_cmd]) =
      Some (mkprocs penv [cmd], true) /\
    forall n, env_get penv n = match assoc_last env n with Some x => Some x | None => assoc_last env0 n end.
Proof. exact env_local_ninja. Qed.
Print Assumptions C02_env_local_through_ninja.

Definition c02_nu : char -> bool := fun _ => false.
Definition c02_env0 : list (str * str) := [(STR "HOME", STR "/h"); (STR "PATH", STR "/bin")].
Definition c02_env : list (str * str) :=
  [(STR "VAR", STR "~/x:~"); (STR "A_1", STR "it's a=b:~ $HOME $$ ${cmd} ''"); (STR "x", []); (STR "P", STR "a:~/b");
   (STR "VAR", STR "=~ ""q"" $")].
Definition c02_cmds : list (list str) := [[STR "cc"; STR "~"; STR "a b"; STR "X=~"; STR "$out"]; [STR "ld"; STR "~/y"; []]].
(* a file scope in which every name is bound: none of it may leak into the command *)
Definition c02_file : nenv := fun _ => STR "FILE".

(* non-vacuity: values with dollars (single, doubled, a variable reference), tildes, colons, equals signs, single and
   double quotes, blanks, an empty value, a name declared twice; the guards hold, the text is written and lexed, and the
   run is computed *)
Example C02_env_through_ninja_nonvacuous :
  forallb name_ok (map fst c02_env) = true /\ cmds_ok c02_nu c02_cmds = true /\
  exists text ts,
    nwrite_each c02_nu (map item_nfrags (global_env c02_env (map words_line c02_cmds))) NShell = Some text /\
    lex_value text = Some ts /\
    match sh_run c02_nu c02_env0
            (rule_command c02_file (eval_edge_bindings c02_file [] [(s_cmd, ts)]) (STR "IN") (STR "OUT") [TV s_cmd]) with
    | Some ([p1; p2], true) =>
      p_argv p1 = [STR "cc"; STR "~"; STR "a b"; STR "X=~"; STR "$out"] /\ p_argv p2 = [STR "ld"; STR "~/y"; []] /\
      p_env p1 = p_env p2 /\
      env_get (p_env p1) (STR "VAR") = Some (STR "=~ ""q"" $") /\
      env_get (p_env p1) (STR "A_1") = Some (STR "it's a=b:~ $HOME $$ ${cmd} ''") /\
      env_get (p_env p1) (STR "x") = Some [] /\ env_get (p_env p1) (STR "P") = Some (STR "a:~/b") /\
      env_get (p_env p1) (STR "HOME") = Some (STR "/h") /\ env_get (p_env p1) (STR "Q") = None
    | _ => False
    end.
Proof.
  split; [reflexivity|]. split; [reflexivity|]. eexists. eexists. split; [vm_compute; reflexivity|].
  split; [vm_compute; reflexivity|]. vm_compute. repeat split.
Qed.

Example C02_env_local_through_ninja_nonvacuous :
  cmd_ok c02_nu (hd [] c02_cmds) = true /\
  exists text ts,
    nwrite_each c02_nu (map item_nfrags (local_env c02_env (words_line (hd [] c02_cmds)))) NShell = Some text /\
    lex_value text = Some ts /\
    match sh_run c02_nu c02_env0
            (rule_command c02_file (eval_edge_bindings c02_file [] [(s_cmd, ts)]) (STR "IN") (STR "OUT") [TV s_cmd]) with
    | Some ([p1], true) =>
      p_argv p1 = [STR "cc"; STR "~"; STR "a b"; STR "X=~"; STR "$out"] /\
      env_get (p_env p1) (STR "VAR") = Some (STR "=~ ""q"" $") /\
      env_get (p_env p1) (STR "A_1") = Some (STR "it's a=b:~ $HOME $$ ${cmd} ''") /\
      env_get (p_env p1) (STR "P") = Some (STR "a:~/b") /\ env_get (p_env p1) (STR "HOME") = Some (STR "/h")
    | _ => False
    end.
Proof.
  split; [reflexivity|]. eexists. eexists. split; [vm_compute; reflexivity|].
  split; [vm_compute; reflexivity|]. vm_compute. repeat split.
Qed.

(* the R side is not blind: the same kind of words written WITHOUT the dollar doubling are evaluated by Ninja (the
   reference to the file-level variable is replaced), and written without quotes sh expands the tilde *)
Example C02_env_model_not_blind :
  match lex_value (STR "export P=a:~/b && VAR=${x} cc $y.c") with
  | Some ts =>
    match sh_run c02_nu c02_env0
            (rule_command c02_file (eval_edge_bindings c02_file [] [(s_cmd, ts)]) (STR "IN") (STR "OUT") [TV s_cmd]) with
    | Some ([p1], true) =>
      p_argv p1 = [STR "cc"; STR "FILE.c"] /\ env_get (p_env p1) (STR "P") = Some (STR "a:/h/b") /\
      env_get (p_env p1) (STR "VAR") = Some (STR "FILE")
    | _ => False
    end
  | None => False
  end.
Proof. vm_compute. repeat split. Qed.

(* string-form command lines: for EVERY non-empty list of lines - word lists and raw strings (one shell_literal item each,
   which may start any number of processes), in any mixture - the command Ninja hands to sh for the binding written from
   global_env runs exactly as the lines alone (join_lines: the lines as they are, && between them) run in a shell whose
   variables are those of env0 with every name of env set to its value and marked exported BEFORE the first line starts:
   so every process of every line inherits env (sh_run_in = sh_run from the given shell state, Ninja/NinjaEnv.v).
   No guard on the lines: where the sh model does not cover a line both sides are None. *)
Theorem C02_env_lines_through_ninja : forall uw env0 file ins outs env ls text,
  forallb name_ok (map fst env) = true -> ls <> [] ->
  nwrite_each uw (map item_nfrags (global_env env ls)) NShell = Some text ->
  exists ts, lex_value text = Some ts /\
    sh_run uw env0 (rule_command file (eval_edge_bindings file [] [(s_cmd, ts)]) ins outs [TV s_cmd]) =
    sh_run_in uw (declare env (sv_init env0)) (sh_text uw (join_lines ls)).
Proof. exact env_lines_ninja. Qed.
Print Assumptions C02_env_lines_through_ninja.

Example C02_env_lines_through_ninja_nonvacuous :
  let ls := [words_line [STR "cc"; STR "a b"]; LRaw (STR "first '$x' && second ~"); words_line [STR "ld"; STR "$y"]] in
  exists text ts,
    nwrite_each c02_nu (map item_nfrags (global_env c02_env ls)) NShell = Some text /\ lex_value text = Some ts /\
    match sh_run_in c02_nu (declare c02_env (sv_init c02_env0)) (sh_text c02_nu (join_lines ls)),
          sh_run c02_nu c02_env0
            (rule_command c02_file (eval_edge_bindings c02_file [] [(s_cmd, ts)]) (STR "IN") (STR "OUT") [TV s_cmd]) with
    | Some ([p1; p2; p3; p4], true), Some (l, true) =>
      l = [p1; p2; p3; p4] /\
      p_argv p1 = [STR "cc"; STR "a b"] /\ p_argv p2 = [STR "first"; STR "$x"] /\ p_argv p3 = [STR "second"; STR "/h"] /\
      p_argv p4 = [STR "ld"; STR "$y"] /\
      Forall (fun p => env_get (p_env p) (STR "VAR") = Some (STR "=~ ""q"" $") /\ env_get (p_env p) (STR "x") = Some []) l
    | _, _ => False
    end.
Proof.
  eexists. eexists. split; [vm_compute; reflexivity|]. split; [vm_compute; reflexivity|]. vm_compute.
  repeat split. repeat constructor.
Qed.

(* WHY a step must use global_env: a command line given in string form is ONE item (a shell_literal, LRaw) that may
   start several processes.  Written with local_env ( VAR=value first x && second 'y z' ) only the FIRST process receives
   the variable; written with global_env ( export VAR=value && first x && second 'y z' ) both do.  (The seeded change
   seed-C02-4 switched ninja_command to local_env for a lone command line.) *)
Theorem C02_env_local_shell_line_refuted : exists env line,
  forallb name_ok (map fst env) = true /\
  (exists text ts,
    nwrite_each c02_nu (map item_nfrags (local_env env (LRaw line))) NShell = Some text /\
    lex_value text = Some ts /\
    match sh_run c02_nu c02_env0
            (rule_command c02_file (eval_edge_bindings c02_file [] [(s_cmd, ts)]) (STR "IN") (STR "OUT") [TV s_cmd]) with
    | Some ([p1; p2], true) =>
      p_argv p1 = [STR "first"; STR "x"] /\ p_argv p2 = [STR "second"; STR "y z"] /\
      env_get (p_env p1) (STR "VAR") = Some (STR "a b$:~") /\ env_get (p_env p2) (STR "VAR") = None
    | _ => False
    end) /\
  (exists text ts,
    nwrite_each c02_nu (map item_nfrags (global_env env [LRaw line])) NShell = Some text /\
    lex_value text = Some ts /\
    match sh_run c02_nu c02_env0
            (rule_command c02_file (eval_edge_bindings c02_file [] [(s_cmd, ts)]) (STR "IN") (STR "OUT") [TV s_cmd]) with
    | Some ([p1; p2], true) =>
      p_argv p1 = [STR "first"; STR "x"] /\ p_argv p2 = [STR "second"; STR "y z"] /\
      env_get (p_env p1) (STR "VAR") = Some (STR "a b$:~") /\ env_get (p_env p2) (STR "VAR") = Some (STR "a b$:~")
    | _ => False
    end).
Proof.
  exists [(STR "VAR", STR "a b$:~")], (STR "first x && second 'y z'"). split; [reflexivity|]. split.
  - eexists. eexists. split; [vm_compute; reflexivity|]. split; [vm_compute; reflexivity|]. vm_compute. repeat split.
  - eexists. eexists. split; [vm_compute; reflexivity|]. split; [vm_compute; reflexivity|]. vm_compute. repeat split.
Qed.
Print Assumptions C02_env_local_shell_line_refuted.

From BFG Require Import Path.PathAlg Path.PathAlgProofs Path.PathAlgMk Path.PathAlgRt Path.PathAlgWf Path.PathAlgOps Path.SymlinkGlue.
From Coq Require Import List. Import ListNotations.

(* ---- the link target of a symbolic-link copy (tools/copy_file.py Symlink.transform_input, Path/SymlinkGlue.v) ----
   What `ln -sf` is handed for a generated file linked elsewhere in the build tree is the input's path relative to the
   directory OF THE LINK; read from that directory it names the input again, for all directory names (data -> data2,
   lib -> lib64 included).  The guard is the one of C12_relpath_append (finding C12-relpath-drive-like). *)
Theorem C02_symlink_target_resolves : forall input output,
  wfp input -> wfp output -> p_root input = p_root output -> root_eqb (p_root input) Absolute = false ->
  p_destdir input = p_destdir output ->
  is_nil (suffix_str output) = false -> nodrive [last (p_comps output) []] ->
  (common_len (removelast (p_comps output)) (p_comps input) = length (removelast (p_comps output)) ->
   nodrive (skipn (common_len (removelast (p_comps output)) (p_comps input)) (p_comps input))) ->
  exists d s r, parent output = Some d /\ symlink_target Posix input output = Some s /\
                append d s = Some r /\ path_eqb r input = true.
Proof. exact symlink_target_resolves. Qed.
Print Assumptions C02_symlink_target_resolves.

(* non-vacuity, on the near-prefix pair: data2/two.txt linked as data/two.txt gets the target ../data2/two.txt *)
Example C02_symlink_target_ex : exists i o,
  mk (STR "data2/two.txt") (RRoot Builddir) None None = Some i /\
  mk (STR "data/two.txt") (RRoot Builddir) None None = Some o /\
  symlink_target Posix i o = Some (STR "../data2/two.txt").
Proof. do 2 eexists. vm_compute. repeat split. Qed.

(* ---- the install directories as file-level variables (builtins/install.py _add_install_paths): written in the order
   of InstallRoot, with every relative directory below an EARLIER root, the value Ninja has for each root (file-level
   bindings are evaluated where they are defined) is the directory the configuration denotes *)
From BFG Require Import Ninja.InstallDirs Ninja.InstallDirsProofs.

Theorem C02_install_order_denotes : forall l,
  backward (cfg_of l) -> ninja_dirs (seq 0 (length l)) l = denoted_dirs l.
Proof. exact install_order_denotes. Qed.
Print Assumptions C02_install_order_denotes.

(* written in another order (libdir = exec_prefix/lib64 before prefix and exec_prefix) libdir loses its prefix *)
Theorem C02_install_other_order_refuted :
  backward (cfg_of ex_cfg) /\ ninja_dirs [3; 0; 1; 2] ex_cfg <> denoted_dirs ex_cfg.
Proof. exact install_other_order_refuted. Qed.
Print Assumptions C02_install_other_order_refuted.

(* non-vacuity: /usr, exec_prefix = prefix, bindir = exec_prefix/bin, libdir = exec_prefix/lib64 *)
Example C02_install_order_ex :
  ninja_dirs [0; 1; 2; 3] ex_cfg = [STR "/usr"; STR "/usr"; STR "/usr/bin"; STR "/usr/lib64"] /\
  ninja_dirs [3; 0; 1; 2] ex_cfg = [STR "/usr"; STR "/usr"; STR "/usr/bin"; STR "/lib64"].
Proof. split; vm_compute; reflexivity. Qed.
