(* C02 - Ninja backend: every argument reaches the spawned process unchanged.
   The Ninja reader (Ninja/NinjaRead.v) is a trusted model: no ninja binary exists in the sandbox. *)
From BFG Require Import Base.Chars Shell.PosixQuote Shell.Sh Make.MakeWrite Make.MakeRead
  Ninja.NinjaWrite Ninja.NinjaRead Ninja.NinjaProofs.

(* value mode: the text written for a list of argument words evaluates to their sh-joined form *)
Theorem C02_value_roundtrip : forall uw env ws text,
  nwrite_each uw (nwords_items ws) NShell = Some text ->
  option_map (neval env) (lex_value text) = Some (join uw ws).
Proof. exact value_roundtrip. Qed.
Print Assumptions C02_value_roundtrip.

(* path mode: an escaped file name is lexed back to exactly that name (no newline, no |) *)
Theorem C02_path_roundtrip : forall env s rest,
  forallb path_char_ok s = true ->
  (rest = [] \/ exists c r, rest = c :: r /\ (N.eqb c c_sp || N.eqb c c_colon || N.eqb c c_pipe || N.eqb c c_nl = true)) ->
  match lex_path (nj_path_esc s ++ rest) with
  | Some (ts, rest') => Some (neval env ts, rest')
  | None => None
  end = Some (s, rest).
Proof. exact path_roundtrip. Qed.
Print Assumptions C02_path_roundtrip.

(* channel B: rule command = ${cmd}, edge binding cmd = words: sh receives exactly the words *)
Theorem C02_cmd : forall uw file ins outs ws text ts,
  nwrite_each uw (nwords_items ws) NShell = Some text ->
  lex_value text = Some ts ->
  sh_words uw (rule_command file (eval_edge_bindings file [] [(s_cmd, ts)]) ins outs [TV s_cmd]) = Some ws.
Proof. exact command_rule_roundtrip. Qed.
Print Assumptions C02_cmd.

Example C02_nonvacuous :
  let ws := ([[99; 99]; [45; 68; 70; 61; 97; 35; 98]; [105; 116; 39; 115]; [36; 72]; [97; 32; 98]]%N : list str) in
  exists text ts, nwrite_each (fun _ => false) (nwords_items ws) NShell = Some text /\ lex_value text = Some ts /\
    sh_words (fun _ => false) (rule_command (fun _ => []) (eval_edge_bindings (fun _ => []) [] [(s_cmd, ts)]) [] [] [TV s_cmd]) = Some ws.
Proof. eexists. eexists. split; [vm_compute; reflexivity|]. split; vm_compute; reflexivity. Qed.

(* channel IO: Ninja's own escaping of $in / $out is split by sh into exactly the paths *)
Theorem C02_in_out : forall uw paths,
  Forall (fun p => p <> []) paths -> sh_words uw (nj_in_out paths) = Some paths.
Proof. exact in_out_words. Qed.
Print Assumptions C02_in_out.

(* ---------------------------------------------------------------------------------------------------------------
   Phase 2: the manifest STRUCTURE is read by the model too (Ninja/NinjaManifest.v: parse_manifest, command_of),
   the text layout is the W model of NinjaFile.write (Ninja/NinjaFileWrite.v). *)
From BFG Require Import Graph.BackendAgree Ninja.NinjaManifest Ninja.NinjaFileWrite Ninja.NinjaManifestProofs.

(* channel B at the level of the whole build.ninja text: for the text NinjaFile.write produces for
   writer.py command_build (rule command / console_command with command = ${cmd}, edge binding cmd = words, optional
   description, pool = console and ninja_required_version), the parser succeeds and the command Ninja runs for every
   output is split by sh into exactly the command words.
   Guards: the build.bfg path has no newline; outputs / inputs are non-empty names without newline and |
   (path_ok); phony = false (the PHONY helper edge is covered by the run-time oracle only). *)
Theorem C02_manifest_cmd : forall uw bfg outs ins imp oo ws console desc text o,
  has_nl bfg = false ->
  Forall (fun p => path_ok p = true) outs -> Forall (fun p => path_ok p = true) ins ->
  Forall (fun p => path_ok p = true) imp -> Forall (fun p => path_ok p = true) oo -> In o outs ->
  nf_write uw (w_command_build bfg outs ins imp oo ws console false desc) = Some text ->
  exists m cmd, parse_manifest text = Some m /\ command_of m o = Some cmd /\ sh_words uw cmd = Some ws.
Proof. exact manifest_cmd. Qed.
Print Assumptions C02_manifest_cmd.

Example C02_manifest_cmd_nonvacuous :
  let uw := fun _ : char => false in
  let ws := ([[99; 99]; [45; 68; 70; 61; 97; 35; 98]; [105; 116; 39; 115]; [36; 72]; [97; 32; 98]]%N : list str) in
  let outs := ([[111; 32; 49]; [111; 36; 50]]%N : list str) in
  exists text m cmd,
    nf_write uw (w_command_build [98; 46; 98; 102; 103]%N outs [[105; 58; 110]%N] [] [[120]%N] ws true false (Some [100; 32; 36; 120]%N)) = Some text /\
    Forall (fun p => path_ok p = true) outs /\
    parse_manifest text = Some m /\ command_of m [111; 36; 50]%N = Some cmd /\ sh_words uw cmd = Some ws /\
    description_of m [111; 32; 49]%N = Some [100; 32; 36; 120]%N.
Proof.
  eexists. eexists. eexists. split; [vm_compute; reflexivity|]. split; [repeat constructor|].
  split; [vm_compute; reflexivity|]. split; [vm_compute; reflexivity|]. split; vm_compute; reflexivity.
Qed.

(* an edge binding always wins over a file-level variable of the same name (whatever the file scope holds, and
   whatever the rule binds under that name); in / out are the only names that precede edge bindings *)
Theorem C02_edge_shadows_file : forall f esc file file' rb e n v,
  str_eqb n s_in = false -> str_eqb n s_out = false -> lookup_val (e_binds e) n = Some v ->
  edge_lookup (S f) esc file rb e n = Some v /\ edge_lookup (S f) esc file' rb e n = Some v.
Proof. exact edge_shadows_file. Qed.
Print Assumptions C02_edge_shadows_file.

(* x = file / rule r: command = echo $x / build o: r with x = edge  -> echo edge ; build p: r -> echo file *)
Example C02_edge_shadows_file_nonvacuous :
  let text := ([120; 32; 61; 32; 102; 105; 108; 101; 10;
                114; 117; 108; 101; 32; 114; 10; 32; 32; 99; 111; 109; 109; 97; 110; 100; 32; 61; 32; 101; 99; 104; 111; 32; 36; 120; 10;
                98; 117; 105; 108; 100; 32; 111; 58; 32; 114; 10; 32; 32; 120; 32; 61; 32; 101; 100; 103; 101; 10;
                98; 117; 105; 108; 100; 32; 112; 58; 32; 114; 10]%N : str) in
  exists m, parse_manifest text = Some m /\
            command_of m [111]%N = Some [101; 99; 104; 111; 32; 101; 100; 103; 101]%N /\
            command_of m [112]%N = Some [101; 99; 104; 111; 32; 102; 105; 108; 101]%N.
Proof. eexists. split; [vm_compute; reflexivity|]. split; vm_compute; reflexivity. Qed.
