(* C03 - Generated dependency graph equals the graph the build script describes. *)
From BFG Require Import Base.Chars Graph.Defaults Graph.DefaultsProofs Make.MakeSem Graph.Steps Graph.Emit
  Graph.EmitProofs Graph.EmitSem Graph.StampSem Graph.EmitStamp Graph.EmitStampProofs.
Local Open Scope N_scope.

(* the default target depends on the explicitly declared outputs if any, otherwise on every registered
   (linked) output not handed to test(); for every history in which an output is registered once per list
   and not registered again after its removal *)
Theorem C03_default_set : forall ops,
  NoDup (added true ops) -> NoDup (added false ops) -> wf_rm ops ->
  d_outputs (run_dops ops) =
    match minus (added true ops) (removed true ops) with
    | [] => minus (added false ops) (removed false ops)
    | e => e
    end.
Proof. exact default_set. Qed.
Print Assumptions C03_default_set.

(* DefaultOutputs.remove pops while enumerating: on a duplicate-free list it removes exactly the output *)
Theorem C03_remove_exact : forall x l, NoDup l -> remove_item l x = filter (fun v => negb (N.eqb v x)) l.
Proof. exact remove_item_nodup. Qed.
Print Assumptions C03_remove_exact.

(* ... and is wrong next to a duplicate (observation; the builtins never register one output twice) *)
Example C03_remove_skips_neighbour : remove_item [7; 7; 3]%N 7%N = [7; 3]%N.
Proof. reflexivity. Qed.

Example C03_default_nonvacuous :
  let ops := [DAdd [(1, true)] false; DAdd [(2, true); (3, false)] false; DAdd [(4, true)] false; DRemove 2 false]%N in
  NoDup (added true ops) /\ NoDup (added false ops) /\ wf_rm ops /\ d_outputs (run_dops ops) = [1; 4]%N.
Proof. cbn. repeat split; try constructor; cbn; intuition; try discriminate; repeat constructor; cbn; intuition discriminate. Qed.

(* ====================================================================== the emitter model (phase 2)
   Graph/Steps.v: abstract scripts; Graph/Emit.v: the Rule / Build tuples the Make and Ninja rule handlers register,
   as written; tied to the real handlers by harness/c03.py stage W:emit (real Edge objects through the real builtins,
   Makefile._rules / NinjaFile._builds compared tuple by tuple). *)

(* Make: for every step of a shape the builtins create and each of its outputs, the prerequisites of the rule that
   carries the recipe (through the stamp for a multi-output step; order-only .dir sentinels and internal names
   dropped) are, as a set, what the step consumes *)
Theorem C03_deps_exact_make : forall fx st rs o,
  shape_ok st = true -> emit_make_step fx st = Some rs -> In o (outs st) ->
  exists l, make_prereqs rs o = Some l /\ set_eq l (consumed st).
Proof. exact deps_exact_make. Qed.
Print Assumptions C03_deps_exact_make.

(* Ninja: explicit + implicit inputs of the producing edge (through the phony alias for the extra outputs of a
   deps=gcc compile step; PHONY dropped).  NoDup (outs st) is what the emitters enforce (C05_twice_in_one_step_rejected) *)
Theorem C03_deps_exact_ninja : forall has st o,
  shape_ok st = true -> NoDup (outs st) -> In o (outs st) ->
  exists l, ninja_prereqs (fst (emit_ninja_step has st)) o = Some l /\ set_eq l (consumed st).
Proof. exact deps_exact_ninja. Qed.
Print Assumptions C03_deps_exact_ninja.

(* files named in the command lines of command() / build_step() are consumed exactly when a step produces them or the
   command is not phony (BaseCommand.__init__), next to the declared extra_deps *)
Theorem C03_command_nodes : forall phony nodes extra x,
  In x (command_extra_deps phony nodes extra) <->
  (exists c, In (x, c) nodes /\ (c = true \/ phony = false)) \/ In x extra.
Proof. exact command_nodes_consumed. Qed.
Print Assumptions C03_command_nodes.

(* the plural form cmds=[line; line; ...]: a file named in ANY command line (the first, a middle one, the last) is
   consumed under the same condition *)
Theorem C03_command_lines_nodes : forall phony lines extra x,
  In x (command_lines_extra_deps phony lines extra) <->
  (exists line c, In line lines /\ In (x, c) line /\ (c = true \/ phony = false)) \/ In x extra.
Proof. exact command_lines_nodes_consumed. Qed.
Print Assumptions C03_command_lines_nodes.

(* all / tests / test / install depend on exactly their declared members (as lists, in order), in both backends;
   alias targets likewise *)
Theorem C03_members : forall sc,
  (make_prereqs (make_all_rule sc) (sc_all sc) = Some (sc_defaults sc) /\
   (forall deps extra, sc_tests sc = Some (deps, extra) -> sc_test_name sc <> sc_tests_name sc ->
      make_prereqs (make_test_rules sc) (sc_tests_name sc) = Some (deps ++ extra) /\
      make_prereqs (make_test_rules sc) (sc_test_name sc) = Some [sc_tests_name sc]) /\
   (sc_install sc = true -> make_prereqs (make_install_rules sc) (sc_install_name sc) = Some [sc_all sc])) /\
  (forall has,
   ninja_prereqs (ninja_all_rule sc) (sc_all sc) = Some (sc_defaults sc) /\
   (forall deps extra, sc_tests sc = Some (deps, extra) -> sc_test_name sc <> sc_tests_name sc ->
      ~ In (sc_tests_name sc) (deps ++ extra) -> ~ In (sc_test_name sc) (deps ++ extra) ->
      ninja_prereqs (fst (ninja_test_rules has sc)) (sc_tests_name sc) = Some (deps ++ extra) /\
      ninja_prereqs (fst (ninja_test_rules has sc)) (sc_test_name sc) = Some [sc_tests_name sc])).
Proof. intros sc. split; [exact (members_make sc)|intros has; exact (members_ninja sc has)]. Qed.
Print Assumptions C03_members.

Theorem C03_members_alias : forall fx st rs o has,
  s_kind st = KAlias -> emit_make_step fx st = Some rs -> In o (outs st) ->
  make_prereqs rs o = Some (s_extra_deps st) /\
  ninja_prereqs (fst (emit_ninja_step has st)) o = Some (s_extra_deps st).
Proof. exact members_alias. Qed.
Print Assumptions C03_members_alias.

(* install(x) puts x into the explicit default list, which only default()/install() touch: it stays a member of all *)
Theorem C03_install_in_default : forall s items x,
  In (x, true) items -> In x (d_outputs (dstep s (DAdd items true))).
Proof. exact install_in_default. Qed.
Print Assumptions C03_install_in_default.

(* Rebuild exactness of the emitted Make rules under the mtime semantics (Make/MakeSem.v, validated against GNU Make
   4.3), for scripts of single-output, non-phony steps (compile, link, build_step, copy_file) that are well formed:
   one producer per file (C05: the emitters reject anything else), every consumed file a source or produced earlier.
   After a successful build, a second build runs nothing, and after touching x exactly the steps downstream of x in
   the SCRIPT's own dependency relation (script_down: defined on consumed, not on the emitted rules) run, in order.
   Guard: no multi-output step (this semantics has no cached mtimes; for multi-output steps see
   C03_rebuild_exact_multi for the repaired emitter and C03_stamp_consumers_refuted for the unrepaired one). *)
Theorem C03_rebuild_exact : forall fx steps f clk x,
  wf_script steps -> fs_below f clk ->
  let rs := sem_steps fx steps in
  let s1 := build rs f clk in
  b_fail s1 = None ->
  b_log (build rs (b_fs s1) (b_clk s1)) = [] /\
  (let s2 := build rs (upd (b_fs s1) (encF x) (b_clk s1)) (b_clk s1 + 1) in
   b_fail s2 = None /\ b_log s2 = map encF (script_down x steps)).
Proof. exact rebuild_exact. Qed.
Print Assumptions C03_rebuild_exact.

(* the rules the theorem speaks about are the emitted ones *)
Theorem C03_rebuild_rules : forall fx steps rs,
  emit_make_steps fx steps = Some rs -> sem_rules rs = sem_steps fx steps.
Proof. exact sem_steps_emit. Qed.
Print Assumptions C03_rebuild_rules.

(* ---- non-vacuity *)
(* a precompiled-header compile step with two outputs (stamp), explicit headers, a library and extra_deps *)
Definition ex_pch : step :=
  mkStep KCompile [mkOut 10 1; mkOut 11 1] (Some 1) (Some 2) (Some 3) [4; 5] [6] [7] [] [] [] [8] false true.
Example ex_pch_make :
  shape_ok ex_pch = true /\
  (forall fx, emit_make_step fx ex_pch =
    Some [mkM [NF 10; NF 11] [NStamp 10] [] fx false;
          mkM [NStamp 10] [NF 2; NF 1; NF 3; NF 4; NF 5; NF 6; NF 7; NF 8] [NDir 1] true false]) /\
  (forall fx rs, emit_make_step fx ex_pch = Some rs -> make_prereqs rs 11 = Some [2; 1; 3; 4; 5; 6; 7; 8]) /\
  consumed ex_pch = [2; 1; 3; 4; 5; 6; 7; 8].
Proof. repeat split. intros fx rs E. vm_compute in E. injection E as <-. reflexivity. Qed.

Example ex_pch_ninja :
  NoDup (outs ex_pch) /\
  fst (emit_ninja_step false ex_pch) =
    [mkNB [NF 11] true [NF 10] [] []; mkNB [NF 10] false [NF 2] [NF 3; NF 1; NF 4; NF 5; NF 6; NF 7; NF 8] []] /\
  ninja_prereqs (fst (emit_ninja_step false ex_pch)) 11 = Some [2; 3; 1; 4; 5; 6; 7; 8].
Proof. split; [repeat constructor; cbn; intuition discriminate|split; reflexivity]. Qed.

(* a phony command naming a produced file (consumed) and a source file (not consumed) *)
Example ex_command_nodes : command_extra_deps true [(1, true); (2, false)] [9] = [1; 9] /\
                           command_extra_deps false [(1, true); (2, false)] [9] = [1; 2; 9].
Proof. split; reflexivity. Qed.

(* three command lines: file 1 (a source) in the first and the last, file 2 (produced) in the middle one only *)
Example ex_command_lines_nodes :
  command_lines_extra_deps false [[(1, false)]; [(2, true)]; [(1, false); (3, false)]] [9] = [1; 2; 1; 3; 9] /\
  command_lines_extra_deps true [[(1, false)]; [(2, true)]; [(1, false); (3, false)]] [9] = [2; 9].
Proof. split; reflexivity. Qed.

Definition ex_script : script :=
  mkScript [] 100 101 102 103 104 [20; 21] (Some ([20], [30])) true false.
Example ex_members :
  make_prereqs (make_test_rules ex_script) 101 = Some [20; 30] /\
  ninja_prereqs (fst (ninja_test_rules false ex_script)) 102 = Some [101] /\
  fst (ninja_test_rules false ex_script) =
    [mkNB [NF 101] true [NF 20; NF 30] [] []; mkNB [NPhony] true [] [] []; mkNB [NF 102] false [NF 101] [NPhony] []].
Proof. repeat split. Qed.

(* a.c -> a.o, b.c -> b.o (+ header 3), {a.o, b.o} -> prog, prog -> copy: touching a.c re-runs a.o, prog, copy *)
Definition ex_steps : list step :=
  [mkStep KCompile [mkOut 10 1] (Some 1) None None [] [] [] [] [] [] [] false true;
   mkStep KCompile [mkOut 11 1] (Some 2) None None [3] [] [] [] [] [] [] false true;
   mkStep KLink [mkOut 12 0] None None None [] [] [] [10; 11] [] [] [] false false;
   mkStep KCopyFile [mkOut 13 2] (Some 12) None None [] [] [] [] [] [] [] false false].
Example ex_rebuild :
  wf_script ex_steps /\ script_down 1 ex_steps = [10; 12; 13] /\ script_down 3 ex_steps = [11; 12; 13] /\
  script_down 12 ex_steps = [13] /\ wfb (sem_steps false ex_steps) = true.
Proof.
  repeat split; try (repeat constructor; cbn; intuition discriminate).
  all: cbn; intros p H; intuition (subst; discriminate).
Qed.

(* ====================================================================== the stamp encoding of multi-output steps *)

(* the stamp stands in for the outputs in Make's out-of-date test: while the outputs carry the stamp's time (the recipe
   writes them and then touches the stamp; modifications of inputs keep this), the recipe runs exactly when an ideal
   k-output rule (the recipe runs when any output is out of date w.r.t. the declared prerequisites) would run it *)
Theorem C03_stamp_equiv : forall all s outs stamp deps ord,
  outs <> [] -> (forall o, In o outs -> b_fs s o = b_fs s stamp) ->
  need all s (stamp_rule stamp deps ord) = existsb (fun o => need all s (ideal_rule o deps ord)) outs.
Proof. exact stamp_equiv. Qed.
Print Assumptions C03_stamp_equiv.

(* documented limitation: deleting one output while the stamp stays - the ideal rule re-runs, the encoding does not *)
Theorem C03_stamp_delete_refuted :
  exists all s outs stamp deps ord,
    outs <> [] /\ b_fail s = None /\
    need all s (stamp_rule stamp deps ord) = false /\
    existsb (fun o => need all s (ideal_rule o deps ord)) outs = true.
Proof. exact stamp_delete_refuted. Qed.
Print Assumptions C03_stamp_delete_refuted.

(* NOT equivalent for the consumers of the outputs (finding C03-make-stamp-consumer-stale): under GNU Make's depth-first
   walk with cached mtimes (StampSem.dmake, validated against GNU Make 4.3) the rule  outs: stamp  has no recipe, so an
   output Make looked at before the stamp's recipe ran keeps its old time: after touching the input of a 2-output
   build_step, the consumer of the output met first is not rebuilt (the other one is), and the NEXT make - nothing
   touched - rebuilds it.  Rebuild exactness and build-after-build-does-nothing both fail; hence the guard of
   C03_rebuild_exact. *)
Theorem C03_stamp_consumers_refuted :
  let b1 := dmake ex_stamp_rules [20; 21] (fs_of [(1, 5)]) 10 in
  let b2 := dmake ex_stamp_rules [20; 21] (d_fs b1) (d_clk b1) in
  let touched := upd (d_fs b1) 1 (d_clk b1) in
  let b3 := dmake ex_stamp_rules [20; 21] touched (d_clk b1 + 1) in
  let b4 := dmake ex_stamp_rules [20; 21] (d_fs b3) (d_clk b3) in
  d_log b1 = [12; 20; 21] /\ d_log b2 = [] /\
  d_log b3 = [12; 21] /\ d_log b4 = [20] /\
  d_fail b1 = false /\ d_fail b3 = false /\ d_fail b4 = false.
Proof. exact stamp_consumers_refuted. Qed.
Print Assumptions C03_stamp_consumers_refuted.

(* the example rules are what the Make emitter produces for that script (nodes 10 11 = outputs, 12 = the stamp) *)
Example ex_stamp_is_emitted : forall fx,
  emit_make_step fx (mkStep KBuildStep [mkOut 10 0; mkOut 11 0] None None None [] [] [] [1] [] [] [] false false) =
    Some [mkM [NF 10; NF 11] [NStamp 10] [] fx false; mkM [NStamp 10] [NF 1] [] true false].
Proof. reflexivity. Qed.

Example ex_stamp_equiv_nonvacuous :
  let s := init (fs_of [(1, 9); (10, 7); (11, 7); (12, 7)]) 10 in
  (forall o, In o [10; 11] -> b_fs s o = b_fs s 12) /\ need [] s (stamp_rule 12 [1] []) = true.
Proof. split; [intros o [<-|[<-|[]]]; reflexivity|reflexivity]. Qed.

(* ====================================================================== the repaired stamp encoding (fx = true)
   multitarget_rule gives the rule  outs: stamp  the no-op recipe  @: , so GNU Make looks at an output again after the
   stamp's recipe ran.  The no-op recipe is NOT a step: in StampSem its runs are recorded in d_nlog, the theorems below
   speak about d_log (the targets whose real recipe ran: the output of a single-output step, the stamp of a multi-output
   step - EmitStamp.step_target).  Because the stamp is touched after the outputs (lag), the no-op recipe of an output
   older than its stamp runs again in every later make; no step does. *)

(* the witness of C03_stamp_consumers_refuted with the repaired rule shape: both consumers are rebuilt in the make that
   re-runs the step, and the makes after a make run no step *)
Theorem C03_stamp_consumers_repaired :
  let rs := ex_stamp_rules_v RNoop 1 in
  let b1 := dmake rs [20; 21] (fs_of [(1, 5)]) 10 in
  let b2 := dmake rs [20; 21] (d_fs b1) (d_clk b1) in
  let b3 := dmake rs [20; 21] (upd (d_fs b1) 1 (d_clk b1)) (d_clk b1 + 1) in
  let b4 := dmake rs [20; 21] (d_fs b3) (d_clk b3) in
  d_log b1 = [12; 20; 21] /\ d_log b2 = [] /\ d_nlog b2 = [10; 11] /\
  d_log b3 = [12; 20; 21] /\ d_log b4 = [] /\
  d_fail b1 = false /\ d_fail b3 = false /\ d_fail b4 = false.
Proof. exact stamp_consumers_repaired. Qed.
Print Assumptions C03_stamp_consumers_repaired.

(* Rebuild exactness WITHOUT the single-output restriction, for the rules the repaired emitter registers
   (EmitStamp.xsem_steps true: read off emit_make_step true), under GNU Make's depth-first walk with cached mtimes
   (StampSem.dmake, validated against GNU Make 4.3 for both rule shapes), any lag between outputs and stamp.
   Guards: every step has one output or goes through the stamp (simple / multi: not phony, not an alias), the shape
   of its Edge class, one producer per file (C05), consumed files are sources or produced earlier (wf_script_multi);
   a fresh build directory (no output, no stamp yet: clean_for) in which the sources and .dir sentinels exist
   (inputs_exist); the goals are all outputs in script order (make all, all depending on everything).
   Then: the first build runs every step once; a second build runs no step; after touching any file x ONE build runs
   exactly the steps downstream of x in the script's own dependency relation (script_down_steps, on consumed), in
   script order, without failure; and the build after that runs no step. *)
Theorem C03_rebuild_exact_multi : forall lag steps f clk x,
  wf_script_multi steps -> fs_below f clk ->
  let rs := xsem_steps true lag steps in
  let goals := script_goals steps in
  clean_for rs f -> inputs_exist rs f ->
  let b1 := dmake rs goals f clk in
  d_fail b1 = false /\ d_log b1 = map step_target steps /\
  d_log (dmake rs goals (d_fs b1) (d_clk b1)) = [] /\
  (let b3 := dmake rs goals (upd (d_fs b1) (encF x) (d_clk b1)) (d_clk b1 + 1) in
   d_fail b3 = false /\ d_log b3 = map step_target (script_down_steps x steps) /\
   d_log (dmake rs goals (d_fs b3) (d_clk b3)) = []).
Proof. exact rebuild_exact_multi. Qed.
Print Assumptions C03_rebuild_exact_multi.

(* the outputs of the steps that re-run are the list script_down of C03_rebuild_exact *)
Theorem C03_script_down_steps : forall x steps,
  flat_map outs (script_down_steps x steps) = script_down x steps.
Proof. exact script_down_steps_outs. Qed.
Print Assumptions C03_script_down_steps.

(* ---- non-vacuity: gen.in (1) -> 2-output build_step (10 11, stamp of 10) ; copy_file of 10 -> 20 ; build_step 21 from 11 *)
Definition ex_multi_steps : list step :=
  [mkStep KBuildStep [mkOut 10 0; mkOut 11 0] None None None [] [] [] [1] [] [] [] false false;
   mkStep KCopyFile [mkOut 20 0] (Some 10) None None [] [] [] [] [] [] [] false false;
   mkStep KBuildStep [mkOut 21 0] None None None [] [] [] [11] [] [] [] false false].

Example ex_multi_wf :
  wf_script_multi ex_multi_steps /\
  clean_for (xsem_steps true 1 ex_multi_steps) (fs_of [(4, 5)]) /\
  inputs_exist (xsem_steps true 1 ex_multi_steps) (fs_of [(4, 5)]) /\
  fs_below (fs_of [(4, 5)]) 10 /\
  script_down_steps 1 ex_multi_steps = ex_multi_steps /\ script_down 1 ex_multi_steps = [10; 11; 20; 21] /\
  map step_target ex_multi_steps = [41; 80; 84] /\ script_goals ex_multi_steps = [40; 44; 80; 84].
Proof.
  split; [|split; [|split; [|split]]].
  - split; [|split].
    + constructor; [split; [right; reflexivity|reflexivity]|]. constructor; [split; [left; reflexivity|reflexivity]|].
      constructor; [split; [left; reflexivity|reflexivity]|constructor].
    + repeat constructor; cbn; intuition discriminate.
    + cbn. repeat split; intros p H; intuition (subst; discriminate).
  - intros r Hr. cbn in Hr. repeat (destruct Hr as [<-|Hr]; [reflexivity|]). contradiction.
  - intros r Hr p Hp Hn. cbn in Hr.
    repeat (destruct Hr as [<-|Hr];
            [cbn in Hp; repeat (destruct Hp as [<-|Hp]; [first [cbn; discriminate|exfalso; apply Hn; cbn; tauto]|]);
             contradiction|]).
    contradiction.
  - intros y t. cbn. destruct (y =? 4); intros H; [inversion H; lia|discriminate].
  - repeat split.
Qed.

(* on the very same script the rules of the UNREPAIRED emitter (fx = false) violate the statement: after touching the
   input the copy of the first output is not rebuilt, the next build (nothing touched) rebuilds it *)
Theorem C03_rebuild_exact_multi_unrepaired_refuted :
  let rs := xsem_steps false 1 ex_multi_steps in
  let goals := script_goals ex_multi_steps in
  let b1 := dmake rs goals (fs_of [(4, 5)]) 10 in
  let b3 := dmake rs goals (upd (d_fs b1) (encF 1) (d_clk b1)) (d_clk b1 + 1) in
  d_log b1 = [41; 80; 84] /\ d_fail b3 = false /\
  d_log b3 = [41; 84] /\ d_log (dmake rs goals (d_fs b3) (d_clk b3)) = [80].
Proof. vm_compute. repeat split. Qed.
Print Assumptions C03_rebuild_exact_multi_unrepaired_refuted.

(* ====================================================================== a step that FAILS once
   Graph/StampFail.v: the walk semantics of StampSem with recipes as LISTS of command lines (RcStep the step's own
   command, RcTouch  touch $@ , RcNoop  : ) and an oracle fl choosing, per run, the steps whose own command fails.
   Assumption about the tool, explicit in the model (apply_cmd): a step's command either writes all its outputs and
   succeeds, or writes nothing and fails.  GNU Make 4.3 without -k (validated, harness/c03.py R:stampsem): the lines
   of a recipe run in order, the first failing line ends the recipe, the target is not deleted, NOTHING further is
   built in this run (not even goals independent of the failed step), what was built before stays.
   d_log = the steps whose own command ran and succeeded; d_fail = make stopped with an error.

   Guards as in C03_rebuild_exact_multi (well-formed script incl. multi-output steps through the repaired stamp rule,
   fresh build directory, inputs exist, goals = all outputs in script order, any lag), recipes = cmds_of false = the
   emitted ones (C03_recipes_emitted: command first, touch $@ last).  b1 = complete build; then ANY file x is touched
   (source or intermediate; one file, as in C03_rebuild_exact_multi); b2 = a build in which the steps chosen by ANY
   oracle fl fail; b3 = a build in which nothing fails; b4 = one more.  With L = the steps downstream of x in the
   script's own dependency relation, in script order (step_target = what the log records for a step):
     b2 runs exactly the steps of L before the first one that fails (take_ok) and stops with an error iff some step
        of L fails (a failing step that is not downstream of x is never run and does no harm);
     b3 runs exactly the rest of L, from that first failing step on (drop_ok: the failed step itself and every step
        of L after it in script order - in a well-formed script the consumers of a step come after it), no error;
     so over b2 and b3 every step downstream of x ran successfully exactly once, in script order, and nothing else ran;
     b4 runs nothing. *)
From BFG Require Import Graph.StampFail Graph.StampFailProofs.

Theorem C03_failed_step_recovers : forall lag steps f clk x (fl : file -> bool),
  wf_script_multi steps -> fs_below f clk ->
  let rs := xsem_steps true lag steps in
  let goals := script_goals steps in
  let cm := cmds_of false in
  clean_for rs f -> inputs_exist rs f ->
  let b1 := fmake cm nofail rs goals f clk in
  let L := map step_target (script_down_steps x steps) in
  let b2 := fmake cm fl rs goals (upd (d_fs b1) (encF x) (d_clk b1)) (d_clk b1 + 1) in
  let b3 := fmake cm nofail rs goals (d_fs b2) (d_clk b2) in
  let b4 := fmake cm nofail rs goals (d_fs b3) (d_clk b3) in
  d_fail b1 = false /\ d_log b1 = map step_target steps /\
  d_log b2 = take_ok fl L /\ d_fail b2 = existsb fl L /\
  d_log b3 = drop_ok fl L /\ d_fail b3 = false /\
  d_log b2 ++ d_log b3 = L /\
  d_log b4 = [] /\ d_fail b4 = false.
Proof. exact failed_step_recovers. Qed.
Print Assumptions C03_failed_step_recovers.

(* what b3 runs (drop_ok fl L) contains every failing step F of L and every step after F in L, i.e. in script order -
   where all steps downstream of F are (a consumer comes after its producer: ordered) *)
Theorem C03_failed_step_rest : forall (fl : file -> bool) a F r,
  fl F = true -> forall t, In t (F :: r) -> In t (drop_ok fl (a ++ F :: r)).
Proof. exact drop_ok_from. Qed.
Print Assumptions C03_failed_step_rest.

(* without failures, and with the emitted recipes, the semantics with failing recipes IS StampSem.dmake: the theorems
   above about dmake speak about the same builds *)
Theorem C03_fail_semantics_conservative : forall lag steps goals f clk,
  wf_script_multi steps ->
  fmake (cmds_of false) nofail (xsem_steps true lag steps) goals f clk = dmake (xsem_steps true lag steps) goals f clk.
Proof. exact fail_semantics_conservative. Qed.
Print Assumptions C03_fail_semantics_conservative.

(* the recipes the semantics runs (cmds_of tb, per rule of the walk) are the recipe lists of the emitter model
   (Emit.emit_make_recipes tb, one per registered rule, tied to the real Rule objects by W:emit with tb = false:
   the position of  touch $@  relative to the command lines), for EVERY step *)
Theorem C03_recipes_emitted : forall tb fx lag st rs cs,
  emit_make_step fx st = Some rs -> emit_make_recipes tb fx st = Some cs ->
  length cs = length rs /\ map (cmds_of tb) (xsem_rules lag rs) = rule_cmds rs cs.
Proof. exact recipes_emitted. Qed.
Print Assumptions C03_recipes_emitted.

(* the recipe order  touch $@  FIRST (emit_make_recipes true: [touch; command]) is refuted: on ex_multi_steps, after a
   complete build the input is touched and the 2-output step (stamp 41) fails once: the touch had already made the stamp
   newer than the input, so the next build - nothing fails any more - runs NOTHING and reports success, although the
   step never succeeded after the change and everything downstream of it (80, 84) is stale.  With the emitted order
   (command first) the same history re-runs all three steps. *)
Theorem C03_touch_before_command_refuted :
  let rs := xsem_steps true 1 ex_multi_steps in
  let goals := script_goals ex_multi_steps in
  let hist := fun tb =>
    let b1 := fmake (cmds_of tb) nofail rs goals (fs_of [(4, 5)]) 10 in
    let b2 := fmake (cmds_of tb) (fun t => t =? 41) rs goals (upd (d_fs b1) (encF 1) (d_clk b1)) (d_clk b1 + 1) in
    let b3 := fmake (cmds_of tb) nofail rs goals (d_fs b2) (d_clk b2) in
    (d_log b1, (d_log b2, d_fail b2), (d_log b3, d_fail b3)) in
  emit_make_recipes true true (mkStep KBuildStep [mkOut 10 0; mkOut 11 0] None None None [] [] [] [1] [] [] [] false false) =
    Some [[RcNoop]; [RcTouch; RcStep]] /\
  map step_target (script_down_steps 1 ex_multi_steps) = [41; 80; 84] /\
  hist true = ([41; 80; 84], ([], true), ([], false)) /\
  hist false = ([41; 80; 84], ([], true), ([41; 80; 84], false)).
Proof. vm_compute. repeat split. Qed.
Print Assumptions C03_touch_before_command_refuted.

(* ---- non-vacuity of C03_failed_step_recovers: its hypotheses hold of ex_multi_steps (ex_multi_wf); the oracle fails
   the copy step 80 in the middle of L = [41; 80; 84]: b2 runs 41 and stops, b3 runs 80 and 84 *)
Example ex_fail_nonvacuous :
  let rs := xsem_steps true 1 ex_multi_steps in
  let goals := script_goals ex_multi_steps in
  let fl := fun t => t =? 80 in
  let b1 := fmake (cmds_of false) nofail rs goals (fs_of [(4, 5)]) 10 in
  let b2 := fmake (cmds_of false) fl rs goals (upd (d_fs b1) (encF 1) (d_clk b1)) (d_clk b1 + 1) in
  let b3 := fmake (cmds_of false) nofail rs goals (d_fs b2) (d_clk b2) in
  take_ok fl [41; 80; 84] = [41] /\ drop_ok fl [41; 80; 84] = [80; 84] /\
  d_log b2 = [41] /\ d_fail b2 = true /\ d_log b3 = [80; 84] /\ d_fail b3 = false /\
  emit_make_recipes false true (mkStep KBuildStep [mkOut 10 0; mkOut 11 0] None None None [] [] [] [1] [] [] [] false false) =
    Some [[RcNoop]; [RcStep; RcTouch]] /\
  map (cmds_of false) rs = [[RcNoop]; [RcNoop]; [RcStep; RcTouch]; [RcStep]; [RcStep]].
Proof. vm_compute. repeat split. Qed.

(* ---- glue C03 <- C05: the one-producer-per-file hypotheses are what the emitters' duplicate check enforces ----
   emit_paths (Path/Within.v) is the model of the duplicate detection of Makefile.rule / NinjaFile.build tied under
   C05.  Whenever it accepts the output lists of the steps - under any naming esc of the files, injective or not -
   every file has one producer and no step names an output twice (C05_emitted_outputs_distinct): the NoDup clause
   of wf_script / wf_script_multi and the NoDup hypothesis of C03_deps_exact_ninja hold for every emitted script. *)
From BFG Require Import Graph.EmitDupGlue.
From BFG Require Path.Within.

Theorem C03_emitted_one_producer : forall (esc : N -> str) mk (steps : list step) rules,
  Within.emit_paths esc mk (map outs steps) = Within.EOk rules ->
  NoDup (flat_map outs steps) /\ Forall (fun st => NoDup (outs st)) steps.
Proof. exact emitted_one_producer. Qed.
Print Assumptions C03_emitted_one_producer.

Theorem C03_deps_exact_ninja_emitted : forall (esc : N -> str) mk steps rules has st o,
  Within.emit_paths esc mk (map outs steps) = Within.EOk rules -> In st steps ->
  shape_ok st = true -> In o (outs st) ->
  exists l, ninja_prereqs (fst (emit_ninja_step has st)) o = Some l /\ set_eq l (consumed st).
Proof. exact deps_exact_ninja_emitted. Qed.
Print Assumptions C03_deps_exact_ninja_emitted.

Theorem C03_wf_script_emitted : forall (esc : N -> str) mk steps rules,
  Within.emit_paths esc mk (map outs steps) = Within.EOk rules ->
  (Forall (fun st => simple st = true /\ shape_ok st = true) steps -> ordered steps -> wf_script steps) /\
  (Forall (fun st => (simple st = true \/ multi st = true) /\ shape_ok st = true) steps -> ordered steps ->
   wf_script_multi steps).
Proof.
  intros esc mk steps rules E.
  split; [exact (wf_script_emitted esc mk steps rules E)|exact (wf_script_multi_emitted esc mk steps rules E)].
Qed.
Print Assumptions C03_wf_script_emitted.

(* both example scripts are accepted by the duplicate check (each file named by the one-character string of its code) *)
Example ex_emitted :
  Within.emit_paths (fun n => [n]) true (map outs ex_steps) = Within.EOk [[[10]]; [[11]]; [[12]]; [[13]]] /\
  Within.emit_paths (fun n => [n]) false (map outs ex_multi_steps) = Within.EOk [[[10]; [11]]; [[20]]; [[21]]].
Proof. split; vm_compute; reflexivity. Qed.
