(* C03 - Generated dependency graph equals the graph the build script describes. *)
From BFG Require Import Base.Chars Graph.Defaults Graph.DefaultsProofs.

(* the default target depends on the explicitly declared outputs if any, otherwise on every registered
   (linked) output not handed to test(); for every history in which an output is registered once per list
   and not registered again after its removal *)
Theorem C03_default_set : forall ops,
  NoDup (added true ops) -> NoDup (added false ops) -> wf_rm ops ->
  d_outputs (run_dops ops) =
    match minus (added true ops) (removed true ops) with
    | [] => minus (added false ops) (removed false ops)
    | e => e
    end.
Proof. exact default_set. Qed.
Print Assumptions C03_default_set.

(* DefaultOutputs.remove pops while enumerating: on a duplicate-free list it removes exactly the output *)
Theorem C03_remove_exact : forall x l, NoDup l -> remove_item l x = filter (fun v => negb (N.eqb v x)) l.
Proof. exact remove_item_nodup. Qed.
Print Assumptions C03_remove_exact.

(* ... and is wrong next to a duplicate (observation; the builtins never register one output twice) *)
Example C03_remove_skips_neighbour : remove_item [7; 7; 3]%N 7%N = [7; 3]%N.
Proof. reflexivity. Qed.

Example C03_default_nonvacuous :
  let ops := [DAdd [(1, true)] false; DAdd [(2, true); (3, false)] false; DAdd [(4, true)] false; DRemove 2 false]%N in
  NoDup (added true ops) /\ NoDup (added false ops) /\ wf_rm ops /\ d_outputs (run_dops ops) = [1; 4]%N.
Proof. cbn. repeat split; try constructor; cbn; intuition; try discriminate; repeat constructor; cbn; intuition discriminate. Qed.
