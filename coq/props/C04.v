(* C04 - File names with special characters denote the same file in the build tool. *)
From Coq Require Import String.
From BFG Require Import Base.Chars Make.MakeWrite Make.MakeRead Make.MakeNames Make.MakeNamesProofs
  Ninja.NinjaWrite Ninja.NinjaRead Ninja.NinjaProofs.

(* the backslash escaping of rule-header words is decodable, for every string, every character class
   that does not contain the backslash, and every pending backslash run *)
Theorem C04_bs_escape_decodable : forall special s q,
  special c_bs = false -> bs_unesc special 0 (bs_esc special q s) = Some (repeat c_bs q ++ s).
Proof. intros special s q H. exact (bs_unesc_esc special s q H). Qed.
Print Assumptions C04_bs_escape_decodable.

(* hence target escaping is injective on names that do not begin with a backslash (paths never contain one) *)
Theorem C04_escape_injective : forall special a b,
  special c_bs = false -> hd_not_bs a = true -> hd_not_bs b = true ->
  bs_esc_top special a = bs_esc_top special b -> a = b.
Proof. exact bs_esc_top_injective. Qed.
Print Assumptions C04_escape_injective.

Theorem C04_dollar_injective : forall a b, dollar_esc a = dollar_esc b -> a = b.
Proof. exact dollar_esc_injective. Qed.
Print Assumptions C04_dollar_injective.

(* GNU Make reads an escaped representable name back as exactly that name, as target and as prerequisite *)
Theorem C04_make_target_rt : forall us n,
  target_ok us n = true -> read_target (bs_esc_top (target_special us) n) = Some (n, []).
Proof. exact target_read_rt. Qed.
Print Assumptions C04_make_target_rt.

Theorem C04_make_dep_rt : forall us n,
  dep_ok us n = true -> read_dep (bs_esc_top (dep_special us) n) = Some (n, []).
Proof. exact dep_read_rt. Qed.
Print Assumptions C04_make_dep_rt.

(* Ninja lexes an escaped name back as exactly that name *)
Theorem C04_ninja_rt : forall env s rest,
  forallb path_char_ok s = true ->
  (rest = [] \/ exists c r, rest = c :: r /\ (N.eqb c c_sp || N.eqb c c_colon || N.eqb c c_pipe || N.eqb c c_nl = true)) ->
  match lex_path (nj_path_esc s ++ rest) with
  | Some (ts, rest') => Some (neval env ts, rest')
  | None => None
  end = Some (s, rest).
Proof. exact path_roundtrip. Qed.
Print Assumptions C04_ninja_rt.

(* the guard is satisfiable by a name full of special characters *)
Example C04_target_ok_nonvacuous :
  target_ok (fun _ => false) (STR "my file: a#b (1) {x} @+,!&~.c") = true /\
  dep_ok (fun _ => false) (STR "my file: a#b|c (1) {x} @+,!&~.c") = true.
Proof. split; reflexivity. Qed.

(* the ambiguity that forces the guard of C04_escape_injective *)
Example C04_escape_collision_with_backslash :
  bs_esc_top (target_special (fun _ => false)) (STR "~x") = bs_esc_top (target_special (fun _ => false)) (c_bs :: STR "~x").
Proof. reflexivity. Qed.

(* ---- whole rule headers and directory sentinels ---- *)
From BFG Require Import Make.MakeHeader Make.MakeHeaderProofs.

(* the header  targets: prerequisites | order-only  written by _write_rule for representable names (target_ok /
   dep_ok; here additionally without a dollar sign, whose doubling is undone by the expansion that precedes the
   parse: C04_dollar_injective, C01_make_dollar_roundtrip) is split by GNU Make - first unescaped colon, unescaped
   bar, blank-separated words with backslash escapes - into exactly the three declared lists; ar_free excludes the
   lists GNU Make reads as archive members  lib(member)  /  lib(m1 m2)  , for which the format has no spelling *)
Theorem C04_make_rule_rt : forall us ts ds os,
  ts <> [] -> forallb (tname_ok us) ts = true -> forallb (dname_ok us) ds = true -> forallb (oname_ok us) os = true ->
  ar_free ts = true -> ar_free ds = true -> ar_free os = true ->
  parse_rule_header (header_text us ts ds os) = Some (ts, ds, os).
Proof. exact rule_header_rt. Qed.
Print Assumptions C04_make_rule_rt.

Example C04_make_rule_rt_nonvacuous :
  let nu := fun _ : char => false in
  let ts := [STR "my prog"; STR "a:b#c"; STR "100%"] in let ds := [STR "d r/ma in.c"; STR "x|y"; STR "p:q"] in let os := [STR "prog.int/d r/.dir"] in
  forallb (tname_ok nu) ts = true /\ forallb (dname_ok nu) ds = true /\ forallb (oname_ok nu) os = true /\
  ar_free ts = true /\ ar_free ds = true /\ ar_free os = true /\
  parse_rule_header (header_text nu ts ds os) = Some (ts, ds, os) /\
  parse_rule_header (header_text nu ts [] os) = Some (ts, [], os) /\ parse_rule_header (header_text nu ts ds []) = Some (ts, ds, []).
Proof. repeat split; vm_compute; reflexivity. Qed.

(* a bar in an ORDER-ONLY prerequisite (the sentinel of an output directory whose name contains one): the writer
   escapes it as on the prerequisite side, but after the separating bar GNU Make keeps that backslash *)
Theorem C04_make_rule_oo_bar_refuted : exists ts ds os,
  forallb (tname_ok (fun _ => false)) ts = true /\ forallb (dname_ok (fun _ => false)) ds = true /\
  forallb (dname_ok (fun _ => false)) os = true /\ ar_free ts = true /\ ar_free ds = true /\ ar_free os = true /\
  parse_rule_header (header_text (fun _ => false) ts ds os) <> Some (ts, ds, os).
Proof. exists [STR "out"], [STR "in"], [STR "a|b/.dir"]. repeat split; try reflexivity. vm_compute. discriminate. Qed.
Print Assumptions C04_make_rule_oo_bar_refuted.

(* the archive-member reading (ar_free) is a limit of the format, not of the escaping: names that pass the
   character guard but form  lib(member)  or an archive group  lib(m1 m2)  are rejected by the reference reading
   whatever is written (GNU Make has no escape for the parenthesis there) *)
Example C04_make_archive_outside :
  let nu := fun _ : char => false in
  forallb (tname_ok nu) [STR "a(b"; STR "a)"] = true /\ parse_rule_header (header_text nu [STR "a(b"; STR "a)"] [] []) = None /\
  forallb (tname_ok nu) [STR "data (1)"] = true /\ parse_rule_header (header_text nu [STR "data (1)"] [] []) = None /\
  parse_rule_header (header_text nu [STR "(x)"; STR "y)"; STR "foo(1).o"] [STR "p(q"] [STR "r)"]) =
    Some ([STR "(x)"; STR "y)"; STR "foo(1).o"], [STR "p(q"], [STR "r)"]).
Proof. repeat split; vm_compute; reflexivity. Qed.

(* the find_files depfile (builtins/find.py write_depfile, Make backend): every walked directory is written as a
   prerequisite of the regeneration output AND as a target of its own (empty rule); GNU Make reads every line back as
   the declared rule, for directories representable on both sides *)
From BFG Require Import Make.MakeDepfile Make.MakeDepfileProofs.
Theorem C04_depfile_rt : forall us out dirs,
  tname_ok us out = true -> ar_free [out] = true -> forallb (dir_ok us) dirs = true -> ar_free dirs = true ->
  map parse_rule_header (depfile_lines us out dirs true) =
  Some ([out], dirs, []) :: map (fun d => Some ([d], @nil str, @nil str)) dirs.
Proof. exact depfile_rt. Qed.
Print Assumptions C04_depfile_rt.

Example C04_depfile_nonvacuous :
  let nu := fun _ : char => false in
  let dirs := [STR "/s r/src"; STR "/s r/src/opt x"; STR "/s r/src/a#b"; STR "gen/d:e"] in
  tname_ok nu (STR "Makefile") = true /\ forallb (dir_ok nu) dirs = true /\ ar_free dirs = true /\
  map parse_rule_header (depfile_lines nu (STR "Makefile") dirs true) =
  Some ([STR "Makefile"], dirs, []) :: map (fun d => Some ([d], @nil str, @nil str)) dirs.
Proof. repeat split; vm_compute; reflexivity. Qed.

(* the sentinel  dir/.dir  of a representable directory is a representable target (so C04_make_target_rt and
   C04_make_rule_rt apply to it), and  patsubst %/.dir,%  gives the directory back when it contains no blank *)
Theorem C04_dirs : forall us d,
  (target_ok us d = true -> target_ok us (sentinel_of d) = true) /\
  (d <> [] -> blank_free d = true -> patsubst_dir_text (sentinel_of d) = d).
Proof. intros us d. split; [apply sentinel_target_ok|apply patsubst_sentinel]. Qed.
Print Assumptions C04_dirs.

(* the sentinels of a whole step (directory_deps on the parent directories of its outputs, in output order): every
   distinct output directory other than the build directory itself gets a sentinel, exactly one, and nothing else
   does - whatever the other output directories of the step are called *)
Theorem C04_step_dirs : forall dirs,
  (forall s, In s (directory_deps dirs) <-> exists d, In d dirs /\ d <> [] /\ s = sentinel_of d) /\
  NoDup (directory_deps dirs).
Proof. exact directory_deps_exact. Qed.
Print Assumptions C04_step_dirs.

(* sibling directories whose names are character-wise prefixes of one another, a nested one, a repeated one, the
   build directory itself *)
Example C04_step_dirs_prefix_names :
  directory_deps [STR "gen"; STR "gen #2"; []; STR "gen2"; STR "gen/sub"; STR "gen"] =
  [STR "gen/.dir"; STR "gen #2/.dir"; STR "gen2/.dir"; STR "gen/sub/.dir"].
Proof. vm_compute. reflexivity. Qed.

(* patsubst works on blank-separated words and joins by ONE blank: single blanks inside a directory name survive
   (computed), two consecutive blanks do not - mkdir -p then creates another directory than the one the sentinel is
   touched in *)
Example C04_dirs_single_blank :
  patsubst_dir_text (sentinel_of (STR "prog.int/d r/e f")) = STR "prog.int/d r/e f".
Proof. vm_compute. reflexivity. Qed.

Theorem C04_dirs_consecutive_blanks_refuted : exists d,
  target_ok (fun _ => false) d = true /\ patsubst_dir_text (sentinel_of d) <> d.
Proof. exists (STR "a  b"). split; [reflexivity|]. vm_compute. discriminate. Qed.
Print Assumptions C04_dirs_consecutive_blanks_refuted.
