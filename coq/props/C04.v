(* C04 - File names with special characters denote the same file in the build tool. *)
From Coq Require Import String.
From BFG Require Import Base.Chars Make.MakeWrite Make.MakeRead Make.MakeNames Make.MakeNamesProofs
  Ninja.NinjaWrite Ninja.NinjaRead Ninja.NinjaProofs.

(* the backslash escaping of rule-header words is decodable, for every string, every character class
   that does not contain the backslash, and every pending backslash run *)
Theorem C04_bs_escape_decodable : forall special s q,
  special c_bs = false -> bs_unesc special 0 (bs_esc special q s) = Some (repeat c_bs q ++ s).
Proof. intros special s q H. exact (bs_unesc_esc special s q H). Qed.
Print Assumptions C04_bs_escape_decodable.

(* hence target escaping is injective on names that do not begin with a backslash (paths never contain one) *)
Theorem C04_escape_injective : forall special a b,
  special c_bs = false -> hd_not_bs a = true -> hd_not_bs b = true ->
  bs_esc_top special a = bs_esc_top special b -> a = b.
Proof. exact bs_esc_top_injective. Qed.
Print Assumptions C04_escape_injective.

Theorem C04_dollar_injective : forall a b, dollar_esc a = dollar_esc b -> a = b.
Proof. exact dollar_esc_injective. Qed.
Print Assumptions C04_dollar_injective.

(* GNU Make reads an escaped representable name back as exactly that name, as target and as prerequisite *)
Theorem C04_make_target_rt : forall us n,
  target_ok us n = true -> read_target (bs_esc_top (target_special us) n) = Some (n, []).
Proof. exact target_read_rt. Qed.
Print Assumptions C04_make_target_rt.

Theorem C04_make_dep_rt : forall us n,
  dep_ok us n = true -> read_dep (bs_esc_top (dep_special us) n) = Some (n, []).
Proof. exact dep_read_rt. Qed.
Print Assumptions C04_make_dep_rt.

(* Ninja lexes an escaped name back as exactly that name *)
Theorem C04_ninja_rt : forall env s rest,
  forallb path_char_ok s = true ->
  (rest = [] \/ exists c r, rest = c :: r /\ (N.eqb c c_sp || N.eqb c c_colon || N.eqb c c_pipe || N.eqb c c_nl = true)) ->
  match lex_path (nj_path_esc s ++ rest) with
  | Some (ts, rest') => Some (neval env ts, rest')
  | None => None
  end = Some (s, rest).
Proof. exact path_roundtrip. Qed.
Print Assumptions C04_ninja_rt.

(* the guard is satisfiable by a name full of special characters *)
Example C04_target_ok_nonvacuous :
  target_ok (fun _ => false) (STR "my file: a#b (1) {x} @+,!&~.c") = true /\
  dep_ok (fun _ => false) (STR "my file: a#b|c (1) {x} @+,!&~.c") = true.
Proof. split; reflexivity. Qed.

(* the ambiguity that forces the guard of C04_escape_injective *)
Example C04_escape_collision_with_backslash :
  bs_esc_top (target_special (fun _ => false)) (STR "~x") = bs_esc_top (target_special (fun _ => false)) (c_bs :: STR "~x").
Proof. reflexivity. Qed.
