(* C05 - Distinct inputs never collide on one output path; outputs stay in builddir.
   Only statements; proofs live in theories/Path/WithinProofs.v.
   Model: theories/Path/Within.v.  [within fixed d p] is within_directory(p, d); fixed = true is the
   regular expression of /repo since 7c2d988, fixed = false the one before (unescaped dots).
   Guards: wf_comps = what the Path constructor guarantees (components non-empty, not . or ..);
   reserved_free = no component is the reserved name PAR or PAR followed by a line feed. *)
From Coq Require Import String.
From BFG Require Import Base.Chars Path.Within Path.WithinProofs.
From BFG Require Import Make.MakeWrite Make.MakeNamesProofs Ninja.NinjaWrite Path.EmitGlue.
Local Open Scope list_scope.

(* within_directory is injective (current regular expression) *)
Theorem C05_within_injective : forall d p1 p2 q,
  wf_comps (pcomps p1) -> wf_comps (pcomps p2) ->
  reserved_free (pcomps p1) -> reserved_free (pcomps p2) ->
  within true d p1 = Ok q -> within true d p2 = Ok q -> p1 = p2.
Proof. exact within_injective. Qed.
Print Assumptions C05_within_injective.

(* with the unescaped dots it is not: every 2-character component collapses to PAR (DESIGN 7.1) *)
Theorem C05_within_injective_refuted :
  exists d p1 p2 q, p1 <> p2 /\ wf_comps (pcomps p1) /\ wf_comps (pcomps p2) /\
                    reserved_free (pcomps p1) /\ reserved_free (pcomps p2) /\
                    within false d p1 = Ok q /\ within false d p2 = Ok q.
Proof.
  exists (P RBuild [STR "prog.int"]), (P RBuild [STR "ab"; STR "x"]), (P RBuild [STR "cd"; STR "x"]),
         (P RBuild [STR "prog.int"; STR "PAR"; STR "x"]).
  split; [discriminate|].
  repeat split; try (repeat constructor; discriminate); try (cbv; intuition discriminate).
Qed.
Print Assumptions C05_within_injective_refuted.

(* the result lies below the directory, in its root, and nothing is left to normalise *)
Theorem C05_within_inside : forall d p q,
  proot p <> RAbs -> wf_comps (pcomps p) -> within true d p = Ok q ->
  proot q = proot d /\ exists t, pcomps q = pcomps d ++ t /\ wf_comps t.
Proof. exact within_inside. Qed.
Print Assumptions C05_within_inside.

(* sources with different (absoluteness, directory components, stem) get different objects,
   with (d = Some intdir) and without (d = None) intermediate directories *)
Theorem C05_objects_distinct : forall d s1 s2 o1 o2,
  (match d with Some d => wf_comps (pcomps d) | None => True end) ->
  wf_comps (pcomps s1) -> wf_comps (pcomps s2) ->
  reserved_free (stripext (pcomps s1)) -> reserved_free (stripext (pcomps s2)) ->
  src_name s1 <> src_name s2 ->
  object_of true d s1 = Ok o1 -> object_of true d s2 = Ok o2 -> o1 <> o2.
Proof. exact objects_distinct. Qed.
Print Assumptions C05_objects_distinct.

(* differing in a directory component or in the stem is enough *)
Theorem C05_differ_in_dir_or_stem : forall s1 s2,
  pcomps s1 <> [] -> pcomps s2 <> [] -> differ_in_dir_or_stem s1 s2 -> src_name s1 <> src_name s2.
Proof.
  intros s1 s2 N1 N2 D E. apply (differ_stripext s1 s2 N1 N2 D). unfold src_name in E. congruence.
Qed.
Print Assumptions C05_differ_in_dir_or_stem.

(* lex sources (translated to <suffix>.yy.c first): sources with different (absoluteness, directory
   components, stem) get different generated sources, with and without a directory *)
Theorem C05_lex_sources_distinct : forall d s1 s2 o1 o2,
  (match d with Some d => wf_comps (pcomps d) | None => True end) ->
  wf_comps (pcomps s1) -> wf_comps (pcomps s2) -> pcomps s1 <> nil -> pcomps s2 <> nil ->
  reserved_free (lex_name (pcomps s1)) -> reserved_free (lex_name (pcomps s2)) ->
  src_name s1 <> src_name s2 ->
  lex_source_of true d s1 = Ok o1 -> lex_source_of true d s2 = Ok o2 -> o1 <> o2.
Proof. exact lex_sources_distinct. Qed.
Print Assumptions C05_lex_sources_distinct.

(* a/scan.l and b/scan.l of one target keep their directories below the intermediate directory *)
Example ex_lex_same_basename :
  lex_source_of true (Some (P RBuild [STR "prog.int"])) (P RSrc [STR "a"; STR "scan.l"]) = Ok (P RBuild [STR "prog.int"; STR "a"; STR "scan.yy.c"]) /\
  lex_source_of true (Some (P RBuild [STR "prog.int"])) (P RSrc [STR "b"; STR "scan.l"]) = Ok (P RBuild [STR "prog.int"; STR "b"; STR "scan.yy.c"]).
Proof. split; vm_compute; reflexivity. Qed.

(* two steps naming one output: the emitter answers with an error, never with a list of rules *)
Theorem C05_ext_only_collision_rejected : forall (T : Type) (esc : T -> str) mk steps a b c s1 s2 o,
  steps = a ++ s1 :: b ++ s2 :: c -> In o s1 -> In o s2 ->
  (exists k, emit_paths esc mk steps = EDup k) \/ emit_paths esc mk steps = EEmpty.
Proof. exact @emit_same_output_rejected. Qed.
Print Assumptions C05_ext_only_collision_rejected.

Theorem C05_twice_in_one_step_rejected : forall (T : Type) (esc : T -> str) mk steps a c s,
  steps = a ++ s :: c -> ~ NoDup s -> forall rules, emit_paths esc mk steps <> EOk rules.
Proof. exact @emit_twice_in_one_step_rejected. Qed.
Print Assumptions C05_twice_in_one_step_rejected.

(* what is emitted: every step once, in order, all outputs pairwise distinct *)
Theorem C05_emitted_outputs_distinct : forall (T : Type) (esc : T -> str) mk steps rules,
  emit_paths esc mk steps = EOk rules -> rules = map (map esc) steps /\ NoDup (concat steps).
Proof. exact @emit_ok_distinct. Qed.
Print Assumptions C05_emitted_outputs_distinct.

(* no false rejection, given an injective escaping (hypothesis; shown under C04) *)
Theorem C05_distinct_outputs_accepted : forall (T : Type) (esc : T -> str) mk steps,
  (forall x y, esc x = esc y -> x = y) ->
  NoDup (concat steps) -> Forall (fun s => s <> []) steps ->
  emit_paths esc mk steps = EOk (map (map esc) steps).
Proof. exact @emit_distinct_accepted. Qed.
Print Assumptions C05_distinct_outputs_accepted.

(* ---- glue C05 <- C04: the injectivity hypothesis discharged for the keys the two emitters really use ----
   Makefile.rule keys a target by _target_str = Writer.write(name, Syntax.target), NinjaFile.build keys an output
   by _output_str = Writer.write(name, Syntax.output).  On a plain string these are the C04 writers
   (Make/MakeWrite.v escape_str, Ninja/NinjaWrite.v nj_escape_str); a line feed raises before any key exists. *)
Theorem C05_make_target_key : forall uw us s m,
  has_nl s = false ->
  escape_str us s SynTarget = Some (make_target_esc us s) /\
  write uw us (MStr s) SynTarget m = Some (make_target_esc us s, false) /\
  make_target_esc us s = bs_esc_top (target_special us) (dollar_esc s).
Proof.
  intros uw us s m H. split; [exact (make_target_esc_is_escape_str us s H)|].
  split; [exact (make_target_esc_is_write uw us s m H)|reflexivity].
Qed.
Print Assumptions C05_make_target_key.

Theorem C05_ninja_output_key : forall uw s,
  has_nl s = false ->
  nj_escape_str s NOutput = Some (nj_path_esc s) /\ nwrite uw (NStr s) NOutput = Some (nj_path_esc s, false).
Proof. intros uw s H. split; [exact (nj_path_esc_is_escape_str s H)|exact (nj_path_esc_is_write uw s H)]. Qed.
Print Assumptions C05_ninja_output_key.

(* Make: the target key is injective on names that do not begin with a backslash (C04_dollar_injective composed with
   C04_escape_injective; the class of escaped characters never contains the backslash), for every classification
   of the non-ASCII blanks *)
Theorem C05_make_target_key_injective : forall us a b,
  hd_not_bs a = true -> hd_not_bs b = true -> make_target_esc us a = make_target_esc us b -> a = b.
Proof. exact make_target_esc_injective. Qed.
Print Assumptions C05_make_target_key_injective.

(* Ninja: the output key is injective on every string *)
Theorem C05_ninja_output_key_injective : forall a b, nj_path_esc a = nj_path_esc b -> a = b.
Proof. exact nj_path_esc_injective. Qed.
Print Assumptions C05_ninja_output_key_injective.

(* no false rejection, with no hypothesis about the escaping left.  Make: the names must not begin with a backslash
   (Path objects never contain one: the constructor rewrites it to a separator) *)
Theorem C05_distinct_outputs_accepted_make : forall us (steps : list (list str)),
  Forall (fun n => hd_not_bs n = true) (concat steps) ->
  NoDup (concat steps) -> Forall (fun s => s <> []) steps ->
  emit_paths (make_target_esc us) true steps = EOk (map (map (make_target_esc us)) steps).
Proof. exact make_distinct_accepted. Qed.
Print Assumptions C05_distinct_outputs_accepted_make.

(* Ninja: every list of steps with pairwise distinct outputs (a build statement may have none) *)
Theorem C05_distinct_outputs_accepted_ninja : forall (steps : list (list str)),
  NoDup (concat steps) -> emit_paths nj_path_esc false steps = EOk (map (map nj_path_esc) steps).
Proof. exact ninja_distinct_accepted. Qed.
Print Assumptions C05_distinct_outputs_accepted_ninja.

(* the Make guard is needed: the alternative ^~ of the escaping expression writes a leading tilde as
   backslash-tilde, and a name that itself begins with backslash-tilde is written the same way (its backslash is not
   followed by an escaped character, so it stays single): the two distinct plain-string targets  ~x  and  \~x  are
   rejected as one (C04_escape_collision_with_backslash; reachable with str targets only, not with Path objects) *)
Theorem C05_distinct_outputs_make_backslash_refuted : exists steps k,
  NoDup (concat steps) /\ Forall (fun s => s <> []) steps /\
  ~ Forall (fun n => hd_not_bs n = true) (concat steps) /\
  emit_paths (make_target_esc (fun _ => false)) true steps = EDup k.
Proof.
  exists [[STR "~x"]; [c_bs :: STR "~x"]], (c_bs :: STR "~x").
  split; [repeat constructor; cbn; intuition discriminate|].
  split; [repeat constructor; discriminate|].
  split; [|vm_compute; reflexivity].
  intros H. inversion H as [|? ? _ H']. inversion H' as [|? ? Hx _]. discriminate Hx.
Qed.
Print Assumptions C05_distinct_outputs_make_backslash_refuted.

(* implicitly named objects of non-absolute sources: build root, normalised, no parent reference *)
Theorem C05_outputs_in_builddir : forall d s o,
  (match d with Some d => proot d = RBuild /\ wf_comps (pcomps d) | None => True end) ->
  proot s <> RAbs -> wf_comps (pcomps s) ->
  object_of true d s = Ok o -> proot o = RBuild /\ wf_comps (pcomps o).
Proof. exact objects_in_builddir. Qed.
Print Assumptions C05_outputs_in_builddir.

(* directories and names given relative to a submodule: below the build root or an error *)
Theorem C05_buildpath_inside : forall strict base raw q,
  buildpath strict base false raw = Ok q -> proot q = RBuild /\ wf_comps (pcomps q).
Proof. exact buildpath_inside. Qed.
Print Assumptions C05_buildpath_inside.

Theorem C05_relname_inside : forall base raw q,
  relname base false raw = Ok q -> proot q = RBuild /\ wf_comps (pcomps q).
Proof. exact relname_inside. Qed.
Print Assumptions C05_relname_inside.

Theorem C05_submodule_outputs : forall strict base name,
  wf_comps base -> wf_comps name -> buildpath strict base false name = Ok (P RBuild (base ++ name)).
Proof. exact buildpath_submodule. Qed.
Print Assumptions C05_submodule_outputs.

(* ---- non-vacuity: the hypotheses are satisfiable on non-trivial inputs ---- *)
Definition d_sub : path := P RBuild [STR "sub"; STR "prog.int"].

(* a source outside the submodule: the parent reference is rewritten *)
Example ex_within_par :
  within true d_sub (P RBuild [STR "other"; STR "b1"]) = Ok (P RBuild [STR "sub"; STR "prog.int"; STR "PAR"; STR "other"; STR "b1"]).
Proof. vm_compute. reflexivity. Qed.

Example ex_two_char_kept :
  within true d_sub (P RBuild [STR "sub"; STR "ab"; STR "x"]) = Ok (P RBuild [STR "sub"; STR "prog.int"; STR "ab"; STR "x"]).
Proof. vm_compute. reflexivity. Qed.

(* b1.c and b2.c of one target (the 7.1 input): distinct objects now, one object before the fix *)
Example ex_b1_b2_fixed :
  object_of true (Some (P RBuild [STR "libb.int"])) (P RSrc [STR "b1.c"]) = Ok (P RBuild [STR "libb.int"; STR "b1.o"]) /\
  object_of true (Some (P RBuild [STR "libb.int"])) (P RSrc [STR "b2.c"]) = Ok (P RBuild [STR "libb.int"; STR "b2.o"]).
Proof. split; vm_compute; reflexivity. Qed.

Example ex_b1_b2_unfixed :
  object_of false (Some (P RBuild [STR "libb.int"])) (P RSrc [STR "b1.c"]) =
  object_of false (Some (P RBuild [STR "libb.int"])) (P RSrc [STR "b2.c"]).
Proof. vm_compute. reflexivity. Qed.

(* equal stems with different extensions collide, and the emitter rejects the second rule *)
Example ex_ext_only :
  object_of true None (P RSrc [STR "a"; STR "x.c"]) = object_of true None (P RSrc [STR "a"; STR "x.cpp"]) /\
  emit true [[STR "a/x.o"]; [STR "b.o"]; [STR "a/x.o"]] = EDup (STR "a/x.o").
Proof. split; vm_compute; reflexivity. Qed.

Example ex_guards_hold :
  wf_comps [STR "other"; STR "b1"] /\ reserved_free [STR "other"; STR "b1"] /\
  differ_in_dir_or_stem (P RSrc [STR "ab"; STR "x.c"]) (P RSrc [STR "cd"; STR "x.c"]).
Proof.
  split; [repeat constructor; discriminate|]. split; [split; cbv; intuition discriminate|].
  left. discriminate.
Qed.

(* leaving the root from a submodule is an error; staying inside is normalised *)
Example ex_buildpath :
  buildpath true [STR "sub"] false [STR ".."; STR ".."; STR "x"] = ErrValue /\
  buildpath true [STR "sub"; STR "deep"] false [STR ".."; STR "x"; STR "."; STR "y"] = Ok (P RBuild [STR "sub"; STR "x"; STR "y"]).
Proof. split; vm_compute; reflexivity. Qed.

(* an absolute source stays absolute: the reason for the guard proot s <> RAbs (finding C05-absolute-source-path) *)
Example ex_absolute_escapes :
  object_of true (Some (P RBuild [STR "prog.int"])) (P RAbs [STR "ext"; STR "abs.c"]) = Ok (P RAbs [STR "ext"; STR "abs.o"]).
Proof. vm_compute. reflexivity. Qed.

(* the glue theorems on names full of escaped characters (the names of the W:emit stage): guards hold, both emitters
   accept, and the keys differ from the names *)
Definition ex_steps : list (list str) :=
  [[STR "a b.o"; STR "x$y"]; [STR "ab:c"]; [STR "a#b"; STR "a%b"; STR "~x"]; [STR "p.int/a.o"]].
Example ex_emit_glue :
  Forall (fun n => hd_not_bs n = true) (concat ex_steps) /\ NoDup (concat ex_steps) /\
  Forall (fun s => s <> []) ex_steps /\
  emit_paths (make_target_esc (fun _ => false)) true ex_steps =
    EOk [[STR "a\ b.o"; STR "x$$y"]; [STR "ab\:c"]; [STR "a\#b"; STR "a\%b"; STR "\~x"]; [STR "p.int/a.o"]] /\
  emit_paths nj_path_esc false ex_steps =
    EOk [[STR "a$ b.o"; STR "x$$y"]; [STR "ab$:c"]; [STR "a#b"; STR "a%b"; STR "~x"]; [STR "p.int/a.o"]].
Proof.
  assert (G : Forall (fun n => hd_not_bs n = true) (concat ex_steps)) by (repeat constructor).
  assert (N : NoDup (concat ex_steps)) by (repeat constructor; cbn; intuition discriminate).
  assert (E : Forall (fun s => s <> []) ex_steps) by (repeat constructor; discriminate).
  split; [exact G|]. split; [exact N|]. split; [exact E|]. split.
  - rewrite (C05_distinct_outputs_accepted_make _ _ G N E). vm_compute. reflexivity.
  - rewrite (C05_distinct_outputs_accepted_ninja _ N). vm_compute. reflexivity.
Qed.
