(* C05 - Distinct inputs never collide on one output path; outputs stay in builddir.
   Only statements; proofs live in theories/Path/WithinProofs.v. *)
From Coq Require Import String.
From BFG Require Import Base.Chars Path.Within.
Local Open Scope list_scope.

Theorem C05_within_injective_refuted :
  exists d p1 p2, p1 <> p2 /\ ~ In PAR (pcomps p1) /\ ~ In PAR (pcomps p2) /\
                  within false d p1 = within false d p2 /\ exists q, within false d p1 = Ok q.
Proof.
  exists (P RBuild [STR "prog.int"]), (P RBuild [STR "ab"; STR "x"]), (P RBuild [STR "cd"; STR "x"]).
  split; [discriminate|]. split; [cbv; intuition discriminate|]. split; [cbv; intuition discriminate|].
  split; [vm_compute; reflexivity|]. eexists. vm_compute. reflexivity.
Qed.
Print Assumptions C05_within_injective_refuted.
