(* C06 - Make, Ninja and compile_commands.json describe the same build: the flag-assembly core, the dependency
   relation and targets of the two build files, and (last part) the argument list of a compile / link step across
   all three emitters.  Working directory, environment and the steps outside the modelled domain are decided by
   the system-level translation validation in harness/c06.py. *)
From BFG Require Import Base.Chars Shell.PosixQuote Shell.Sh Make.MakeWrite Make.MakeRead
  Ninja.NinjaWrite Ninja.NinjaRead Graph.BackendAgree Graph.Steps Graph.Emit Graph.EmitProofs.
From BFG Require Make.MakeTVars Graph.FlagsVars Graph.FlagsVarsProofs.

(* Make: GLOBAL_X := g ; tgt: X := $(GLOBAL_X) t ; a recipe reference to X delivers g ++ t *)
Theorem C06_make_flags : forall uw us v gname g t text_g text_t,
  name_ok gname = true ->
  write_value uw us (words_items g) SynShell = Some text_g ->
  write_value uw us (make_target_items gname t) SynShell = Some text_t ->
  match assign_value v text_g with
  | Some vg => match assign_value (upd v gname vg) text_t with
               | Some vt => sh_words uw vt
               | None => None
               end
  | None => None
  end = Some (g ++ t).
Proof. exact make_flags_words. Qed.
Print Assumptions C06_make_flags.

(* Ninja: global_x = g ; edge binding x = ${global_x} t evaluates to text that sh splits into g ++ t *)
Theorem C06_ninja_flags : forall uw env gname g t text_t,
  name_ok gname = true ->
  env gname = join uw g ->
  nwrite_each uw (ninja_edge_items gname t) NShell = Some text_t ->
  match option_map (neval env) (lex_value text_t) with
  | Some vt => sh_words uw vt
  | None => None
  end = Some (g ++ t).
Proof. exact ninja_flags_words. Qed.
Print Assumptions C06_ninja_flags.

(* all three backends hand the tool the same flag words (compdb stores g ++ t as a JSON list) *)
Theorem C06_backends_agree_on_flags : forall uw us v env gname g t text_g text_tm text_tn,
  name_ok gname = true ->
  write_value uw us (words_items g) SynShell = Some text_g ->
  write_value uw us (make_target_items gname t) SynShell = Some text_tm ->
  env gname = join uw g ->
  nwrite_each uw (ninja_edge_items gname t) NShell = Some text_tn ->
  let via_make := match assign_value v text_g with
                  | Some vg => match assign_value (upd v gname vg) text_tm with
                               | Some vt => sh_words uw vt | None => None end
                  | None => None end in
  let via_ninja := match option_map (neval env) (lex_value text_tn) with
                   | Some vt => sh_words uw vt | None => None end in
  via_make = Some (compdb_flags g t) /\ via_ninja = Some (compdb_flags g t).
Proof. exact backends_agree_on_flags. Qed.
Print Assumptions C06_backends_agree_on_flags.

(* C06_make_flags reads the two lines  GLOBAL_X := g ; tgt: X := $(GLOBAL_X) t  in isolation.  In a whole Makefile the
   recipe of a target sees X through GNU Make's lookup (own target-specific, own pattern-specific, inherited from the
   dependent on whose behalf it is built, global: Make/MakeTVars.v).  With the lines flags_vars and the rule handlers
   write (Graph/FlagsVars.v, the pattern-specific line  %: X := $(GLOBAL_X)  included) every target - with or without
   own values, as a goal or as a prerequisite of any chain of dependents - gets the words compile_commands.json and
   Ninja (edge-local bindings, no inheritance) give it.  Corollary of C01_flags_goal_independent, with its guard: no ; in
   the text of a written target-specific line (the complement is a Make / Ninja disagreement: C01_flags_target_semicolon_refuted). *)
Theorem C06_make_flags_any_goal : forall uw us fname g own written defs gl st,
  name_ok fname = true ->
  NoDup (map fst own) ->
  FlagsVars.flag_defs uw us true fname (words_items g) (FlagsVars.own_items own) = Some written ->
  forallb FlagsVars.tline_plain written = true ->
  filter (FlagsVarsProofs.about (FlagsVars.global_name fname) fname) defs = written ->
  MakeTVars.read_defs (MakeTVars.mkVS gl [] []) defs = Some st ->
  forall t chain,
    sh_words uw (MakeTVars.lookup st fname t chain) = Some (compdb_flags g (FlagsVars.own_words own t)).
Proof. exact FlagsVarsProofs.flags_goal_independent. Qed.
Print Assumptions C06_make_flags_any_goal.

Local Open Scope N_scope.
(* ====================================================================== dependency relation and targets (phase 2)
   over the emitter model Graph/Emit.v (the Rule / Build tuples the real handlers register; tie: harness/c06.py stage
   W:emit shares harness/c03.py's comparison of real Edge objects with the model). *)

(* for every step of a shape the builtins create and each output: the Make and the Ninja emitter give its producing
   rule the same prerequisite set (stamp / phony alias followed, .dir sentinels and PHONY dropped) *)
Theorem C06_deps : forall fx has st rs o,
  shape_ok st = true -> NoDup (outs st) -> emit_make_step fx st = Some rs -> In o (outs st) ->
  exists lm ln, make_prereqs rs o = Some lm /\ ninja_prereqs (fst (emit_ninja_step has st)) o = Some ln /\
                set_eq lm ln.
Proof. exact backends_same_deps. Qed.
Print Assumptions C06_deps.

(* for every script the Make emitter accepts: the buildable (non-internal) targets of the two emitters coincide -
   every step output, all, tests, test, install, uninstall; .stamp, .dir and PHONY are internal *)
Theorem C06_targets : forall fx sc rs,
  emit_make fx sc = Some rs -> set_eq (make_buildable rs) (ninja_buildable (emit_ninja sc)).
Proof. exact backends_same_targets. Qed.
Print Assumptions C06_targets.

(* non-vacuity: a script with a two-output generated source (stamp in Make, phony alias in Ninja), a phony command,
   tests and install *)
Definition ex06_script : script :=
  mkScript [mkStep KCompile [mkOut 10 1; mkOut 11 1] (Some 1) None None [] [] [] [] [] [] [2] false true;
            mkStep KCommand [mkOut 12 0] None None None [] [] [] [10] [] [] [3] true false]
           100 101 102 103 104 [10] (Some ([10], [])) true true.
Example ex06_targets : forall fx,
  exists rs, emit_make fx ex06_script = Some rs /\
    make_buildable rs = [100; 10; 11; 12; 101; 102; 103; 104] /\
    ninja_buildable (emit_ninja ex06_script) = [100; 11; 10; 12; 101; 102; 103; 104] /\
    In (mkM [NStamp 10] [NF 1; NF 2] [NDir 1] true false) rs /\
    In (mkNB [NPhony] true [] [] []) (emit_ninja ex06_script).
Proof. intros fx. eexists. split; [reflexivity|]. repeat split; cbn; tauto. Qed.

(* ====================================================================== the third emitter: compile_commands.json
   Graph/CompDB.v models CompDB._stringify / _stringify_arguments / append and the handlers compdb_compile /
   compdb_link, and the command line make_compile / make_link resp. ninja_compile / ninja_link write for the same
   step (tie: harness/c06.py stages W:compdb ...).  Modelled domain of the agreement theorems: tool command, always
   flags, global and per-target flags (and libraries) are plain words; the source is a srcdir path, outputs and link
   inputs are builddir paths.  Documented differences, all explicit in the statements:
   - Ninja only: the colour flag ([color], appended to the always flags);
   - path spelling: a srcdir path is the value of srcdir + separator + suffix in all three (Make and Ninja get it by
     expanding their srcdir variable, compdb from env.base_dirs); a builddir path is its suffix in compdb
     (os.path.relpath to the build directory, [bld_spelling]), the target name in Make ($@) and Ninja (${out}); the link
     inputs, which Make passes in shell position, get ./ in front of a suffix without separator ([make_bld_spelling]);
   - depfile handling: -MMD -MF out.d is part of all three command lines; Make's second recipe line (depfixer) and
     Ninja's depfile / deps bindings are not commands of the step.
   Guards: no single quote in the names Make puts between quotes (open finding C04-make-squote-autovar); builddir is an
   absolute normalised directory other than the root and the suffixes are normalised ([bld_rel_ok], C12). *)
From BFG Require Import Path.PathAlg Path.PathAlgProofs Graph.CompDB Graph.CompDBProofs Make.MakeProofs.
From Coq Require Import String.

(* Make: the words sh obtains from the define body line, expanded in the variable context of the recipe (tool variable and
   flag variable assigned from the written texts as in C06_make_flags, $< and $@ bound by Make), are the compdb arguments *)
Theorem C06_compdb_agrees_make : forall uw us d v (ve : vars) cname gname fname cmd always color g t isfx osfx deps
    text_cc text_g text_t body,
  name_ok cname = true -> name_ok gname = true -> name_ok fname = true ->
  write_value uw us (words_items cmd) SynShell = Some text_cc ->
  write_value uw us (words_items g) SynShell = Some text_g ->
  write_value uw us (make_target_items gname t) SynShell = Some text_t ->
  write_each uw us (mk_compile_items cname fname always deps) SynShell = Some body ->
  assign_value v text_cc = Some (ve cname) ->
  (exists vg, assign_value v text_g = Some vg /\ assign_value (upd v gname vg) text_t = Some (ve fname)) ->
  ve [c_lt] = base_join (d_src d) isfx -> ve [c_at] = osfx ->
  no_sq (base_join (d_src d) isfx) = true -> no_sq osfx = true ->
  bld_rel_ok d osfx -> (deps = true -> bld_rel_ok d (osfx ++ s_dotd)) ->
  let st := mkCompile cmd always color (wds g) (wds t) (RSrc, isfx) osfx deps in
  let W := compile_words cmd always g t (base_join (d_src d) isfx) osfx (if deps then Some (osfx ++ s_dotd) else None) in
  exists line, expand ve body = Some line /\ sh_words uw line = Some W /\ arguments d (compile_args false st) = Some W.
Proof. exact compdb_agrees_make_compile. Qed.
Print Assumptions C06_compdb_agrees_make.

(* Ninja: the rule command, lexed and evaluated in the edge scope (tool and flag bindings evaluated from the written
   texts as in C06_ninja_flags, in / out as Ninja escapes them), is split by sh into the compdb arguments of a Ninja
   configuration - which contain the colour flag *)
Theorem C06_compdb_agrees_ninja : forall uw d (env0 env : nenv) cname gname fname cmd always color g t isfx osfx deps
    text_cc text_t body,
  name_ok cname = true -> name_ok gname = true -> name_ok fname = true ->
  nwrite_each uw (nwords_items cmd) NShell = Some text_cc ->
  nwrite_each uw (ninja_edge_items gname t) NShell = Some text_t ->
  nwrite_each uw (nj_compile_items cname fname (always ++ color) deps) NShell = Some body ->
  env0 gname = join uw g ->
  option_map (neval env0) (lex_value text_cc) = Some (env cname) ->
  option_map (neval env0) (lex_value text_t) = Some (env fname) ->
  env s_in = nj_in_out [base_join (d_src d) isfx] -> env s_out = nj_in_out [osfx] ->
  base_join (d_src d) isfx <> [] -> osfx <> [] ->
  bld_rel_ok d osfx -> (deps = true -> bld_rel_ok d (osfx ++ s_dotd)) ->
  let st := mkCompile cmd always color (wds g) (wds t) (RSrc, isfx) osfx deps in
  let W := compile_words cmd (always ++ color) g t (base_join (d_src d) isfx) osfx
             (if deps then Some (osfx ++ s_dotd) else None) in
  exists ts, lex_value body = Some ts /\ sh_words uw (neval env ts) = Some W /\
             arguments d (compile_args true st) = Some W.
Proof. exact compdb_agrees_ninja_compile. Qed.
Print Assumptions C06_compdb_agrees_ninja.

(* link steps (cc linker): flags, inputs, libraries, output in the order of CcLinker._call.  Make passes the inputs as
   the first call parameter, spelled with ./ where the suffix has no separator; compdb spells them without *)
Theorem C06_compdb_agrees_make_link : forall uw us d v (ve : vars) cname gname fname glname lname cmd always g t gl tl
    fsfxs ul osfx text_cc text_g text_t text_gl text_tl body,
  name_ok cname = true -> name_ok gname = true -> name_ok fname = true -> name_ok glname = true -> name_ok lname = true ->
  write_value uw us (words_items cmd) SynShell = Some text_cc ->
  write_value uw us (words_items g) SynShell = Some text_g ->
  write_value uw us (make_target_items gname t) SynShell = Some text_t ->
  write_value uw us (words_items gl) SynShell = Some text_gl ->
  write_value uw us (make_target_items glname tl) SynShell = Some text_tl ->
  write_each uw us (mk_link_items cname fname lname always) SynShell = Some body ->
  assign_value v text_cc = Some (ve cname) ->
  (exists vg, assign_value v text_g = Some vg /\ assign_value (upd v gname vg) text_t = Some (ve fname)) ->
  (exists vg, assign_value v text_gl = Some vg /\ assign_value (upd v glname vg) text_tl = Some (ve lname)) ->
  sh_words uw (ve [c_one]) = Some (map make_bld_spelling fsfxs) ->
  ve [c_at] = osfx -> no_sq osfx = true ->
  bld_rel_ok d osfx -> Forall (bld_rel_ok d) fsfxs ->
  let st := mkLink false cmd always (wds g) (wds t) (wds gl) (wds tl) (map (fun s => (RBld, s)) fsfxs) ul osfx in
  exists line, expand ve body = Some line /\
    sh_words uw line = Some (link_words cmd always g t (map make_bld_spelling fsfxs) gl tl osfx) /\
    arguments d (link_args st) = Some (link_words cmd always g t fsfxs gl tl osfx).
Proof. exact compdb_agrees_make_link. Qed.
Print Assumptions C06_compdb_agrees_make_link.

Theorem C06_compdb_agrees_ninja_link : forall uw d (env0 env : nenv) cname gname fname glname lname cmd always g t gl tl
    fsfxs ul osfx text_cc text_t text_tl body,
  name_ok cname = true -> name_ok gname = true -> name_ok fname = true -> name_ok glname = true -> name_ok lname = true ->
  nwrite_each uw (nwords_items cmd) NShell = Some text_cc ->
  nwrite_each uw (ninja_edge_items gname t) NShell = Some text_t ->
  nwrite_each uw (ninja_edge_items glname tl) NShell = Some text_tl ->
  nwrite_each uw (nj_link_items cname fname lname always) NShell = Some body ->
  env0 gname = join uw g -> env0 glname = join uw gl ->
  option_map (neval env0) (lex_value text_cc) = Some (env cname) ->
  option_map (neval env0) (lex_value text_t) = Some (env fname) ->
  option_map (neval env0) (lex_value text_tl) = Some (env lname) ->
  env s_in = nj_in_out fsfxs -> env s_out = nj_in_out [osfx] ->
  osfx <> [] -> bld_rel_ok d osfx -> Forall (bld_rel_ok d) fsfxs ->
  let st := mkLink false cmd always (wds g) (wds t) (wds gl) (wds tl) (map (fun s => (RBld, s)) fsfxs) ul osfx in
  let W := link_words cmd always g t fsfxs gl tl osfx in
  exists ts, lex_value body = Some ts /\ sh_words uw (neval env ts) = Some W /\ arguments d (link_args st) = Some W.
Proof. exact compdb_agrees_ninja_link. Qed.
Print Assumptions C06_compdb_agrees_ninja_link.

(* the spelling of a builddir path in compdb is its suffix; Make / Ninja in shell position write it with at most ./ in front *)
Theorem C06_compdb_build_spelling : forall d sfx, bld_rel_ok d sfx ->
  stringify_path d RBld sfx = sfx /\
  (make_bld_spelling sfx = sfx \/ make_bld_spelling sfx = c_dot :: c_slash :: sfx).
Proof. exact build_spelling. Qed.
Print Assumptions C06_compdb_build_spelling.

(* the build directory itself (the empty suffix: the include directory of a header generated at the top of the build
   directory) is a single dot in all three, for every absolute normalised build directory other than the root *)
Theorem C06_compdb_build_root : forall d bc, d_bld d = render 1 bc -> bc <> [] -> normal bc ->
  stringify_path d RBld [] = dot /\ make_bld_spelling [] = dot.
Proof. exact build_root_spelling. Qed.
Print Assumptions C06_compdb_build_root.

(* a path inside a flag (-I and a srcdir directory): the compdb string is the word sh reads from the quoted unit Make and
   Ninja write, once the srcdir reference is replaced by the same directory (C01_path_unit) *)
Theorem C06_compdb_path_unit : forall uw d sfx, no_sq (d_src d) = true -> d_src d <> [] -> sfx <> [] ->
  sh_words uw (path_text (d_src d) (c_slash :: sfx)) = Some [stringify_path d RSrc sfx].
Proof. exact compdb_path_unit. Qed.
Print Assumptions C06_compdb_path_unit.

(* the command form (a shell_list, as copy_file and build_step hand over) is the sh-joined arguments form *)
Theorem C06_compdb_command_words : forall uw d args ws,
  arguments d args = Some ws -> command uw d args = Some (join uw ws) /\ sh_words uw (join uw ws) = Some ws.
Proof. exact command_words. Qed.
Print Assumptions C06_compdb_command_words.

(* outside the domain: a literal object among the arguments is not a JSON string - json.dump raises TypeError when
   compile_commands.json is written.  No builtin puts one into compile or link arguments (build scripts cannot create
   safe_str.literal), so this is a boundary of the model, not a finding. *)
Theorem C06_compdb_literal_refuted : exists d args, arguments d args = None.
Proof. exact arguments_literal_refuted. Qed.
Print Assumptions C06_compdb_literal_refuted.

(* ---- non-vacuity: a step with blanks, quotes, dollar signs and hashes in flags and file names, computed end to end ---- *)
Definition ex06_nu : char -> bool := fun _ => false.
Definition ex06_d : cdirs := mkDirs (STR "/s r/c$") (STR "/b d").
Definition ex06_cmd : list str := [STR "ccache"; STR "my cc"].
Definition ex06_g : list str := [STR "-DG=""a b"""; STR "-Dh#x"].
Definition ex06_t : list str := [STR "-DT=it's"; STR "-Dx=$y"; STR "-I"; STR "z w"].
Definition ex06_isfx : str := STR "sub dir/l$ib.c".
Definition ex06_osfx : str := STR "sub dir/lib.int/l$ib.o".
Definition ex06_W (color : list str) : list str :=
  compile_words ex06_cmd ([STR "-x"; STR "c"] ++ color) ex06_g ex06_t (STR "/s r/c$/sub dir/l$ib.c") ex06_osfx
    (Some (STR "sub dir/lib.int/l$ib.o.d")).

Example ex06_bld_ok : bld_rel_ok ex06_d ex06_osfx /\ bld_rel_ok ex06_d (ex06_osfx ++ s_dotd).
Proof.
  split.
  - exists [STR "b d"], [STR "sub dir"; STR "lib.int"; STR "l$ib.o"].
    repeat split; try discriminate; apply normalb_ok; reflexivity.
  - exists [STR "b d"], [STR "sub dir"; STR "lib.int"; STR "l$ib.o.d"].
    repeat split; try discriminate; apply normalb_ok; reflexivity.
Qed.

(* Make: texts written, variables assigned, body expanded, sh: the compdb arguments *)
Example ex06_compdb_make :
  let nu := ex06_nu in
  let st := mkCompile ex06_cmd [STR "-x"; STR "c"] [STR "-fdiagnostics-color"] (wds ex06_g) (wds ex06_t) (RSrc, ex06_isfx) ex06_osfx true in
  match make_compile_texts nu nu (STR "CC") (STR "GLOBAL_CFLAGS") (STR "CFLAGS") st with
  | [Some tcc; Some tg; Some ttv; Some body] =>
    match assign_value (fun _ => []) tcc, assign_value (fun _ => []) tg with
    | Some vcc, Some vg =>
      match assign_value (upd (fun _ => []) (STR "GLOBAL_CFLAGS") vg) ttv with
      | Some vt =>
        let ve := recipe_env (fun _ => []) [(STR "CC", vcc); (STR "CFLAGS", vt);
                                            ([c_lt], STR "/s r/c$/sub dir/l$ib.c"); ([c_at], ex06_osfx)] in
        match expand ve body with Some line => sh_words nu line | None => None end
      | None => None
      end
    | _, _ => None
    end
  | _ => None
  end = arguments ex06_d (compile_args false st) /\
  arguments ex06_d (compile_args false st) = Some (ex06_W []).
Proof. split; vm_compute; reflexivity. Qed.

Example ex06_compdb_ninja :
  let nu := ex06_nu in
  let st := mkCompile ex06_cmd [STR "-x"; STR "c"] [STR "-fdiagnostics-color"] (wds ex06_g) (wds ex06_t) (RSrc, ex06_isfx) ex06_osfx true in
  match ninja_compile_texts nu (STR "cc") (STR "global_cflags") (STR "cflags") st with
  | [Some tcc; Some tg; Some ttv; Some body] =>
    match lex_value tcc, lex_value tg, lex_value ttv, lex_value body with
    | Some kcc, Some kg, Some kt, Some kb =>
      let env0 := nenv_upd (fun _ => []) [(STR "global_cflags", neval (fun _ => []) kg)] in
      let env := nenv_upd env0 [(STR "cc", neval env0 kcc); (STR "cflags", neval env0 kt);
                                (s_in, nj_in_out [STR "/s r/c$/sub dir/l$ib.c"]); (s_out, nj_in_out [ex06_osfx])] in
      sh_words nu (neval env kb)
    | _, _, _, _ => None
    end
  | _ => None
  end = arguments ex06_d (compile_args true st) /\
  arguments ex06_d (compile_args true st) = Some (ex06_W [STR "-fdiagnostics-color"]).
Proof. split; vm_compute; reflexivity. Qed.

(* link: Make spells the slash-free input ./main.o, compdb main.o; nothing else differs *)
Example ex06_compdb_link :
  let d := ex06_d in
  let st := mkLink false [STR "cc"] [] (wds [STR "-L/x y"]) (wds [STR "-Wl,-rpath,$ORIGIN/sub dir"]) (wds [STR "-lm"]) (wds [STR "-l:a b"])
                   [(RBld, STR "main.o"); (RBld, STR "p.int/x y.o")] (RBld, []) (STR "prog") in
  arguments d (link_args st) =
    Some [STR "cc"; STR "-L/x y"; STR "-Wl,-rpath,$ORIGIN/sub dir"; STR "main.o"; STR "p.int/x y.o"; STR "-lm"; STR "-l:a b"; STR "-o"; STR "prog"] /\
  map make_bld_spelling [STR "main.o"; STR "p.int/x y.o"] = [STR "./main.o"; STR "p.int/x y.o"].
Proof. split; vm_compute; reflexivity. Qed.
