(* C06 - Make, Ninja and compile_commands.json describe the same build: the flag-assembly core.
   Everything else about C06 (targets, dependency relation, whole argv, cwd, environment) is decided by the
   system-level translation validation in harness/c06.py. *)
From BFG Require Import Base.Chars Shell.PosixQuote Shell.Sh Make.MakeWrite Make.MakeRead
  Ninja.NinjaWrite Ninja.NinjaRead Graph.BackendAgree.

(* Make: GLOBAL_X := g ; tgt: X := $(GLOBAL_X) t ; a recipe reference to X delivers g ++ t *)
Theorem C06_make_flags : forall uw us v gname g t text_g text_t,
  name_ok gname = true ->
  write_value uw us (words_items g) SynShell = Some text_g ->
  write_value uw us (make_target_items gname t) SynShell = Some text_t ->
  match assign_value v text_g with
  | Some vg => match assign_value (upd v gname vg) text_t with
               | Some vt => sh_words uw vt
               | None => None
               end
  | None => None
  end = Some (g ++ t).
Proof. exact make_flags_words. Qed.
Print Assumptions C06_make_flags.

(* Ninja: global_x = g ; edge binding x = ${global_x} t evaluates to text that sh splits into g ++ t *)
Theorem C06_ninja_flags : forall uw env gname g t text_t,
  name_ok gname = true ->
  env gname = join uw g ->
  nwrite_each uw (ninja_edge_items gname t) NShell = Some text_t ->
  match option_map (neval env) (lex_value text_t) with
  | Some vt => sh_words uw vt
  | None => None
  end = Some (g ++ t).
Proof. exact ninja_flags_words. Qed.
Print Assumptions C06_ninja_flags.

(* all three backends hand the tool the same flag words (compdb stores g ++ t as a JSON list) *)
Theorem C06_backends_agree_on_flags : forall uw us v env gname g t text_g text_tm text_tn,
  name_ok gname = true ->
  write_value uw us (words_items g) SynShell = Some text_g ->
  write_value uw us (make_target_items gname t) SynShell = Some text_tm ->
  env gname = join uw g ->
  nwrite_each uw (ninja_edge_items gname t) NShell = Some text_tn ->
  let via_make := match assign_value v text_g with
                  | Some vg => match assign_value (upd v gname vg) text_tm with
                               | Some vt => sh_words uw vt | None => None end
                  | None => None end in
  let via_ninja := match option_map (neval env) (lex_value text_tn) with
                   | Some vt => sh_words uw vt | None => None end in
  via_make = Some (compdb_flags g t) /\ via_ninja = Some (compdb_flags g t).
Proof. exact backends_agree_on_flags. Qed.
Print Assumptions C06_backends_agree_on_flags.
