(* C06 - Make, Ninja and compile_commands.json describe the same build: the flag-assembly core.
   Everything else about C06 (targets, dependency relation, whole argv, cwd, environment) is decided by the
   system-level translation validation in harness/c06.py. *)
From BFG Require Import Base.Chars Shell.PosixQuote Shell.Sh Make.MakeWrite Make.MakeRead
  Ninja.NinjaWrite Ninja.NinjaRead Graph.BackendAgree Graph.Steps Graph.Emit Graph.EmitProofs.

(* Make: GLOBAL_X := g ; tgt: X := $(GLOBAL_X) t ; a recipe reference to X delivers g ++ t *)
Theorem C06_make_flags : forall uw us v gname g t text_g text_t,
  name_ok gname = true ->
  write_value uw us (words_items g) SynShell = Some text_g ->
  write_value uw us (make_target_items gname t) SynShell = Some text_t ->
  match assign_value v text_g with
  | Some vg => match assign_value (upd v gname vg) text_t with
               | Some vt => sh_words uw vt
               | None => None
               end
  | None => None
  end = Some (g ++ t).
Proof. exact make_flags_words. Qed.
Print Assumptions C06_make_flags.

(* Ninja: global_x = g ; edge binding x = ${global_x} t evaluates to text that sh splits into g ++ t *)
Theorem C06_ninja_flags : forall uw env gname g t text_t,
  name_ok gname = true ->
  env gname = join uw g ->
  nwrite_each uw (ninja_edge_items gname t) NShell = Some text_t ->
  match option_map (neval env) (lex_value text_t) with
  | Some vt => sh_words uw vt
  | None => None
  end = Some (g ++ t).
Proof. exact ninja_flags_words. Qed.
Print Assumptions C06_ninja_flags.

(* all three backends hand the tool the same flag words (compdb stores g ++ t as a JSON list) *)
Theorem C06_backends_agree_on_flags : forall uw us v env gname g t text_g text_tm text_tn,
  name_ok gname = true ->
  write_value uw us (words_items g) SynShell = Some text_g ->
  write_value uw us (make_target_items gname t) SynShell = Some text_tm ->
  env gname = join uw g ->
  nwrite_each uw (ninja_edge_items gname t) NShell = Some text_tn ->
  let via_make := match assign_value v text_g with
                  | Some vg => match assign_value (upd v gname vg) text_tm with
                               | Some vt => sh_words uw vt | None => None end
                  | None => None end in
  let via_ninja := match option_map (neval env) (lex_value text_tn) with
                   | Some vt => sh_words uw vt | None => None end in
  via_make = Some (compdb_flags g t) /\ via_ninja = Some (compdb_flags g t).
Proof. exact backends_agree_on_flags. Qed.
Print Assumptions C06_backends_agree_on_flags.

Local Open Scope N_scope.
(* ====================================================================== dependency relation and targets (phase 2)
   over the emitter model Graph/Emit.v (the Rule / Build tuples the real handlers register; tie: harness/c06.py stage
   W:emit shares harness/c03.py's comparison of real Edge objects with the model). *)

(* for every step of a shape the builtins create and each output: the Make and the Ninja emitter give its producing
   rule the same prerequisite set (stamp / phony alias followed, .dir sentinels and PHONY dropped) *)
Theorem C06_deps : forall fx has st rs o,
  shape_ok st = true -> NoDup (outs st) -> emit_make_step fx st = Some rs -> In o (outs st) ->
  exists lm ln, make_prereqs rs o = Some lm /\ ninja_prereqs (fst (emit_ninja_step has st)) o = Some ln /\
                set_eq lm ln.
Proof. exact backends_same_deps. Qed.
Print Assumptions C06_deps.

(* for every script the Make emitter accepts: the buildable (non-internal) targets of the two emitters coincide -
   every step output, all, tests, test, install, uninstall; .stamp, .dir and PHONY are internal *)
Theorem C06_targets : forall fx sc rs,
  emit_make fx sc = Some rs -> set_eq (make_buildable rs) (ninja_buildable (emit_ninja sc)).
Proof. exact backends_same_targets. Qed.
Print Assumptions C06_targets.

(* non-vacuity: a script with a two-output generated source (stamp in Make, phony alias in Ninja), a phony command,
   tests and install *)
Definition ex06_script : script :=
  mkScript [mkStep KCompile [mkOut 10 1; mkOut 11 1] (Some 1) None None [] [] [] [] [] [] [2] false true;
            mkStep KCommand [mkOut 12 0] None None None [] [] [] [10] [] [] [3] true false]
           100 101 102 103 104 [10] (Some ([10], [])) true true.
Example ex06_targets : forall fx,
  exists rs, emit_make fx ex06_script = Some rs /\
    make_buildable rs = [100; 10; 11; 12; 101; 102; 103; 104] /\
    ninja_buildable (emit_ninja ex06_script) = [100; 11; 10; 12; 101; 102; 103; 104] /\
    In (mkM [NStamp 10] [NF 1; NF 2] [NDir 1] true false) rs /\
    In (mkNB [NPhony] true [] [] []) (emit_ninja ex06_script).
Proof. intros fx. eexists. split; [reflexivity|]. repeat split; cbn; tauto. Qed.
