(* C07 - Real-toolchain builds are incremental and survive header changes.
   Only statements; proofs live in theories/. *)
From Coq Require Import String List.
From BFG Require Import Base.Chars Misc.Depfix Misc.DepfixProofs.
Local Open Scope N_scope.

(* For every depfile text a gcc-style writer produces (target, dependencies with gcc's escaping of blank, hash and
   dollar, any line wrapping) from names inside the reader's fragment, the depfixer raises nothing and writes exactly
   one empty rule per dependency and nothing else; and GNU Make reads the fixed file (compiler's text followed by the
   depfixer's output, as  depfixer < f >> f  leaves it) as: the object's rule with the dependencies as
   prerequisites, then one rule without prerequisites per dependency, names unescaped. *)
Theorem C07_depfix_targets : forall tgt wdeps,
  name_ok tgt = true -> Forall (fun wd => name_ok (snd wd) = true) wdeps ->
  emit_deps (gcc_depfile tgt wdeps) = (concat (map (fun wd => munge (snd wd) ++ colon_nl) wdeps), None) /\
  mk_read (gcc_depfile tgt wdeps ++ fst (emit_deps (gcc_depfile tgt wdeps)))
  = Some (([tgt], map snd wdeps) :: map (fun wd => ([snd wd], [])) wdeps).
Proof. intros tgt wdeps Ht Hd. split; [exact (emit_deps_gcc tgt wdeps Ht Hd)|exact (read_fixed_depfile tgt wdeps Ht Hd)]. Qed.
Print Assumptions C07_depfix_targets.

(* the hypotheses are satisfiable on a non-trivial input: blank, hash, dollar, quote, comma, tilde inside, a wrap *)
Example C07_depfix_targets_ex :
  let wdeps := [(0%nat, STR "m.c"); (1%nat, STR "a b#c$d.h"); (2%nat, STR "x',~y.h")] in
  name_ok (STR "o ut.o") = true /\ forallb (fun wd => name_ok (snd wd)) wdeps = true /\
  mk_read (gcc_depfile (STR "o ut.o") wdeps ++ fst (emit_deps (gcc_depfile (STR "o ut.o") wdeps)))
  = Some (([STR "o ut.o"], map snd wdeps) :: map (fun wd => ([snd wd], [])) wdeps).
Proof. vm_compute. repeat split. Qed.

(* the same for a depfile holding several rules *)
Theorem C07_depfix_many : forall rules : list (str * list (nat * str)),
  Forall (fun r => name_ok (fst r) = true /\ Forall (fun wd => name_ok (snd wd) = true) (snd r)) rules ->
  emit_deps (concat (map (fun r => gcc_depfile (fst r) (snd r)) rules))
  = (concat (map (fun r => concat (map (fun wd => munge (snd wd) ++ colon_nl) (snd r))) rules), None).
Proof. exact emit_deps_gcc_many. Qed.
Print Assumptions C07_depfix_many.

(* error branches: the depfixer can only raise for a newline before the separator colon of a line, for a second
   separator colon in a line, or for end of input inside a rule *)
Theorem C07_depfix_total : forall s e, snd (emit_deps s) = Some e ->
  e = EEof \/ e = EUnexpected TNewline \/ e = EUnexpected TColon.
Proof. intros s e. exact (emit_err_kinds DTarget (tokenize s) e). Qed.
Print Assumptions C07_depfix_total.

(* names outside the guard really go wrong: the depfixer copies percent and equals unescaped, and Make does not
   read the resulting line as an explicit rule for that name (see findings C07-depfix-percent / -equals) *)
Example C07_depfix_percent_outside :
  emit_deps (gcc_depfile (STR "m.o") [(0%nat, STR "x%y.h")]) = (STR "x%y.h:" ++ [c_nl], None) /\
  mk_read (STR "x%y.h:" ++ [c_nl]) = None.
Proof. vm_compute. split; reflexivity. Qed.
