(* C07 - Real-toolchain builds are incremental and survive header changes.
   Only statements; proofs live in theories/. *)
From Coq Require Import String List.
From BFG Require Import Base.Chars Misc.Depfix Misc.DepfixProofs Make.MakeSem Make.MakeSemProofs Misc.DepHistory Misc.DepHistoryProofs.
Local Open Scope N_scope.

(* For every depfile text a gcc-style writer produces (target, dependencies with gcc's escaping of blank, hash and
   dollar, any line wrapping) from names inside the reader's fragment, the depfixer raises nothing and writes exactly
   one empty rule per dependency and nothing else; and GNU Make reads the fixed file (compiler's text followed by the
   depfixer's output, as  depfixer < f >> f  leaves it) as: the object's rule with the dependencies as
   prerequisites, then one rule without prerequisites per dependency, names unescaped. *)
Theorem C07_depfix_targets : forall tgt wdeps,
  name_ok tgt = true -> Forall (fun wd => name_ok (snd wd) = true) wdeps ->
  emit_deps (gcc_depfile tgt wdeps) = (concat (map (fun wd => munge (snd wd) ++ colon_nl) wdeps), None) /\
  mk_read (gcc_depfile tgt wdeps ++ fst (emit_deps (gcc_depfile tgt wdeps)))
  = Some (([tgt], map snd wdeps) :: map (fun wd => ([snd wd], [])) wdeps).
Proof. intros tgt wdeps Ht Hd. split; [exact (emit_deps_gcc tgt wdeps Ht Hd)|exact (read_fixed_depfile tgt wdeps Ht Hd)]. Qed.
Print Assumptions C07_depfix_targets.

(* the hypotheses are satisfiable on a non-trivial input: blank, hash, dollar, quote, comma, tilde inside, a wrap *)
Example C07_depfix_targets_ex :
  let wdeps := [(0%nat, STR "m.c"); (1%nat, STR "a b#c$d.h"); (2%nat, STR "x',~y.h")] in
  name_ok (STR "o ut.o") = true /\ forallb (fun wd => name_ok (snd wd)) wdeps = true /\
  mk_read (gcc_depfile (STR "o ut.o") wdeps ++ fst (emit_deps (gcc_depfile (STR "o ut.o") wdeps)))
  = Some (([STR "o ut.o"], map snd wdeps) :: map (fun wd => ([snd wd], [])) wdeps).
Proof. vm_compute. repeat split. Qed.

(* the same for a depfile holding several rules *)
Theorem C07_depfix_many : forall rules : list (str * list (nat * str)),
  Forall (fun r => name_ok (fst r) = true /\ Forall (fun wd => name_ok (snd wd) = true) (snd r)) rules ->
  emit_deps (concat (map (fun r => gcc_depfile (fst r) (snd r)) rules))
  = (concat (map (fun r => concat (map (fun wd => munge (snd wd) ++ colon_nl) (snd r))) rules), None).
Proof. exact emit_deps_gcc_many. Qed.
Print Assumptions C07_depfix_many.

(* error branches: the depfixer can only raise for a newline before the separator colon of a line, for a second
   separator colon in a line, or for end of input inside a rule *)
Theorem C07_depfix_error_kinds : forall s e, snd (emit_deps s) = Some e ->
  e = EEof \/ e = EUnexpected TNewline \/ e = EUnexpected TColon.
Proof. intros s e. exact (emit_err_kinds DTarget (tokenize s) e). Qed.
Print Assumptions C07_depfix_error_kinds.

(* exactly when, and with which exception: emit_deps is total, and its outcome is the one of the declarative
   line-by-line reading depfile_err - every newline-terminated line needs exactly one separator colon (none:
   unexpected newline; a second one: unexpected colon), the unterminated rest must hold no separator colon and must
   not end in a blank (else unexpected end of file; trailing word characters are silently ignored, as written).
   With C07_depfix_targets/_many: it never fails on the image of the compiler's writer. *)
Theorem C07_depfix_total : forall s, snd (emit_deps s) = depfile_err s.
Proof. exact emit_deps_err_spec. Qed.
Print Assumptions C07_depfix_total.

Example C07_depfix_total_ex :
  depfile_err (STR "a: b c") = Some EEof /\ depfile_err (STR "a b") = None /\
  depfile_err (STR "a: b: c" ++ [c_nl]) = Some (EUnexpected TColon) /\ depfile_err (STR "a:b" ++ [c_nl]) = Some (EUnexpected TNewline) /\
  depfile_err (STR "a: b" ++ [c_nl] ++ STR "c: d" ++ [c_nl]) = None.
Proof. vm_compute. repeat split. Qed.

(* ---- generic theorems about the mtime semantics of Make (Make/MakeSem.v) ---- *)

(* a build right after a successful build executes nothing and changes nothing: for every rule list in topological
   order with one producer per file, without phony rules, whose recipe-less rules are existing leaves *)
Theorem C07_build_idempotent : forall rs f clk,
  wfb rs = true -> nophony rs -> leaves_exist rs f -> fs_below f clk ->
  let s1 := build rs f clk in
  b_fail s1 = None ->
  build rs (b_fs s1) (b_clk s1) = init (b_fs s1) (b_clk s1) /\ b_log (build rs (b_fs s1) (b_clk s1)) = [].
Proof. exact build_idempotent. Qed.
Print Assumptions C07_build_idempotent.

(* from an up-to-date state, touching x (or creating it) makes exactly the recipes downstream of x run, in rule order,
   and the build does not fail *)
Theorem C07_touch_rebuilds_downstream : forall rs f1 clk x,
  wfb rs = true -> nophony rs -> leaves_flat rs -> fs_below f1 clk ->
  (forall r, In r rs -> quiescent_rule f1 r) ->
  let s := build rs (upd f1 x clk) (clk + 1) in
  b_fail s = None /\ b_log s = down x rs.
Proof. exact touch_rebuilds_downstream. Qed.
Print Assumptions C07_touch_rebuilds_downstream.

(* ... where [down x rs] is exactly the set of targets reachable from x along normal-prerequisite edges
   (the inductive relation [downstream]) *)
Theorem C07_down_is_reachability : forall rs x t,
  wfb rs = true -> leaves_flat rs -> (In t (down x rs) <-> downstream rs x t).
Proof. exact down_downstream. Qed.
Print Assumptions C07_down_is_reachability.

(* Make never stops with  No rule to make target  when every prerequisite exists or is the target of some rule *)
Theorem C07_build_no_fail : forall rs f clk,
  (forall r p, In r rs -> In p (r_prereqs r ++ r_order r) -> f p <> None \/ has_rule rs p = true) ->
  b_fail (build rs f clk) = None.
Proof. exact build_no_fail. Qed.
Print Assumptions C07_build_no_fail.

(* non-vacuity: header 1 and source 2 (empty rules), objects 10 <- 2 1 and 11 <- 3; program 20 <- 10 11.
   First build runs 10 11 20; the next one nothing; touching header 1 rebuilds 10 and 20 only; deleting header 1
   (still listed) rebuilds 10 and 20 instead of failing; without the empty rule for 1 the build fails on 1. *)
Example C07_makesem_ex :
  let rs := [mkRule 1 [] [] false false; mkRule 2 [] [] false false;
             mkRule 10 [2; 1] [] true false; mkRule 11 [3] [] true false; mkRule 20 [10; 11] [] true false] in
  let f0 := fs_of [(1, 5); (2, 6); (3, 7)] in
  let s1 := build rs f0 100 in
  wfb rs = true /\ b_log s1 = [10; 11; 20] /\ b_fail s1 = None /\
  b_log (build rs (b_fs s1) (b_clk s1)) = [] /\
  b_log (build rs (upd (b_fs s1) 1 (b_clk s1)) (b_clk s1 + 1)) = [10; 20] /\ down 1 rs = [10; 20] /\
  b_log (build rs (del (b_fs s1) 1) (b_clk s1)) = [10; 20] /\ b_fail (build rs (del (b_fs s1) 1) (b_clk s1)) = None /\
  b_fail (build (tl rs) (del (b_fs s1) 1) (b_clk s1)) = Some 1.
Proof. vm_compute. repeat split. Qed.

(* ---- the project level (Misc/DepHistory.v): objects, their sources and the dependencies their depfiles record;
   rules_of true objs is what Make reads from Makefile + fixed depfiles (C07_depfix_targets) ---- *)

(* However many recorded headers have been deleted: over the fixed depfiles Make never stops with
   No rule to make target  (a source must exist or be recorded itself, which it is after the first compile). *)
Theorem C07_no_wedge : forall objs f clk,
  objs_ok objs ->
  (forall o, In o objs -> f (o_src o) <> None \/ In (o_src o) (o_listed o)) ->
  b_fail (build (rules_of true objs) f clk) = None.
Proof. exact no_wedge. Qed.
Print Assumptions C07_no_wedge.

(* ... and the depfixer is what makes this true: without the empty rules a deleted recorded header stops Make *)
Example C07_no_wedge_needs_depfixer :
  let objs := [mkObj 10 2 [2; 1]] in
  let f := fs_of [(2, 6); (10, 50)] in          (* header 1 has been deleted, the source no longer includes it *)
  b_fail (build (rules_of true objs) f 100) = None /\ b_log (build (rules_of true objs) f 100) = [10] /\
  b_fail (build (rules_of false objs) f 100) = Some 1.
Proof. vm_compute. repeat split. Qed.

(* The same happens in the unchanged tree after a compile that FAILED: the compiler writes the depfile while it
   preprocesses, the depfixer is a later recipe line that a failed compile never reaches, so the depfile of that one
   object stays raw until the object compiles again.  Object 10 (source 2) was compiled successfully and recorded header
   1; object 11 (source 3) was being edited: it included the new header 4 and did not compile.  The user backs the edit
   out (header 4 deleted, no longer included): Make stops with  No rule to make target 4  (finding
   C07-failed-compile-raw-depfile; had the depfile been fixed, the build would go through). *)
Example C07_failed_compile_refuted :
  let o10 := mkObj 10 2 [2; 1] in
  let o11 := mkObj 11 3 [3; 4] in
  let f := fs_of [(1, 5); (2, 6); (3, 60); (10, 50)] in
  objs_ok [o10; o11] /\
  b_fail (build (rules_of_mixed [(o10, true); (o11, false)]) f 100) = Some 4 /\
  b_fail (build (rules_of_mixed [(o10, true); (o11, true)]) f 100) = None /\
  b_log (build (rules_of_mixed [(o10, true); (o11, true)]) f 100) = [11] /\
  rules_of_mixed [(o10, true); (o11, true)] = rules_of true [o10; o11].
Proof.
  split; [|vm_compute; repeat split].
  split; [repeat constructor; cbn; intuition congruence|].
  intros o o' [<-|[<-|[]]] [<-|[<-|[]]]; cbn; intuition congruence.
Qed.

(* The edit-history invariant, with the preprocessor's include scanner as an oracle (a variable of the theorem):
   Inv = every depfile records exactly what a compile of its source reads now, and every object is at least as new
   as everything recorded.  After ANY edit satisfying edit_ok (modify / create / delete / rename = delete + create of
   sources and headers; scanner locality; the project still compiles) the next build does not fail and recompiles
   exactly the objects one of whose recorded dependencies was touched ... *)
Theorem C07_rebuild : forall (content : Type) (includes : content -> file -> list file)
  (w : world content) c' f' touched,
  Inv content includes w -> edit_ok content includes w c' f' touched ->
  b_fail (after_build content w c' f') = None /\
  b_log (after_build content w c' f') = map o_file (filter (touched_obj touched) (w_objs w)).
Proof. exact rebuild_exact. Qed.
Print Assumptions C07_rebuild.

(* ... and re-establishes the invariant, so this holds along every edit history. *)
Theorem C07_inv : forall (content : Type) (includes : content -> file -> list file)
  (w : world content) c' f' touched,
  Inv content includes w -> edit_ok content includes w c' f' touched ->
  Inv content includes (next_world content includes w c' f').
Proof. exact inv_preserved. Qed.
Print Assumptions C07_inv.

(* the hypotheses of C07_rebuild / C07_inv are satisfiable and the conclusion is not trivial there: one object (10)
   compiled from source 2 including header 1; the edit modifies header 1; the object is recompiled *)
Example C07_inv_ex :
  Inv unit ex_includes ex_world /\ edit_ok unit ex_includes ex_world tt ex_fs' [1] /\
  b_log (after_build unit ex_world tt ex_fs') = [10].
Proof. exact (conj ex_Inv (conj ex_edit_ok ex_rebuild)). Qed.

(* clean followed by build recompiles every object (object files removed; depfiles removed or not) *)
Theorem C07_clean_rebuild : forall objs f clk,
  objs_ok objs ->
  (forall o, In o objs -> f (o_src o) <> None \/ In (o_src o) (o_listed o)) ->
  (forall o, In o objs -> f (o_file o) = None) ->
  b_fail (build (rules_of true objs) f clk) = None /\
  b_log (build (rules_of true objs) f clk) = map o_file objs.
Proof. exact clean_rebuild. Qed.
Print Assumptions C07_clean_rebuild.

(* names outside the guard really go wrong: the depfixer copies percent and equals unescaped, and Make does not
   read the resulting line as an explicit rule for that name (see findings C07-depfix-percent / -equals) *)
Example C07_depfix_percent_outside :
  emit_deps (gcc_depfile (STR "m.o") [(0%nat, STR "x%y.h")]) = (STR "x%y.h:" ++ [c_nl], None) /\
  mk_read (STR "x%y.h:" ++ [c_nl]) = None.
Proof. vm_compute. split; reflexivity. Qed.
