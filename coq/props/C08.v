(* C08 - Automatic regeneration equals a fresh configure, and converges.
   Only statements; the model is theories/State/Regen.v, the proofs theories/State/RegenProofs.v.
   tree / find / seen are the abstract directory tree and search (property C11); fx74 and fx75 select the code
   before (false) and after (true) the repairs 491a34f and df3cfcf; fxc selects find_check_cache before (false) and
   after (true) the repair F1 (a cache file strictly newer than the build file is not trusted: full regeneration).
   The main theorems hold for BOTH values of fxc (the check detects which one the tree under test contains and ties
   that one); F1 only adds a case in which the regeneration runs. *)
From Coq Require Import NArith List Bool.
From BFG Require Import State.Regen State.RegenProofs.
Import ListNotations.
Local Open Scope N_scope.

(* Skip only when the fresh result equals the recorded one: inputs, outputs, what every call returns, the dist set, the
   find cache.  Domain: every find call is cached (cache=False is documented as untracked).  The watched directories are
   NOT covered - see C08_skip_dirs_refuted. *)
Theorem C08_skip_sound : forall tree find seen fxc (w0 w : world tree) s tl,
  save (fresh tree find seen true w0) = Some s ->
  (inputs_newer tree w s = false -> w_conf w = w_conf w0) ->
  forallb c_cached (cf_calls (w_conf w)) = true ->
  lazy tree find seen true fxc w (Some s) = Skip tl ->
  req (fresh tree find seen true w) (fresh tree find seen true w0).
Proof. exact skip_sound. Qed.
Print Assumptions C08_skip_sound.

(* a skipped regeneration leaves .bfg_find_deps as it was although the set of walked directories changed *)
Theorem C08_skip_dirs_refuted : forall fxc,
  exists (tree : Type) find seen (w0 w : world tree) s tl,
    save (fresh tree find seen true w0) = Some s /\
    (inputs_newer tree w s = false -> w_conf w = w_conf w0) /\
    forallb c_cached (cf_calls (w_conf w)) = true /\
    lazy tree find seen true fxc w (Some s) = Skip tl /\
    ~ set_eq (r_dirs (fresh tree find seen true w)) (r_dirs (fresh tree find seen true w0)).
Proof. exact skip_dirs_refuted. Qed.
Print Assumptions C08_skip_dirs_refuted.

(* when regeneration is not skipped its result is that of a fresh configure (the dist list as a set), including the
   run served from the cache that find_check_cache pre-filled *)
Theorem C08_noskip_eq_fresh : forall tree find seen fxc (w : world tree) sv r,
  coherent tree w sv -> lazy tree find seen true fxc w sv = Ran r -> req_full r (fresh tree find seen true w).
Proof. exact noskip_eq_fresh. Qed.
Print Assumptions C08_noskip_eq_fresh.

(* before 491a34f: files matched by extra dropped out of the dist set *)
Theorem C08_noskip_eq_fresh_refuted : forall fxc,
  exists (tree : Type) find seen (w : world tree) sv r,
    coherent tree w sv /\ lazy tree find seen false fxc w sv = Ran r /\
    ~ set_eq (r_dist r) (r_dist (fresh tree find seen false w)).
Proof. exact noskip_eq_fresh_refuted. Qed.
Print Assumptions C08_noskip_eq_fresh_refuted.

(* now: the dist list is the same set but not the same list (cache hits register extra files first) *)
Theorem C08_noskip_dist_order_refuted : forall fxc,
  exists (tree : Type) find seen (w : world tree) sv r,
    coherent tree w sv /\ lazy tree find seen true fxc w sv = Ran r /\
    r_dist r <> r_dist (fresh tree find seen true w).
Proof. exact noskip_dist_order_refuted. Qed.
Print Assumptions C08_noskip_dist_order_refuted.

(* F1: a cache file strictly newer than the first regeneration output makes the lazy regeneration a fresh configure,
   exactly (no pre-filled cache) *)
Theorem C08_newer_cache_reruns : forall tree find seen (w : world tree) s,
  cache_newer tree w s = true -> lazy tree find seen true true w (Some s) = Ran (fresh tree find seen true w).
Proof. exact newer_cache_reruns. Qed.
Print Assumptions C08_newer_cache_reruns.

(* every edit that changes what a configure computes makes the target that carries the regenerate recipe out of date *)
Theorem C08_trigger_complete : forall tree find seen (w0 w : world tree) r0,
  req_full r0 (fresh tree find seen true w0) ->
  forallb c_cached (cf_calls (w_conf w0)) = true ->
  ((forall p, In p (cf_inputs (w_conf w0)) -> quiet_dep tree w (primary r0) p) -> w_conf w = w_conf w0) ->
  (forall f, (forall d, In d (seen (w_tree w0) f) -> quiet_dep tree w (primary r0) d) ->
             find (w_tree w) f = find (w_tree w0) f /\ seen (w_tree w) f = seen (w_tree w0) f) ->
  fresh tree find seen true w <> fresh tree find seen true w0 -> regen_due tree true r0 w = true.
Proof. exact trigger_complete. Qed.
Print Assumptions C08_trigger_complete.

(* before df3cfcf, with more than one output, the same edit did not (and does now) *)
Theorem C08_trigger_refuted :
  exists (tree : Type) (find : tree -> filt -> list (path * bool)) (seen : tree -> filt -> list path)
         (w0 w : world tree) r0,
    req_full r0 (fresh tree find seen true w0) /\
    forallb c_cached (cf_calls (w_conf w0)) = true /\
    ((forall p, In p (cf_inputs (w_conf w0)) -> quiet_dep tree w (primary r0) p) -> w_conf w = w_conf w0) /\
    (forall f, (forall d, In d (seen (w_tree w0) f) -> quiet_dep tree w (primary r0) d) ->
               find (w_tree w) f = find (w_tree w0) f /\ seen (w_tree w) f = seen (w_tree w0) f) /\
    fresh tree find seen true w <> fresh tree find seen true w0 /\
    1 < N.of_nat (length (r_outputs r0)) /\
    regen_due tree false r0 w = false /\ regen_due tree true r0 w = true.
Proof. exact trigger_refuted. Qed.
Print Assumptions C08_trigger_refuted.

(* after the step ran (Ran or Skip) at a clock value beyond every mtime, the step is up to date, provided every
   prerequisite of the emitted rule exists *)
Theorem C08_converges : forall tree fx75 (w : world tree) o r now,
  (forall p t, lookup p (w_mt w) = Some t -> t < now) ->
  (forall d, In d (step_deps fx75 r) -> exists_b tree w d = true) ->
  (primary r = stamp \/ In (primary r) (written o)) ->
  regen_due tree fx75 r (after_step tree w o (primary r) now) = false.
Proof. exact converges. Qed.
Print Assumptions C08_converges.

Theorem C08_converges_ran : forall tree find seen fxc fx75 (w : world tree) sv r now,
  lazy tree find seen true fxc w sv = Ran r ->
  (forall p t, lookup p (w_mt w) = Some t -> t < now) ->
  (forall d, In d (step_deps fx75 r) -> exists_b tree w d = true) ->
  regen_due tree fx75 r (after_step tree w (Ran r) (primary r) now) = false.
Proof. exact converges_ran. Qed.
Print Assumptions C08_converges_ran.

(* F1 does not disturb convergence: after the step (Ran: the cache is saved before the build file is written, both at
   this step's clock value; Skip: the outputs are touched) the cache is not newer than the first output, so the next
   find_check_cache trusts it.  Strict comparison: equal timestamps count as not newer. *)
Theorem C08_cache_trusted_after_step : forall tree (w : world tree) o prim now s,
  (forall p t, lookup p (w_mt w) = Some t -> t < now) ->
  In (first_output s) (written o) ->
  cache_newer tree (after_step tree w o prim now) s = false.
Proof. exact cache_trusted_after_step. Qed.
Print Assumptions C08_cache_trusted_after_step.

(* the existence proviso is necessary: a watched directory that was removed without changing any result is skipped
   over, stays in .bfg_find_deps, and the step is due again after every run *)
Theorem C08_converges_skip_missing_dir_refuted : forall fxc,
  exists (tree : Type) find seen (w0 w : world tree) s tl now,
    save (fresh tree find seen true w0) = Some s /\
    lazy tree find seen true fxc w (Some s) = Skip tl /\
    (forall p t, lookup p (w_mt w) = Some t -> t < now) /\
    let r0 := fresh tree find seen true w0 in
    regen_due tree true r0 (after_step tree w (Skip tl) (primary r0) now) = true.
Proof. exact converges_skip_missing_dir_refuted. Qed.
Print Assumptions C08_converges_skip_missing_dir_refuted.

(* histories: after every sequence of edits, each followed by a make, the build files on disk are those of a fresh
   configure of the present tree (edit_ok: the clock and directory-mtime assumptions, every call cached, and no skip
   that coincides with a change of the walked directories); the mtimes of the world after an edit are arbitrary, in
   particular the cache file may be newer than the build file *)
Theorem C08_history : forall tree find seen fxc (s : state tree), reach tree find seen fxc s -> good tree find seen s.
Proof. exact history. Qed.
Print Assumptions C08_history.

(* a project that stops searching: a run that cached nothing saves no .bfg_find_cache (the old one is removed), and
   without that file every later lazy regeneration - whatever was edited since, in particular a regeneration input the
   old cache never listed - runs the scripts and gives the fresh result *)
Theorem C08_no_cached_call_no_cache_file : forall tree find seen (w : world tree),
  forallb (fun c => negb (c_cached c)) (cf_calls (w_conf w)) = true -> save (fresh tree find seen true w) = None.
Proof. exact no_cached_call_no_cache_file. Qed.
Print Assumptions C08_no_cached_call_no_cache_file.

Theorem C08_nothing_cached_never_skips : forall tree find seen fxc (r : result) (w : world tree),
  r_cache r = [] -> lazy tree find seen true fxc w (save r) = Ran (fresh tree find seen true w).
Proof. exact nothing_cached_never_skips. Qed.
Print Assumptions C08_nothing_cached_never_skips.

(* non-vacuity: a world in which the pre-filled run really happens and serves a changed result with an extra file *)
Example C08_noskip_nonvacuous : forall fxc,
  exists r, coherent bool (Wit.mk true Wit.mtA []) Wit.svA /\
            lazy bool Wit.findA Wit.seenA true fxc (Wit.mk true Wit.mtA []) Wit.svA = Ran r /\
            r_rets r = [[10; 12]] /\ In 11 (r_dist r).
Proof. exact noskip_nonvacuous. Qed.

(* non-vacuity of F1: the unchanged world is skipped with cache and build file at equal times, skipped by the old code
   with a newer cache, regenerated by the repaired code with a newer cache *)
Example C08_newer_cache_nonvacuous :
  let w0 := Wit.mk false Wit.mtA [] in
  let sv := save (fresh bool Wit.findA Wit.seenA true w0) in
  let newer := Wit.mk false ((2, 11) :: Wit.mtA) [] in
  let equal := Wit.mk false ((2, 10) :: Wit.mtA) [] in
  (exists tl, lazy bool Wit.findA Wit.seenA true true equal sv = Skip tl) /\
  (exists tl, lazy bool Wit.findA Wit.seenA true false newer sv = Skip tl) /\
  lazy bool Wit.findA Wit.seenA true true newer sv = Ran (fresh bool Wit.findA Wit.seenA true newer).
Proof. exact newer_cache_nonvacuous. Qed.

(* non-vacuity of C08_history: a two-step history (file added, then nothing) is reachable *)
Example C08_history_nonvacuous : forall fxc,
  exists s, reach bool Wit.findA Wit.seenA fxc s /\ r_rets (s_emit bool s) = [[10; 11 - 1 + 2]].
Proof.
  intros fxc. eexists. split.
  - eapply (reach_step bool Wit.findA Wit.seenA fxc _ (Wit.mk true Wit.mtA []) 100).
    + apply (reach_init bool Wit.findA Wit.seenA fxc (Wit.mk false Wit.mtA [])). reflexivity.
    + unfold edit_ok. cbn [s_w s_sv s_emit]. split; [reflexivity|]. split; [reflexivity|]. split; [reflexivity|]. split.
      * intros f H. exfalso. specialize (H 5 (or_introl eq_refl)).
        destruct H as (tg & td & H1 & H2 & H3). vm_compute in H1, H2. inversion H1; inversion H2; subst.
        vm_compute in H3. apply H3. reflexivity.
      * intros tl H. destruct fxc; vm_compute in H; discriminate.
  - destruct fxc; vm_compute; reflexivity.
Qed.
