(* C09 - Saved configuration is the only input of later regenerations.
   Only statements; proofs live in theories/State. *)
From Coq Require Import String.
From BFG Require Import Base.Chars State.EnvStore State.EnvStoreProofs State.EnvJson State.EnvJsonProofs State.EnvUpgradeProofs
  State.EnvUpgradeDirsProofs.

(* After every sequence of operations on EnvVarDict(pairs) (every overridden mutator, reset, a JSON round trip
   in the middle, reads of changes), applying the recorded changes to the initial variables gives a mapping
   with the same lookup as the current variables, for every name. *)
Theorem C09_changes_replay : forall pairs ops,
  let s := run ops (init pairs) in
  forall k, dget k (apply_changes (initial s) (the_changes s)) = dget k (current s).
Proof. exact changes_replay_init. Qed.
Print Assumptions C09_changes_replay.

(* The same when the store was loaded from a saved file with arbitrary (unrelated) initial and current
   mappings, where changes is computed lazily at the first access. *)
Theorem C09_changes_replay_loaded : forall i c ops,
  let s := run ops (from_parts i c) in
  forall k, dget k (apply_changes (initial s) (the_changes s)) = dget k (current s).
Proof. exact changes_replay_json. Qed.
Print Assumptions C09_changes_replay_loaded.

(* reset (what regenerate does before replaying the toolchain file) restores exactly the initial mapping, in
   the same order, leaves initial alone and forgets every recorded change - whatever happened before. *)
Theorem C09_reset : forall s0 ops, Inv s0 ->
  let s := fst (reset (run ops s0)) in
  current s = initial s0 /\ initial s = initial s0 /\ the_changes s = [].
Proof. exact reset_spec. Qed.
Print Assumptions C09_reset.

(* the hypothesis of C09_reset holds for both ways of creating a store *)
Theorem C09_inv_init : forall pairs, Inv (init pairs).
Proof. exact init_inv. Qed.
Print Assumptions C09_inv_init.

Theorem C09_inv_loaded : forall i c, Inv (from_parts i c).
Proof. exact from_parts_inv. Qed.
Print Assumptions C09_inv_loaded.

(* non-vacuity: a run that overwrites, deletes, re-adds, reloads and pops; the changes are not trivial *)
Example C09_replay_example :
  let s := run [OSet (VStr (STR "CC")) (VStr (STR "clang")); ODel (STR "CFLAGS"); OJson;
                OSetdefault (STR "CFLAGS") (VStr (STR "-O2")); OPop (STR "HOME") None; OPopitem]
               (init [(STR "CC", STR "gcc"); (STR "CFLAGS", STR "-g"); (STR "HOME", STR "/h")]) in
  the_changes s = [(STR "CC", Some (STR "clang")); (STR "CFLAGS", None); (STR "HOME", None)]
  /\ current s = [(STR "CC", STR "clang")]
  /\ apply_changes (initial s) (the_changes s) = [(STR "CC", STR "clang")].
Proof. vm_compute. repeat split. Qed.

(* ---- the saved file *)

(* to_json then from_json of the variable store gives the same initial and current mappings (same order) with
   the attribute _changes absent; the changes recomputed from them still replay to the current variables *)
Theorem C09_store_json_rt : forall s, wf s -> store_of_json (store_to_json s) = Ok (reload s).
Proof. exact store_json_rt. Qed.
Print Assumptions C09_store_json_rt.

Theorem C09_store_json_meaning : forall s, Inv s ->
  initial (reload s) = initial s /\ current (reload s) = current s /\
  forall k, dget k (apply_changes (initial s) (the_changes (reload s))) = dget k (current s).
Proof. exact store_json_meaning. Qed.
Print Assumptions C09_store_json_meaning.

(* a path in normal form (no home-directory, drive or UNC prefix) is read back from its JSON form with every
   attribute, including the directory flag that Path equality ignores *)
Theorem C09_path_json_rt : forall p, path_ok p = true -> path_from_json (path_to_json p) = Ok p.
Proof. exact path_json_rt. Qed.
Print Assumptions C09_path_json_rt.

(* Environment.save then Environment.load: every field comes back (the variables with _changes absent), on
   whatever machine the file is loaded (the facts x about the loading machine are not used) *)
Theorem C09_env_rt : forall x e, env_ok e -> env_of_json x (env_to_json e) = Ok (env_reloaded e).
Proof. exact env_json_rt. Qed.
Print Assumptions C09_env_rt.

Example C09_path_example :
  let p := mkPath (STR "/usr/my lib") RAbsolute true true in
  path_ok p = true /\ path_to_json p = JArr [JStr (STR "/usr/my lib/"); JStr (STR "absolute"); JBool true].
Proof. vm_compute. split; reflexivity. Qed.

Example C09_env_example :
  let d := mkPath (STR "/b d") RAbsolute false true in
  let e := mkEnv d (STR "make") (STR "4.3") (mkPlatform (STR "linux") (STR "linux") (STR "x86_64"))
                 (mkPlatform (STR "linux") (STR "android") (STR "arm")) d d
                 [(IPrefix, Some (mkPath (STR "/usr") RAbsolute true true)); (IBindir, None);
                  (IMandir, Some (mkPath [] (RInstall IDatadir) false true))]
                 (Some (mkPath (STR "tc.bfg") RSrcdir false false)) [mkPath (STR "/m.yml") RAbsolute false false]
                 (true, false) true (Some [STR "--x"])
                 (run [OSet (VStr (STR "CC")) (VStr (STR "clang"))] (init [(STR "CC", STR "gcc")])) in
  env_ok e.
Proof. vm_compute. repeat split; repeat constructor; intros []. Qed.

(* ---- older format versions: whenever the upgrade chain of Environment.load succeeds, on any machine (x), the
   variables of the old document are the variables of the upgraded one *)

(* before v13 there is one set of variables: it becomes both the initial and the current mapping *)
Theorem C09_upgrade_variables_old : forall x v d d' vars,
  upgrade x v d = Ok d' -> (v < 13)%N -> dget (STR "variables") d = Some vars ->
  dget (STR "variables") d' = Some (JObj [(STR "initial", vars); (STR "current", vars)]).
Proof. exact upgrade_variables_old. Qed.
Print Assumptions C09_upgrade_variables_old.

(* v13, v14: initial_variables / variables become initial / current *)
Theorem C09_upgrade_variables_13_14 : forall x v d d' i c,
  upgrade x v d = Ok d' -> (13 <= v)%N -> (v < 15)%N ->
  dget (STR "initial_variables") d = Some i -> dget (STR "variables") d = Some c ->
  dget (STR "variables") d' = Some (JObj [(STR "initial", i); (STR "current", c)]).
Proof. exact upgrade_variables_13_14. Qed.
Print Assumptions C09_upgrade_variables_13_14.

(* from v15 on the variables entry is left alone; a document of the current version is not touched at all *)
Theorem C09_upgrade_variables_new : forall x v d d',
  upgrade x v d = Ok d' -> (15 <= v)%N -> dget (STR "variables") d' = dget (STR "variables") d.
Proof. exact upgrade_variables_new. Qed.
Print Assumptions C09_upgrade_variables_new.

Theorem C09_upgrade_current : forall x d, upgrade x 17%N d = Ok d.
Proof. exact upgrade_current. Qed.
Print Assumptions C09_upgrade_current.

(* every install directory the older format stored survives the upgrade chain, whatever the stored version and
   the machine: the entry k of install_dirs is carried over, changed only by the documented rewrites
   (idir_up: before v10 bindir / libdir move from prefix to exec_prefix, before v11 the destdir flag False is
   appended).  [stored v k]: exec_prefix exists from v10 on, datadir and mandir from v17 on; those are the only
   entries a step may set.  So no step overwrites a directory the format it upgrades from already had. *)
Theorem C09_upgrade_preserves_install_dirs : forall x v d d' k j,
  upgrade x v d = Ok d' -> idir d k = Some j -> stored v k = true ->
  exists j', idir d' k = Some j' /\ idir_up v k j = Ok j'.
Proof. exact upgrade_preserves_install_dirs. Qed.
Print Assumptions C09_upgrade_preserves_install_dirs.

(* from v11 on a stored entry is unchanged *)
Theorem C09_upgrade_install_dirs_from_11 : forall x v d d' k j,
  upgrade x v d = Ok d' -> (11 <= v)%N -> idir d k = Some j -> stored v k = true -> idir d' k = Some j.
Proof. exact upgrade_install_dirs_from_11. Qed.
Print Assumptions C09_upgrade_install_dirs_from_11.

(* a version-10 document keeps its exec_prefix *)
Theorem C09_upgrade_exec_prefix_v10 : forall x d d' a r,
  upgrade x 10%N d = Ok d' -> idir d (STR "exec_prefix") = Some (JArr [a; r]) ->
  idir d' (STR "exec_prefix") = Some (JArr [a; r; JBool false]).
Proof. exact upgrade_exec_prefix_v10. Qed.
Print Assumptions C09_upgrade_exec_prefix_v10.

(* non-vacuity: a version-10 document with exec_prefix below an absolute directory and bindir below prefix *)
Example C09_upgrade_v10_example :
  let x := mkExt (fun _ => Some (STR "4.3")) (STR "x86_64")
                 (JArr [JStr (STR "share/"); JStr (STR "prefix"); JBool false])
                 (JArr [JStr (STR "man/"); JStr (STR "datadir"); JBool false]) in
  let d := [(STR "bfgdir", JArr [JStr (STR "/b/"); JStr (STR "absolute")]); (STR "backend", JStr (STR "make"));
            (STR "backend_version", JStr (STR "4.3"));
            (STR "srcdir", JArr [JStr (STR "/s/"); JStr (STR "absolute")]);
            (STR "builddir", JArr [JStr (STR "/o/"); JStr (STR "absolute")]);
            (STR "install_dirs", JObj [(STR "prefix", JArr [JStr (STR "/usr/"); JStr (STR "absolute")]);
                                       (STR "exec_prefix", JArr [JStr (STR "/opt/arch/"); JStr (STR "absolute")]);
                                       (STR "bindir", JArr [JStr (STR "bin/"); JStr (STR "prefix")])]);
            (STR "extra_args", JArr []); (STR "library_mode", JArr [JBool false; JBool true]);
            (STR "platform", JStr (STR "linux")); (STR "variables", JObj [(STR "CC", JStr (STR "gcc"))])] in
  match upgrade x 10 d with
  | Ok d' => idir d' (STR "exec_prefix") = Some (JArr [JStr (STR "/opt/arch/"); JStr (STR "absolute"); JBool false])
             /\ idir d' (STR "bindir") = Some (JArr [JStr (STR "bin/"); JStr (STR "prefix"); JBool false])
             /\ stored 10 (STR "exec_prefix") = true /\ stored 9 (STR "exec_prefix") = false
             /\ stored 16 (STR "datadir") = false /\ stored 17 (STR "datadir") = true
  | _ => False
  end.
Proof. vm_compute. repeat split. Qed.

(* non-vacuity: the v4 fixture of the test suite (test/data/environment/v4) upgrades and loads *)
Example C09_upgrade_v4_example :
  let x := mkExt (fun _ => Some (STR "4.3")) (STR "x86_64")
                 (JArr [JStr (STR "share/"); JStr (STR "prefix"); JBool false])
                 (JArr [JStr (STR "man/"); JStr (STR "datadir"); JBool false]) in
  let doc := JObj [(STR "version", JNum 4); (STR "data", JObj [
      (STR "bfgpath", JStr (STR "/path/to/bfg9000")); (STR "backend", JStr (STR "make"));
      (STR "srcdir", JStr (STR "/root/srcdir")); (STR "builddir", JStr (STR "/root/builddir"));
      (STR "install_dirs", JObj [(STR "prefix", JArr [JStr (STR "/root/prefix"); JStr (STR "absolute")]);
                                 (STR "bindir", JArr [JStr (STR "bin"); JStr (STR "prefix")]);
                                 (STR "libdir", JArr [JStr (STR "lib"); JStr (STR "prefix")]);
                                 (STR "includedir", JArr [JStr (STR "include"); JStr (STR "prefix")])]);
      (STR "platform", JStr (STR "linux"));
      (STR "variables", JObj [(STR "HOME", JStr (STR "/home/user"))])])] in
  match env_of_json x doc with
  | Ok e => e_bfgdir e = mkPath (STR "/path/to") RAbsolute false true
            /\ current (e_variables e) = [(STR "HOME", STR "/home/user")]
            /\ initial (e_variables e) = [(STR "HOME", STR "/home/user")]
            /\ map fst (e_install_dirs e) = [IPrefix; IBindir; ILibdir; IIncludedir; IExecPrefix; IDatadir; IMandir]
  | _ => False
  end.
Proof. vm_compute. repeat split. Qed.
