(* C09 - Saved configuration is the only input of later regenerations.
   Only statements; proofs live in theories/State. *)
From Coq Require Import String.
From BFG Require Import Base.Chars State.EnvStore State.EnvStoreProofs.

(* After every sequence of operations on EnvVarDict(pairs) (every overridden mutator, reset, a JSON round trip
   in the middle, reads of changes), applying the recorded changes to the initial variables gives a mapping
   with the same lookup as the current variables, for every name. *)
Theorem C09_changes_replay : forall pairs ops,
  let s := run ops (init pairs) in
  forall k, dget k (apply_changes (initial s) (the_changes s)) = dget k (current s).
Proof. exact changes_replay_init. Qed.
Print Assumptions C09_changes_replay.

(* The same when the store was loaded from a saved file with arbitrary (unrelated) initial and current
   mappings, where changes is computed lazily at the first access. *)
Theorem C09_changes_replay_loaded : forall i c ops,
  let s := run ops (from_parts i c) in
  forall k, dget k (apply_changes (initial s) (the_changes s)) = dget k (current s).
Proof. exact changes_replay_json. Qed.
Print Assumptions C09_changes_replay_loaded.

(* reset (what regenerate does before replaying the toolchain file) restores exactly the initial mapping, in
   the same order, leaves initial alone and forgets every recorded change - whatever happened before. *)
Theorem C09_reset : forall s0 ops, Inv s0 ->
  let s := fst (reset (run ops s0)) in
  current s = initial s0 /\ initial s = initial s0 /\ the_changes s = [].
Proof. exact reset_spec. Qed.
Print Assumptions C09_reset.

(* the hypothesis of C09_reset holds for both ways of creating a store *)
Theorem C09_inv_init : forall pairs, Inv (init pairs).
Proof. exact init_inv. Qed.
Print Assumptions C09_inv_init.

Theorem C09_inv_loaded : forall i c, Inv (from_parts i c).
Proof. exact from_parts_inv. Qed.
Print Assumptions C09_inv_loaded.

(* non-vacuity: a run that overwrites, deletes, re-adds, reloads and pops; the changes are not trivial *)
Example C09_replay_example :
  let s := run [OSet (VStr (STR "CC")) (VStr (STR "clang")); ODel (STR "CFLAGS"); OJson;
                OSetdefault (STR "CFLAGS") (VStr (STR "-O2")); OPop (STR "HOME") None; OPopitem]
               (init [(STR "CC", STR "gcc"); (STR "CFLAGS", STR "-g"); (STR "HOME", STR "/h")]) in
  the_changes s = [(STR "CC", Some (STR "clang")); (STR "CFLAGS", None); (STR "HOME", None)]
  /\ current s = [(STR "CC", STR "clang")]
  /\ apply_changes (initial s) (the_changes s) = [(STR "CC", STR "clang")].
Proof. vm_compute. repeat split. Qed.
