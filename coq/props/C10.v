(* C10 - Interrupted or failed regeneration never leaves silently stale build files.
   Only statements; the model is theories/State/Crash.v (run_ops, crash, make_attempt, lazy_decision), proofs are in
   theories/State/CrashProofs.v and CrashSafe.v.

   safe_at v p e n k: after a crash of the regeneration of project p (edited by e) after n mutations, each of k
   successive make runs either fails visibly or leaves the build file and every declared output of the regeneration
   step describing the edited project.  safe_all_at additionally counts compile_commands.json.
   The variant v selects the code: v_old = builtins/find.py before the repairs F1 (find_check_cache distrusts a cache
   newer than the build file) and F2 (write_depfile writes .bfg_find_deps.tmp and renames it into place),
   v_repaired = with both.  The check detects which variant the tree under test contains and ties that one. *)
From Coq Require Import List Bool Arith.
From BFG Require Import State.Crash State.CrashProofs State.CrashSafe.
Import ListNotations.

(* ---- the code before the repairs (documents the two repaired defects) ---- *)

(* the property is false of the old code: with find_files and only a new matching file, a crash right after
   the find cache was saved and before the build file is opened makes both follow-up makes succeed while the build
   file still describes the old project (DESIGN 7.8) *)
Theorem C10_safe_refuted : exists p e n,
  valid p e = true /\ n = window_pt v_old p /\ n <= length (run_ops v_old p) /\ safe_at v_old p e n 2 = false.
Proof. exists (mkP true 0 true), (mkE false true false), 6. vm_compute. repeat split; auto. Qed.
Print Assumptions C10_safe_refuted.

(* a second refutation found by the fault injection: a crash between open and close of .bfg_find_deps leaves the
   depfile empty, the old Makefile loses its dependency on the watched directories, make does not even start
   bfg9000; neither saving the cache last nor F1 repairs this one (any variant that writes the depfile in place) *)
Theorem C10_safe_refuted_depfile : exists p e n, forall c d,
  valid p e = true /\ n = deps_pt p /\ safe_at (mkV c false d) p e n 2 = false.
Proof. exists (mkP true 1 true), (mkE false true false), 6. intros [] []; vm_compute; repeat split; auto. Qed.
Print Assumptions C10_safe_refuted_depfile.

(* every other crash point is safe, for EVERY variant: for ALL projects (any number of immediate files), all visible
   edits, all n (also beyond the end of the run = uninterrupted), any number of follow-ups.  For v_old the guard
   excludes exactly deps_pt and window_pt *)
Theorem C10_safe_partial : forall v p e n k,
  valid p e = true -> bad_point v p e n = false -> safe_at v p e n k = true.
Proof. exact safe_partial. Qed.
Print Assumptions C10_safe_partial.

(* an alternative repair (save the find cache after the build file has been written) closes the window as well:
   only the truncated depfile remains *)
Theorem C10_safe_if_cache_saved_last : forall p e n k,
  valid p e = true -> n <> deps_pt p -> safe_at v_cal p e n k = true.
Proof. exact safe_cache_last. Qed.
Print Assumptions C10_safe_if_cache_saved_last.

(* ---- the repaired code ---- *)

(* F1 + F2: NO crash point is left after which a follow-up make succeeds on a stale build file or a stale declared
   output: all projects, all visible edits, all n, all k *)
Theorem C10_safe_repaired : forall p e n k, valid p e = true -> safe_at v_repaired p e n k = true.
Proof. exact safe_repaired. Qed.
Print Assumptions C10_safe_repaired.

(* counting compile_commands.json as well, the only unsafe crash points are those of the compile_commands.json
   window: from the completion of the build file up to (excluding) the completion of compile_commands.json *)
Theorem C10_safe_repaired_compdb : forall p e n k,
  valid p e = true -> compdb_window v_repaired p n = false -> safe_all_at v_repaired p e n k = true.
Proof.
  intros p e n k Hv Hw. apply safe_all_repaired; [exact Hv|]. rewrite compdb_stale_window. exact Hw.
Qed.
Print Assumptions C10_safe_repaired_compdb.

(* the window as states: exactly the crash states with a complete new build file and an incomplete compdb *)
Theorem C10_compdb_window_states : forall v p n,
  compdb_window v p n = (let s := crash 4 n (run_ops v p) (fs_old p) in is_new (f_build s) && negb (compdb_new p s)).
Proof. intros. symmetry. apply compdb_stale_window. Qed.
Print Assumptions C10_compdb_window_states.

(* each repair alone closes exactly its own crash point *)
Theorem C10_safe_F1_only : forall p e n k,
  valid p e = true -> n <> deps_pt p -> safe_at (mkV false false true) p e n k = true.
Proof. exact safe_F1_only. Qed.
Print Assumptions C10_safe_F1_only.

Theorem C10_safe_F2_only : forall p e n k,
  valid p e = true -> n <> window_pt (mkV false true false) p -> safe_at (mkV false true false) p e n k = true.
Proof. exact safe_F2_only. Qed.
Print Assumptions C10_safe_F2_only.

(* ---- all variants ---- *)

(* an exception raised by the script or by a rule-emission hook (anywhere before the build file is opened) leaves
   the previous build file untouched, whatever the state and the time *)
Theorem C10_script_raise_untouched : forall v p j t s, j <= length (pre_ops v p) ->
  f_build (apply_ops t (until_raise (run_events v p j)) s) = f_build s /\
  Forall nobuild (until_raise (run_events v p j)).
Proof. intros. split; [apply raise_untouched | apply raise_ops_nobuild]; assumption. Qed.
Print Assumptions C10_script_raise_untouched.

(* a build file left empty or absent makes the next make fail visibly (and change nothing) *)
Theorem C10_truncated_detected : forall v p e t s, is_full (f_build s) = false ->
  make_attempt v p e t s = (false, s, false).
Proof. exact truncated_detected. Qed.
Print Assumptions C10_truncated_detected.

(* compile_commands.json is outside describes_new (it is not a declared output of the regeneration step): after a
   crash inside the compdb window every follow-up succeeds with correct build files and a stale
   compile_commands.json - before and after the repairs (open finding) *)
Theorem C10_compdb_stale_refuted : forall v, v = v_old \/ v = v_repaired -> exists p e n,
  valid p e = true /\ bad_point v p e n = false /\ compdb_window v p n = true /\ safe_at v p e n 2 = true /\
  safe_all_at v p e n 2 = false /\
  forallb (fun r => fst (fst r) && negb (compdb_new p (snd (fst r))))
          (attempts v p e 5 2 (crash 4 n (run_ops v p) (fs_old p))) = true.
Proof.
  intros v [-> | ->].
  - exists (mkP true 0 true), (mkE false true false), 8. vm_compute. repeat split; auto.
  - exists (mkP true 0 true), (mkE false true false), 9. vm_compute. repeat split; auto.
Qed.
Print Assumptions C10_compdb_stale_refuted.

(* non-vacuity: the guards are satisfiable on a project with find_files, 4 immediate files (stamp indirection) and
   compdb; after a crash in the middle of the immediate files the first follow-up really regenerates and succeeds
   with new files; and the bad points are exactly two of the 22 crash points of that run *)
Example C10_partial_nonvacuous :
  let p := mkP true 4 true in let e := mkE false true false in
  valid p e = true /\ bad_point v_old p e 9 = false /\
  map (fun r => (fst (fst r), snd r, describes_new (snd (fst r))))
      (attempts v_old p e 5 2 (crash 4 9 (run_ops v_old p) (fs_old p))) = [(true, true, true); (true, false, true)] /\
  filter (fun n => negb (safe_at v_old p e n 2)) (seq 0 (S (length (run_ops v_old p)))) = [deps_pt p; window_pt v_old p] /\
  filter (fun n => negb (safe_at v_cal p e n 2)) (seq 0 (S (length (run_ops v_cal p)))) = [deps_pt p].
Proof. vm_compute. repeat split; reflexivity. Qed.

(* the repaired variant on the same project: 23 crash points, none unsafe for the declared outputs; with
   compile_commands.json counted exactly the two points of the compdb window; the crash between the close of
   .bfg_find_deps.tmp and the rename leaves the old depfile and a complete stray .tmp; at the former window point
   the first follow-up now really regenerates (F1) *)
Example C10_repaired_nonvacuous :
  let p := mkP true 4 true in let e := mkE false true false in
  length (run_ops v_repaired p) = 23 /\
  filter (fun n => negb (safe_at v_repaired p e n 2)) (seq 0 24) = [] /\
  filter (fun n => negb (safe_all_at v_repaired p e n 2)) (seq 0 24) = [21; 22] /\
  filter (compdb_window v_repaired p) (seq 0 24) = [21; 22] /\
  (let s := crash 4 16 (run_ops v_repaired p) (fs_old p) in (f_deps s, f_tmp s)) = (oldf, mkF (Full New) 4) /\
  (let s := crash 4 17 (run_ops v_repaired p) (fs_old p) in (f_deps s, f_tmp s)) = (mkF (Full New) 4, absent) /\
  window_pt v_repaired p = 19 /\
  map (fun r => (fst (fst r), snd r, describes_new (snd (fst r))))
      (attempts v_repaired p e 5 2 (crash 4 19 (run_ops v_repaired p) (fs_old p))) = [(true, true, true); (true, false, true)] /\
  (* F1 alone / F2 alone leave exactly the other point *)
  filter (fun n => negb (safe_at (mkV false false true) p e n 2)) (seq 0 24) = [deps_pt p] /\
  filter (fun n => negb (safe_at (mkV false true false) p e n 2)) (seq 0 24) = [19].
Proof. vm_compute. repeat split; reflexivity. Qed.

Example C10_raise_nonvacuous :
  let p := mkP true 2 true in
  length (pre_ops v_old p) = 12 /\ until_raise (run_events v_old p 5) = firstn 5 (run_ops v_old p) /\
  f_build (apply_ops 4 (until_raise (run_events v_old p 12)) (fs_old p)) = oldf /\
  length (pre_ops v_repaired p) = 13 /\
  f_build (apply_ops 4 (until_raise (run_events v_repaired p 13)) (fs_old p)) = oldf.
Proof. vm_compute. repeat split; reflexivity. Qed.
