(* C10 - Interrupted or failed regeneration never leaves silently stale build files.
   Only statements; the model is theories/State/Crash.v, proofs are in theories/State/CrashProofs.v. *)
From Coq Require Import List Bool Arith.
From BFG Require Import State.Crash.
Import ListNotations.

(* the property is false of the code as written: with find_files, no stamp, a new matching file only, a crash
   right after the find cache was saved and before the build file is opened makes both follow-up makes succeed
   while the build file still describes the old project *)
Theorem C10_safe_refuted : exists p e n,
  changed e = true /\ n = window_pt p /\ n <= length (run_ops false p) /\ safe_at false p e n 2 = false.
Proof. exists (mkP true 0 true), (mkE false true false), 6. vm_compute. repeat split; auto. Qed.
Print Assumptions C10_safe_refuted.
