(* C10 - Interrupted or failed regeneration never leaves silently stale build files.
   Only statements; the model is theories/State/Crash.v (run_ops, crash, make_attempt, lazy_decision), proofs are in
   theories/State/CrashProofs.v and CrashSafe.v.

   safe_at v p e n k: after a crash of the regeneration of project p (edited by e) after n mutations, each of k
   successive make runs either fails visibly or leaves the build file and every declared output of the regeneration
   step describing the edited project.  safe_all_at additionally counts compile_commands.json.
   The variant v selects the code: v_old = builtins/find.py before the repairs F1 (find_check_cache distrusts a cache
   newer than the build file) and F2 (write_depfile writes .bfg_find_deps.tmp and renames it into place),
   v_repaired = with both.  The check detects which variant the tree under test contains and ties that one. *)
From Coq Require Import List Bool Arith NArith.
From BFG Require Import State.Crash State.CrashProofs State.CrashSafe State.CrashReconf.
From BFG Require Import State.ExitStatus State.ExitStatusProofs.
Import ListNotations.

(* ---- the code before the repairs (documents the two repaired defects) ---- *)

(* the property is false of the old code: with find_files and only a new matching file, a crash right after
   the find cache was saved and before the build file is opened makes both follow-up makes succeed while the build
   file still describes the old project (DESIGN 7.8) *)
Theorem C10_safe_refuted : exists p e n,
  valid p e = true /\ n = window_pt v_old p /\ n <= length (run_ops v_old p) /\ safe_at v_old p e n 2 = false.
Proof. exists (mkP true 0 true), (mkE false true false), 6. vm_compute. repeat split; auto. Qed.
Print Assumptions C10_safe_refuted.

(* a second refutation found by the fault injection: a crash between open and close of .bfg_find_deps leaves the
   depfile empty, the old Makefile loses its dependency on the watched directories, make does not even start
   bfg9000; neither saving the cache last nor F1 repairs this one (any variant that writes the depfile in place) *)
Theorem C10_safe_refuted_depfile : exists p e n, forall c d,
  valid p e = true /\ n = deps_pt p /\ safe_at (mkV c false d) p e n 2 = false.
Proof. exists (mkP true 1 true), (mkE false true false), 6. intros [] []; vm_compute; repeat split; auto. Qed.
Print Assumptions C10_safe_refuted_depfile.

(* every other crash point is safe, for EVERY variant: for ALL projects (any number of immediate files), all visible
   edits, all n (also beyond the end of the run = uninterrupted), any number of follow-ups.  For v_old the guard
   excludes exactly deps_pt and window_pt *)
Theorem C10_safe_partial : forall v p e n k,
  valid p e = true -> bad_point v p e n = false -> safe_at v p e n k = true.
Proof. exact safe_partial. Qed.
Print Assumptions C10_safe_partial.

(* an alternative repair (save the find cache after the build file has been written) closes the window as well:
   only the truncated depfile remains *)
Theorem C10_safe_if_cache_saved_last : forall p e n k,
  valid p e = true -> n <> deps_pt p -> safe_at v_cal p e n k = true.
Proof. exact safe_cache_last. Qed.
Print Assumptions C10_safe_if_cache_saved_last.

(* ---- the repaired code ---- *)

(* F1 + F2: NO crash point is left after which a follow-up make succeeds on a stale build file or a stale declared
   output: all projects, all visible edits, all n, all k *)
Theorem C10_safe_repaired : forall p e n k, valid p e = true -> safe_at v_repaired p e n k = true.
Proof. exact safe_repaired. Qed.
Print Assumptions C10_safe_repaired.

(* counting compile_commands.json as well, the only unsafe crash points are those of the compile_commands.json
   window: from the completion of the build file up to (excluding) the completion of compile_commands.json *)
Theorem C10_safe_repaired_compdb : forall p e n k,
  valid p e = true -> compdb_window v_repaired p n = false -> safe_all_at v_repaired p e n k = true.
Proof.
  intros p e n k Hv Hw. apply safe_all_repaired; [exact Hv|]. rewrite compdb_stale_window. exact Hw.
Qed.
Print Assumptions C10_safe_repaired_compdb.

(* the window as states: exactly the crash states with a complete new build file and an incomplete compdb *)
Theorem C10_compdb_window_states : forall v p n,
  compdb_window v p n = (let s := crash 4 n (run_ops v p) (fs_old p) in is_new (f_build s) && negb (compdb_new p s)).
Proof. intros. symmetry. apply compdb_stale_window. Qed.
Print Assumptions C10_compdb_window_states.

(* each repair alone closes exactly its own crash point *)
Theorem C10_safe_F1_only : forall p e n k,
  valid p e = true -> n <> deps_pt p -> safe_at (mkV false false true) p e n k = true.
Proof. exact safe_F1_only. Qed.
Print Assumptions C10_safe_F1_only.

Theorem C10_safe_F2_only : forall p e n k,
  valid p e = true -> n <> window_pt (mkV false true false) p -> safe_at (mkV false true false) p e n k = true.
Proof. exact safe_F2_only. Qed.
Print Assumptions C10_safe_F2_only.

(* ---- all variants ---- *)

(* an exception raised by the script or by a rule-emission hook (anywhere before the build file is opened) leaves
   the previous build file untouched, whatever the state and the time *)
Theorem C10_script_raise_untouched : forall v p j t s, j <= length (pre_ops v p) ->
  f_build (apply_ops t (until_raise (run_events v p j)) s) = f_build s /\
  Forall nobuild (until_raise (run_events v p j)).
Proof. intros. split; [apply raise_untouched | apply raise_ops_nobuild]; assumption. Qed.
Print Assumptions C10_script_raise_untouched.

(* a build file left empty or absent makes the next make fail visibly (and change nothing) *)
Theorem C10_truncated_detected : forall v p e t s, is_full (f_build s) = false ->
  make_attempt v p e t s = (false, s, false).
Proof. exact truncated_detected. Qed.
Print Assumptions C10_truncated_detected.

(* compile_commands.json is outside describes_new (it is not a declared output of the regeneration step): after a
   crash inside the compdb window every follow-up succeeds with correct build files and a stale
   compile_commands.json - before and after the repairs (open finding) *)
Theorem C10_compdb_stale_refuted : forall v, v = v_old \/ v = v_repaired -> exists p e n,
  valid p e = true /\ bad_point v p e n = false /\ compdb_window v p n = true /\ safe_at v p e n 2 = true /\
  safe_all_at v p e n 2 = false /\
  forallb (fun r => fst (fst r) && negb (compdb_new p (snd (fst r))))
          (attempts v p e 5 2 (crash 4 n (run_ops v p) (fs_old p))) = true.
Proof.
  intros v [-> | ->].
  - exists (mkP true 0 true), (mkE false true false), 8. vm_compute. repeat split; auto.
  - exists (mkP true 0 true), (mkE false true false), 9. vm_compute. repeat split; auto.
Qed.
Print Assumptions C10_compdb_stale_refuted.

(* non-vacuity: the guards are satisfiable on a project with find_files, 4 immediate files (stamp indirection) and
   compdb; after a crash in the middle of the immediate files the first follow-up really regenerates and succeeds
   with new files; and the bad points are exactly two of the 22 crash points of that run *)
Example C10_partial_nonvacuous :
  let p := mkP true 4 true in let e := mkE false true false in
  valid p e = true /\ bad_point v_old p e 9 = false /\
  map (fun r => (fst (fst r), snd r, describes_new (snd (fst r))))
      (attempts v_old p e 5 2 (crash 4 9 (run_ops v_old p) (fs_old p))) = [(true, true, true); (true, false, true)] /\
  filter (fun n => negb (safe_at v_old p e n 2)) (seq 0 (S (length (run_ops v_old p)))) = [deps_pt p; window_pt v_old p] /\
  filter (fun n => negb (safe_at v_cal p e n 2)) (seq 0 (S (length (run_ops v_cal p)))) = [deps_pt p].
Proof. vm_compute. repeat split; reflexivity. Qed.

(* the repaired variant on the same project: 23 crash points, none unsafe for the declared outputs; with
   compile_commands.json counted exactly the two points of the compdb window; the crash between the close of
   .bfg_find_deps.tmp and the rename leaves the old depfile and a complete stray .tmp; at the former window point
   the first follow-up now really regenerates (F1) *)
Example C10_repaired_nonvacuous :
  let p := mkP true 4 true in let e := mkE false true false in
  length (run_ops v_repaired p) = 23 /\
  filter (fun n => negb (safe_at v_repaired p e n 2)) (seq 0 24) = [] /\
  filter (fun n => negb (safe_all_at v_repaired p e n 2)) (seq 0 24) = [21; 22] /\
  filter (compdb_window v_repaired p) (seq 0 24) = [21; 22] /\
  (let s := crash 4 16 (run_ops v_repaired p) (fs_old p) in (f_deps s, f_tmp s)) = (oldf, mkF (Full New) 4) /\
  (let s := crash 4 17 (run_ops v_repaired p) (fs_old p) in (f_deps s, f_tmp s)) = (mkF (Full New) 4, absent) /\
  window_pt v_repaired p = 19 /\
  map (fun r => (fst (fst r), snd r, describes_new (snd (fst r))))
      (attempts v_repaired p e 5 2 (crash 4 19 (run_ops v_repaired p) (fs_old p))) = [(true, true, true); (true, false, true)] /\
  (* F1 alone / F2 alone leave exactly the other point *)
  filter (fun n => negb (safe_at (mkV false false true) p e n 2)) (seq 0 24) = [deps_pt p] /\
  filter (fun n => negb (safe_at (mkV false true false) p e n 2)) (seq 0 24) = [19].
Proof. vm_compute. repeat split; reflexivity. Qed.

Example C10_raise_nonvacuous :
  let p := mkP true 2 true in
  length (pre_ops v_old p) = 12 /\ until_raise (run_events v_old p 5) = firstn 5 (run_ops v_old p) /\
  f_build (apply_ops 4 (until_raise (run_events v_old p 12)) (fs_old p)) = oldf /\
  length (pre_ops v_repaired p) = 13 /\
  f_build (apply_ops 4 (until_raise (run_events v_repaired p 13)) (fs_old p)) = oldf.
Proof. vm_compute. repeat split; reflexivity. Qed.

(* ---- the history `options`: an existing build directory is configured again with other options (the tree is not
   edited), that run is cut after n >= 2 mutations (.bfg_environ already holds the new options), and the next
   regeneration attempt is bfg9000 regenerate --lazy run by hand.  reconf_ok v p n: that attempt fails visibly or leaves
   the build file and the declared outputs written with the new options ---- *)

(* with a cached find_files call and the code with F1, the unsafe crash points are exactly reconf_bad: every point from
   the save of the new options up to (not including) the first touch of .bfg_find_cache - the old cache is trusted (open
   finding C10-reconfigure-cut-before-findcache-save) - and the point at which the build file is truncated but not yet
   written (open finding C10-lazy-by-hand-skips-over-truncated-buildfile); all other points are safe, in particular the
   window between the cache save and the build-file write, which only F1's marker protects; for every number of
   immediate files and both depfile variants *)
Theorem C10_reconfigure_classified : forall v p n, uses_find p = true -> cal v = false -> dnc v = true -> 2 <= n ->
  reconf_ok v p n = negb (reconf_bad v p n).
Proof. exact reconf_classified. Qed.
Print Assumptions C10_reconfigure_classified.

Theorem C10_reconfigure_marker : forall p va, uses_find p = true ->
  reconf_ok (mkV false va true) p (window_pt (mkV false va true) p) = true.
Proof. exact reconf_marker. Qed.
Print Assumptions C10_reconfigure_marker.

(* the marker is necessary: when the cache file is not strictly newer than the old build file after the cache hook of
   the cut run (the code without F1; equally a save that does not rewrite an unchanged cache), the follow-up exits 0 on
   the old build file *)
Theorem C10_reconfigure_marker_needed : forall p va, uses_find p = true ->
  reconf_ok (mkV false va false) p (window_pt (mkV false va false) p) = false.
Proof. exact reconf_marker_needed. Qed.
Print Assumptions C10_reconfigure_marker_needed.

(* the two open findings as witnesses of the repaired code *)
Theorem C10_reconfigure_refuted : exists p n m,
  uses_find p = true /\ 2 <= n /\ 2 <= m /\
  reconf_ok v_repaired p n = false /\ is_new (f_env (crash 4 n (run_ops v_repaired p) (fs_old p))) = true /\
  f_cache (crash 4 n (run_ops v_repaired p) (fs_old p)) = oldf /\
  reconf_ok v_repaired p m = false /\ cont (f_build (crash 4 m (run_ops v_repaired p) (fs_old p))) = Empty.
Proof. exists (mkP true 2 true), 5, 14. repeat split; try (vm_compute; reflexivity); auto with arith. Qed.
Print Assumptions C10_reconfigure_refuted.

(* without a cached find_files call there is no cache to trust: every point is safe *)
Theorem C10_reconfigure_nofind_safe : forall v p n, uses_find p = false -> cal v = false -> 2 <= n -> reconf_ok v p n = true.
Proof. exact reconf_nofind_safe. Qed.
Print Assumptions C10_reconfigure_nofind_safe.

Example C10_reconfigure_nonvacuous :
  let p := mkP true 2 true in
  window_pt v_repaired p = 13 /\ length (run_ops v_repaired p) = 17 /\
  filter (fun n => negb (reconf_ok v_repaired p n)) (seq 2 17) = [2; 3; 4; 5; 6; 7; 8; 9; 10; 11; 14] /\
  filter (reconf_bad v_repaired p) (seq 2 17) = [2; 3; 4; 5; 6; 7; 8; 9; 10; 11; 14] /\
  filter (fun n => negb (reconf_ok (mkV false true false) p n)) (seq 2 17) = [2; 3; 4; 5; 6; 7; 8; 9; 10; 11; 13; 14].
Proof. vm_compute. repeat split; reflexivity. Qed.

(* ---- the exit status of a failed run (driver.py; tied by W:exit_status to handle_reload_exception of the tree under test) ---- *)

(* whatever exception ends a configure / a regeneration - a script that called exit with a truthy code below 256, an
   OSError with or without an errno, anything else - the process exits with a non-zero status, so make / ninja see the
   regeneration step fail *)
Theorem C10_failed_run_exit_nonzero : forall e, raisable e = true -> exit_status e <> 0%N.
Proof. exact failed_run_exit_nonzero. Qed.
Print Assumptions C10_failed_run_exit_nonzero.

(* in particular what an OSError carries (an errno, or only a message as the FileNotFoundError of a failed tool lookup)
   does not matter *)
Theorem C10_oserror_exit_one : forall errno, exit_status (OsErr errno) = 1%N.
Proof. exact oserror_status_one. Qed.
Print Assumptions C10_oserror_exit_one.

(* the hypothesis on the code is needed: a script exit with a truthy code that is a multiple of 256 ends the run with
   status 0 (finding C10-script-exit-code-multiple-of-256; replayed on the real driver by oracle:exit_status) *)
Theorem C10_failed_run_exit_refuted_256 : exists c, truthy c = true /\ exit_status (ScriptExit c) = 0%N.
Proof. exists (CNum 256). vm_compute. split; reflexivity. Qed.
Print Assumptions C10_failed_run_exit_refuted_256.

Example C10_exit_status_nonvacuous :
  raisable (OsErr None) = true /\ exit_status (OsErr None) = 1%N /\ raisable (ScriptExit (CNum 3)) = true /\
  exit_status (ScriptExit (CNum 3)) = 3%N /\ exit_status (ScriptExit (CText true)) = 1%N /\
  raisable (ScriptExit (CNum 0)) = false /\ exit_status (ScriptExit (CNum 256)) = 0%N.
Proof. vm_compute. repeat split; reflexivity. Qed.
