(* C10 - Interrupted or failed regeneration never leaves silently stale build files.
   Only statements; the model is theories/State/Crash.v (run_ops, crash, make_attempt, lazy_decision), proofs are in
   theories/State/CrashProofs.v and CrashSafe.v.

   safe_at cal p e n k: after a crash of the regeneration of project p (edited by e) after n mutations, each of k
   successive make runs either fails visibly or leaves the build file and every declared output of the regeneration
   step describing the edited project.  cal = false is the code as written. *)
From Coq Require Import List Bool Arith.
From BFG Require Import State.Crash State.CrashProofs State.CrashSafe.
Import ListNotations.

(* the property is false of the code as written: with find_files and only a new matching file, a crash right after
   the find cache was saved and before the build file is opened makes both follow-up makes succeed while the build
   file still describes the old project (DESIGN 7.8) *)
Theorem C10_safe_refuted : exists p e n,
  valid p e = true /\ n = window_pt p /\ n <= length (run_ops false p) /\ safe_at false p e n 2 = false.
Proof. exists (mkP true 0 true), (mkE false true false), 6. vm_compute. repeat split; auto. Qed.
Print Assumptions C10_safe_refuted.

(* a second refutation found by the fault injection: a crash between open and close of .bfg_find_deps leaves the
   depfile empty, the old Makefile loses its dependency on the watched directories, make does not even start
   bfg9000; saving the cache last does not repair this one *)
Theorem C10_safe_refuted_depfile : exists p e n, forall cal,
  valid p e = true /\ n = deps_pt p /\ safe_at cal p e n 2 = false.
Proof. exists (mkP true 1 true), (mkE false true false), 6. intros []; vm_compute; repeat split; auto. Qed.
Print Assumptions C10_safe_refuted_depfile.

(* every other crash point is safe: for ALL projects (any number of immediate files), all visible edits, all n
   (also beyond the end of the run = uninterrupted), any number of follow-ups *)
Theorem C10_safe_partial : forall p e n k,
  valid p e = true -> bad_point false p e n = false -> safe_at false p e n k = true.
Proof. intros. apply safe_partial; assumption. Qed.
Print Assumptions C10_safe_partial.

(* the natural repair (save the find cache after the build file has been written) closes the window: only the
   truncated depfile remains *)
Theorem C10_safe_if_cache_saved_last : forall p e n k,
  valid p e = true -> n <> deps_pt p -> safe_at true p e n k = true.
Proof. exact safe_cache_last. Qed.
Print Assumptions C10_safe_if_cache_saved_last.

(* an exception raised by the script or by a rule-emission hook (anywhere before the build file is opened) leaves
   the previous build file untouched, whatever the state and the time *)
Theorem C10_script_raise_untouched : forall p j t s, j <= length (pre_ops p) ->
  f_build (apply_ops t (until_raise (run_events p j)) s) = f_build s /\
  Forall nobuild (until_raise (run_events p j)).
Proof. intros. split; [apply raise_untouched | apply raise_ops_nobuild]; assumption. Qed.
Print Assumptions C10_script_raise_untouched.

(* a build file left empty or absent makes the next make fail visibly (and change nothing) *)
Theorem C10_truncated_detected : forall cal p e t s, is_full (f_build s) = false ->
  make_attempt cal p e t s = (false, s, false).
Proof. exact truncated_detected. Qed.
Print Assumptions C10_truncated_detected.

(* compile_commands.json is outside describes_new (it is not a declared output of the regeneration step): after a
   crash between the build-file write and the compdb write every follow-up succeeds with correct build files and a
   stale compile_commands.json *)
Theorem C10_compdb_stale_refuted : exists p e n,
  valid p e = true /\ bad_point false p e n = false /\ safe_at false p e n 2 = true /\
  forallb (fun r => fst (fst r) && negb (compdb_new p (snd (fst r))))
          (attempts false p e 5 2 (crash 4 n (run_ops false p) (fs_old p))) = true.
Proof. exists (mkP true 0 true), (mkE false true false), 8. vm_compute. repeat split; auto. Qed.
Print Assumptions C10_compdb_stale_refuted.

(* non-vacuity: the guards are satisfiable on a project with find_files, 4 immediate files (stamp indirection) and
   compdb; after a crash in the middle of the immediate files the first follow-up really regenerates and succeeds
   with new files; and the bad points are exactly two of the 22 crash points of that run *)
Example C10_partial_nonvacuous :
  let p := mkP true 4 true in let e := mkE false true false in
  valid p e = true /\ bad_point false p e 9 = false /\
  map (fun r => (fst (fst r), snd r, describes_new (snd (fst r))))
      (attempts false p e 5 2 (crash 4 9 (run_ops false p) (fs_old p))) = [(true, true, true); (true, false, true)] /\
  filter (fun n => negb (safe_at false p e n 2)) (seq 0 (S (length (run_ops false p)))) = [deps_pt p; window_pt p] /\
  filter (fun n => negb (safe_at true p e n 2)) (seq 0 (S (length (run_ops true p)))) = [deps_pt p].
Proof. vm_compute. repeat split; reflexivity. Qed.

Example C10_raise_nonvacuous :
  let p := mkP true 2 true in
  length (pre_ops p) = 12 /\ until_raise (run_events p 5) = firstn 5 (run_ops false p) /\
  f_build (apply_ops 4 (until_raise (run_events p 12)) (fs_old p)) = oldf.
Proof. vm_compute. repeat split; reflexivity. Qed.
