(* C11 - find_files returns exactly the files the documented glob semantics select.
   Only statements; models and proofs live in theories/Find/. *)
From Coq Require Import String.
From Coq Require Import List.
From BFG Require Import Base.Chars Find.Glob Find.GlobProofs.
Local Open Scope N_scope.

(* one component: the executable matcher used for every glob component and every NameGlob decides
   exactly the declarative reading (star = any string, every other token = exactly one character) *)
Theorem C11_component_iff : forall pat name, fn_match pat name = true <-> tok_sem (fn_parse pat) name.
Proof. exact fn_match_iff. Qed.
Print Assumptions C11_component_iff.

(* the fuel of the component-pattern parser never runs out *)
Theorem C11_parse_fuel : forall fuel p, (length p <= fuel)%nat -> fn_parse_fuel fuel p = fn_parse p.
Proof. exact fn_parse_fuel_enough. Qed.
Print Assumptions C11_parse_fuel.

(* PathGlob.match answers yes exactly when root and base agree (unless the caller skips the base check),
   the rest of the path is selected by the declarative reading of the pattern (double star = any number of
   components, every other pattern component = exactly one component) and the entry type is accepted *)
Theorem C11_match_yes_iff : forall g p skip,
  pg_match g p skip = Yes <->
  base_ok g p skip /\ glob_sem (g_pat g) (skipn (length (g_base g)) (p_comps p)) /\ type_ok (g_type g) (p_dir p) = true.
Proof. exact pg_match_yes_iff. Qed.
Print Assumptions C11_match_yes_iff.

(* the greedy offset loop of _match_glob_runs loses nothing: the compiled runs answer yes exactly when
   some placement of the runs (arbitrary gaps before every run, anchored at the end) exists *)
Theorem C11_greedy_complete : forall R, R <> [] -> forall b,
  match_runs (with_lengths R) b = Yes <-> sem_rest R b.
Proof. exact match_runs_iff. Qed.
Print Assumptions C11_greedy_complete.

(* the pruning licence: never persists for everything below, hence nothing below can match *)
Theorem C11_never_persists : forall g d q skip, pg_match g d skip = Never -> below d q -> pg_match g q skip = Never.
Proof. exact pg_never_persists. Qed.
Print Assumptions C11_never_persists.

Theorem C11_never_sound : forall g d q skip, pg_match g d skip = Never -> below d q -> pg_match g q skip <> Yes.
Proof. exact pg_never_sound. Qed.
Print Assumptions C11_never_sound.

(* ---- non-vacuity *)
Definition ex_glob : pglob :=   (* src/**/a*/?.c, type file *)
  mkpglob 1 [STR "src"] [STR "**"; STR "a*"; STR "?.c"] TFile.
Example ex_yes : pg_match ex_glob (mkpath 1 [STR "src"; STR "x"; STR "y"; STR "ab"; STR "m.c"] false) false = Yes.
Proof. vm_compute. reflexivity. Qed.
Example ex_no : pg_match ex_glob (mkpath 1 [STR "src"; STR "ab"] true) false = No.
Proof. vm_compute. reflexivity. Qed.
Example ex_never : pg_match ex_glob (mkpath 1 [STR "lib"; STR "ab"] true) false = Never.
Proof. vm_compute. reflexivity. Qed.
Example ex_never2 :   (* a single run: longer paths can never match *)
  pg_match (mkpglob 1 [] [STR "*.c"] TFile) (mkpath 1 [STR "sub"] true) true = Never.
Proof. vm_compute. reflexivity. Qed.
Example ex_component : fn_match (STR "[!a-c]*.[ch]") (STR "main.c") = true /\ fn_match (STR "[!a-c]*.[ch]") (STR "b.c") = false.
Proof. vm_compute. auto. Qed.
(* greedy placement: the first run after the double star matches at offset 0 and at offset 2; only the
   later placement leaves room... the greedy choice still succeeds because the next gap absorbs the rest *)
Example ex_greedy :
  pg_match (mkpglob 1 [] [STR "**"; STR "a"; STR "**"; STR "b"] TFile)
           (mkpath 1 [STR "a"; STR "b"; STR "a"; STR "x"; STR "b"] false) true = Yes.
Proof. vm_compute. reflexivity. Qed.
