(* C11 - find_files returns exactly the files the documented glob semantics select.
   Only statements; models and proofs live in theories/Find/. *)
From Coq Require Import String.
From Coq Require Import List.
From BFG Require Import Base.Chars Find.Glob Find.GlobProofs Find.Filter Find.FilterProofs Find.Walk Find.WalkProofs.
From BFG Require Import Find.Bases Find.BasesProofs Find.BasesGlue.
From BFG Require Path.PathAlg Path.PathAlgRt Path.PathAlgTrees.
Local Open Scope N_scope.

(* one component: the executable matcher used for every glob component and every NameGlob decides
   exactly the declarative reading (star = any string, every other token = exactly one character) *)
Theorem C11_component_iff : forall pat name, fn_match pat name = true <-> tok_sem (fn_parse pat) name.
Proof. exact fn_match_iff. Qed.
Print Assumptions C11_component_iff.

(* the fuel of the component-pattern parser never runs out *)
Theorem C11_parse_fuel : forall fuel p, (length p <= fuel)%nat -> fn_parse_fuel fuel p = fn_parse p.
Proof. exact fn_parse_fuel_enough. Qed.
Print Assumptions C11_parse_fuel.

(* PathGlob.match answers yes exactly when root and base agree (unless the caller skips the base check),
   the rest of the path is selected by the declarative reading of the pattern (double star = any number of
   components, every other pattern component = exactly one component) and the entry type is accepted *)
Theorem C11_match_yes_iff : forall g p skip,
  pg_match g p skip = Yes <->
  base_ok g p skip /\ glob_sem (g_pat g) (skipn (length (g_base g)) (p_comps p)) /\ type_ok (g_type g) (p_dir p) = true.
Proof. exact pg_match_yes_iff. Qed.
Print Assumptions C11_match_yes_iff.

(* the greedy offset loop of _match_glob_runs loses nothing: the compiled runs answer yes exactly when
   some placement of the runs (arbitrary gaps before every run, anchored at the end) exists *)
Theorem C11_greedy_complete : forall R, R <> [] -> forall b,
  match_runs (with_lengths R) b = Yes <-> sem_rest R b.
Proof. exact match_runs_iff. Qed.
Print Assumptions C11_greedy_complete.

(* the pruning licence: never persists for everything below, hence nothing below can match *)
Theorem C11_never_persists : forall g d q skip, pg_match g d skip = Never -> below d q -> pg_match g q skip = Never.
Proof. exact pg_never_persists. Qed.
Print Assumptions C11_never_persists.

Theorem C11_never_sound : forall g d q skip, pg_match g d skip = Never -> below d q -> pg_match g q skip <> Yes.
Proof. exact pg_never_sound. Qed.
Print Assumptions C11_never_sound.

(* at the filter level: once all include globs say never for a directory, nothing below it is included,
   whatever extra patterns and the filter function say *)
Theorem C11_never_sound_filter : forall f d q,
  inc_res f d = Never -> below d q -> is_inc (fmatch f q) = false.
Proof. exact never_sound_filter. Qed.
Print Assumptions C11_never_sound_filter.

(* FindResult and PathGlob.Result: and is max, or is min, both associative, commutative, idempotent, absorbing *)
Theorem C11_filter_lattice :
  (forall a b, fres_val (fand a b) = Nat.max (fres_val a) (fres_val b)) /\
  (forall a b, fres_val (for_ a b) = Nat.min (fres_val a) (fres_val b)) /\
  (forall a b, fand a b = fand b a) /\ (forall a b c, fand a (fand b c) = fand (fand a b) c) /\ (forall a, fand a a = a) /\
  (forall a b, for_ a b = for_ b a) /\ (forall a b c, for_ a (for_ b c) = for_ (for_ a b) c) /\ (forall a, for_ a a = a) /\
  (forall a b, for_ a (fand a b) = a) /\ (forall a b, fand a (for_ a b) = a).
Proof. exact fres_lattice. Qed.
Print Assumptions C11_filter_lattice.

Theorem C11_result_lattice :
  (forall a b, res_val (rand a b) = Nat.max (res_val a) (res_val b)) /\
  (forall a b, res_val (ror a b) = Nat.min (res_val a) (res_val b)) /\
  (forall a b, rand a b = rand b a) /\ (forall a b c, rand a (rand b c) = rand (rand a b) c) /\ (forall a, rand a a = a) /\
  (forall a b, ror a b = ror b a) /\ (forall a b c, ror a (ror b c) = ror (ror a b) c) /\ (forall a, ror a a = a) /\
  (forall a b, ror a (rand a b) = a) /\ (forall a b, rand a (ror a b) = a).
Proof. exact res_lattice. Qed.
Print Assumptions C11_result_lattice.

(* the walk as implemented (directories answered exclude_recursive are deleted from the list, also when the
   answer comes from a never of the globs) finds, in the same order, what the walk finds that prunes only on the
   documented exclusions (exclude patterns, exclude_recursive from the filter function) *)
Theorem C11_pruning_invisible : forall f starts,
  found_of (find_files (prune_real f) (fmatch f) starts) = found_of (find_files (prune_doc f) (fmatch f) starts).
Proof. exact pruning_invisible. Qed.
Print Assumptions C11_pruning_invisible.

(* found = the declarative selection over the tree: an entry is found iff the filter includes it and it is
   reachable from the start directory through directories that are neither symbolic links nor excluded *)
Theorem C11_walk_eq_spec : forall f p ch x,
  In x (found_of (walk_top (prune_real f) (fmatch f) p ch)) <-> selected f p ch x.
Proof. exact find_selected. Qed.
Print Assumptions C11_walk_eq_spec.

(* every found entry is a start directory itself or an entry of the tree below an existing start directory *)
Theorem C11_found_exist : forall f starts x, In x (found_of (find_files (prune_real f) (fmatch f) starts)) ->
  (exists s, In s starts /\ x = fst s) \/ (exists p ch, In (p, Some ch) starts /\ in_tree p ch x).
Proof. exact found_exist. Qed.
Print Assumptions C11_found_exist.

Theorem C11_extras_disjoint : forall f prune starts x,
  In x (found_of (find_files prune (fmatch f) starts)) -> In x (extra_of (find_files prune (fmatch f) starts)) -> False.
Proof. exact extras_disjoint. Qed.
Print Assumptions C11_extras_disjoint.

(* with dist set, every found and every extra entry of the source directory is registered for the source
   distribution after a search ... *)
Theorem C11_dist_registered_miss : forall fixed f starts (cache : bool) st x,
  (if cache then cache_get (key_of f) (st_cache st) else None) = None ->
  let ents := find_files (prune_real f) (fmatch f) starts in
  In x (found_of ents) \/ In x (extra_of ents) -> p_root x = 1 ->
  fst (find_from_filter fixed f starts true cache st) = found_of ents /\
  In (pkey_of x) (st_dist (snd (find_from_filter fixed f starts true cache st))).
Proof. exact dist_registered_miss. Qed.
Print Assumptions C11_dist_registered_miss.

(* ... and after a cache hit, for the cache-hit branch as repaired by repo commit 491a34f (fixed = true) *)
Theorem C11_dist_registered_hit : forall f starts st found extra x,
  cache_get (key_of f) (st_cache st) = Some (found, extra) ->
  In x found \/ In x extra -> p_root x = 1 ->
  fst (find_from_filter true f starts true true st) = found /\
  In (pkey_of x) (st_dist (snd (find_from_filter true f starts true true st))).
Proof. exact dist_registered_hit. Qed.
Print Assumptions C11_dist_registered_hit.

(* the branch as written before the repair (fixed = false) loses the extra file on a cache hit *)
Definition ex_filter : ffilter :=
  match mk_filter [mkpath 1 [STR "src"; STR "*.c"] false] None [STR "*.h"] [] None with
  | Some f => f
  | None => mkfilter [] [] [] None
  end.
Definition ex_fs : fsys := [(1, [Dir (STR "src") false [File (STR "a.c") false; File (STR "a.h") false; Dir (STR "sub") false [File (STR "b.c") false]]])].
Definition ex_starts : list start := [start_of ex_fs (mkpath 1 [STR "src"] true)].
Definition ex_cached : fstate :=   (* the state find_check_cache leaves behind: cache filled, nothing registered *)
  mkst (st_cache (snd (find_from_filter true ex_filter ex_starts true true (mkst [] [] [])))) [] [].
Theorem C11_unfixed_cache_hit_drops_extra :
  exists f starts st x, In x (extra_of (find_files (prune_real f) (fmatch f) starts)) /\ p_root x = 1 /\
    cache_get (key_of f) (st_cache st) = Some (found_of (find_files (prune_real f) (fmatch f) starts),
                                              extra_of (find_files (prune_real f) (fmatch f) starts)) /\
    ~ In (pkey_of x) (st_dist (snd (find_from_filter false f starts true true st))) /\
    In (pkey_of x) (st_dist (snd (find_from_filter true f starts true true st))).
Proof.
  exists ex_filter, ex_starts, ex_cached, (mkpath 1 [STR "src"; STR "a.h"] false).
  vm_compute. repeat split; auto.
  intros [H|[]]. discriminate H.
Qed.
Print Assumptions C11_unfixed_cache_hit_drops_extra.

(* a second cached lookup of an equal filter (FileFilter.__eq__ = equal include, extra, exclude, filter_fn)
   returns the list the first one returned *)
Theorem C11_cache : forall fixed f f' starts starts' dist dist' st,
  key_of f' = key_of f ->
  let '(r1, st1) := find_from_filter fixed f starts dist true st in
  fst (find_from_filter fixed f' starts' dist' true st1) = r1.
Proof. exact cache_second_lookup. Qed.
Print Assumptions C11_cache.

(* the walk roots: when the start directories form an antichain for the below-relation (no start directory
   lies in the tree of another one, none is listed twice - what path.uniquetrees is meant to deliver for the
   include bases; that property of uniquetrees is an explicit hypothesis here, it belongs to the path algebra)
   and every directory listing has pairwise distinct names, then no entry is reported twice: not among the
   start directories, not within one walk, not across walks.  Entries are compared by (root, components),
   which is finer than Path equality.  Holds for every pruning policy and every filter function. *)
Theorem C11_walk_roots_no_duplicates : forall prune m (starts : list start),
  antichain (map fst starts) -> Forall wf_start starts ->
  NoDup (map (fun e => pkey_of (fst e)) (find_files prune m starts)).
Proof. exact walk_roots_no_duplicates. Qed.
Print Assumptions C11_walk_roots_no_duplicates.

(* ... in particular find_files never returns an entry twice; with the start directories looked up in one
   well-formed file system *)
Theorem C11_found_no_duplicates : forall f fs (bs : list path),
  antichain bs -> wf_fsys fs ->
  NoDup (found_of (find_files (prune_real f) (fmatch f) (map (start_of fs) bs))).
Proof. intros f fs bs Ha Hw. exact (proj2 (roots_no_duplicates_fs (prune_real f) (fmatch f) fs bs Ha Hw)). Qed.
Print Assumptions C11_found_no_duplicates.

(* the hypothesis is needed: with a start directory nested in another one the nested entries are found twice *)
Definition ex_nested : ffilter :=
  match mk_filter [mkpath 1 [STR "src"; STR "*.c"] false; mkpath 1 [STR "src"; STR "sub"; STR "*.c"] false]
                  None [] [] None with
  | Some f => f
  | None => mkfilter [] [] [] None
  end.
Theorem C11_nested_roots_duplicate_refuted : exists f fs (bs : list path),
  wf_fsys fs /\ ~ NoDup (found_of (find_files (prune_real f) (fmatch f) (map (start_of fs) bs))).
Proof.
  exists ex_nested,
         [(1, [Dir (STR "src") false [File (STR "a.c") false; Dir (STR "sub") false [File (STR "b.c") false]]])],
         [mkpath 1 [STR "src"] true; mkpath 1 [STR "src"; STR "sub"] true].
  split.
  - repeat constructor; cbn; intuition discriminate.
  - vm_compute. intros H. inversion H as [|? ? _ H']. inversion H' as [|? ? Hx _]. apply Hx. left. reflexivity.
Qed.
Print Assumptions C11_nested_roots_duplicate_refuted.

(* ---- glue C11 <- C12: the antichain hypothesis discharged for the roots _find_files chooses itself ----
   FileFilter.bases() (Find/Bases.v: Path constructor PathAlg.mk + PathAlg.uniquetrees, observed as
   [root.value, split(), directory]) returns an antichain for the below-relation, for EVERY filter: below on these
   observations is the prefix relation on the sort keys (root value, split()) that path.uniquetrees compares, and
   C12_uniquetrees_keys holds for all inputs.  No guard on the bases is needed (in particular not the exclusion of
   the file-system root that C12_uniquetrees needs for its tree reading, see C11_bases_fsroot_tree_refuted). *)
Theorem C11_bases_antichain : forall f bs, bases f = Some bs -> antichain bs.
Proof. exact bases_antichain. Qed.
Print Assumptions C11_bases_antichain.

(* the roots are chosen among the include bases and cover them: every include base is, or lies below, a root *)
Theorem C11_bases_cover : forall f bs, bases f = Some bs ->
  (forall g, In g (f_inc f) -> exists q b, base_alg g = Some q /\ In b bs /\ below b (of_alg q)) /\
  (forall b, In b bs -> exists g q, In g (f_inc f) /\ base_alg g = Some q /\ b = of_alg q).
Proof. exact bases_cover. Qed.
Print Assumptions C11_bases_cover.

(* the no-duplicates statements without any antichain hypothesis: _find_files with the walk roots it computes from
   the filter, over any file system whose listings have pairwise distinct names, reports no entry twice (compared
   by root and components), for every pruning policy; in particular find_files returns no path twice *)
Theorem C11_find_files_of_no_duplicates_keys : forall prune f fs r,
  find_files_of prune f fs = Some r -> wf_fsys fs -> NoDup (map (fun e => pkey_of (fst e)) r).
Proof. intros prune f fs r H Hw. exact (proj1 (find_files_of_no_duplicates prune f fs r H Hw)). Qed.
Print Assumptions C11_find_files_of_no_duplicates_keys.

Theorem C11_find_files_of_no_duplicates : forall f fs r,
  find_files_of (prune_real f) f fs = Some r -> wf_fsys fs -> NoDup (found_of r).
Proof. intros f fs r H Hw. exact (proj2 (find_files_of_no_duplicates (prune_real f) f fs r H Hw)). Qed.
Print Assumptions C11_find_files_of_no_duplicates.

(* the tree reading: for well-formed paths with plain roots other than the file-system root, below on the
   observations is containment of directory trees (same root, component prefix) ... *)
Theorem C11_below_is_tree_containment : forall u v,
  PathAlgRt.wfp u -> PathAlgRt.wfp v -> PathAlgTrees.not_fsroot u -> PathAlgTrees.not_fsroot v ->
  PathAlg.is_install (PathAlg.p_root u) = false -> PathAlg.is_install (PathAlg.p_root v) = false ->
  (below (of_alg u) (of_alg v) <-> PathAlgTrees.under u v).
Proof. exact below_iff_under. Qed.
Print Assumptions C11_below_is_tree_containment.

(* ... so under these guards on the include bases the walk roots are pairwise tree-disjoint and every include base
   lies in the tree of a root (C12_uniquetrees transported to FileFilter.bases()) *)
Theorem C11_bases_tree_antichain : forall f ps,
  all_some (map base_alg (f_inc f)) = Some ps ->
  (forall p, In p ps -> PathAlgRt.wfp p /\ PathAlgTrees.not_fsroot p) ->
  bases f = Some (map of_alg (PathAlg.uniquetrees ps)) /\
  (forall p, In p ps -> exists u, In u (PathAlg.uniquetrees ps) /\ PathAlgTrees.under u p) /\
  ForallOrdPairs (fun u v => ~ PathAlgTrees.under u v /\ ~ PathAlgTrees.under v u) (PathAlg.uniquetrees ps).
Proof. exact bases_tree_antichain. Qed.
Print Assumptions C11_bases_tree_antichain.

(* the guard not_fsroot is needed for the tree reading only: with the include bases / and /a (C12 finding
   uniquetrees-filesystem-root; the split of / is two empty strings) both are kept as roots although /a lies in the
   tree of / - while they still form an antichain for below, as C11_bases_antichain says.  (PathGlob cannot
   construct the base / : finding absolute-root-level-glob; the filter below is written down directly.) *)
Definition ex_fsroot : ffilter :=
  mkfilter [mkpglob 3 [[]; []] [STR "*.c"] TFile; mkpglob 3 [[]; STR "a"] [STR "*.c"] TFile] [] [] None.
Theorem C11_bases_fsroot_tree_refuted : exists f a b,
  PathAlg.mk (STR "/") (PathAlg.RRoot PathAlg.Absolute) None (Some true) = Some a /\
  PathAlg.mk (STR "/a") (PathAlg.RRoot PathAlg.Absolute) None (Some true) = Some b /\
  all_some (map base_alg (f_inc f)) = Some [a; b] /\
  bases f = Some [of_alg a; of_alg b] /\ PathAlgTrees.under a b /\ a <> b /\
  ~ PathAlgTrees.not_fsroot a /\ antichain [of_alg a; of_alg b].
Proof.
  exists ex_fsroot. eexists. eexists. split; [vm_compute; reflexivity|]. split; [vm_compute; reflexivity|].
  split; [vm_compute; reflexivity|]. split; [vm_compute; reflexivity|].
  split; [split; [reflexivity|exists [STR "a"]; reflexivity]|].
  split; [discriminate|]. split; [intros H; specialize (H eq_refl); discriminate H|].
  apply (bases_antichain ex_fsroot). vm_compute. reflexivity.
Qed.
Print Assumptions C11_bases_fsroot_tree_refuted.

(* ---- non-vacuity *)
(* the roots the model of FileFilter.bases() (Path constructor + path.uniquetrees of the path-algebra model)
   chooses for a near-prefix family: src, src/sub and the sibling src-gen, whose name continues src with a
   character sorting before the separator *)
Definition ex_family : ffilter :=
  match mk_filter [mkpath 1 [STR "src"; STR "*.c"] false; mkpath 1 [STR "src"; STR "sub"; STR "*.c"] false;
                   mkpath 1 [STR "src-gen"; STR "*.c"] false] None [] [] None with
  | Some f => f
  | None => mkfilter [] [] [] None
  end.
Definition ex_family_fs : fsys :=
  [(1, [Dir (STR "src") false [File (STR "main.c") false; Dir (STR "sub") false [File (STR "one.c") false]];
        Dir (STR "src-gen") false [File (STR "two.c") false]])].
Example ex_family_bases : bases ex_family = Some [mkpath 1 [STR "src"] true; mkpath 1 [STR "src-gen"] true].
Proof. vm_compute. reflexivity. Qed.
Example ex_family_antichain : antichain [mkpath 1 [STR "src"] true; mkpath 1 [STR "src-gen"] true].
Proof. repeat constructor; intros [_ [e E]]; cbn in E; inversion E. Qed.
Example ex_family_found :
  option_map found_of (find_files_of (prune_real ex_family) ex_family ex_family_fs) =
  Some [mkpath 1 [STR "src"; STR "main.c"] false; mkpath 1 [STR "src"; STR "sub"; STR "one.c"] false;
        mkpath 1 [STR "src-gen"; STR "two.c"] false].
Proof. vm_compute. reflexivity. Qed.
Example ex_family_wf : wf_fsys ex_family_fs.
Proof. repeat constructor; cbn; intuition discriminate. Qed.
(* the glue theorems applied to the family: the roots are computed (not assumed) and the hypotheses hold *)
Example ex_family_glue : exists bs r,
  bases ex_family = Some bs /\ antichain bs /\ length bs = 2%nat /\
  find_files_of (prune_real ex_family) ex_family ex_family_fs = Some r /\
  NoDup (found_of r) /\ length (found_of r) = 3%nat.
Proof.
  destruct (find_files_of (prune_real ex_family) ex_family ex_family_fs) as [r|] eqn:E; [|vm_compute in E; discriminate E].
  eexists. exists r. split; [exact ex_family_bases|]. split; [exact (C11_bases_antichain _ _ ex_family_bases)|].
  split; [reflexivity|]. split; [reflexivity|].
  split; [exact (C11_find_files_of_no_duplicates _ _ _ E ex_family_wf)|].
  vm_compute in E. inversion E. reflexivity.
Qed.
(* the guards of the tree reading hold for the three include bases of the family *)
Example ex_family_tree_guards : exists ps,
  all_some (map base_alg (f_inc ex_family)) = Some ps /\ length ps = 3%nat /\
  forall p, In p ps -> PathAlgRt.wfp p /\ PathAlgTrees.not_fsroot p.
Proof.
  eexists. split; [vm_compute; reflexivity|]. split; [reflexivity|].
  intros p [<-|[<-|[<-|[]]]]; (split; [|intros H; discriminate H]).
  - apply (base_alg_wf_rel (mkpglob 1 [STR "src"] [] TFile)); [vm_compute; reflexivity|discriminate|reflexivity|cbn; discriminate].
  - apply (base_alg_wf_rel (mkpglob 1 [STR "src"; STR "sub"] [] TFile)); [vm_compute; reflexivity|discriminate|reflexivity|cbn; discriminate].
  - apply (base_alg_wf_rel (mkpglob 1 [STR "src-gen"] [] TFile)); [vm_compute; reflexivity|discriminate|reflexivity|cbn; discriminate].
Qed.
Example ex_walk :
  found_of (find_files (prune_real ex_filter) (fmatch ex_filter) ex_starts) = [mkpath 1 [STR "src"; STR "a.c"] false] /\
  extra_of (find_files (prune_real ex_filter) (fmatch ex_filter) ex_starts) = [mkpath 1 [STR "src"; STR "a.h"] false] /\
  fmatch ex_filter (mkpath 1 [STR "src"; STR "sub"] true) = ExclRec /\
  hard_excl ex_filter (mkpath 1 [STR "src"; STR "sub"] true) = false.
Proof. vm_compute. auto. Qed.
Definition ex_glob : pglob :=   (* src/**/a*/?.c, type file *)
  mkpglob 1 [STR "src"] [STR "**"; STR "a*"; STR "?.c"] TFile.
Example ex_yes : pg_match ex_glob (mkpath 1 [STR "src"; STR "x"; STR "y"; STR "ab"; STR "m.c"] false) false = Yes.
Proof. vm_compute. reflexivity. Qed.
Example ex_no : pg_match ex_glob (mkpath 1 [STR "src"; STR "ab"] true) false = No.
Proof. vm_compute. reflexivity. Qed.
Example ex_never : pg_match ex_glob (mkpath 1 [STR "lib"; STR "ab"] true) false = Never.
Proof. vm_compute. reflexivity. Qed.
Example ex_never2 :   (* a single run: longer paths can never match *)
  pg_match (mkpglob 1 [] [STR "*.c"] TFile) (mkpath 1 [STR "sub"] true) true = Never.
Proof. vm_compute. reflexivity. Qed.
Example ex_component : fn_match (STR "[!a-c]*.[ch]") (STR "main.c") = true /\ fn_match (STR "[!a-c]*.[ch]") (STR "b.c") = false.
Proof. vm_compute. auto. Qed.
(* greedy placement: the first run after the double star matches at offset 0 and at offset 2; only the
   later placement leaves room... the greedy choice still succeeds because the next gap absorbs the rest *)
Example ex_greedy :
  pg_match (mkpglob 1 [] [STR "**"; STR "a"; STR "**"; STR "b"] TFile)
           (mkpath 1 [STR "a"; STR "b"; STR "a"; STR "x"; STR "b"] false) true = Yes.
Proof. vm_compute. reflexivity. Qed.
