(* C12 - Path algebra: normalised, root-confined, invertible, separator-agnostic.
   Only statements; proofs live in theories/Path. *)
From Coq Require Import String List NArith Bool.
From BFG Require Import Base.Chars Path.PathAlg Path.PathAlgProofs.
Import ListNotations.

(* equal paths (as __eq__ sees them) have equal hashed values *)
Theorem C12_eq_hash : forall p q, path_eqb p q = true -> path_hash p = path_hash q.
Proof. exact eq_hash. Qed.
Print Assumptions C12_eq_hash.
