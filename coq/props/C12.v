(* C12 - Path algebra: normalised, root-confined, invertible, separator-agnostic.
   Only statements; proofs live in theories/Path. *)
From Coq Require Import String List NArith Bool.
From BFG Require Import Base.Chars Path.PathAlg Path.PathAlgProofs Path.PathAlgMk.
Import ListNotations.

(* Whatever string, root (plain or a base path) and flags the constructor accepts, the stored components
   contain no empty, dot or dotdot component and no separator character. *)
Theorem C12_normalised : forall s r dd dir p, mk s r dd dir = Some p -> normal (p_comps p).
Proof. exact mk_normal. Qed.
Print Assumptions C12_normalised.

(* slash and backslash are interchangeable in every string the constructor / append receives *)
Theorem C12_sep_agnostic : forall s r dd dir, mk (swap_seps s) r dd dir = mk s r dd dir.
Proof. exact mk_sep_agnostic. Qed.
Print Assumptions C12_sep_agnostic.

Theorem C12_sep_agnostic_append : forall p s, append p (swap_seps s) = append p s.
Proof. exact append_sep_agnostic. Qed.
Print Assumptions C12_sep_agnostic_append.

(* containment, soundness: a non-absolute drive-less path that was accepted never steps above its root
   (escapes = the walk over the raw components, split at both separators, goes above depth 0) *)
Theorem C12_confined : forall s x dd dir p,
  mk s (RRoot x) dd dir = Some p -> p_root p <> Absolute -> p_drive p = [] ->
  escapes 0 (split_seps s) = false.
Proof. exact mk_confined_root. Qed.
Print Assumptions C12_confined.

(* containment, completeness: every relative string whose walk steps above the root is rejected *)
Theorem C12_rejects_escape : forall s x dd dir,
  fst (splitdrive (unbs s)) = [] -> initial_slashes (unbs s) = 0 ->
  escapes 0 (split_seps s) = true -> mk s (RRoot x) dd dir = None.
Proof. exact mk_rejects_escape. Qed.
Print Assumptions C12_rejects_escape.

(* equal paths (as __eq__ sees them) have equal hashed values *)
Theorem C12_eq_hash : forall p q, path_eqb p q = true -> path_hash p = path_hash q.
Proof. exact eq_hash. Qed.
Print Assumptions C12_eq_hash.

(* non-vacuity *)
Example ex_mk : option_map suffix_str (mk (STR "a\.\b/../c//") (RRoot Srcdir) None None) = Some (STR "a/c").
Proof. vm_compute. reflexivity. Qed.
Example ex_reject : mk (STR "a/../..\x") (RRoot Srcdir) None None = None
                    /\ escapes 0 (split_seps (STR "a/../..\x")) = true.
Proof. vm_compute. auto. Qed.
