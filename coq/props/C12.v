(* C12 - Path algebra: normalised, root-confined, invertible, separator-agnostic.
   Only statements; proofs live in theories/Path. *)
From Coq Require Import String List NArith Bool.
From Coq Require Import Lia.
From BFG Require Import Base.Chars Path.PathAlg Path.PathAlgProofs Path.PathAlgMk Path.PathAlgRt Path.PathAlgNested
                        Path.PathAlgWf Path.PathAlgOrder Path.PathAlgTrees Path.PathAlgOps Path.PathEnsure.
Import ListNotations.

(* Whatever string, root (plain or a base path) and flags the constructor accepts, the stored components
   contain no empty, dot or dotdot component and no separator character. *)
Theorem C12_normalised : forall s r dd dir p, mk s r dd dir = Some p -> normal (p_comps p).
Proof. exact mk_normal. Qed.
Print Assumptions C12_normalised.

(* slash and backslash are interchangeable in every string the constructor / append receives *)
Theorem C12_sep_agnostic : forall s r dd dir, mk (swap_seps s) r dd dir = mk s r dd dir.
Proof. exact mk_sep_agnostic. Qed.
Print Assumptions C12_sep_agnostic.

Theorem C12_sep_agnostic_append : forall p s, append p (swap_seps s) = append p s.
Proof. exact append_sep_agnostic. Qed.
Print Assumptions C12_sep_agnostic_append.

(* containment, soundness: a non-absolute drive-less path that was accepted never steps above its root
   (escapes = the walk over the raw components, split at both separators, goes above depth 0) *)
Theorem C12_confined : forall s x dd dir p,
  mk s (RRoot x) dd dir = Some p -> p_root p <> Absolute -> p_drive p = [] ->
  escapes 0 (split_seps s) = false.
Proof. exact mk_confined_root. Qed.
Print Assumptions C12_confined.

(* containment, completeness: every relative string whose walk steps above the root is rejected *)
Theorem C12_rejects_escape : forall s x dd dir,
  fst (splitdrive (unbs s)) = [] -> initial_slashes (unbs s) = 0 ->
  escapes 0 (split_seps s) = true -> mk s (RRoot x) dd dir = None.
Proof. exact mk_rejects_escape. Qed.
Print Assumptions C12_rejects_escape.

(* containment through nested roots: with a (drive-less, relative) base path as root, a relative string is
   rejected exactly when its walk, started at the depth of the base, steps above the ultimate root *)
Theorem C12_confined_nested : forall b s dd,
  relbase b -> fst (splitdrive (unbs s)) = [] -> initial_slashes (unbs s) = 0 ->
  (mk s (RPath b) dd None = None <-> escapes (length (p_comps b)) (split_seps s) = true).
Proof. exact mk_nested_confined. Qed.
Print Assumptions C12_confined_nested.

(* equal paths (as __eq__ sees them) have equal hashed values *)
Theorem C12_eq_hash : forall p q, path_eqb p q = true -> path_hash p = path_hash q.
Proof. exact eq_hash. Qed.
Print Assumptions C12_eq_hash.

(* Well-formed paths (wfp: no drive, one leading slash exactly for the absolute root, normal components, first
   component not of the form x:..., flags as the constructor sets them) are fixed points of the constructor:
   building the path again from its own suffix, root and flags returns it (this is reroot to the same root,
   as_directory of a directory, cross). *)
Theorem C12_idempotent_partial : forall p, wfp p ->
  mk (suffix_str p) (RRoot (p_root p)) (Some (p_destdir p)) (Some (p_dir p)) = Some p.
Proof. exact mk_idempotent. Qed.
Print Assumptions C12_idempotent_partial.

(* every drive-less non-absolute result of the constructor (plain root) is well-formed unless its first
   component looks like a drive prefix *)
Theorem C12_mk_wellformed : forall s x dd dir p,
  mk s (RRoot x) dd dir = Some p -> p_root p <> Absolute -> p_drive p = [] -> nodrive (p_comps p) -> wfp p.
Proof. exact mk_wf_rel. Qed.
Print Assumptions C12_mk_wellformed.

(* the JSON form is invertible on well-formed paths, including the directory flag (Leibniz equality) *)
Theorem C12_json_rt_partial : forall p, wfp p -> from_json (to_json p) = Some p.
Proof. exact json_roundtrip. Qed.
Print Assumptions C12_json_rt_partial.

(* ---- the unguarded laws are false of the faithful model; each witness replayed on /repo is a finding ---- *)

(* a first component that looks like a drive prefix is accepted behind ./ but cannot be rebuilt or reloaded *)
Theorem C12_idempotent_refuted : exists s p,
  mk s (RRoot Srcdir) None None = Some p /\
  mk (suffix_str p) (RRoot (p_root p)) (Some (p_destdir p)) (Some (p_dir p)) = None /\
  from_json (to_json p) = None.
Proof. exists (STR "./a:b"). eexists. vm_compute. repeat split. Qed.
Print Assumptions C12_idempotent_refuted.

(* parent of a path directly below a drive fails although the suffix is not empty *)
Theorem C12_parent_append_refuted : exists p,
  mk (STR "C:/foo") (RRoot Absolute) None None = Some p /\ suffix_str p <> [] /\ parent p = None.
Proof. eexists. vm_compute. repeat split. discriminate. Qed.
Print Assumptions C12_parent_append_refuted.

(* enough pardirs below a drive-prefixed base path leave the drive: an absolute-root path with the empty suffix *)
Theorem C12_confined_refuted : exists b p,
  mk (STR "C:/") (RRoot Absolute) None None = Some b /\
  mk (STR "..") (RPath b) None None = Some p /\ p_root p = Absolute /\ suffix_str p = [].
Proof. eexists. eexists. vm_compute. repeat split. Qed.
Print Assumptions C12_confined_refuted.

(* commonprefix raises for absolute paths without a common first component *)
Theorem C12_commonprefix_refuted : exists a b,
  mk (STR "/a") (RRoot Absolute) None None = Some a /\ mk (STR "/b") (RRoot Absolute) None None = Some b /\
  commonprefix [a; b] = None.
Proof. eexists. eexists. vm_compute. repeat split. Qed.
Print Assumptions C12_commonprefix_refuted.

(* uniquetrees drops a path under an install root as a child of an unrelated source path *)
Theorem C12_uniquetrees_refuted : exists a b,
  mk (STR "foo") (RRoot Srcdir) None None = Some a /\ mk (STR "foo/bar") (RRoot Prefix) None None = Some b /\
  uniquetrees [a; b] = [a].
Proof. eexists. eexists. vm_compute. repeat split. Qed.
Print Assumptions C12_uniquetrees_refuted.

(* ---- phase 2: the algebraic laws, proved over the same model ---- *)

(* Python compares the component lists lexicographically; the common prefix (lcp) of the minimum and the maximum
   of a non-empty family is the longest common prefix of the whole family *)
Theorem C12_lcp_min_max : forall x l,
  (forall y, In y (x :: l) -> prefix (lcp (list_min x l) (list_max x l)) y) /\
  (forall d, (forall y, In y (x :: l) -> prefix d y) -> prefix d (lcp (list_min x l) (list_max x l))).
Proof. exact lcp_min_max. Qed.
Print Assumptions C12_lcp_min_max.

(* commonprefix of a non-empty list of well-formed paths under one non-absolute root, not all of them the root
   directory itself, returns a well-formed path under the same root whose component list is a prefix of every
   input (component-wise) and maximal: every common component prefix is a prefix of it.  The result is flagged a
   non-directory exactly when all inputs have the same components. *)
Theorem C12_commonprefix : forall p0 rest,
  (forall p, In p (p0 :: rest) -> wfp p) ->
  (forall p, In p (p0 :: rest) -> p_root p = p_root p0) ->
  root_eqb (p_root p0) Absolute = false ->
  existsb (fun p => negb (is_nil (p_comps p))) (p0 :: rest) = true ->
  exists r, commonprefix (p0 :: rest) = Some (Some r) /\ wfp r /\ p_root r = p_root p0 /\ p_destdir r = false /\
    (forall p, In p (p0 :: rest) -> prefix (p_comps r) (p_comps p)) /\
    (forall d, (forall p, In p (p0 :: rest) -> prefix d (p_comps p)) -> prefix d (p_comps r)) /\
    (p_dir r = false <-> forall p, In p (p0 :: rest) -> p_comps p = p_comps p0).
Proof. exact commonprefix_spec. Qed.
Print Assumptions C12_commonprefix.

(* the same for absolute paths, provided they share their first component (else: C12_commonprefix_refuted) *)
Theorem C12_commonprefix_abs : forall p0 rest c0,
  (forall p, In p (p0 :: rest) -> wfp p) ->
  (forall p, In p (p0 :: rest) -> p_root p = p_root p0) ->
  root_eqb (p_root p0) Absolute = true ->
  (forall p, In p (p0 :: rest) -> exists t, p_comps p = c0 :: t) ->
  exists r, commonprefix (p0 :: rest) = Some (Some r) /\ wfp r /\ p_root r = p_root p0 /\ p_destdir r = false /\
    (forall p, In p (p0 :: rest) -> prefix (p_comps r) (p_comps p)) /\
    (forall d, (forall p, In p (p0 :: rest) -> prefix d (p_comps p)) -> prefix d (p_comps r)) /\
    (p_dir r = false <-> forall p, In p (p0 :: rest) -> p_comps p = p_comps p0).
Proof. exact commonprefix_spec_abs. Qed.
Print Assumptions C12_commonprefix_abs.

(* the guard is needed: when every input is the root directory itself commonprefix raises *)
Theorem C12_commonprefix_rootdir_refuted : exists a,
  mk (STR "") (RRoot Srcdir) None None = Some a /\ wfp a /\ commonprefix [a; a] = None.
Proof.
  eexists. split; [vm_compute; reflexivity|]. split; [|vm_compute; reflexivity].
  constructor; cbn; try reflexivity; try lia; try discriminate; try constructor.
Qed.
Print Assumptions C12_commonprefix_rootdir_refuted.

(* uniquetrees, for ALL inputs, in terms of the sort keys (root value, split) the implementation compares:
   the result is a subset of the input, the key of every input extends the key of some result, and no two results
   have comparable keys (sortedness argument: whatever lies below a kept path follows it immediately) *)
Theorem C12_uniquetrees_keys : forall ps,
  incl (uniquetrees ps) ps /\
  (forall p, In p ps -> exists u, In u (uniquetrees ps) /\ kprefix (key_of u) (key_of p)) /\
  ForallOrdPairs (fun u v => ischild (key_of u) (key_of v) = false) (uniquetrees ps).
Proof. exact uniquetrees_keys. Qed.
Print Assumptions C12_uniquetrees_keys.

(* on well-formed paths (any roots, absolute included, but not the file-system root itself) whose roots have distinct
   values the keys mean what they should: result is a subset of the input, every input lies below or equals some
   result (same root, component prefix), no result lies below or equals another result (antichain, no duplicates) *)
Theorem C12_uniquetrees : forall ps,
  (forall p, In p ps -> wfp p /\ not_fsroot p) ->
  (forall p q, In p ps -> In q ps -> root_value (p_root p) = root_value (p_root q) -> p_root p = p_root q) ->
  incl (uniquetrees ps) ps /\
  (forall p, In p ps -> exists u, In u (uniquetrees ps) /\ under u p) /\
  ForallOrdPairs (fun u v => ~ under u v /\ ~ under v u) (uniquetrees ps).
Proof. exact uniquetrees_spec. Qed.
Print Assumptions C12_uniquetrees.

(* the second guard is needed as well: the file-system root is not recognised as an ancestor *)
Theorem C12_uniquetrees_fsroot_refuted : exists a b,
  mk (STR "/") (RRoot Absolute) None None = Some a /\ mk (STR "/a") (RRoot Absolute) None None = Some b /\
  uniquetrees [a; b] = [a; b].
Proof. eexists. eexists. vm_compute. repeat split. Qed.
Print Assumptions C12_uniquetrees_fsroot_refuted.

(* parent / basename / append: for a well-formed path with a non-empty suffix whose LAST component is not of the
   form x:... (finding basename-drive-like) the parent exists, is a well-formed directory path under the same root
   with the last component removed, and appending the basename gives the path back exactly, except for the
   directory flag: append derives it from the appended string, so the result is flagged a non-directory (the
   file-system root, whose parent is itself, stays a directory) *)
Theorem C12_parent_append : forall p,
  wfp p -> is_nil (suffix_str p) = false -> nodrive [last (p_comps p) []] ->
  exists q, parent p = Some q /\ wfp q /\ p_dir q = true /\ p_root q = p_root p /\
            p_comps q = removelast (p_comps p) /\
            append q (basename p) = Some (set_dir p (is_nil (p_comps p))).
Proof. exact parent_append. Qed.
Print Assumptions C12_parent_append.

(* the same, as Python equality sees it *)
Theorem C12_parent_append_eq : forall p,
  wfp p -> is_nil (suffix_str p) = false -> nodrive [last (p_comps p) []] ->
  exists q r, parent p = Some q /\ append q (basename p) = Some r /\ path_eqb r p = true.
Proof. exact parent_append_eq. Qed.
Print Assumptions C12_parent_append_eq.

(* the guard on the last component is needed *)
Theorem C12_parent_append_basename_refuted : exists p q,
  mk (STR "x/c:d") (RRoot Srcdir) None None = Some p /\ wfp p /\ parent p = Some q /\ append q (basename p) = None.
Proof.
  eexists. eexists. split; [vm_compute; reflexivity|]. split; [|vm_compute; auto].
  constructor; cbn; try reflexivity; try lia; try discriminate.
  all: try (apply normalb_ok; vm_compute; reflexivity).
  all: try (intros _; vm_compute; discriminate).
Qed.
Print Assumptions C12_parent_append_basename_refuted.

(* splitleaf is (parent, basename), so the same law holds for its two results *)
Theorem C12_splitleaf : forall p,
  wfp p -> is_nil (suffix_str p) = false -> nodrive [last (p_comps p) []] ->
  exists q b, splitleaf p = Some (q, b) /\ parent p = Some q /\ b = basename p /\ wfp q /\
              append q b = Some (set_dir p (is_nil (p_comps p))).
Proof. exact splitleaf_append. Qed.
Print Assumptions C12_splitleaf.

(* relpath / append: for well-formed paths under the same non-absolute root - provided that, when q is an ancestor
   of p, the first component of p below q is not of the form x:... (finding relpath-drive-like) - appending to q
   the relative path from q to p gives exactly p's root and components.  The directory flag is set iff p is q or
   an ancestor of q (append derives it from the string), the destdir flag is the one of q. *)
Theorem C12_relpath_append : forall fl p q,
  wfp p -> wfp q -> p_root p = p_root q -> root_eqb (p_root p) Absolute = false ->
  (common_len (p_comps q) (p_comps p) = length (p_comps q) ->
   nodrive (skipn (common_len (p_comps q) (p_comps p)) (p_comps p))) ->
  exists s, relpath fl p q [] false = Some s /\
    append q s = Some {| p_root := p_root p; p_drive := []; p_slashes := 0; p_comps := p_comps p;
                         p_dir := is_nil (skipn (common_len (p_comps q) (p_comps p)) (p_comps p));
                         p_destdir := p_destdir q |}.
Proof. exact relpath_append. Qed.
Print Assumptions C12_relpath_append.

(* as Python equality sees it (equality compares root, suffix and the destdir flag) *)
Theorem C12_relpath_append_eq : forall fl p q,
  wfp p -> wfp q -> p_root p = p_root q -> root_eqb (p_root p) Absolute = false ->
  p_destdir p = p_destdir q ->
  (common_len (p_comps q) (p_comps p) = length (p_comps q) ->
   nodrive (skipn (common_len (p_comps q) (p_comps p)) (p_comps p))) ->
  exists s r, relpath fl p q [] false = Some s /\ append q s = Some r /\ path_eqb r p = true.
Proof. exact relpath_append_eq. Qed.
Print Assumptions C12_relpath_append_eq.

(* an absolute path is its own relative path from anywhere (whatever prefix); appending it to any well-formed path
   gives it back *)
Theorem C12_relpath_append_abs : forall fl p q pre,
  wfp p -> wfp q -> root_eqb (p_root p) Absolute = true ->
  relpath fl p q pre false = Some (suffix_str p) /\
  append q (suffix_str p) = Some {| p_root := Absolute; p_drive := []; p_slashes := 1; p_comps := p_comps p;
                                    p_dir := is_nil (p_comps p); p_destdir := p_destdir q |}.
Proof. exact relpath_append_abs. Qed.
Print Assumptions C12_relpath_append_abs.

(* the rpath form (C14): with a non-empty prefix such as $ORIGIN, not ending in a separator, relpath returns the
   prefix alone when the two paths are the same place, otherwise prefix, separator and the relative path s of
   C12_relpath_append *)
Theorem C12_relpath_prefix : forall p q pre loc,
  wfp p -> wfp q -> p_root p = p_root q -> root_eqb (p_root p) Absolute = false ->
  is_nil pre = false -> ends_with_slash pre = false ->
  exists s, relpath Posix p q [] loc = Some s /\
    relpath Posix p q pre loc = Some (if str_eqb s dot then pre else pre ++ c_slash :: s).
Proof. exact relpath_prefix. Qed.
Print Assumptions C12_relpath_prefix.

(* the guard is needed: the relative path a:/y is re-parsed as a drive-prefixed absolute path *)
Theorem C12_relpath_append_refuted : exists p q r,
  mk (STR "x/a:/y") (RRoot Srcdir) None None = Some p /\ mk (STR "x") (RRoot Srcdir) None None = Some q /\
  wfp p /\ wfp q /\ relpath Posix p q [] false = Some (STR "a:/y") /\
  append q (STR "a:/y") = Some r /\ p_root r = Absolute.
Proof.
  do 3 eexists. split; [vm_compute; reflexivity|]. split; [vm_compute; reflexivity|].
  split; [|split; [|vm_compute; auto]].
  all: constructor; cbn; try reflexivity; try lia; try discriminate.
  all: try (apply normalb_ok; vm_compute; reflexivity).
  all: try (intros _; vm_compute; discriminate).
Qed.
Print Assumptions C12_relpath_append_refuted.

(* stripext / addext: for EVERY well-formed path stripext succeeds, gives a well-formed path under the same root,
   and adding the extension back returns the path exactly (all fields, Leibniz equality); stripext with a
   replacement is stripext followed by addext; the extension never contains a separator *)
Theorem C12_stripext_addext : forall p, wfp p ->
  exists st, stripext p None = Some st /\ wfp st /\ p_root st = p_root p /\
             addext st (ext p) = Some p /\ (forall r, stripext p (Some r) = addext st r) /\
             ~ In c_slash (ext p).
Proof. exact stripext_addext. Qed.
Print Assumptions C12_stripext_addext.

(* realize = ordinary joining: a well-formed path under a non-absolute root whose variable has the non-empty
   value base, not ending in a separator, is realised (POSIX flavour, with the variable separator) as
   posixpath.join(base, suffix) - base alone for the root directory itself - preceded by the DESTDIR value when
   the path is destdir-flagged and the variable is defined *)
Theorem C12_realize_join : forall vars dv ex loc p base,
  wfp p -> root_eqb (p_root p) Absolute = false -> vars (p_root p) = Some base ->
  is_nil base = false -> ends_with_slash base = false ->
  realize Posix vars dv ex true loc p =
  destdir_prefix dv p ++ (if is_nil (suffix_str p) then base else posix_join base (suffix_str p)).
Proof. exact realize_join. Qed.
Print Assumptions C12_realize_join.

(* string() against a string-valued base directory, either flavour: the localised join *)
Theorem C12_string_join : forall fl vars p base,
  wfp p -> root_eqb (p_root p) Absolute = false -> vars (p_root p) = VStr base ->
  is_nil base = false -> ends_with_slash base = false ->
  path_string fl vars p =
  Some (localize fl (if is_nil (suffix_str p) then base else posix_join base (suffix_str p))).
Proof. exact string_join. Qed.
Print Assumptions C12_string_join.

(* for every path and flavour the localised realisation is the localisation of the plain one *)
Theorem C12_realize_localize : forall fl vars dv ex vsep p,
  realize fl vars dv ex vsep true p = localize fl (realize fl vars dv ex vsep false p).
Proof. exact realize_localize. Qed.
Print Assumptions C12_realize_localize.

(* absolute paths realise to their suffix (after the DESTDIR value when it applies), never with a ./ prefix *)
Theorem C12_realize_abs : forall vars dv ex vsep loc p,
  wfp p -> root_eqb (p_root p) Absolute = true ->
  realize Posix vars dv ex vsep loc p = destdir_prefix dv p ++ suffix_str p.
Proof. exact realize_abs. Qed.
Print Assumptions C12_realize_abs.

(* the executable form: with no value for the root, ./ is put in front exactly when the suffix has no separator *)
Theorem C12_realize_executable : forall vars dv loc p,
  wfp p -> root_eqb (p_root p) Absolute = false -> vars (p_root p) = None ->
  (p_destdir p = true -> dv = None) ->
  realize Posix vars dv true true loc p =
  if has_slash (suffix_str p) then suffix_str p
  else if is_nil (suffix_str p) then dot else posix_join dot (suffix_str p).
Proof. exact realize_executable. Qed.
Print Assumptions C12_realize_executable.

(* the guard on the base value is needed: against the file-system root the realisation has two leading slashes *)
Theorem C12_realize_join_refuted : exists p,
  mk (STR "a") (RRoot Srcdir) None None = Some p /\
  realize Posix (fun _ => Some (STR "/")) None false true false p = STR "//a" /\
  posix_join (STR "/") (suffix_str p) = STR "/a".
Proof. eexists. vm_compute. repeat split. Qed.
Print Assumptions C12_realize_join_refuted.

(* non-vacuity *)
Example ex_realize : exists p q,
  mk (STR "sub/prog") (RRoot Builddir) None None = Some p /\ mk (STR "lib") (RRoot Libdir) (Some true) None = Some q /\
  realize Posix (fun _ => Some (STR "$(builddir)")) None false true true p = STR "$(builddir)/sub/prog" /\
  realize Posix (fun _ => Some (STR "/usr/lib")) (Some (STR "$(DESTDIR)")) false true true q = STR "$(DESTDIR)/usr/lib/lib" /\
  stripext p (Some (STR ".o")) = addext p (STR ".o").
Proof. do 2 eexists. vm_compute. repeat split. Qed.
Example ex_stripext : exists p st,
  mk (STR "src/foo.tar.gz") (RRoot Srcdir) None None = Some p /\ stripext p None = Some st /\
  suffix_str st = STR "src/foo.tar" /\ ext p = STR ".gz" /\ addext st (ext p) = Some p.
Proof. do 2 eexists. vm_compute. repeat split. Qed.
Example ex_relpath : exists p q,
  mk (STR "a/b/c.o") (RRoot Builddir) None None = Some p /\ mk (STR "a/lib/x/") (RRoot Builddir) None None = Some q /\
  relpath Posix p q [] false = Some (STR "../../b/c.o") /\ append q (STR "../../b/c.o") = Some p /\
  relpath Posix p q (STR "$ORIGIN") true = Some (STR "$ORIGIN/../../b/c.o") /\
  relpath Posix q q (STR "$ORIGIN") true = Some (STR "$ORIGIN").
Proof. do 2 eexists. vm_compute. repeat split. Qed.
Example ex_parent_append : exists p q,
  mk (STR "a/b.c/") (RRoot Srcdir) None None = Some p /\ parent p = Some q /\ suffix_str q = STR "a" /\
  basename p = STR "b.c" /\ p_dir p = true /\ append q (basename p) = Some (set_dir p false).
Proof. do 2 eexists. vm_compute. repeat split. Qed.
Example ex_uniquetrees : exists a b c d,
  mk (STR "x/foo/a") (RRoot Srcdir) None None = Some a /\ mk (STR "x/foo.c") (RRoot Srcdir) None None = Some b /\
  mk (STR "x/foo") (RRoot Srcdir) None None = Some c /\ mk (STR "x/foo") (RRoot Builddir) None None = Some d /\
  uniquetrees [a; b; c; d; c] = [c; b; d].
Proof. do 4 eexists. vm_compute. repeat split. Qed.
Example ex_commonprefix : exists a b c r,
  mk (STR "x/foo/a") (RRoot Srcdir) None None = Some a /\ mk (STR "x/foo.c") (RRoot Srcdir) None None = Some b /\
  mk (STR "x/foo") (RRoot Srcdir) None None = Some c /\
  commonprefix [a; b; c] = Some (Some r) /\ p_comps r = [STR "x"] /\ p_dir r = true.
Proof. do 4 eexists. vm_compute. repeat split. Qed.
Example ex_wfp : exists p, mk (STR "a\.\b/../c.x//") (RRoot Builddir) None None = Some p /\ wfp p
                           /\ to_json p = (STR "a/c.x/", STR "builddir", false).
Proof.
  eexists. split; [vm_compute; reflexivity|]. split; [|vm_compute; reflexivity].
  constructor; cbn; try reflexivity; try lia; try discriminate.
  all: try (apply normalb_ok; vm_compute; reflexivity).
  all: try (intros _; vm_compute; discriminate).
Qed.
Example ex_mk : option_map suffix_str (mk (STR "a\.\b/../c//") (RRoot Srcdir) None None) = Some (STR "a/c").
Proof. vm_compute. reflexivity. Qed.
Example ex_reject : mk (STR "a/../..\x") (RRoot Srcdir) None None = None
                    /\ escapes 0 (split_seps (STR "a/../..\x")) = true.
Proof. vm_compute. auto. Qed.

(* The string-accepting entry point (Path.ensure = objutils.objectify with the constructor; behind relpath(),
   generic_file(), source_file(), directory(), find_files() ...): a string denotes exactly the path the constructor
   builds from it - every character counts, blanks at either end included -, a path object is handed back as it is,
   and the strict form only ever rejects. *)
Theorem C12_ensure_string : forall s r dd dir, ensure (TStr s) r dd dir false = mk s r dd dir.
Proof. exact ensure_string. Qed.
Print Assumptions C12_ensure_string.
Theorem C12_ensure_path : forall p r dd dir, ensure (TPath p) r dd dir false = Some p.
Proof. exact ensure_path. Qed.
Print Assumptions C12_ensure_path.
Theorem C12_ensure_strict : forall t r dd dir p,
  ensure t r dd dir true = Some p -> ensure t r dd dir false = Some p /\ p_root p = rootarg_root r.
Proof. exact ensure_strict. Qed.
Print Assumptions C12_ensure_strict.
Example ex_ensure_blank : exists p q,
  ensure (TStr (STR " data ")) (RRoot Srcdir) None None true = Some p /\ suffix_str p = STR " data " /\
  mk (STR "data") (RRoot Srcdir) None None = Some q /\ path_eqb p q = false.
Proof. do 2 eexists. vm_compute. repeat split. Qed.
