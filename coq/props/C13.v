(* C13 - Build files are a deterministic function of project and configuration.
   A Gallina function is deterministic by construction; the statements are independence from the modelled sources of
   nondeterminism: iteration order of Python sets (an arbitrary insertion oracle), the invocation directory and the
   spelling of a directory.  That these are all the sources is checked (AST scan + differential runs), not proved.
   Only statements; proofs live in theories/Misc/DetermProofs.v. *)
From Coq Require Import Permutation.
From BFG Require Import Base.Chars Make.MakeWrite Misc.Determ Misc.DetermProofs.
Local Open Scope N_scope.

(* iterutils.uniques: no duplicates, the same elements, first-occurrence order (the snoc equation determines
   the function: it is the online de-duplication) *)
Theorem C13_uniques : forall l,
  NoDup (uniques l) /\ (forall x, In x (uniques l) <-> In x l) /\
  (forall x, uniques (l ++ [x]) = if mem x l then uniques l else uniques l ++ [x]).
Proof. exact uniques_spec. Qed.
Print Assumptions C13_uniques.

(* the seen set inside uniques is used for membership only: any two sets with the same elements give the same list *)
Theorem C13_uniques_seen_membership_only : forall s1 s2 l,
  (forall x, mem x s1 = mem x s2) -> uniques_go s1 l = uniques_go s2 l.
Proof. exact uniques_go_ext. Qed.
Print Assumptions C13_uniques_seen_membership_only.

(* the other order preserving de-duplicators on output paths are the same function: InstallOutputs.explicit,
   and the key order of the insertion-ordered dicts (BuildInputs._sources, InstallOutputs.host/target) *)
Theorem C13_install_explicit_order : forall l, explicit_of l = uniques l.
Proof. exact explicit_is_uniques. Qed.
Print Assumptions C13_install_explicit_order.

Theorem C13_dict_keys_order : forall kvs,
  map fst (dict_of kvs) = uniques (map fst kvs) /\ map fst (dict_first_of kvs) = uniques (map fst kvs).
Proof. exact dict_keys_order. Qed.
Print Assumptions C13_dict_keys_order.

(* the watched-directory set, filled by the same update calls under any two iteration behaviours, holds the
   same elements, each once *)
Theorem C13_find_dirs_any_order : forall rho1 rho2 batches,
  Permutation (find_dirs_of rho1 batches) (find_dirs_of rho2 batches).
Proof. exact find_dirs_perm. Qed.
Print Assumptions C13_find_dirs_any_order.

(* .bfg_find_deps written from any iteration order: same target, the same dependency words and the same empty
   rules as multisets (and it fails for the same inputs) *)
Theorem C13_aux_set_equal : forall us target makeify rho1 rho2 batches,
  match depfile_doc us target (find_dirs_of rho1 batches) makeify,
        depfile_doc us target (find_dirs_of rho2 batches) makeify with
  | Some (t, ds, rs), Some (t', ds', rs') => t = t' /\ Permutation ds ds' /\ Permutation rs rs'
  | None, None => True
  | _, _ => False
  end.
Proof. exact depfile_set_equal. Qed.
Print Assumptions C13_aux_set_equal.

(* the same for any two lists that are permutations of each other *)
Theorem C13_aux_perm : forall us target makeify dirs dirs', Permutation dirs dirs' ->
  doc_equiv (depfile_doc us target dirs makeify) (depfile_doc us target dirs' makeify).
Proof. intros. now apply depfile_doc_perm. Qed.
Print Assumptions C13_aux_perm.

(* Makefile / NinjaFile: the emitted variable and rule lists (and whether ValueError is raised) do not depend on the
   iteration behaviour of _var_table / _targets / _build_outputs, for every script of variable / rule /
   has_rule / has_variable calls *)
Theorem C13_primary_perm_invariant : forall rho1 rho2 ops, emit rho1 ops = emit rho2 ops.
Proof. exact emit_perm_invariant. Qed.
Print Assumptions C13_primary_perm_invariant.

(* the specifiers of one pkg-config requirement (Requires / Conflicts fields of a written .pc file) come out of a set
   whose enumeration follows the string hashes of the interpreter run: the repaired Requirement.split writes them sorted
   by their text, so every enumeration of the same set gives the same field - and nothing is lost or invented; as first
   written the field followed the enumeration (defect repaired by commit 028cc9e) *)
From BFG Require Import Misc.SortDeterm Misc.SortDetermProofs.
Theorem C13_requirement_specs_order : forall e1 e2,
  Permutation e1 e2 -> split_texts true e1 = split_texts true e2 /\ Permutation e1 (split_texts true e1).
Proof. intros e1 e2 H. split; [exact (s_sort_perm e1 e2 H)|exact (s_sort_is_perm e1)]. Qed.
Print Assumptions C13_requirement_specs_order.

Theorem C13_requirement_specs_order_unrepaired_refuted : exists e1 e2,
  Permutation e1 e2 /\ split_texts false e1 <> split_texts false e2.
Proof.
  exists [([60; 50]%N : str); ([62; 61; 49]%N : str)], [([62; 61; 49]%N : str); ([60; 50]%N : str)]. split; [apply perm_swap|]. vm_compute. discriminate.
Qed.
Print Assumptions C13_requirement_specs_order_unrepaired_refuted.

(* simplify_specifiers keeps the FIRST of several specifiers that name the same version; since the repair 8000e6b it goes
   through the set in text-sorted order, so whatever it computes from the enumeration (any function f of the sorted list)
   is the same for every enumeration of the same set *)
Theorem C13_simplify_order : forall (T : Type) (f : list str -> T) e1 e2,
  Permutation e1 e2 -> f (split_texts true e1) = f (split_texts true e2).
Proof. intros T f e1 e2 H. unfold split_texts. now rewrite (s_sort_perm e1 e2 H). Qed.
Print Assumptions C13_simplify_order.

Example C13_requirement_specs_nonvacuous :
  split_texts true [([33; 61; 49; 46; 53]%N : str); ([60; 50]%N : str); ([62; 61; 49]%N : str); ([33; 61; 49; 46; 54]%N : str)] = [([33; 61; 49; 46; 53]%N : str); ([33; 61; 49; 46; 54]%N : str); ([60; 50]%N : str); ([62; 61; 49]%N : str)] /\
  split_texts true [([62; 61; 49]%N : str); ([33; 61; 49; 46; 54]%N : str); ([60; 50]%N : str); ([33; 61; 49; 46; 53]%N : str)] = [([33; 61; 49; 46; 53]%N : str); ([33; 61; 49; 46; 54]%N : str); ([60; 50]%N : str); ([62; 61; 49]%N : str)].
Proof. split; vm_compute; reflexivity. Qed.

(* Path.abspath computes the directory the spelling denotes from the working directory (component level,
   with . and .. and empty components anywhere) ... *)
Theorem C13_abspath_denotes : forall cwd abs s, abspath_c cwd abs s = denote cwd abs s.
Proof. exact abspath_denote. Qed.
Print Assumptions C13_abspath_denotes.

(* ... hence two (working directory, spelling) pairs that denote the same directory give the same path:
   relative or absolute spelling, any invocation directory *)
Theorem C13_abspath_context : forall cwd1 abs1 s1 cwd2 abs2 s2,
  denote cwd1 abs1 s1 = denote cwd2 abs2 s2 -> abspath_c cwd1 abs1 s1 = abspath_c cwd2 abs2 s2.
Proof. exact abspath_context. Qed.
Print Assumptions C13_abspath_context.

(* string level, for spellings and working directories that do not start with a double slash *)
Theorem C13_abspath_context_partial : forall cwd1 s1 cwd2 s2,
  plain cwd1 -> plain s1 -> is_abs cwd1 = true -> plain cwd2 -> plain s2 -> is_abs cwd2 = true ->
  denote (split_slash cwd1) (is_abs s1) (split_slash s1) = denote (split_slash cwd2) (is_abs s2) (split_slash s2) ->
  abspath_str cwd1 s1 = abspath_str cwd2 s2.
Proof. exact abspath_str_context. Qed.
Print Assumptions C13_abspath_context_partial.

(* without that guard it is false: a leading double slash is taken as a UNC drive by ntpath.splitdrive and kept *)
Theorem C13_abspath_context_refuted : exists cwd s1 s2,
  in_fragment s1 = true /\ in_fragment s2 = true /\ plain cwd /\ is_abs cwd = true /\
  denote (split_slash cwd) (is_abs s1) (split_slash s1) = denote (split_slash cwd) (is_abs s2) (split_slash s2) /\
  abspath_str cwd s1 <> abspath_str cwd s2.
Proof.
  exists [47; 119], [47; 97; 47; 98; 47; 99], [47; 47; 97; 47; 98; 47; 99].
  repeat split; try reflexivity. vm_compute. discriminate.
Qed.
Print Assumptions C13_abspath_context_refuted.

(* bfg9000 configure DIRECTORY: which of the two directories becomes srcdir depends only on which one contains
   build.bfg - configure BUILD from the source directory and configure SRC from the build directory agree,
   whatever the spellings *)
Theorem C13_directory_pair : forall has cwd1 abs1 s1 cwd2 abs2 s2,
  denote cwd1 false [s_dot] = denote cwd2 abs2 s2 ->
  denote cwd2 false [s_dot] = denote cwd1 abs1 s1 ->
  has (denote cwd1 false [s_dot]) = true -> has (denote cwd2 false [s_dot]) = false ->
  directory_pair_c has cwd1 abs1 s1 = directory_pair_c has cwd2 abs2 s2 /\
  directory_pair_c has cwd1 abs1 s1 = (denote cwd1 false [s_dot], denote cwd2 false [s_dot]).
Proof. exact directory_pair_context. Qed.
Print Assumptions C13_directory_pair.

(* ---- non-vacuity ---- *)
From Coq Require Import String.
Example C13_uniques_example :
  uniques [STR "b"; STR "a"; STR "b"; STR "c"; STR "a"] = [STR "b"; STR "a"; STR "c"].
Proof. reflexivity. Qed.

(* two different iteration behaviours really give different files, equal as sets *)
Example C13_aux_example :
  let b := [[STR "/s/x"; STR "/s/y"]; [STR "/s/x"; STR "/s/z w"]] in
  depfile_text (fun _ => false) (STR "Makefile") (find_dirs_of (fun _ _ => 0%nat) b) true <>
  depfile_text (fun _ => false) (STR "Makefile") (find_dirs_of (fun s _ => List.length s) b) true /\
  depfile_text (fun _ => false) (STR "Makefile") (find_dirs_of (fun s _ => List.length s) b) false =
  Some (STR "Makefile: /s/x /s/y /s/z\ w
").
Proof. split; [vm_compute; discriminate|vm_compute; reflexivity]. Qed.

Example C13_primary_example :
  emit (fun _ _ => 0%nat)
       [OVariable (STR "CC") (STR "cc") true; ORule [STR "a.o"; STR "b.o"] (STR "cc"); OVariable (STR "CC") (STR "gcc") true;
        ORuleUnless (STR "a.o") [STR "x"] (STR "never"); ORuleUnless (STR "c.o") [STR "c.o"] (STR "cc")] =
  Some ([(STR "CC", STR "cc")], [([STR "a.o"; STR "b.o"], STR "cc"); ([STR "c.o"], STR "cc")]) /\
  emit (fun _ _ => 0%nat) [ORule [STR "a.o"] (STR "cc"); ORule [STR "b.o"; STR "a.o"] (STR "cc")] = None.
Proof. split; vm_compute; reflexivity. Qed.

(* relative spelling from the parent, noisy relative spelling from elsewhere, absolute spelling: one directory *)
Example C13_abspath_example :
  abspath_str (STR "/w") (STR "build") = Ok (STR "/w/build") /\
  abspath_str (STR "/w/else/where") (STR "./../zz/../../build/.") = Ok (STR "/w/build") /\
  abspath_str (STR "/") (STR "/w/./nonexistent/..//build/") = Ok (STR "/w/build") /\
  abspath_str (STR "/w") (STR "../../..") = Ok (STR "/") /\
  abspath_str (STR "/w") (STR "//a") = ErrValue.
Proof. repeat split; vm_compute; reflexivity. Qed.

Example C13_directory_pair_example :
  let has := fun d => mem (STR "src") d in
  directory_pair_c has (split_slash (STR "/w/src")) false (split_slash (STR "../build")) =
  ([STR "w"; STR "src"], [STR "w"; STR "build"]) /\
  directory_pair_c has (split_slash (STR "/w/build")) true (split_slash (STR "/w/./src/")) =
  ([STR "w"; STR "src"], [STR "w"; STR "build"]).
Proof. split; vm_compute; reflexivity. Qed.

(* ---- ForwardOptions.recurse: what the static libraries of a link step forward (libraries, link / compile options,
   packages) is merged in the order in which the script lists the libraries, depth first.  The result is NOT a function
   of the set of libraries (C13_forward_order_matters), so it has to be computed from the list the script gave, never
   from a set; the walk distributes over the list (C13_forward_follows_list_order), and the explicit fuel of the model
   is no restriction on graphs built bottom-up, as build scripts build them (C13_forward_fuel). ---- *)
From BFG Require Misc.Forward Misc.ForwardProofs.
Theorem C13_forward_follows_list_order : forall k g l1 l2,
  Forward.recurse k g (l1 ++ l2) = Forward.rapp (Forward.recurse k g l1) (Forward.recurse k g l2).
Proof. exact ForwardProofs.recurse_app. Qed.
Print Assumptions C13_forward_follows_list_order.

Theorem C13_forward_order_matters : exists g l1 l2,
  Permutation l1 l2 /\ Forward.recurse 2%nat g l1 <> Forward.recurse 2%nat g l2.
Proof. exact ForwardProofs.recurse_order_matters. Qed.
Print Assumptions C13_forward_order_matters.

Theorem C13_forward_fuel : forall g, Forward.bottom_up g = true ->
  forall (n : nat) (l : list nat), (forall i, In i l -> (i < n)%nat) -> forall k : nat, (n <= k)%nat ->
  Forward.recurse (S k) g l = Forward.recurse (S n) g l.
Proof. exact ForwardProofs.recurse_fuel. Qed.
Print Assumptions C13_forward_fuel.

(* two static libraries that each forward a shared library and an option, and one depending on both *)
Example C13_forward_example :
  let g := [None; None;
            Some (Forward.mkFwd [STR "-pthread"] [0%nat]); Some (Forward.mkFwd [STR "-O1"] [1%nat]);
            Some (Forward.mkFwd [] [3%nat; 2%nat])] in
  Forward.recurse 5%nat g [2%nat; 3%nat] = ([STR "-pthread"; STR "-O1"], [0%nat; 1%nat]) /\
  Forward.recurse 5%nat g [4%nat] = ([STR "-O1"; STR "-pthread"], [3%nat; 2%nat; 1%nat; 0%nat]) /\
  Forward.bottom_up g = true.
Proof. repeat split; vm_compute; reflexivity. Qed.
