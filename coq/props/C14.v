(* C14 - Linked binaries build, run in place, and survive moving the build dir.
   Only statements; models in theories/Graph/LinkOrder.v, proofs in theories/Graph/LinkOrderProofs.v.
   [fixed = true] is Link.__init__ as of /repo commit 93acea6 (last-occurrence de-duplication),
   [fixed = false] the behaviour before it. *)
From BFG Require Import Base.Chars Graph.LinkOrder Graph.LinkOrderProofs.
From Coq Require String.
Import String.StringSyntax.
Local Open Scope N_scope.

(* the witness project of DESIGN.md 7.7: static b; static c -> {b}; static a -> {b, c}; exe -> {a};
   the code of a calls c only (b is a declared dependency whose symbol a does not reference, so b is
   not yet needed when a single-pass linker scans it before c) *)
Definition wnode (deps : list (nat * bool)) (uses : list nat) : pnode :=
  {| pn_kind := PStatic; pn_deps := deps; pn_lopts := []; pn_pkgs := []; pn_dir := []; pn_uses := uses |}.
Definition wproj : list pnode :=
  [ wnode [] []; wnode [(0, false)] [0]; wnode [(0, false); (1, false)] [1]; wnode [(2, false)] [2] ]%nat.
Definition lb : lib := enc_lib 0 VStatic.
Definition lc : lib := enc_lib 1 VStatic.
Definition la : lib := enc_lib 2 VStatic.

(* -- closure: the link line holds exactly the libraries reachable from the listed ones through
      dependencies of static (forwarding) libraries; both variants *)
Theorem C14_closure : forall deps fwd fixed fuel user L,
  final_libs deps fwd fixed fuel user = Some L -> forall l, In l L <-> reach deps fwd user l.
Proof. exact final_libs_closure. Qed.
Print Assumptions C14_closure.

Theorem C14_line_nodup : forall deps fwd fixed fuel user L,
  final_libs deps fwd fixed fuel user = Some L -> NoDup L.
Proof. exact final_libs_NoDup. Qed.
Print Assumptions C14_line_nodup.

(* -- the recursion terminates: any rank that decreases along forwarded edges bounds the fuel; for a
      project (library arguments are earlier nodes) the fuel used by the model suffices; more fuel
      never changes a result *)
Theorem C14_fuel_suffices : forall deps fwd (rk : lib -> nat) fixed f user,
  (forall x y, fwd x = true -> In y (deps x) -> (rk y < rk x)%nat) ->
  (forall x, In x user -> (rk x < f)%nat) ->
  exists L, final_libs deps fwd fixed (S f) user = Some L.
Proof. exact final_libs_total. Qed.
Print Assumptions C14_fuel_suffices.

Theorem C14_project_total : forall ms mt proj fixed n cs, wf_proj proj -> (n < length proj)%nat ->
  exists L, final_libs (p_deps ms mt proj) p_fwd fixed (p_fuel proj) (p_user ms mt proj n cs) = Some L.
Proof. exact project_total. Qed.
Print Assumptions C14_project_total.

Theorem C14_fuel_monotone : forall deps fwd f l v,
  visits deps fwd f l = Some v -> visits deps fwd (S f) l = Some v.
Proof. exact visits_mono. Qed.
Print Assumptions C14_fuel_monotone.

(* -- order.  Link.libs (either variant) is covered: every occurrence of a forwarding library is
      followed by each of its dependencies. *)
Theorem C14_libs_covered : forall deps fwd fixed f user L,
  link_libs deps fwd fixed f user = Some L -> covered deps fwd L.
Proof. exact link_libs_covered. Qed.
Print Assumptions C14_libs_covered.

(* before the fix the first-occurrence de-duplication of option_list destroyed that order: on the
   witness project the line is a b c although c needs b, and a single-pass linker fails *)
Theorem C14_order_refuted : forall as_needed, exists proj n L x y,
  wf_proj proj /\ p_final_libs false false proj false n false = Some L /\
  p_fwd x = true /\ In y (p_deps false false proj x) /\ In x L /\ (pos y L < pos x L)%nat /\
  p_ld_links false false proj as_needed (p_user false false proj n false) L = false.
Proof.
  intros as_needed. exists wproj, 3%nat, [la; lb; lc], lc, lb. split.
  - intros n d. do 4 (destruct n as [|n]; [cbn; intuition (subst; cbn; lia)|]).
    cbn. destruct n; intros [].
  - destruct as_needed; vm_compute; intuition (try discriminate; try lia).
Qed.
Print Assumptions C14_order_refuted.

(* open finding: a library forwarded both plain (by c) and as whole-archive (by y) is twice on the line,
   the plain archive first; real ld pulls it in when needed and reports a multiple definition at the
   whole-archive (ld_pass does not model duplicate definitions) *)
Definition mproj : list pnode :=
  [ wnode [] []; wnode [(0, false)] [0]; wnode [(0, true)] [0]; wnode [(1, false); (2, false)] [1; 2] ]%nat.
Theorem C14_whole_plain_refuted : exists proj n L j,
  wf_proj proj /\ p_final_libs false false proj true n false = Some L /\
  In (enc_lib j VStatic) L /\ In (enc_lib j VWhole) L /\
  (pos (enc_lib j VStatic) L < pos (enc_lib j VWhole) L)%nat.
Proof.
  exists mproj, 3%nat, [enc_lib 1 VStatic; enc_lib 2 VStatic; enc_lib 0 VStatic; enc_lib 0 VWhole], 0%nat. split.
  - intros n d. do 4 (destruct n as [|n]; [cbn; intuition (subst; cbn; lia)|]).
    cbn. destruct n; intros [].
  - vm_compute. intuition (try discriminate; try lia).
Qed.
Print Assumptions C14_whole_plain_refuted.

(* with last-occurrence de-duplication every forwarding library strictly precedes each library it
   depends on ... *)
Theorem C14_order : forall deps fwd f user L x y,
  final_libs deps fwd true f user = Some L ->
  In x L -> fwd x = true -> In y (deps x) -> In y L /\ (pos x L < pos y L)%nat.
Proof. exact final_order. Qed.
Print Assumptions C14_order.

(* ... so a single-pass linker (archives pulled in only when they define a currently undefined symbol)
   resolves every symbol, whatever the symbol naming and whichever libraries are shared or
   whole-archives *)
Theorem C14_single_pass_links : forall deps fwd refs sym always,
  (forall x y, In y (refs x) -> fwd x = true /\ In y (deps x)) ->
  forall f user roots L, final_libs deps fwd true f user = Some L -> incl roots user ->
  ld_links refs sym always roots L = true.
Proof. exact ld_links_fixed. Qed.
Print Assumptions C14_single_pass_links.

Theorem C14_project_links : forall ms mt proj as_needed n cs roots L,
  p_final_libs ms mt proj true n cs = Some L -> incl roots (p_user ms mt proj n cs) ->
  p_ld_links ms mt proj as_needed roots L = true.
Proof. exact p_ld_links_fixed. Qed.
Print Assumptions C14_project_links.

(* -- forwarded link options and packages: the final option list of a dynamic link holds exactly the
      lib options of the closure, the link options of the packages (own and forwarded), the link
      options of every reachable forwarding library and the user's own options *)
Theorem C14_forwarded_options : forall deps fwd lopts pkgs pkgopts fixed f user upkgs uopts O,
  final_opts deps fwd lopts pkgs pkgopts fixed f user upkgs uopts = Some O ->
  forall o, In o O <->
    (exists y, o = OLib y /\ reach deps fwd user y) \/
    (exists p, In o (pkgopts p) /\
               (In p upkgs \/ exists x, reach deps fwd user x /\ fwd x = true /\ In p (pkgs x))) \/
    (exists x, reach deps fwd user x /\ fwd x = true /\ In o (lopts x)) \/
    In o uopts.
Proof. exact final_opts_spec. Qed.
Print Assumptions C14_forwarded_options.

Theorem C14_forwarded_packages : forall deps fwd pkgs f user upkgs P,
  link_pkgs deps fwd pkgs f user upkgs = Some P ->
  forall p, In p P <-> In p upkgs \/ exists x, reach deps fwd user x /\ fwd x = true /\ In p (pkgs x).
Proof. exact link_pkgs_spec. Qed.
Print Assumptions C14_forwarded_packages.

(* -- token level.  An OStr element is one argv token; a multi-token option (-u SYM, -Xlinker --defsym
      -Xlinker NAME=VALUE) is a run of OStr elements.  Every run of string tokens in the link options of a
      reachable forwarding library - and in the link options of an own or forwarded package, and in the
      link step's own options - occurs as a contiguous block, tokens in order, in the final option list
      and in the option part of the argv (opt_flags: CcLinker.flags passes strings through in order);
      for every forwarding graph on which the recursion ends, both variants of Link.__init__ *)
Theorem C14_forwarded_tokens_preserved : forall deps fwd lopts pkgs pkgopts fixed f user upkgs uopts O,
  final_opts deps fwd lopts pkgs pkgopts fixed f user upkgs uopts = Some O ->
  forall s, forallb is_ostr s = true ->
    (exists x, reach deps fwd user x /\ fwd x = true /\ block s (lopts x)) \/
    (exists p, block s (pkgopts p) /\
               (In p upkgs \/ exists x, reach deps fwd user x /\ fwd x = true /\ In p (pkgs x))) \/
    block s uopts ->
    block s O /\ block s (opt_flags O).
Proof. exact final_opts_tokens. Qed.
Print Assumptions C14_forwarded_tokens_preserved.

(* the exact law behind it: option_list never de-duplicates strings.  The string tokens of the final
   option list are, in order and with multiplicity, those of the package options, of the link options of
   every visit of ForwardOptions.recurse (a library reachable along two paths forwards twice) and of the
   user's own options *)
Theorem C14_string_options_exact : forall deps fwd lopts pkgs pkgopts fixed f user upkgs uopts O v,
  visits deps fwd f user = Some v ->
  final_opts deps fwd lopts pkgs pkgopts fixed f user upkgs uopts = Some O ->
  filter is_ostr O = filter is_ostr (flat_map pkgopts (upkgs ++ fwd_pkgs pkgs v)) ++
                     filter is_ostr (flat_map lopts v) ++ filter is_ostr uopts.
Proof. exact final_opts_strings. Qed.
Print Assumptions C14_string_options_exact.

(* -- run-time search path *)
Theorem C14_rpath_relative : forall lib out, exists rest, local_rpath lib out = origin_s ++ rest.
Proof. exact rpath_relative. Qed.
Print Assumptions C14_rpath_relative.

(* the loader, started from an object in root/out, finds root/lib - for every root *)
Theorem C14_rpath_resolves : forall root out lib, wfc root -> wfc out -> wfc lib ->
  ldso_dir (root ++ out) (local_rpath lib out) = Some (root ++ lib).
Proof. exact rpath_resolves. Qed.
Print Assumptions C14_rpath_resolves.

Theorem C14_move_invariant : forall root1 root2 out lib, wfc root1 -> wfc root2 -> wfc out -> wfc lib ->
  ldso_dir (root1 ++ out) (local_rpath lib out) = Some (root1 ++ lib) /\
  ldso_dir (root2 ++ out) (local_rpath lib out) = Some (root2 ++ lib).
Proof. exact rpath_move_invariant. Qed.
Print Assumptions C14_move_invariant.

(* the rpath flag of a project link has an entry for every shared library on the line, and every entry
   resolves to the directory of such a library *)
Theorem C14_rpaths_sound : forall ms mt proj fixed n root R,
  p_rpaths ms mt proj fixed n = Some R ->
  wfc root -> (forall k, wfc (pn_dir (nth k proj default_pnode))) ->
  forall e, In e R -> exists l L, p_final_libs ms mt proj fixed n false = Some L /\ In l L /\
    lib_variant l = VShared /\
    ldso_dir (root ++ pn_dir (nth n proj default_pnode)) e = Some (root ++ pn_dir (node_of proj l)).
Proof. exact p_rpaths_resolve. Qed.
Print Assumptions C14_rpaths_sound.

Theorem C14_rpaths_complete : forall ms mt proj fixed n L l,
  p_final_libs ms mt proj fixed n false = Some L -> In l L -> lib_variant l = VShared ->
  exists R, p_rpaths ms mt proj fixed n = Some R /\
            In (local_rpath (pn_dir (node_of proj l)) (pn_dir (nth n proj default_pnode))) R.
Proof. exact p_rpaths_complete. Qed.
Print Assumptions C14_rpaths_complete.

(* ------------------------------------------------------------------ non-vacuity *)
(* the witness with the fix: a c b, and the linker model accepts it *)
Example ex_fixed_line : p_final_libs false false wproj true 3 false = Some [la; lc; lb].
Proof. vm_compute. reflexivity. Qed.
Example ex_fixed_links : p_ld_links false false wproj true (p_user false false wproj 3 false) [la; lc; lb] = true.
Proof. vm_compute. reflexivity. Qed.
(* Link.libs before the fix has the duplicate: a b c b *)
Example ex_raw_libs : p_link_libs false false wproj false 3 false = Some [la; lb; lc; lb].
Proof. vm_compute. reflexivity. Qed.
(* a diamond is visited once per path (no visited set): recurse yields b c b *)
Example ex_recurse : p_recurse_libs false false wproj 3 false = Some [lb; lc; lb].
Proof. vm_compute. reflexivity. Qed.
(* too little fuel is reported, not silently truncated *)
Example ex_fuel : final_libs (p_deps false false wproj) p_fwd true 2 (p_user false false wproj 3 false) = None.
Proof. vm_compute. reflexivity. Qed.
(* token level: core; plug_a -> {core} forwarding -u reg_a; plug_b -> {core} forwarding -u reg_b;
   host -> {plug_a, plug_b, core}; the executable -> {host} with its own -Xlinker --defsym -Xlinker x=1.
   Tokens: 5 is -u, 6 reg_a, 7 reg_b, 8 -Xlinker, 9 --defsym, 10 x=1.  Nothing is lost although -u and
   -Xlinker repeat across libraries and inside one option *)
Definition onode (deps : list (nat * bool)) (lo : list opt) : pnode :=
  {| pn_kind := PStatic; pn_deps := deps; pn_lopts := lo; pn_pkgs := []; pn_dir := []; pn_uses := [] |}.
Definition plugproj : list pnode :=
  [ onode [] []; onode [(0, false)] [OStr 5; OStr 6]; onode [(0, false)] [OStr 5; OStr 7];
    onode [(1, false); (2, false); (0, false)] [];
    onode [(3, false)] [OStr 8; OStr 9; OStr 8; OStr 10] ]%nat.
Example ex_plugin_flags : p_final_flags false false plugproj (fun _ => []) true 4 =
  Some [OStr 5; OStr 6; OStr 5; OStr 7; OStr 8; OStr 9; OStr 8; OStr 10].
Proof. vm_compute. reflexivity. Qed.
Example ex_plugin_hyp : reach (p_deps false false plugproj) p_fwd (p_user false false plugproj 4 false) (enc_lib 2 VStatic) /\
  p_fwd (enc_lib 2 VStatic) = true /\ block [OStr 5; OStr 7] (p_lopts plugproj (enc_lib 2 VStatic)) /\
  forallb is_ostr [OStr 5; OStr 7] = true.
Proof.
  split; [|split; [reflexivity|split; [exists [], []; reflexivity|reflexivity]]].
  apply reach_step with (x := enc_lib 3 VStatic); [apply reach_base; vm_compute; tauto|reflexivity|vm_compute; tauto].
Qed.
(* a diamond: d forwards -u s and is reachable along two paths, so the block is on the line twice
   (strings are not de-duplicated; an option object such as OObj 0 is kept once) *)
Definition diamond : list pnode :=
  [ onode [] [OStr 5; OStr 6; OObj 0]; onode [(0, false)] []; onode [(0, false)] [OObj 0];
    onode [(1, false); (2, false)] [] ]%nat.
Example ex_diamond_flags : p_final_flags false false diamond (fun _ => []) true 3 =
  Some [OStr 5; OStr 6; OObj 0; OStr 5; OStr 6].
Proof. vm_compute. reflexivity. Qed.
(* rpath: exe in bin/, library in lib/sub/ *)
Example ex_rpath :
  local_rpath [STR "lib"; STR "sub"] [STR "bin"] = STR "$ORIGIN/../lib/sub" /\
  ldso_dir [STR "home"; STR "u"; STR "build"; STR "bin"] (local_rpath [STR "lib"; STR "sub"] [STR "bin"])
    = Some [STR "home"; STR "u"; STR "build"; STR "lib"; STR "sub"] /\
  local_rpath [STR "d"] [STR "d"] = STR "$ORIGIN" /\
  wfc [STR "lib"; STR "sub"].
Proof.
  repeat split; try (vm_compute; reflexivity).
  all: destruct H as [<-|[<-|[]]]; try discriminate; cbn; intuition discriminate.
Qed.
(* an absolute entry is not accepted by the resolver model (it would not survive a move) *)
Example ex_abs : ldso_dir [STR "b"] (STR "/abs/lib") = None.
Proof. vm_compute. reflexivity. Qed.

From BFG Require Import Path.PathAlg Path.PathAlgProofs Path.PathAlgMk Path.PathAlgRt Path.PathAlgWf Path.PathAlgOps Path.SymlinkGlue.
From Coq Require Import List. Import ListNotations.

(* ---- the link target of a symbolic-link copy (tools/copy_file.py Symlink.transform_input, Path/SymlinkGlue.v) ----
   What `ln -sf` is handed for a generated file linked elsewhere in the build tree is the input's path relative to the
   directory OF THE LINK; read from that directory it names the input again, for all directory names (data -> data2,
   lib -> lib64 included).  The guard is the one of C12_relpath_append (finding C12-relpath-drive-like). *)
Theorem C14_symlink_target_resolves : forall input output,
  wfp input -> wfp output -> p_root input = p_root output -> root_eqb (p_root input) Absolute = false ->
  p_destdir input = p_destdir output ->
  is_nil (suffix_str output) = false -> nodrive [last (p_comps output) []] ->
  (common_len (removelast (p_comps output)) (p_comps input) = length (removelast (p_comps output)) ->
   nodrive (skipn (common_len (removelast (p_comps output)) (p_comps input)) (p_comps input))) ->
  exists d s r, parent output = Some d /\ symlink_target Posix input output = Some s /\
                append d s = Some r /\ path_eqb r input = true.
Proof. exact symlink_target_resolves. Qed.
Print Assumptions C14_symlink_target_resolves.

(* non-vacuity, on the near-prefix pair: data2/two.txt linked as data/two.txt gets the target ../data2/two.txt *)
Example C14_symlink_target_ex : exists i o,
  mk (STR "data2/two.txt") (RRoot Builddir) None None = Some i /\
  mk (STR "data/two.txt") (RRoot Builddir) None None = Some o /\
  symlink_target Posix i o = Some (STR "../data2/two.txt").
Proof. do 2 eexists. vm_compute. repeat split. Qed.

From BFG Require Import Graph.LinkLangs Graph.LinkLangsProofs.

(* ---- languages (Graph/LinkLangs.v): what a library file says about its languages decides the link driver of every
   consumer.  An archive stands for the languages of ALL its own sources and of everything it forwards, in whatever
   order the script lists them (ArLinker.output_file hands on step.input_langs); through a chain of archives the
   language reaches the final link step, whose driver (Link.__find_linker over CcLinker.can_link) is then one that is
   allowed to link C++ - never the C driver. ---- *)
Theorem C14_archive_langs_complete : forall own libs x,
  In x (archive_langs own libs) <-> In x own \/ exists l, In l libs /\ In x l.
Proof. exact archive_langs_complete. Qed.
Print Assumptions C14_archive_langs_complete.

Theorem C14_archive_langs_order_free : forall own own' libs libs',
  (forall x, In x own <-> In x own') -> (forall l, In l libs <-> In l libs') ->
  forall x, In x (archive_langs own libs) <-> In x (archive_langs own' libs').
Proof. exact archive_langs_order_free. Qed.
Print Assumptions C14_archive_langs_order_free.

Theorem C14_langs_forwarded : forall ownA libsA ownB libsB x,
  In (archive_langs ownA libsA) libsB -> In x (archive_langs ownA libsA) -> In x (input_langs ownB libsB).
Proof. exact langs_forwarded. Qed.
Print Assumptions C14_langs_forwarded.

Theorem C14_driver_links_all : forall langs d,
  find_linker langs = Some d -> In d langs /\ forall l, In l langs -> known l = true -> allowed d l = true.
Proof. exact driver_links_all. Qed.
Print Assumptions C14_driver_links_all.

Theorem C14_cxx_member_cxx_driver : forall own libs d,
  (In l_cxx own \/ exists l, In l libs /\ In l_cxx l) -> binary_lang own libs = Some d ->
  allowed d l_cxx = true /\ d <> l_c.
Proof. exact cxx_member_cxx_driver. Qed.
Print Assumptions C14_cxx_member_cxx_driver.

(* non-vacuity: a C-only program over a C-only archive that forwards an archive whose sources are C first, then C++ *)
Example C14_langs_ex :
  archive_langs [l_c; l_cxx] [] = [l_c; l_cxx] /\
  archive_langs [l_c] [archive_langs [l_c; l_cxx] []] = [l_c; l_cxx] /\
  binary_lang [l_c] [archive_langs [l_c] [archive_langs [l_c; l_cxx] []]; archive_langs [l_c; l_cxx] []] = Some l_cxx /\
  binary_lang [l_c] [[l_c]] = Some l_c.
Proof. vm_compute. repeat split. Qed.
