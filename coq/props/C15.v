(* C15 - install/uninstall place and remove exactly the declared files.
   Only statements; the model is theories/Graph/Install.v, the proofs theories/Graph/InstallProofs.v. *)
From BFG Require Import Base.Chars Graph.Install Graph.InstallProofs.
Local Open Scope N_scope.

(* the set of installed files (keys of the host map after any sequence of install() calls that succeeds) is
   exactly the closure of the explicitly installed items under install_deps *)
Theorem C15_closure : forall cs h, add_calls cs [] = Ok h ->
  forall k, In k (keys h) <-> exists d fs f g, In (d, fs) cs /\ In f fs /\ reach f g /\ f_key g = k.
Proof. exact closure. Qed.
Print Assumptions C15_closure.

(* every destination in the host map is what installify computes for the file and the directory= of one of
   the calls *)
Theorem C15_host_dests : forall cs h, add_calls cs [] = Ok h ->
  Forall (fun e => exists d fs, In (d, fs) cs /\ installify d (fst e) = Ok (snd e)) h.
Proof. exact host_dests. Qed.
Print Assumptions C15_host_dests.

(* the destination, as delivered to the tools under any valuation of the build-file variables, is
   DESTDIR ++ directory of the kind ++ / ++ install_suffix *)
Theorem C15_location : forall env t p l dst,
  pathfn DNone t p l = Ok dst ->
  exists k, install_root t = Some k /\
            ev env dst = env VDestdir ++ env (VInst k) ++ slash_sfx (install_suffix t p l).
Proof. exact location. Qed.
Print Assumptions C15_location.

(* the same with a directory= argument *)
Theorem C15_location_directory : forall env d t p l dst,
  pathfn d t p l = Ok dst ->
  exists r c, dir_of d t = Ok (r, c) /\ p_dest dst = true /\
    ev env dst = env VDestdir ++ match r with
                                 | RInst k => env (VInst k) ++ slash_sfx (c ++ install_suffix t p l)
                                 | _ => c_slash :: sfx (c ++ install_suffix t p l)
                                 end.
Proof. exact location_directory. Qed.
Print Assumptions C15_location_directory.
