(* C15 - install/uninstall place and remove exactly the declared files.
   Only statements; the model is theories/Graph/Install.v, the proofs theories/Graph/InstallProofs.v. *)
From BFG Require Import Base.Chars Graph.Install Graph.InstallProofs.
Local Open Scope N_scope.

(* the set of installed files (keys of the host map after any sequence of install() calls that succeeds) is
   exactly the closure of the explicitly installed items under install_deps *)
Theorem C15_closure : forall cs h, add_calls cs [] = Ok h ->
  forall k, In k (keys h) <-> exists d fs f g, In (d, fs) cs /\ In f fs /\ reach f g /\ f_key g = k.
Proof. exact closure. Qed.
Print Assumptions C15_closure.

(* every destination in the host map is what installify computes for the file and the directory= of one of
   the calls *)
Theorem C15_host_dests : forall cs h, add_calls cs [] = Ok h ->
  Forall (fun e => exists d fs, In (d, fs) cs /\ installify d (fst e) = Ok (snd e)) h.
Proof. exact host_dests. Qed.
Print Assumptions C15_host_dests.

(* the destination, as delivered to the tools under any valuation of the build-file variables, is
   DESTDIR ++ directory of the kind ++ / ++ install_suffix *)
Theorem C15_location : forall env t p l dst,
  pathfn DNone t p l = Ok dst ->
  exists k, install_root t = Some k /\
            ev env dst = env VDestdir ++ env (VInst k) ++ slash_sfx (install_suffix t p l).
Proof. exact location. Qed.
Print Assumptions C15_location.

(* the same with a directory= argument *)
Theorem C15_location_directory : forall env d t p l dst,
  pathfn d t p l = Ok dst ->
  exists r c, dir_of d t = Ok (r, c) /\ p_dest dst = true /\
    ev env dst = env VDestdir ++ match r with
                                 | RInst k => env (VInst k) ++ slash_sfx (c ++ install_suffix t p l)
                                 | _ => c_slash :: sfx (c ++ install_suffix t p l)
                                 end.
Proof. exact location_directory. Qed.
Print Assumptions C15_location_directory.

(* header directories keep their relative structure: a file DIR/rel of an installed directory is copied by the
   into-command to (destination of the directory)/rel, and that is the path uninstall names (dirs_ok is this
   statement for dst.append(rel); it is used as the hypothesis of C15_symmetry) *)
Theorem C15_location_into : forall env prog cd rels d,
  copy_dests (cmd_ops env (CInto prog cd rels d)) = map (fun r => ev env d ++ s_slash ++ sfx r) rels.
Proof.
  intros env prog cd rels d. cbn [cmd_ops]. unfold copy_dests.
  induction rels as [|r rs IH]; [reflexivity|]. cbn [map flat_map app]. f_equal. exact IH.
Qed.
Print Assumptions C15_location_into.

(* running the install or the uninstall commands changes nothing at any path that does not start with the
   DESTDIR value (source paths have the Path invariant destdir = false; rpath_dir options carry plain paths) *)
Theorem C15_nothing_else : forall cs h ic uc, plan cs = Ok (h, ic, uc) -> srcs_ok h -> rpaths_ok h ->
  forall env fs k, (forall r, k <> env VDestdir ++ r) ->
    fs_get k (run_ops (cmds_ops env ic) fs) = fs_get k fs /\ fs_get k (run_ops (cmds_ops env uc) fs) = fs_get k fs.
Proof. exact nothing_else. Qed.
Print Assumptions C15_nothing_else.

(* ... nor at any path that no command names, and every copy destination exists afterwards *)
Theorem C15_frame : forall ops fs k, ~ In k (writes ops) -> fs_get k (run_ops ops fs) = fs_get k fs.
Proof. exact ops_frame. Qed.
Print Assumptions C15_frame.

Theorem C15_created : forall ops fs k, no_rm ops ->
  (In k (copy_dests ops) \/ fs_get k fs <> None) -> fs_get k (run_ops ops fs) <> None.
Proof. exact ops_created. Qed.
Print Assumptions C15_created.

(* uninstall names exactly the paths install creates (same list), and uninstall after install is the identity
   on a file system in which the destinations were fresh *)
Theorem C15_symmetry : forall cs h ic ps env fs,
  plan cs = Ok (h, ic, [CRm ps]) -> dirs_ok env h -> posts_on_files h ->
  map (ev env) ps = copy_dests (cmds_ops env ic) /\
  ((forall k, In k (copy_dests (cmds_ops env ic)) -> fs_get k fs = None) ->
   run_ops (cmds_ops env [CRm ps]) (run_ops (cmds_ops env ic) fs) = fs).
Proof. exact symmetry. Qed.
Print Assumptions C15_symmetry.

(* the rpath patchelf writes does not depend on DESTDIR ... *)
Theorem C15_rpath_installed : forall h f rps file env d,
  Forall (fun e => dest_path (snd e)) h ->
  (forall os, f_post f = Some os -> Forall (fun o => match o with ORpath p _ => p_dest p = false | _ => True end) os) ->
  post_install h f = Ok (Some (CPatch rps file)) ->
  eval_word (override env d) (tween [PL s_colon] (map (realize true true) rps)) =
  eval_word env (tween [PL s_colon] (map (realize true true) rps)).
Proof. exact rpath_no_destdir. Qed.
Print Assumptions C15_rpath_installed.

(* ... and every entry is the installed directory of a runtime library of the step (its own directory for an
   absolute library that is not installed) or an rpath_dir option that applies when installed *)
Theorem C15_rpath_sources : forall h f os rps file,
  f_post f = Some os -> post_install h f = Ok (Some (CPatch rps file)) ->
  lookup (f_key f) h = Some (f, file) \/ (exists g, lookup (f_key f) h = Some (g, file)) ->
  forall rp, In rp rps -> rpath_source h os rp.
Proof. exact rpath_sources. Qed.
Print Assumptions C15_rpath_sources.

(* in every emitted command the destinations are destdir paths below an install root (or absolute), all other
   paths are not ... *)
Theorem C15_destdir_override : forall cs h ic uc, plan cs = Ok (h, ic, uc) -> srcs_ok h -> rpaths_ok h ->
  Forall cmd_ok (ic ++ uc).
Proof. exact plan_cmds_ok. Qed.
Print Assumptions C15_destdir_override.

(* ... a destination is written as the DESTDIR reference followed by a word without it, so overriding DESTDIR
   replaces exactly that prefix; every other path is unaffected *)
Theorem C15_destdir_words : forall env d p,
  (dest_path p -> realize true true p = PV VDestdir :: realize false true p /\ no_dd (realize false true p) /\
                  ev (override env d) p = d ++ eval_word env (realize false true p)) /\
  (p_dest p = false -> ev (override env d) p = ev env p).
Proof.
  intros env d p. split.
  - intros D. split; [apply realize_dest; exact D|]. split; [apply realize_nodd|apply override_dest; exact D].
  - apply override_other.
Qed.
Print Assumptions C15_destdir_words.

(* ---- non-vacuity: a program linked to a versioned shared library, a header directory with two files, a man
   page; default POSIX directories with prefix /opt/p, DESTDIR /d d ---- *)
From Coq Require Import String.
Definition ex_idirs (k : iroot) : path :=
  match k with
  | IPrefix => mkPath RAbs [STR "opt"; STR "p"] false
  | IExecPrefix => mkPath (RInst IPrefix) [] false
  | IBindir => mkPath (RInst IExecPrefix) [STR "bin"] false
  | ILibdir => mkPath (RInst IExecPrefix) [STR "lib"] false
  | IIncludedir => mkPath (RInst IPrefix) [STR "include"] false
  | IDatadir => mkPath (RInst IPrefix) [STR "share"] false
  | IMandir => mkPath (RInst IDatadir) [STR "man"] false
  end.
Definition ex_env := mkenv (STR "/d d") (STR "/s") ex_idirs.
Definition bp (c : comps) := mkPath RBuild c false.
Definition sp (c : comps) := mkPath RSrc c false.
Definition ex_real := File TVerLib (bp [STR "libfoo.so.1.2"]) [] None None [].
Definition ex_soname := File TLinkLib (bp [STR "libfoo.so.1"]) [] None None [ex_real].
Definition ex_prog := File TExe (bp [STR "prog"]) [] None (Some [OLib (Some (f_key ex_soname)); OLib None]) [ex_soname].
Definition ex_hdrs := File THeaderDir (sp [STR "include"]) []
                           (Some [(THeader, sp [STR "include"; STR "a.h"]); (THeader, sp [STR "include"; STR "sub"; STR "b.h"])]) None [].
Definition ex_man := File TMan (sp [STR "man"; STR "prog.1"]) (STR "1") None None [].
Definition ex_calls : list call := [(DNone, [ex_prog]); (DStr false [STR "demo"], [ex_hdrs]); (DNone, [ex_man])].

Example C15_dirs_nonvacuous : ival ex_idirs 8 IBindir = STR "/opt/p/bin" /\ ival ex_idirs 8 IMandir = STR "/opt/p/share/man".
Proof. split; vm_compute; reflexivity. Qed.

Example C15_plan_nonvacuous :
  match plan ex_calls with
  | Ok (h, ic, [CRm ps]) =>
      map (fun e => ev ex_env (snd e)) h =
        [STR "/d d/opt/p/bin/prog"; STR "/d d/opt/p/lib/libfoo.so.1"; STR "/d d/opt/p/lib/libfoo.so.1.2";
         STR "/d d/opt/p/include/demo"; STR "/d d/opt/p/share/man/man1/prog.1"] /\
      copy_dests (cmds_ops ex_env ic) =
        [STR "/d d/opt/p/bin/prog"; STR "/d d/opt/p/lib/libfoo.so.1"; STR "/d d/opt/p/lib/libfoo.so.1.2";
         STR "/d d/opt/p/include/demo/a.h"; STR "/d d/opt/p/include/demo/sub/b.h"; STR "/d d/opt/p/share/man/man1/prog.1"] /\
      map (ev ex_env) ps = copy_dests (cmds_ops ex_env ic) /\
      fs_get (STR "/d d/opt/p/bin/prog") (run_ops (cmds_ops ex_env ic) []) = Some (STR "./prog", Some (STR "/opt/p/lib")) /\
      run_ops (cmds_ops ex_env [CRm ps]) (run_ops (cmds_ops ex_env ic) []) = []
  | _ => False
  end.
Proof. vm_compute. repeat split; reflexivity. Qed.

(* the hypotheses of C15_symmetry, C15_nothing_else and C15_destdir_override hold for this instance *)
Example C15_hyps_nonvacuous :
  match plan ex_calls with
  | Ok (h, _, _) => srcs_ok h /\ rpaths_ok h /\ posts_on_files h /\ dirs_ok ex_env h
  | _ => False
  end.
Proof.
  assert (E : exists h ic uc, plan ex_calls = Ok (h, ic, uc)) by (vm_compute; do 3 eexists; reflexivity).
  destruct E as [h [ic [uc E]]]. rewrite E.
  vm_compute in E. inversion E; subst h; clear E.
  split; [|split; [|split]].
  - repeat constructor.
  - repeat constructor; intros os H; inversion H; repeat constructor.
  - repeat constructor; intros; try reflexivity; try discriminate; cbn in *; congruence.
  - repeat constructor; intros l k rel q D F I R A; try (cbn in D; discriminate).
    cbn in F. inversion F; subst l. clear F.
    destruct I as [I|[I|[]]]; subst k; vm_compute in R; inversion R; subst rel; vm_compute in A; inversion A; subst q;
      vm_compute; reflexivity.
Qed.

(* ---- the hypothesis dirs_ok discharged from structural guards (Graph/InstallDirsGlue.v) ----
   dirs_ok is an equation between realised strings (dst.append(rel) realises to dst, a separator, rel).  It follows
   from what the Path class and find_files guarantee of an installed directory: the destination is not rooted in the
   build directory, an absolute destination is not the file-system root, components are plain (non-empty, not . or
   ..), and every listed file lies strictly below the directory (same root, component prefix). *)
From BFG Require Import Graph.InstallDirsGlue.

Theorem C15_dirs_ok_structural : forall env h, Forall dir_entry_ok h -> dirs_ok env h.
Proof. exact dirs_ok_structural. Qed.
Print Assumptions C15_dirs_ok_structural.

Theorem C15_symmetry_structural : forall cs h ic ps env fs,
  plan cs = Ok (h, ic, [CRm ps]) -> Forall dir_entry_ok h -> posts_on_files h ->
  map (ev env) ps = copy_dests (cmds_ops env ic) /\
  ((forall k, In k (copy_dests (cmds_ops env ic)) -> fs_get k fs = None) ->
   run_ops (cmds_ops env [CRm ps]) (run_ops (cmds_ops env ic) fs) = fs).
Proof. exact symmetry_structural. Qed.
Print Assumptions C15_symmetry_structural.

(* the guards are needed: a header directory installed onto the file-system root (absolute destination without
   components: realize glues a second separator, C12 finding realize-base-ends-with-separator), and one installed
   below the build root (a one-component executable-style realisation gets the ./ prefix, its children do not) *)
Theorem C15_dirs_ok_guards_refuted :
  (exists env h, ~ dirs_ok env h /\
     h = [(File THeaderDir (sp [STR "inc"]) [] (Some [(THeader, sp [STR "inc"; STR "a.h"])]) None [], mkPath RAbs [] true)]) /\
  (exists env h, ~ dirs_ok env h /\
     h = [(File THeaderDir (sp [STR "inc"]) [] (Some [(THeader, sp [STR "inc"; STR "a.h"])]) None [], bp [STR "out"])]).
Proof.
  split; exists ex_env; eexists; (split; [|reflexivity]); intros H; inversion H as [|? ? H1 _]; subst;
    specialize (H1 _ (THeader, sp [STR "inc"; STR "a.h"]) _ _ eq_refl eq_refl (or_introl eq_refl) eq_refl eq_refl);
    vm_compute in H1; discriminate H1.
Qed.
Print Assumptions C15_dirs_ok_guards_refuted.

(* the structural guard holds for the example plan *)
Example C15_structural_nonvacuous :
  match plan ex_calls with
  | Ok (h, _, _) => Forall dir_entry_ok h
  | _ => False
  end.
Proof.
  assert (E : exists h ic uc, plan ex_calls = Ok (h, ic, uc)) by (vm_compute; do 3 eexists; reflexivity).
  destruct E as [h [ic [uc E]]]. rewrite E.
  vm_compute in E. inversion E; subst h; clear E.
  apply Forall_forall. intros e He. cbn [In] in He.
  repeat (destruct He as [<-|He]; [intros D; try (cbn in D; discriminate D)|]); [|destruct He].
  cbn [fst snd] in *. split.
  - split; [discriminate|]. split; [discriminate|]. repeat constructor; discriminate.
  - intros l k F I. cbn in F. inversion F; subst l. clear F. split.
    + destruct I as [I|[I|[]]]; subst k; reflexivity.
    + destruct I as [I|[I|[]]]; subst k; eexists; (split; [reflexivity|]); (split; [discriminate|]);
        repeat constructor; discriminate.
Qed.
