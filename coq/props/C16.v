(* C16 - Semantic options have their documented effect with the detected compiler (level: partial).
   Proved here: the translation tables stay inside the accepted-flag grammar, the merge order, and what
   option_list de-duplication does.  That gcc/clang accept the grammar and that the flags have their
   effect is observed on the real compilers by harness/c16.py on every run.
   Only statements; proofs live in theories/Misc/OptionsProofs.v. *)
From Coq Require Import String.
From BFG Require Import Base.Chars Misc.Options Misc.OptionsProofs.
Local Open Scope N_scope.

(* every flag produced for well-formed options by the compiler table, the linker table and the library
   table (current tree: optimize size is -Os) is a word of the accepted grammar; in both modes, for C and
   C++, for every set of default include directories, for option lists of any length *)
Theorem C16_accepted : forall lg dfix pk defaults l,
  Forall (fun o => wf_option lg o = true) l ->
  res_accepted lg (cc_flags true dfix pk defaults l) = true /\
  res_accepted lg (ld_flags true pk l) = true /\
  res_accepted lg (ld_lib_flags pk l) = true.
Proof. exact accepted_all. Qed.
Print Assumptions C16_accepted.

(* the finite part of the option type, checked by computation over its full enumeration *)
Theorem C16_accepted_finite : forall lg dfix pk o, In o finite_opts -> check_opt true dfix pk [] lg o = true.
Proof. exact finite_opts_accepted. Qed.
Print Assumptions C16_accepted_finite.

(* the enumerations are complete: every warning and optimisation value is listed *)
Theorem C16_enumeration_complete : (forall w, In w all_warn) /\ (forall o, In o all_optv).
Proof. split; [exact all_warn_complete|exact all_optv_complete]. Qed.
Print Assumptions C16_enumeration_complete.

(* the tables are total on their side: compile-side options never raise in the compiler table ... *)
Theorem C16_compile_total : forall fixed dfix pk defaults l, forallb compile_side l = true ->
  exists fl, cc_flags fixed dfix pk defaults l = Ok fl.
Proof. exact cc_flags_total. Qed.
Print Assumptions C16_compile_total.

Theorem C16_link_total : forall fixed pk l, forallb link_side l = true -> exists fl, ld_flags fixed pk l = Ok fl.
Proof. exact ld_flags_total. Qed.
Print Assumptions C16_link_total.

(* with the table as originally written (optimize size -> -Osize, DESIGN 7.2) the claim is false *)
Theorem C16_accepted_refuted : exists lg o,
  wf_option lg o = true /\ compile_side o = true /\ link_side o = true /\
  res_accepted lg (cc_flags false false false [] [o]) = false /\
  res_accepted lg (ld_flags false false [o]) = false.
Proof. exact accepted_refuted. Qed.
Print Assumptions C16_accepted_refuted.

(* the compile command is  cmd always ENV GLOBAL TARGET -c input ...  in this order *)
Theorem C16_merge_order : forall fixed dfix defaults cmd always envf gopts internal user input output deps argv,
  cc_final fixed dfix defaults cmd always envf gopts internal user input output deps = Ok argv ->
  exists gf tf tail,
    cc_flags fixed dfix false defaults gopts = Ok gf /\
    cc_flags fixed dfix false defaults (ol_add (ol_make internal) user) = Ok tf /\
    argv = cmd ++ always ++ envf ++ gf ++ tf ++ STR "-c" :: input :: tail.
Proof. exact cc_merge_order. Qed.
Print Assumptions C16_merge_order.

(* so a per-target flag always comes after every environment and global flag (it can override them) *)
Theorem C16_target_overrides : forall fixed dfix defaults cmd always envf gopts internal user input output deps argv x y,
  cc_final fixed dfix defaults cmd always envf gopts internal user input output deps = Ok argv ->
  forall gf tf, cc_flags fixed dfix false defaults gopts = Ok gf ->
    cc_flags fixed dfix false defaults (ol_add (ol_make internal) user) = Ok tf ->
    In x (envf ++ gf) -> In y tf ->
    exists p m s, argv = p ++ x :: m ++ y :: s.
Proof. exact cc_target_last. Qed.
Print Assumptions C16_target_overrides.

Theorem C16_merge_order_link : forall fixed cmd always envf envlibs gopts internal user inputs output argv,
  ld_final fixed cmd always envf envlibs gopts internal user inputs output = Ok argv ->
  exists gf tf gl tl,
    ld_flags fixed false gopts = Ok gf /\ ld_flags fixed false (ol_add (ol_make internal) user) = Ok tf /\
    ld_lib_flags false gopts = Ok gl /\ ld_lib_flags false (ol_add (ol_make internal) user) = Ok tl /\
    argv = cmd ++ always ++ envf ++ gf ++ tf ++ inputs ++ envlibs ++ gl ++ tl ++ [STR "-o"; output].
Proof. exact ld_merge_order. Qed.
Print Assumptions C16_merge_order_link.

(* flags of consecutive option lists are concatenated in order *)
Theorem C16_flags_in_order : forall fixed dfix pk defaults a b fa fb,
  cc_flags fixed dfix pk defaults a = Ok fa -> cc_flags fixed dfix pk defaults b = Ok fb ->
  cc_flags fixed dfix pk defaults (a ++ b) = Ok (fa ++ fb).
Proof. exact cc_flags_app. Qed.
Print Assumptions C16_flags_in_order.

(* option_list de-duplication, as it really is: it keeps the FIRST occurrence of each option.
   (1) order is kept and nothing is invented; (2) the first occurrence of every option and every plain
   string survives; (3) whatever is dropped has an equal option that is kept; (4) lists without repeats
   are untouched; (5) the flags after de-duplication are a subsequence of the flags before. *)
Theorem C16_dedup_harmless : forall l,
  subseq (ol_make l) l /\
  (forall l1 o l2, l = l1 ++ o :: l2 -> is_raw o = true \/ existsb (opt_eqb o) l1 = false -> In o (ol_make l)) /\
  (forall o, In o l -> existsb (opt_eqb o) (ol_make l) = true) /\
  (no_repeat [] l = true -> ol_make l = l) /\
  (forall fixed dfix pk defaults fl, cc_flags fixed dfix pk defaults l = Ok fl ->
     exists fd, cc_flags fixed dfix pk defaults (ol_make l) = Ok fd /\ subseq fd fl).
Proof.
  intros l. split; [apply dedup_subseq|]. split; [intros l1 o l2 ->; apply dedup_keeps_first|].
  split; [apply dedup_complete|]. split; [apply dedup_id|]. intros; now apply dedup_flags_subseq.
Qed.
Print Assumptions C16_dedup_harmless.

(* the literal reading - the LAST occurrence of a repeated option is never dropped - is false: re-asserting
   an option after a conflicting one has no effect (speed, disable, speed gives -O3 -O0) *)
Theorem C16_dedup_last_refuted : exists l fa fb,
  cc_flags true false false [] l = Ok fa /\ cc_flags true false false [] (ol_make l) = Ok fb /\
  last fa [] = STR "-O3" /\ last fb [] = STR "-O0".
Proof. exact dedup_last_refuted. Qed.
Print Assumptions C16_dedup_last_refuted.

(* effect of define, against the reading of -D by the preprocessor (macro_of_flag) *)
Theorem C16_define_effect_partial : forall fixed dfix pk defaults n v,
  is_ident n = true -> v <> [] ->
  exists f, cc_flag1 fixed dfix pk defaults (ODefine n (Some v)) = Ok [f] /\ macro_of_flag f = Some (n, v).
Proof. exact define_effect. Qed.
Print Assumptions C16_define_effect_partial.

Theorem C16_define_effect_bare : forall fixed dfix pk defaults n,
  is_ident n = true ->
  exists f, cc_flag1 fixed dfix pk defaults (ODefine n None) = Ok [f] /\ macro_of_flag f = Some (n, STR "1").
Proof. exact define_effect_bare. Qed.
Print Assumptions C16_define_effect_bare.

(* an explicitly empty value is treated like an absent one: the macro is 1, not empty *)
Theorem C16_define_effect_refuted : exists n f,
  is_ident n = true /\ cc_flag1 true false false [] (ODefine n (Some [])) = Ok [f] /\
  macro_of_flag f = Some (n, STR "1").
Proof. exact define_empty_refuted. Qed.
Print Assumptions C16_define_effect_refuted.

(* ... and with the repaired translation (dfix = true) the effect holds for every value *)
Theorem C16_define_effect_fixed : forall fixed pk defaults n v,
  is_ident n = true ->
  exists f, cc_flag1 fixed true pk defaults (ODefine n (Some v)) = Ok [f] /\ macro_of_flag f = Some (n, v).
Proof. exact define_effect_fixed. Qed.
Print Assumptions C16_define_effect_fixed.

(* ---- non-vacuity *)
Example wf_sample : Forall (fun o => wf_option LangC o = true)
  [OInclude (STR "/opt/inc") true; ODefine (STR "FOO") (Some (STR "a b")); OStd (STR "c99");
   OWarning [WAll; WError]; OOptimize [OSize; OLinktime]; OPch (STR "/b/h.h"); ORaw (STR "-DX=1");
   OLib (LShared (STR "/l") (STR "libfoo.so")); OLib (LStatic (STR "/l") (STR "libbar.a")); OEntry (STR "start")].
Proof. repeat constructor. Qed.

Example cc_sample :
  cc_flags true false false [STR "/usr/include"]
    [OInclude (STR "/opt/inc") true; OInclude (STR "/usr/include") false; ODefine (STR "FOO") (Some (STR "a b"));
     OWarning [WAll; WError]; OOptimize [OSize; OLinktime]; OPch (STR "/b/h.h")]
  = Ok [STR "-isystem"; STR "/opt/inc"; STR "-DFOO=a b"; STR "-Wall"; STR "-Werror"; STR "-Os"; STR "-flto";
        STR "-include"; STR "/b/h.h"].
Proof. vm_compute. reflexivity. Qed.

Example ld_sample :
  ld_flags true false [OLibDir (STR "/a"); OLib (LShared (STR "/l") (STR "libfoo.so")); OLibDir (STR "/l");
                       OEntry (STR "start"); OStatic; OLib (LStatic (STR "/s") (STR "libbar.a"))]
  = Ok [STR "-Wl,-e,start"; STR "-static"; STR "-L/a"; STR "-L/l"; STR "-Wl,-rpath,/l"]
  /\ ld_lib_flags false [OLib (LShared (STR "/l") (STR "libfoo.so")); OLib (LStatic (STR "/s") (STR "libbar.a"));
                         OLib (LName (STR "m"))]
  = Ok [STR "-lfoo"; STR "/s/libbar.a"; STR "-lm"].
Proof. vm_compute. split; reflexivity. Qed.

Example grammar_rejects :
  accepted_args LangC [STR "-Osize"] = false /\ accepted_args LangC [STR "-isystem"] = false /\
  accepted_args LangC [STR "-std=c++14"] = false /\ accepted_args LangCxx [STR "-std=c++14"] = true /\
  accepted_args LangC [STR "-D1X"] = false /\ accepted_args LangC [STR "-l"] = false.
Proof. vm_compute. repeat split; reflexivity. Qed.

Example dedup_sample :
  ol_make [OInclude (STR "/a") false; ORaw (STR "-O1"); OInclude (STR "/a") true; ORaw (STR "-O1"); OPic; OPic]
  = [OInclude (STR "/a") false; ORaw (STR "-O1"); ORaw (STR "-O1"); OPic].
Proof. vm_compute. reflexivity. Qed.

Example merge_sample :
  cc_final true false [] [STR "cc"] [STR "-x"; STR "c"] [STR "-O1"] [OOptimize [OSpeed]] [OPic] [OOptimize [ODisable]]
           (STR "in.c") (STR "out.o") None
  = Ok [STR "cc"; STR "-x"; STR "c"; STR "-O1"; STR "-O3"; STR "-fPIC"; STR "-O0"; STR "-c"; STR "in.c";
        STR "-o"; STR "out.o"].
Proof. vm_compute. reflexivity. Qed.
