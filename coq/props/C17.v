(* C17 - Generated pkg-config files give consumers the declared flags and requirements.
   Only statements; proofs live in theories/Misc. *)
From BFG Require Import Base.Chars Misc.Versions Misc.VersionsProofs.
From Coq Require Import String.

Theorem C17_simplify_refuted :
  not_equiv false [(OGe, S "10"); (OGe, S "9")] /\ not_equiv false [(OGe, S "1"); (OLe, S "1"); (ONe, S "1")].
Proof. exact (conj simplify_refuted_key simplify_refuted_ne). Qed.
Print Assumptions C17_simplify_refuted.
