(* C17 - Generated pkg-config files give consumers the declared flags and requirements.
   Only statements; proofs live in theories/Misc. *)
From BFG Require Import Base.Chars Shell.PosixQuote Shell.Sh Misc.Versions Misc.VersionsProofs Misc.PcFile Misc.PcFileProofs.
From Coq Require Import String.

(* A total preorder of versions: [veqb] is identity of the printed form, [leb] the version order
   (two spellings may denote one version), [kleb] any relation used as sort key by the unrepaired code. *)
Definition version_order (V : Type) (veqb leb : V -> V -> bool) : Prop :=
  (forall a b, veqb a b = true <-> a = b) /\
  (forall a b, leb a b = true \/ leb b a = true) /\
  (forall a b c, leb a b = true -> leb b c = true -> leb a c = true).

(* simplify_specifiers before the repair (sort key = printed form, >=v,<=v collapsed to ==v although a
   != v is present) changes the set of accepted versions: >=10,>=9 becomes >=9 and >=1,<=1,!=1 becomes ==1 *)
Theorem C17_simplify_refuted :
  not_equiv false [(OGe, STR "10"); (OGe, STR "9")] /\ not_equiv false [(OGe, STR "1"); (OLe, STR "1"); (ONe, STR "1")].
Proof. exact (conj simplify_refuted_key simplify_refuted_ne). Qed.
Print Assumptions C17_simplify_refuted.

(* the repaired simplify_specifiers (fixed = true, the current /repo) accepts exactly the versions the
   given specifier set accepts - every version order, every specifier list, every iteration order *)
Theorem C17_simplify_equiv : forall V veqb leb kleb, version_order V veqb leb ->
  forall ss ss', simplify V veqb leb kleb true ss = Ok ss' -> forall x, sat V leb x ss' = sat V leb x ss.
Proof. intros V veqb leb kleb (H1 & H2 & H3). exact (simplify_equiv V veqb leb kleb H1 H2 H3). Qed.
Print Assumptions C17_simplify_equiv.

(* a rejected set has no member (both variants), provided == versions that denote the same version are
   spelled the same *)
Theorem C17_simplify_rejects : forall V veqb leb kleb, version_order V veqb leb ->
  forall fixed ss, canon V leb ss -> simplify V veqb leb kleb fixed ss = Err -> forall x, sat V leb x ss = false.
Proof. intros V veqb leb kleb (H1 & H2 & H3). exact (simplify_rejects V veqb leb kleb H1 H2 H3). Qed.
Print Assumptions C17_simplify_rejects.

(* ... and without that guard it does: ==1,==1.0 is rejected although 1 satisfies it *)
Theorem C17_simplify_rejects_spelling_refuted : forall fixed,
  exists ss x, simplify_str fixed ss = Err /\ sat_str x ss = true.
Proof. exact rejects_refuted_spelling. Qed.
Print Assumptions C17_simplify_rejects_spelling_refuted.

(* the same two statements for the executable instance the correspondence runs against /repo *)
Theorem C17_simplify_str_equiv : forall ss ss',
  simplify_str true ss = Ok ss' -> forall x, sat_str x ss' = sat_str x ss.
Proof. exact simplify_str_equiv. Qed.
Print Assumptions C17_simplify_str_equiv.

Theorem C17_simplify_str_rejects : forall fixed ss,
  canon str sv_leb ss -> simplify_str fixed ss = Err -> forall x, sat_str x ss = false.
Proof. exact simplify_str_rejects. Qed.
Print Assumptions C17_simplify_str_rejects.

(* RequirementSet merging in PkgConfigInfo.finalize: a publicly required name ends up public only, with
   the intersection of all requirements on it; other names stay private with private /\ automatic *)
Theorem C17_merge : forall V veqb leb, version_order V veqb leb ->
  forall requires requires_private auto name x,
  let r := finalize_sets V veqb requires requires_private auto in
  (rs_has V requires name = true ->
     rs_sat V leb (fst r) name x =
       rs_sat V leb requires name x && rs_sat V leb requires_private name x && rs_sat V leb auto name x /\
     rs_has V (snd r) name = false) /\
  (rs_has V requires name = false ->
     rs_has V (fst r) name = false /\
     rs_sat V leb (snd r) name x = rs_sat V leb requires_private name x && rs_sat V leb auto name x /\
     rs_has V (snd r) name = rs_has V requires_private name || rs_has V auto name).
Proof. intros V veqb leb (H1 & H2 & H3). exact (finalize_merge V veqb leb H1). Qed.
Print Assumptions C17_merge.

(* Requirement.split: the written entries accept what the requirement accepts; single=True gives one entry *)
Theorem C17_split_equiv : forall V veqb leb kleb, version_order V veqb leb ->
  forall single r l, req_split V veqb leb kleb true single r = Ok l ->
  forall x, simple_sat V leb x l = sat V leb x (snd r).
Proof. intros V veqb leb kleb (H1 & H2 & H3). exact (req_split_equiv V veqb leb kleb H1 H2 H3). Qed.
Print Assumptions C17_split_equiv.

Theorem C17_single : forall V veqb leb kleb fixed r l,
  req_split V veqb leb kleb fixed true r = Ok l -> List.length l = 1%nat.
Proof. exact req_split_single. Qed.
Print Assumptions C17_single.

(* ---- .pc fields ---- *)
(* wherever the sh model accepts a line as a list of words, pkgconf's argument splitter yields the same
   non-empty words (single quotes, backslash outside quotes, blanks; every Unicode classification) *)
Theorem C17_pc_argv_of_sh : forall uw s ws, sh_words uw s = Some ws -> pc_argv s = Some (filter nonempty ws).
Proof. exact pc_argv_of_sh. Qed.
Print Assumptions C17_pc_argv_of_sh.

(* the field round trip for option strings (partial: guarded by pc_clean on the written text; flags that contain
   a path under a root variable are covered by the correspondence and by real pkg-config only):
   comment stripping, variable substitution and argument splitting give back exactly the options *)
Theorem C17_fields_rt_partial : forall uw vars flags,
  forallb nonempty flags = true ->
  pc_clean (write_each uw true [c_sp] (map (fun s => [FStr s]) flags)) = true ->
  pc_argv (pc_subst vars (pc_comment false (write_each uw true [c_sp] (map (fun s => [FStr s]) flags)))) = Some flags.
Proof. exact fields_rt. Qed.
Print Assumptions C17_fields_rt_partial.

(* outside the guard it fails: -DX=a#b -DY is read as nothing, -DW=${p} as -DW=<value of p> *)
Theorem C17_fields_rt_refuted :
  pc_field [] (write_each (fun _ => false) true [c_sp] [[FStr (STR "-DX=a#b")]; [FStr (STR "-DY")]]) = None /\
  pc_field [(STR "p", STR "/u")] (write_each (fun _ => false) true [c_sp] [[FStr (STR "-DW=${p}")]])
    = Some [STR "-DW=/u"].
Proof. exact (conj fields_rt_hash_refuted fields_rt_dollar_brace_refuted). Qed.
Print Assumptions C17_fields_rt_refuted.

(* non-vacuity *)
Example C17_fields_ex :
  let flags := [STR "-DX=a b"; STR "-DQ='q'"; STR "-DY=$z"; STR "it's"; STR "-I/opt/my inc"] in
  pc_clean (write_each (fun _ => false) true [c_sp] (map (fun s => [FStr s]) flags)) = true /\
  pc_field [] (write_each (fun _ => false) true [c_sp] (map (fun s => [FStr s]) flags)) = Some flags.
Proof. split; vm_compute; reflexivity. Qed.

Example C17_path_flag_ex :
  pc_field [(STR "includedir", STR "/o p/include")]
    (write_each (fun _ => false) true [c_sp] [[FStr (STR "-I"); FPath (Some (STR "includedir")) (STR "a 'b")]])
  = Some [STR "-I/o p/include/a 'b"].
Proof. vm_compute. reflexivity. Qed.

Example C17_order_inhabited : version_order str str_eqb sv_leb.
Proof. exact (conj str_eqb_eq (conj sv_leb_total sv_leb_trans)). Qed.

Example C17_simplify_ex :
  simplify_str true [(OGe, STR "1.9"); (OGe, STR "1.10"); (OLt, STR "2.0"); (ONe, STR "3"); (ONe, STR "1.11")]
  = Ok [(OGe, STR "1.10"); (OLt, STR "2.0"); (ONe, STR "1.11")].
Proof. vm_compute. reflexivity. Qed.

Example C17_rejects_ex : simplify_str true [(OGe, STR "1"); (OLe, STR "1"); (ONe, STR "1")] = Err
  /\ simplify_str true [(OGe, STR "2"); (OLt, STR "2.0")] = Err.
Proof. split; vm_compute; reflexivity. Qed.
