(* C17 - Generated pkg-config files give consumers the declared flags and requirements.
   Only statements; proofs live in theories/Misc. *)
From BFG Require Import Base.Chars Shell.PosixQuote Shell.Sh Misc.Versions Misc.VersionsProofs Misc.PcFile Misc.PcFileProofs.
From BFG Require Import Graph.LinkOrder Graph.LinkOrderProofs Misc.PcInfo Misc.PcInfoProofs.
From BFG Require Misc.Options Misc.LibNameProofs.
From Coq Require Import String.

(* A total preorder of versions: [veqb] is identity of the printed form, [leb] the version order
   (two spellings may denote one version), [kleb] any relation used as sort key by the unrepaired code. *)
Definition version_order (V : Type) (veqb leb : V -> V -> bool) : Prop :=
  (forall a b, veqb a b = true <-> a = b) /\
  (forall a b, leb a b = true \/ leb b a = true) /\
  (forall a b c, leb a b = true -> leb b c = true -> leb a c = true).

(* The model has two switches (Misc/Versions.v), one per repair of simplify_specifiers; the check probes the tree
   under test and runs the correspondence with the matching pair:
     fixed - sort key compares versions and >=v,<=v,!=v raises   (false: as first written; true: commit 3ca56c7)
     eqv   - two == specifiers are compared by version           (false: as Specifier objects, i.e. by the spelling
             of the version; true: the repair of finding C17-simplify-eq-string-identity)
   fully repaired code = (true, true). *)

(* simplify_specifiers before the first repair (sort key = printed form, >=v,<=v collapsed to ==v although a
   != v is present) changes the set of accepted versions: >=10,>=9 becomes >=9 and >=1,<=1,!=1 becomes ==1 *)
Theorem C17_simplify_refuted : forall eqv,
  not_equiv false eqv [(OGe, STR "10"); (OGe, STR "9")] /\
  not_equiv false eqv [(OGe, STR "1"); (OLe, STR "1"); (ONe, STR "1")].
Proof. intros eqv. exact (conj (simplify_refuted_key eqv) (simplify_refuted_ne eqv)). Qed.
Print Assumptions C17_simplify_refuted.

(* with the repaired key (fixed = true) an accepted set is reported as a set that accepts exactly the same versions -
   every version order, every specifier list, every iteration order, either way of comparing == specifiers *)
Theorem C17_simplify_equiv : forall V veqb leb kleb, version_order V veqb leb ->
  forall eqv ss ss', simplify V veqb leb kleb true eqv ss = Ok ss' -> forall x, sat V leb x ss' = sat V leb x ss.
Proof. intros V veqb leb kleb (H1 & H2 & H3). exact (simplify_equiv V veqb leb kleb H1 H2 H3). Qed.
Print Assumptions C17_simplify_equiv.

(* REPAIRED comparison of == specifiers (eqv = true): a rejected set has no member. No guard on spellings, every
   version order, both variants of the key. *)
Theorem C17_simplify_rejects_repaired : forall V veqb leb kleb, version_order V veqb leb ->
  forall fixed ss, simplify V veqb leb kleb fixed true ss = Err -> forall x, sat V leb x ss = false.
Proof. intros V veqb leb kleb (H1 & H2 & H3). exact (simplify_rejects_repaired V veqb leb kleb H1 H2 H3). Qed.
Print Assumptions C17_simplify_rejects_repaired.

(* the two together, for the fully repaired code: a specifier set that some version satisfies is accepted, and the
   result accepts exactly the versions the given set accepts.  (The converse - every unsatisfiable set is rejected -
   is not claimed and does not hold: see C17_accepts_unsat_ex; such a set is returned as an equivalent, equally
   unsatisfiable one.) *)
Theorem C17_simplify_accepts_repaired : forall V veqb leb kleb, version_order V veqb leb ->
  forall ss x, sat V leb x ss = true ->
  exists ss', simplify V veqb leb kleb true true ss = Ok ss' /\ forall y, sat V leb y ss' = sat V leb y ss.
Proof. intros V veqb leb kleb (H1 & H2 & H3). exact (simplify_accepts_repaired V veqb leb kleb H1 H2 H3). Qed.
Print Assumptions C17_simplify_accepts_repaired.

(* which == text is reported (all four variants): the first == specifier in iteration order, alone *)
Theorem C17_simplify_keeps_first_eq : forall V veqb leb kleb fixed eqv ss ss' e,
  simplify V veqb leb kleb fixed eqv ss = Ok ss' -> first_eq V ss = Some e -> ss' = [e].
Proof. exact simplify_keeps_first_eq. Qed.
Print Assumptions C17_simplify_keeps_first_eq.

(* UNREPAIRED comparison (any eqv, so in particular eqv = false): a rejected set has no member provided == versions
   that denote the same version are spelled the same *)
Theorem C17_simplify_rejects : forall V veqb leb kleb, version_order V veqb leb ->
  forall fixed eqv ss, canon V leb ss -> simplify V veqb leb kleb fixed eqv ss = Err -> forall x, sat V leb x ss = false.
Proof. intros V veqb leb kleb (H1 & H2 & H3). exact (simplify_rejects V veqb leb kleb H1 H2 H3). Qed.
Print Assumptions C17_simplify_rejects.

(* ... and without that guard it does (regression witness for the unrepaired comparison, eqv = false):
   ==1,==1.0 is rejected although 1 satisfies it *)
Theorem C17_simplify_rejects_spelling_refuted : forall fixed,
  exists ss x, simplify_str fixed false ss = Err /\ sat_str x ss = true.
Proof. exact rejects_refuted_spelling. Qed.
Print Assumptions C17_simplify_rejects_spelling_refuted.

(* the same statements for the executable instance the correspondence runs against the tree under test *)
Theorem C17_simplify_str_equiv : forall eqv ss ss',
  simplify_str true eqv ss = Ok ss' -> forall x, sat_str x ss' = sat_str x ss.
Proof. exact simplify_str_equiv. Qed.
Print Assumptions C17_simplify_str_equiv.

Theorem C17_simplify_str_rejects_repaired : forall fixed ss,
  simplify_str fixed true ss = Err -> forall x, sat_str x ss = false.
Proof. exact simplify_str_rejects_repaired. Qed.
Print Assumptions C17_simplify_str_rejects_repaired.

Theorem C17_simplify_str_accepts_repaired : forall ss x, sat_str x ss = true ->
  exists ss', simplify_str true true ss = Ok ss' /\ forall y, sat_str y ss' = sat_str y ss.
Proof. exact simplify_str_accepts_repaired. Qed.
Print Assumptions C17_simplify_str_accepts_repaired.

Theorem C17_simplify_str_rejects : forall fixed eqv ss,
  canon str sv_leb ss -> simplify_str fixed eqv ss = Err -> forall x, sat_str x ss = false.
Proof. exact simplify_str_rejects. Qed.
Print Assumptions C17_simplify_str_rejects.

(* RequirementSet merging in PkgConfigInfo.finalize: a publicly required name ends up public only, with
   the intersection of all requirements on it; other names stay private with private /\ automatic *)
Theorem C17_merge : forall V veqb leb, version_order V veqb leb ->
  forall requires requires_private auto name x,
  let r := finalize_sets V veqb requires requires_private auto in
  (rs_has V requires name = true ->
     rs_sat V leb (fst r) name x =
       rs_sat V leb requires name x && rs_sat V leb requires_private name x && rs_sat V leb auto name x /\
     rs_has V (snd r) name = false) /\
  (rs_has V requires name = false ->
     rs_has V (fst r) name = false /\
     rs_sat V leb (snd r) name x = rs_sat V leb requires_private name x && rs_sat V leb auto name x /\
     rs_has V (snd r) name = rs_has V requires_private name || rs_has V auto name).
Proof. intros V veqb leb (H1 & H2 & H3). exact (finalize_merge V veqb leb H1). Qed.
Print Assumptions C17_merge.

(* Requirement.split: the written entries accept what the requirement accepts; single=True gives one entry *)
Theorem C17_split_equiv : forall V veqb leb kleb, version_order V veqb leb ->
  forall eqv single r l, req_split V veqb leb kleb true eqv single r = Ok l ->
  forall x, simple_sat V leb x l = sat V leb x (snd r).
Proof. intros V veqb leb kleb (H1 & H2 & H3). exact (req_split_equiv V veqb leb kleb H1 H2 H3). Qed.
Print Assumptions C17_split_equiv.

Theorem C17_single : forall V veqb leb kleb fixed eqv r l,
  req_split V veqb leb kleb fixed eqv true r = Ok l -> List.length l = 1%nat.
Proof. exact req_split_single. Qed.
Print Assumptions C17_single.

(* ---- .pc fields ---- *)
(* wherever the sh model accepts a line as a list of words, pkgconf's argument splitter yields the same
   non-empty words (single quotes, backslash outside quotes, blanks; every Unicode classification) *)
Theorem C17_pc_argv_of_sh : forall uw s ws, sh_words uw s = Some ws -> pc_argv s = Some (filter nonempty ws).
Proof. exact pc_argv_of_sh. Qed.
Print Assumptions C17_pc_argv_of_sh.

(* the field round trip for option strings (partial: guarded by pc_clean on the written text; flags that contain
   a path under a root variable are covered by the correspondence and by real pkg-config only):
   comment stripping, variable substitution and argument splitting give back exactly the options *)
Theorem C17_fields_rt_partial : forall uw vars flags,
  forallb nonempty flags = true ->
  pc_clean (write_each uw true [c_sp] (map (fun s => [FStr s]) flags)) = true ->
  pc_argv (pc_subst vars (pc_comment false (write_each uw true [c_sp] (map (fun s => [FStr s]) flags)))) = Some flags.
Proof. exact fields_rt. Qed.
Print Assumptions C17_fields_rt_partial.

(* outside the guard it fails: -DX=a#b -DY is read as nothing, -DW=${p} as -DW=<value of p> *)
Theorem C17_fields_rt_refuted :
  pc_field [] (write_each (fun _ => false) true [c_sp] [[FStr (STR "-DX=a#b")]; [FStr (STR "-DY")]]) = None /\
  pc_field [(STR "p", STR "/u")] (write_each (fun _ => false) true [c_sp] [[FStr (STR "-DW=${p}")]])
    = Some [STR "-DW=/u"].
Proof. exact (conj fields_rt_hash_refuted fields_rt_dollar_brace_refuted). Qed.
Print Assumptions C17_fields_rt_refuted.

(* ---- the variables of the -uninstalled form ---- *)
(* The section is srcdir=<source directory> and builddir=${pcfiledir} followed by one /.. per level of the .pc
   directory below the build directory: the absolute build directory is not written (it is not even an input of
   the section), and what pkgconf substitutes for builddir is - for EVERY value of pcfiledir, i.e. wherever the
   build tree has been moved to - the directory of the .pc file being read followed by the way up *)
Theorem C17_uninstalled_relocatable : forall uw srcdir depth,
  uninstalled_vars uw srcdir depth =
    STR "srcdir=" ++ srcdir ++ [c_nl] ++ STR "builddir=${pcfiledir}" ++ ups depth ++ [c_nl] /\
  forall vars, pc_subst vars (builddir_value depth) = lookup vars (STR "pcfiledir") ++ ups depth.
Proof. exact uninstalled_relocatable. Qed.
Print Assumptions C17_uninstalled_relocatable.

(* ---- PkgConfigInfo: which fields are auto-filled, and what the three flag fields hold ---- *)
(* [a]: the arguments of one pkg_config() call, [ex]: install.explicit when the package is written.
   A list field given explicitly - the EMPTY list included - is stored as given (duplicates dropped) and is
   never auto-filled; libs_private is never auto-filled; a field left None is, with auto_fill, exactly the
   installed header directories / libraries, and stays None (finalize: empty) without auto_fill. *)
Theorem C17_autofill_respects_explicit : forall pname pv ex a,
  let f := final_info pname pv ex a in
  (forall l, i_includes a = Some l -> i_includes f = Some (dedup_first l)) /\
  (forall l, i_libs a = Some l -> i_libs f = Some (dedup_first l)) /\
  i_libs_private f = option_map dedup_first (i_libs_private a) /\
  (i_includes a = None -> i_includes f = if i_auto a then Some (dedup_first (ids_of KHeader ex)) else None) /\
  (i_libs a = None -> i_libs f = if i_auto a then Some (dedup_first (ids_of KLib ex)) else None) /\
  (forall h, In h (dedup_first (ids_of KHeader ex)) <-> In (KHeader, h) ex) /\
  (forall l, In l (dedup_first (ids_of KLib ex)) <-> In (KLib, l) ex) /\
  (forall l x, In x (dedup_first l) <-> In x l).
Proof. exact autofill_respects_explicit. Qed.
Print Assumptions C17_autofill_respects_explicit.

(* install.explicit after the script: exactly the arguments of install() and the headers / libraries named in
   some pkg_config() call; filling a field from it installs nothing new *)
Theorem C17_installed_set : forall acts x,
  In x (explicit_after acts) <-> exists a, In a acts /\ In x (installs_of a).
Proof. exact explicit_after_In. Qed.
Print Assumptions C17_installed_set.

Theorem C17_autofill_installs_nothing : forall k ex,
  inst_extend ex (map (pair k) (dedup_first (ids_of k ex))) = ex.
Proof. exact autofill_installs_noop. Qed.
Print Assumptions C17_autofill_installs_nothing.

(* one written package per pkg_config() call, in order; an auto_fill package sees install.explicit as it is
   after the whole script *)
Theorem C17_written_packages : forall pname pv acts,
  Forall2 (fun p f => exists ex', f = final_info pname pv ex' p /\ (i_auto p = true -> ex' = explicit_after acts))
          (pkgs_of acts) (written pname pv acts).
Proof. exact written_spec. Qed.
Print Assumptions C17_written_packages.

(* finalize: includes, options, libs, link options are the (filled) fields unchanged; Libs and Libs.private
   together hold exactly the libraries reachable from libs + libs_private through dependencies of static
   (forwarding) libraries; a library of Libs.private was declared private or is not in Libs; the private link
   options are the declared ones and those forwarded by reachable static libraries *)
Theorem C17_declared_flags : forall deps fwd lopts fuel i d,
  finalize deps fwd lopts fuel i = Some (Some d) ->
  let user := or_nil (i_libs i) ++ or_nil (i_libs_private i) in
  d_includes d = or_nil (i_includes i) /\ d_options d = i_options i /\
  d_libs d = or_nil (i_libs i) /\ d_lopts d = i_lopts i /\
  NoDup (d_libs_private d) /\
  (forall x, In x (d_libs d ++ d_libs_private d) <-> reach deps fwd user x) /\
  (forall x, In x (d_libs_private d) -> In x (or_nil (i_libs_private i)) \/ ~ In x (d_libs d)) /\
  (forall o, In o (d_lopts_private d) <->
             In o (i_lopts_private i) \/ exists x, reach deps fwd user x /\ fwd x = true /\ In o (lopts x)).
Proof. exact finalize_spec. Qed.
Print Assumptions C17_declared_flags.

(* the words of Cflags: -I<dir> for exactly the directories of the includes, and the options; of Libs and
   Libs.private: the link options, -L<dir> for exactly the directories of the libraries, -l<name> per library *)
Theorem C17_declared_words : forall incdir libdir libname dirfrag,
  (forall incs opts w, In w (cflags_words incdir dirfrag incs opts) <->
     (exists h, In h incs /\ w = inc_flag dirfrag (incdir h)) \/ (exists o, In o opts /\ w = str_flag o)) /\
  (forall libs lo w, In w (link_words libdir libname dirfrag libs lo) <->
     (exists o, In o lo /\ w = str_flag o) \/
     (exists l, In l libs /\ w = libdir_flag dirfrag (libdir l)) \/
     (exists l, In l libs /\ w = lib_flag libname l)).
Proof. intros. split; intros; [apply cflags_words_In | apply link_words_In]. Qed.
Print Assumptions C17_declared_words.

(* for a package without include directories the written Cflags field is read back by the pkgconf reader model
   as exactly the declared options (guard as in C17_fields_rt_partial) *)
Theorem C17_declared_options_rt : forall uw vars incdir dirfrag d,
  d_includes d = [] -> forallb nonempty (d_options d) = true ->
  pc_clean (write_each uw true [c_sp] (pc_cflags incdir dirfrag d)) = true ->
  pc_argv (pc_subst vars (pc_comment false (write_each uw true [c_sp] (pc_cflags incdir dirfrag d))))
  = Some (d_options d).
Proof. exact declared_options_rt. Qed.
Print Assumptions C17_declared_options_rt.

(* the name a library is written under (-l<n>, n read off the file name by CcLinker._extract_lib_name) is the name the
   script created it with - for EVERY name, also one with an extension-like infix (codec.amd64, q.a, x.so.1): the
   consumer's linker resolves -l<n> in the -L directory to exactly the files lib<n>.so / lib<n>.a that were built *)
Theorem C17_libname_created : forall n,
  Options.extract_lib_name (LibNameProofs.shared_file_name n) = Some n /\ Options.extract_lib_name (LibNameProofs.static_file_name n) = Some n.
Proof. intros n. exact (conj (LibNameProofs.libname_shared n) (LibNameProofs.libname_static n)). Qed.
Print Assumptions C17_libname_created.

(* hence two libraries are never written under one name: a sibling with a shorter name cannot take the other's place *)
Theorem C17_libname_injective : forall n m,
  (Options.extract_lib_name (LibNameProofs.shared_file_name n) = Options.extract_lib_name (LibNameProofs.shared_file_name m) -> n = m) /\
  (Options.extract_lib_name (LibNameProofs.static_file_name n) = Options.extract_lib_name (LibNameProofs.static_file_name m) -> n = m).
Proof. intros n m. exact (conj (LibNameProofs.libname_shared_injective n m) (LibNameProofs.libname_static_injective n m)). Qed.
Print Assumptions C17_libname_injective.

(* non-vacuity: install(h0, l0, l1); pkg_config(auto_fill, libs=[]); pkg_config(auto_fill, includes=[]);
   pkg_config(auto_fill); pkg_config(libs=[l2]) - the explicit empty lists stay empty, None is filled with
   everything installed, including l2 which the last call installs *)
Definition ex_info (auto : bool) (incs libs : option (list N)) : info :=
  {| i_auto := auto; i_name := Some (STR "p"); i_version := None; i_includes := incs; i_libs := libs;
     i_libs_private := None; i_options := []; i_lopts := []; i_lopts_private := [] |}.
Example C17_autofill_ex :
  map (fun f => (i_includes f, i_libs f))
      (written (STR "proj") None
         [AInstall [(KHeader, 0%N); (KLib, 0%N); (KLib, 1%N)];
          APkg (ex_info true None (Some [])); APkg (ex_info true (Some []) None);
          APkg (ex_info true None None); APkg (ex_info false None (Some [2%N]))])
  = [(Some [0%N], Some []); (Some [], Some [0%N; 1%N; 2%N]); (Some [0%N], Some [0%N; 1%N; 2%N]);
     (None, Some [2%N])].
Proof. vm_compute. reflexivity. Qed.

(* static 1 -> {0}; libs = [1]: Libs holds 1, Libs.private the forwarded 0 and its link option *)
Example C17_finalize_ex :
  option_map (option_map (fun d => (d_libs d, d_libs_private d, d_lopts_private d)))
    (finalize (fun x => if N.eqb x 1 then [0%N] else []) (fun _ => true)
              (fun x => if N.eqb x 0 then [STR "-pthread"] else []) 5
              (final_info (STR "proj") None [] (ex_info false None (Some [1%N]))))
  = Some (Some ([1%N], [0%N], [STR "-pthread"])).
Proof. vm_compute. reflexivity. Qed.

(* non-vacuity *)
Example C17_fields_ex :
  let flags := [STR "-DX=a b"; STR "-DQ='q'"; STR "-DY=$z"; STR "it's"; STR "-I/opt/my inc"] in
  pc_clean (write_each (fun _ => false) true [c_sp] (map (fun s => [FStr s]) flags)) = true /\
  pc_field [] (write_each (fun _ => false) true [c_sp] (map (fun s => [FStr s]) flags)) = Some flags.
Proof. split; vm_compute; reflexivity. Qed.

Example C17_path_flag_ex :
  pc_field [(STR "includedir", STR "/o p/include")]
    (write_each (fun _ => false) true [c_sp] [[FStr (STR "-I"); FPath (Some (STR "includedir")) (STR "a 'b")]])
  = Some [STR "-I/o p/include/a 'b"].
Proof. vm_compute. reflexivity. Qed.

(* the -uninstalled file read at two places: a library directory under the build directory is below the place *)
Example C17_relocated_ex :
  let flag := [[FStr (STR "-L"); FPath (Some (STR "builddir")) (STR "sub")]] in
  let at_ d := [(STR "pcfiledir", d); (STR "builddir", pc_subst [(STR "pcfiledir", d)] (builddir_value 1))] in
  uninstalled_vars (fun _ => false) (STR "/s r/c") 1 = STR "srcdir=/s r/c
builddir=${pcfiledir}/..
" /\
  pc_field (at_ (STR "/b/pkgconfig")) (write_each (fun _ => false) true [c_sp] flag)
    = Some [STR "-L/b/pkgconfig/../sub"] /\
  pc_field (at_ (STR "/mo ved/b2/pkgconfig")) (write_each (fun _ => false) true [c_sp] flag)
    = Some [STR "-L/mo ved/b2/pkgconfig/../sub"].
Proof. repeat split; vm_compute; reflexivity. Qed.

Example C17_order_inhabited : version_order str str_eqb sv_leb.
Proof. exact (conj str_eqb_eq (conj sv_leb_total sv_leb_trans)). Qed.

Example C17_simplify_ex :
  simplify_str true true [(OGe, STR "1.9"); (OGe, STR "1.10"); (OLt, STR "2.0"); (ONe, STR "3"); (ONe, STR "1.11")]
  = Ok [(OGe, STR "1.10"); (OLt, STR "2.0"); (ONe, STR "1.11")].
Proof. vm_compute. reflexivity. Qed.

Example C17_rejects_ex : forall eqv, simplify_str true eqv [(OGe, STR "1"); (OLe, STR "1"); (ONe, STR "1")] = Err
  /\ simplify_str true eqv [(OGe, STR "2"); (OLt, STR "2.0")] = Err.
Proof. intros []; split; vm_compute; reflexivity. Qed.

(* the repaired comparison of == specifiers: two spellings of one version are accepted and the FIRST one in
   iteration order is reported (either order); next to bounds; with a third spelling; different versions are still
   rejected, also when a second spelling of the first comes in between; the unrepaired comparison rejects the first *)
Example C17_eq_spelling_ex :
  simplify_str true true [(OEq, STR "1"); (OEq, STR "1.0")] = Ok [(OEq, STR "1")] /\
  simplify_str true true [(OEq, STR "1.0"); (OEq, STR "1")] = Ok [(OEq, STR "1.0")] /\
  sat_str (STR "1") [(OEq, STR "1"); (OEq, STR "1.0")] = true /\
  simplify_str true true [(OEq, STR "1.0"); (OGe, STR "1")] = Ok [(OEq, STR "1.0")] /\
  simplify_str true true [(OGe, STR "1"); (OEq, STR "1.0"); (OEq, STR "1.0.0"); (OLe, STR "1"); (OEq, STR "1")]
    = Ok [(OEq, STR "1.0")] /\
  simplify_str true true [(OEq, STR "1"); (OEq, STR "2")] = Err /\
  simplify_str true true [(OEq, STR "1"); (OEq, STR "1.0"); (OEq, STR "2")] = Err /\
  simplify_str true true [(OEq, STR "1"); (OEq, STR "1.0"); (ONe, STR "1.0.0")] = Err /\
  simplify_str true false [(OEq, STR "1"); (OEq, STR "1.0")] = Err /\
  first_eq str [(OGe, STR "1"); (OEq, STR "1.0"); (OEq, STR "1")] = Some (OEq, STR "1.0").
Proof. repeat split; vm_compute; reflexivity. Qed.

(* what is NOT claimed: an unsatisfiable set can be accepted (the collapse >=v,<=v compares spellings) - it is then
   returned unchanged, hence equivalent *)
Example C17_accepts_unsat_ex :
  simplify_str true true [(OGe, STR "1"); (OLe, STR "1.0"); (ONe, STR "1")]
    = Ok [(OGe, STR "1"); (OLe, STR "1.0"); (ONe, STR "1")] /\
  sat_str (STR "1") [(OGe, STR "1"); (OLe, STR "1.0"); (ONe, STR "1")] = false.
Proof. exact accepts_unsatisfiable_witness. Qed.
