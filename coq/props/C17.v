(* C17 - Generated pkg-config files give consumers the declared flags and requirements.
   Only statements; proofs live in theories/Misc. *)
From BFG Require Import Base.Chars Shell.PosixQuote Shell.Sh Misc.Versions Misc.VersionsProofs Misc.PcFile Misc.PcFileProofs.
From BFG Require Import Graph.LinkOrder Graph.LinkOrderProofs Misc.PcInfo Misc.PcInfoProofs.
From Coq Require Import String.

(* A total preorder of versions: [veqb] is identity of the printed form, [leb] the version order
   (two spellings may denote one version), [kleb] any relation used as sort key by the unrepaired code. *)
Definition version_order (V : Type) (veqb leb : V -> V -> bool) : Prop :=
  (forall a b, veqb a b = true <-> a = b) /\
  (forall a b, leb a b = true \/ leb b a = true) /\
  (forall a b c, leb a b = true -> leb b c = true -> leb a c = true).

(* simplify_specifiers before the repair (sort key = printed form, >=v,<=v collapsed to ==v although a
   != v is present) changes the set of accepted versions: >=10,>=9 becomes >=9 and >=1,<=1,!=1 becomes ==1 *)
Theorem C17_simplify_refuted :
  not_equiv false [(OGe, STR "10"); (OGe, STR "9")] /\ not_equiv false [(OGe, STR "1"); (OLe, STR "1"); (ONe, STR "1")].
Proof. exact (conj simplify_refuted_key simplify_refuted_ne). Qed.
Print Assumptions C17_simplify_refuted.

(* the repaired simplify_specifiers (fixed = true, the current /repo) accepts exactly the versions the
   given specifier set accepts - every version order, every specifier list, every iteration order *)
Theorem C17_simplify_equiv : forall V veqb leb kleb, version_order V veqb leb ->
  forall ss ss', simplify V veqb leb kleb true ss = Ok ss' -> forall x, sat V leb x ss' = sat V leb x ss.
Proof. intros V veqb leb kleb (H1 & H2 & H3). exact (simplify_equiv V veqb leb kleb H1 H2 H3). Qed.
Print Assumptions C17_simplify_equiv.

(* a rejected set has no member (both variants), provided == versions that denote the same version are
   spelled the same *)
Theorem C17_simplify_rejects : forall V veqb leb kleb, version_order V veqb leb ->
  forall fixed ss, canon V leb ss -> simplify V veqb leb kleb fixed ss = Err -> forall x, sat V leb x ss = false.
Proof. intros V veqb leb kleb (H1 & H2 & H3). exact (simplify_rejects V veqb leb kleb H1 H2 H3). Qed.
Print Assumptions C17_simplify_rejects.

(* ... and without that guard it does: ==1,==1.0 is rejected although 1 satisfies it *)
Theorem C17_simplify_rejects_spelling_refuted : forall fixed,
  exists ss x, simplify_str fixed ss = Err /\ sat_str x ss = true.
Proof. exact rejects_refuted_spelling. Qed.
Print Assumptions C17_simplify_rejects_spelling_refuted.

(* the same two statements for the executable instance the correspondence runs against /repo *)
Theorem C17_simplify_str_equiv : forall ss ss',
  simplify_str true ss = Ok ss' -> forall x, sat_str x ss' = sat_str x ss.
Proof. exact simplify_str_equiv. Qed.
Print Assumptions C17_simplify_str_equiv.

Theorem C17_simplify_str_rejects : forall fixed ss,
  canon str sv_leb ss -> simplify_str fixed ss = Err -> forall x, sat_str x ss = false.
Proof. exact simplify_str_rejects. Qed.
Print Assumptions C17_simplify_str_rejects.

(* RequirementSet merging in PkgConfigInfo.finalize: a publicly required name ends up public only, with
   the intersection of all requirements on it; other names stay private with private /\ automatic *)
Theorem C17_merge : forall V veqb leb, version_order V veqb leb ->
  forall requires requires_private auto name x,
  let r := finalize_sets V veqb requires requires_private auto in
  (rs_has V requires name = true ->
     rs_sat V leb (fst r) name x =
       rs_sat V leb requires name x && rs_sat V leb requires_private name x && rs_sat V leb auto name x /\
     rs_has V (snd r) name = false) /\
  (rs_has V requires name = false ->
     rs_has V (fst r) name = false /\
     rs_sat V leb (snd r) name x = rs_sat V leb requires_private name x && rs_sat V leb auto name x /\
     rs_has V (snd r) name = rs_has V requires_private name || rs_has V auto name).
Proof. intros V veqb leb (H1 & H2 & H3). exact (finalize_merge V veqb leb H1). Qed.
Print Assumptions C17_merge.

(* Requirement.split: the written entries accept what the requirement accepts; single=True gives one entry *)
Theorem C17_split_equiv : forall V veqb leb kleb, version_order V veqb leb ->
  forall single r l, req_split V veqb leb kleb true single r = Ok l ->
  forall x, simple_sat V leb x l = sat V leb x (snd r).
Proof. intros V veqb leb kleb (H1 & H2 & H3). exact (req_split_equiv V veqb leb kleb H1 H2 H3). Qed.
Print Assumptions C17_split_equiv.

Theorem C17_single : forall V veqb leb kleb fixed r l,
  req_split V veqb leb kleb fixed true r = Ok l -> List.length l = 1%nat.
Proof. exact req_split_single. Qed.
Print Assumptions C17_single.

(* ---- .pc fields ---- *)
(* wherever the sh model accepts a line as a list of words, pkgconf's argument splitter yields the same
   non-empty words (single quotes, backslash outside quotes, blanks; every Unicode classification) *)
Theorem C17_pc_argv_of_sh : forall uw s ws, sh_words uw s = Some ws -> pc_argv s = Some (filter nonempty ws).
Proof. exact pc_argv_of_sh. Qed.
Print Assumptions C17_pc_argv_of_sh.

(* the field round trip for option strings (partial: guarded by pc_clean on the written text; flags that contain
   a path under a root variable are covered by the correspondence and by real pkg-config only):
   comment stripping, variable substitution and argument splitting give back exactly the options *)
Theorem C17_fields_rt_partial : forall uw vars flags,
  forallb nonempty flags = true ->
  pc_clean (write_each uw true [c_sp] (map (fun s => [FStr s]) flags)) = true ->
  pc_argv (pc_subst vars (pc_comment false (write_each uw true [c_sp] (map (fun s => [FStr s]) flags)))) = Some flags.
Proof. exact fields_rt. Qed.
Print Assumptions C17_fields_rt_partial.

(* outside the guard it fails: -DX=a#b -DY is read as nothing, -DW=${p} as -DW=<value of p> *)
Theorem C17_fields_rt_refuted :
  pc_field [] (write_each (fun _ => false) true [c_sp] [[FStr (STR "-DX=a#b")]; [FStr (STR "-DY")]]) = None /\
  pc_field [(STR "p", STR "/u")] (write_each (fun _ => false) true [c_sp] [[FStr (STR "-DW=${p}")]])
    = Some [STR "-DW=/u"].
Proof. exact (conj fields_rt_hash_refuted fields_rt_dollar_brace_refuted). Qed.
Print Assumptions C17_fields_rt_refuted.

(* ---- PkgConfigInfo: which fields are auto-filled, and what the three flag fields hold ---- *)
(* [a]: the arguments of one pkg_config() call, [ex]: install.explicit when the package is written.
   A list field given explicitly - the EMPTY list included - is stored as given (duplicates dropped) and is
   never auto-filled; libs_private is never auto-filled; a field left None is, with auto_fill, exactly the
   installed header directories / libraries, and stays None (finalize: empty) without auto_fill. *)
Theorem C17_autofill_respects_explicit : forall pname pv ex a,
  let f := final_info pname pv ex a in
  (forall l, i_includes a = Some l -> i_includes f = Some (dedup_first l)) /\
  (forall l, i_libs a = Some l -> i_libs f = Some (dedup_first l)) /\
  i_libs_private f = option_map dedup_first (i_libs_private a) /\
  (i_includes a = None -> i_includes f = if i_auto a then Some (dedup_first (ids_of KHeader ex)) else None) /\
  (i_libs a = None -> i_libs f = if i_auto a then Some (dedup_first (ids_of KLib ex)) else None) /\
  (forall h, In h (dedup_first (ids_of KHeader ex)) <-> In (KHeader, h) ex) /\
  (forall l, In l (dedup_first (ids_of KLib ex)) <-> In (KLib, l) ex) /\
  (forall l x, In x (dedup_first l) <-> In x l).
Proof. exact autofill_respects_explicit. Qed.
Print Assumptions C17_autofill_respects_explicit.

(* install.explicit after the script: exactly the arguments of install() and the headers / libraries named in
   some pkg_config() call; filling a field from it installs nothing new *)
Theorem C17_installed_set : forall acts x,
  In x (explicit_after acts) <-> exists a, In a acts /\ In x (installs_of a).
Proof. exact explicit_after_In. Qed.
Print Assumptions C17_installed_set.

Theorem C17_autofill_installs_nothing : forall k ex,
  inst_extend ex (map (pair k) (dedup_first (ids_of k ex))) = ex.
Proof. exact autofill_installs_noop. Qed.
Print Assumptions C17_autofill_installs_nothing.

(* one written package per pkg_config() call, in order; an auto_fill package sees install.explicit as it is
   after the whole script *)
Theorem C17_written_packages : forall pname pv acts,
  Forall2 (fun p f => exists ex', f = final_info pname pv ex' p /\ (i_auto p = true -> ex' = explicit_after acts))
          (pkgs_of acts) (written pname pv acts).
Proof. exact written_spec. Qed.
Print Assumptions C17_written_packages.

(* finalize: includes, options, libs, link options are the (filled) fields unchanged; Libs and Libs.private
   together hold exactly the libraries reachable from libs + libs_private through dependencies of static
   (forwarding) libraries; a library of Libs.private was declared private or is not in Libs; the private link
   options are the declared ones and those forwarded by reachable static libraries *)
Theorem C17_declared_flags : forall deps fwd lopts fuel i d,
  finalize deps fwd lopts fuel i = Some (Some d) ->
  let user := or_nil (i_libs i) ++ or_nil (i_libs_private i) in
  d_includes d = or_nil (i_includes i) /\ d_options d = i_options i /\
  d_libs d = or_nil (i_libs i) /\ d_lopts d = i_lopts i /\
  NoDup (d_libs_private d) /\
  (forall x, In x (d_libs d ++ d_libs_private d) <-> reach deps fwd user x) /\
  (forall x, In x (d_libs_private d) -> In x (or_nil (i_libs_private i)) \/ ~ In x (d_libs d)) /\
  (forall o, In o (d_lopts_private d) <->
             In o (i_lopts_private i) \/ exists x, reach deps fwd user x /\ fwd x = true /\ In o (lopts x)).
Proof. exact finalize_spec. Qed.
Print Assumptions C17_declared_flags.

(* the words of Cflags: -I<dir> for exactly the directories of the includes, and the options; of Libs and
   Libs.private: the link options, -L<dir> for exactly the directories of the libraries, -l<name> per library *)
Theorem C17_declared_words : forall incdir libdir libname dirfrag,
  (forall incs opts w, In w (cflags_words incdir dirfrag incs opts) <->
     (exists h, In h incs /\ w = inc_flag dirfrag (incdir h)) \/ (exists o, In o opts /\ w = str_flag o)) /\
  (forall libs lo w, In w (link_words libdir libname dirfrag libs lo) <->
     (exists o, In o lo /\ w = str_flag o) \/
     (exists l, In l libs /\ w = libdir_flag dirfrag (libdir l)) \/
     (exists l, In l libs /\ w = lib_flag libname l)).
Proof. intros. split; intros; [apply cflags_words_In | apply link_words_In]. Qed.
Print Assumptions C17_declared_words.

(* for a package without include directories the written Cflags field is read back by the pkgconf reader model
   as exactly the declared options (guard as in C17_fields_rt_partial) *)
Theorem C17_declared_options_rt : forall uw vars incdir dirfrag d,
  d_includes d = [] -> forallb nonempty (d_options d) = true ->
  pc_clean (write_each uw true [c_sp] (pc_cflags incdir dirfrag d)) = true ->
  pc_argv (pc_subst vars (pc_comment false (write_each uw true [c_sp] (pc_cflags incdir dirfrag d))))
  = Some (d_options d).
Proof. exact declared_options_rt. Qed.
Print Assumptions C17_declared_options_rt.

(* non-vacuity: install(h0, l0, l1); pkg_config(auto_fill, libs=[]); pkg_config(auto_fill, includes=[]);
   pkg_config(auto_fill); pkg_config(libs=[l2]) - the explicit empty lists stay empty, None is filled with
   everything installed, including l2 which the last call installs *)
Definition ex_info (auto : bool) (incs libs : option (list N)) : info :=
  {| i_auto := auto; i_name := Some (STR "p"); i_version := None; i_includes := incs; i_libs := libs;
     i_libs_private := None; i_options := []; i_lopts := []; i_lopts_private := [] |}.
Example C17_autofill_ex :
  map (fun f => (i_includes f, i_libs f))
      (written (STR "proj") None
         [AInstall [(KHeader, 0%N); (KLib, 0%N); (KLib, 1%N)];
          APkg (ex_info true None (Some [])); APkg (ex_info true (Some []) None);
          APkg (ex_info true None None); APkg (ex_info false None (Some [2%N]))])
  = [(Some [0%N], Some []); (Some [], Some [0%N; 1%N; 2%N]); (Some [0%N], Some [0%N; 1%N; 2%N]);
     (None, Some [2%N])].
Proof. vm_compute. reflexivity. Qed.

(* static 1 -> {0}; libs = [1]: Libs holds 1, Libs.private the forwarded 0 and its link option *)
Example C17_finalize_ex :
  option_map (option_map (fun d => (d_libs d, d_libs_private d, d_lopts_private d)))
    (finalize (fun x => if N.eqb x 1 then [0%N] else []) (fun _ => true)
              (fun x => if N.eqb x 0 then [STR "-pthread"] else []) 5
              (final_info (STR "proj") None [] (ex_info false None (Some [1%N]))))
  = Some (Some ([1%N], [0%N], [STR "-pthread"])).
Proof. vm_compute. reflexivity. Qed.

(* non-vacuity *)
Example C17_fields_ex :
  let flags := [STR "-DX=a b"; STR "-DQ='q'"; STR "-DY=$z"; STR "it's"; STR "-I/opt/my inc"] in
  pc_clean (write_each (fun _ => false) true [c_sp] (map (fun s => [FStr s]) flags)) = true /\
  pc_field [] (write_each (fun _ => false) true [c_sp] (map (fun s => [FStr s]) flags)) = Some flags.
Proof. split; vm_compute; reflexivity. Qed.

Example C17_path_flag_ex :
  pc_field [(STR "includedir", STR "/o p/include")]
    (write_each (fun _ => false) true [c_sp] [[FStr (STR "-I"); FPath (Some (STR "includedir")) (STR "a 'b")]])
  = Some [STR "-I/o p/include/a 'b"].
Proof. vm_compute. reflexivity. Qed.

Example C17_order_inhabited : version_order str str_eqb sv_leb.
Proof. exact (conj str_eqb_eq (conj sv_leb_total sv_leb_trans)). Qed.

Example C17_simplify_ex :
  simplify_str true [(OGe, STR "1.9"); (OGe, STR "1.10"); (OLt, STR "2.0"); (ONe, STR "3"); (ONe, STR "1.11")]
  = Ok [(OGe, STR "1.10"); (OLt, STR "2.0"); (ONe, STR "1.11")].
Proof. vm_compute. reflexivity. Qed.

Example C17_rejects_ex : simplify_str true [(OGe, STR "1"); (OLe, STR "1"); (ONe, STR "1")] = Err
  /\ simplify_str true [(OGe, STR "2"); (OLt, STR "2.0")] = Err.
Proof. split; vm_compute; reflexivity. Qed.
