(* C18 - The source distribution contains everything the build reads from srcdir.
   Only statements; the model is theories/Graph/Dist.v, proofs are in theories/Graph/DistProofs.v.
   run fixed bfg script: fixed = true is find_from_filter as written now (cached extra entries are re-created),
   fixed = false is the code before /repo commit 491a34f.  The hit flag of every find call is arbitrary, so a run
   covers a fresh configure as well as a (lazy) regeneration that answers find calls from the cache. *)
From BFG Require Import Base.Chars Graph.Dist Graph.DistProofs.

(* every srcdir path the build file mentions (inputs of edges, extra_deps, include directories, installed files),
   every entry a find call listed (include or not_now) and every script read (build.bfg, submodule scripts, option
   scripts) is an archive member, unless a builtin was told dist=False for it *)
Theorem C18_complete : forall bfg script opts st,
  run true bfg script = Some st ->
  forall n, In n (srcdir_refs st) \/ In n (scripts_read st opts) ->
  In n (dist_members st opts) \/ In n (nodist st).
Proof. exact complete. Qed.
Print Assumptions C18_complete.

(* before 491a34f: a find call answered from the cache loses its extra entries (DESIGN 7.4) *)
Theorem C18_complete_refuted :
  exists bfg script st, run false bfg script = Some st /\
    exists n, In n (srcdir_refs st) /\ ~ In n (dist_members st []) /\ ~ In n (nodist st).
Proof. exact complete_refuted. Qed.
Print Assumptions C18_complete_refuted.

(* a file marked dist=False that the script does not create with dist anywhere else (and that is not a script)
   is not a member; holds for both variants of the code *)
Theorem C18_nodist_absent : forall fixed bfg script opts st n,
  run fixed bfg script = Some st ->
  In n (nodist st) -> ~ In n (created_with_dist script) -> ~ In n (scripts_read st opts) ->
  ~ In n (dist_members st opts).
Proof. exact nodist_absent. Qed.
Print Assumptions C18_nodist_absent.

(* every registered source is a srcdir node that some builtin received as a name with dist, some Edge received as an
   extra_deps string, or some find call with dist listed: nothing else gets in *)
Theorem C18_sources_created : forall fixed bfg script st x,
  run fixed bfg script = Some st -> In x (sources st) -> In x (created_with_dist script) /\ n_root x = RSrc.
Proof. exact sources_created. Qed.
Print Assumptions C18_sources_created.

(* nothing from the build directory (or from outside): every member is rooted at srcdir, provided the scripts
   themselves (build.bfg, submodules, option scripts) are *)
Theorem C18_no_builddir : forall fixed bfg script opts st,
  run fixed bfg script = Some st -> scripts_in_src bfg script opts = true ->
  forall n, In n (dist_members st opts) -> n_root n = RSrc.
Proof. exact no_builddir. Qed.
Print Assumptions C18_no_builddir.

(* the archive command: doppel -ipN -f FMT -C srcdir [-P name-version] <members relative to srcdir> dest,
   where the relative name of a member is its path below srcdir (. for srcdir itself) *)
Theorem C18_relative : forall fixed bfg script opts st fmt ext name version,
  run fixed bfg script = Some st -> scripts_in_src bfg script opts = true ->
  dist_command fmt ext name version st opts =
    Some ([WStr w_doppel; WStr w_ipN; WStr w_f; WStr fmt; WStr w_C; WSrcdir] ++
          match dstname name version with [] => [] | d => [WStr w_P; WStr d] end ++
          map WStr (map rel_text (dist_members st opts)) ++ [WBuildFile (dstname name version ++ ext)]).
Proof. exact relative. Qed.
Print Assumptions C18_relative.

(* ---- non-vacuity ---- *)
Local Open Scope N_scope.
Definition ex_src (s : str) : node := mkNode RSrc s.
Definition ex_script : list call :=
  [ CSub (ex_src [115; 47; 98]);
    CFile KGeneric (AName (ex_src [110])) false;
    CFind (mkFind [mkEv (ex_src [97]) true; mkEv (ex_src [101]) false] true true) true;
    CLink [(AObj 1, false); (AName (ex_src [109]), false)] [AName (ex_src [105])] [] None
          [AName (ex_src [100]); AObj 0] [116];
    CFile KSource (AName (mkNode RBuild [103])) true;
    CManZ (AName (ex_src [112])) false [122] ].

(* the example runs, has 7 members, one of them from a cache-hit extra entry, marks two files, and the
   hypotheses of C18_nodist_absent hold for the first of them *)
Example C18_nonvacuous :
  exists st, run true w_bfg ex_script = Some st /\
    scripts_in_src w_bfg ex_script [] = true /\
    length (dist_members st []) = 7%nat /\ In (ex_src [101]) (dist_members st []) /\
    length (srcdir_refs st) = 9%nat /\ In (ex_src [110]) (srcdir_refs st) /\
    nodist st = [ex_src [110]; ex_src [112]] /\
    ~ In (ex_src [110]) (created_with_dist ex_script) /\ ~ In (ex_src [110]) (scripts_read st []).
Proof.
  eexists. split; [vm_compute; reflexivity|]. split; [vm_compute; reflexivity|].
  split; [vm_compute; reflexivity|]. split; [vm_compute; tauto|].
  split; [vm_compute; reflexivity|]. split; [vm_compute; tauto|].
  split; [vm_compute; reflexivity|]. split; apply not_mem_In; vm_compute; reflexivity.
Qed.

(* the same script under the old code lacks the extra entry *)
Example C18_old_variant_loses_extra :
  exists st, run false w_bfg ex_script = Some st /\ ~ In (ex_src [101]) (dist_members st []).
Proof. eexists. split; [vm_compute; reflexivity|]. apply not_mem_In. vm_compute. reflexivity. Qed.
