(* C19 - Scripts are isolated and relative: submodules, options, user arguments.
   Only statements; proofs live in theories/Misc. *)
From BFG Require Import Base.Chars Misc.Scope Misc.UserArgs.

Theorem C19_stub : True.
Proof. exact I. Qed.
Print Assumptions C19_stub.
