(* C19 - Scripts are isolated and relative: submodules, options, user arguments.
   Only statements; the models are theories/Misc/Scope.v and UserArgs.v, the proofs ScopeProofs.v and
   UserArgsProofs.v.

   Reading guide.  A trace is the list of events of the root script; an event ESub d path body o contains
   the whole trace body of the callee and what it gave back.  acts 1 [] [fname] evs o lists EVERY activation
   of a script in the trace (the root and, recursively, every callee, once per inclusion) as
   (depth, chain of submodule arguments that led to it, script path, its own events, its outcome). *)
From BFG Require Import Base.Chars Misc.Scope Misc.ScopeProofs Misc.UserArgs Misc.UserArgsProofs.
From Coq Require Import String.

(* The events of an activation are produced by the statements of ITS script, in order (a prefix when the
   script crashed): so an EAssign in an activation is an assignment of that very script, in that very execution. *)
Theorem C19_trace_follows_script : forall bi fname tree,
  fname_ok fname -> forall fuel evs o, exec_root bi fname tree fuel = Some (evs, o) ->
  forall dep ch p a ao, In (dep, ch, p, a, ao) (acts 1 [] [fname] evs o) ->
  exists ss, assoc_l p tree = Some ss /\ map ev_stmt a = firstn (List.length a) ss /\
             (forall ex, ao = ODone ex -> List.length a = List.length ss).
Proof. exact trace_follows_script. Qed.
Print Assumptions C19_trace_follows_script.

(* No leak, in either direction, at any depth, for any names (builtin names included): what a Read of x
   sees in an activation is determined by the EAssign events of the SAME activation before it - the value of
   the last one, and if there is none, the builtin / a NameError - whatever any other script (parent, child,
   sibling, an earlier inclusion of the same script) assigned. *)
Theorem C19_no_leak : forall bi fname tree,
  fname_ok fname -> forall fuel evs o, exec_root bi fname tree fuel = Some (evs, o) ->
  forall dep ch p a ao, In (dep, ch, p, a, ao) (acts 1 [] [fname] evs o) ->
  forall pre x r post, a = pre ++ ERead x r :: post ->
    (forall v, r = LVal v -> exists pre1 pre2, pre = pre1 ++ EAssign x v :: pre2 /\ no_assign x pre2) /\
    (no_assign x pre -> r = if bi x then LBuiltin else LNameErr).
Proof. exact no_leak. Qed.
Print Assumptions C19_no_leak.

(* Exports: a script that completes gives back exactly the exports made by its own top-level export calls
   (dict-update order); that is the value the caller's submodule() returns; the root script cannot export. *)
Theorem C19_exports_exact : forall bi fname tree,
  fname_ok fname -> forall fuel evs o, exec_root bi fname tree fuel = Some (evs, o) ->
  forall dep ch p a ao, In (dep, ch, p, a, ao) (acts 1 [] [fname] evs o) ->
  (forall ex, ao = ODone ex -> ex = exports_of [] a /\ (dep = 1%nat -> ex = [])) /\
  (forall d sp body ex, In (ESub d sp body (ODone ex)) a -> ex = exports_of [] body) /\
  (forall x v, In (EExport x v) a -> dep <> 1%nat).
Proof. exact exports_exact. Qed.
Print Assumptions C19_exports_exact.

(* Inputs: in a script reached through submodule(d1) ... submodule(dn), an input path q (not absolute, no
   drive) denotes srcdir / d1 / ... / dn / q normalised ONCE as a whole, and is rejected exactly when that
   escapes (see C19_rejected_iff_leaves); as_kind is what the particular builtin does with the path. *)
Theorem C19_input_relative : forall bi fname tree,
  fname_ok fname -> forall fuel evs o, exec_root bi fname tree fuel = Some (evs, o) ->
  forall dep ch p a ao, In (dep, ch, p, a, ao) (acts 1 [] [fname] evs o) ->
  forall k f q r, In (EInput k f q r) a -> classify q = CRel -> r = as_kind k (resolved Src ch q).
Proof. exact input_relative. Qed.
Print Assumptions C19_input_relative.

(* Outputs named by a target name (relname): the same components under builddir.  The suffix string is parsed
   a second time by the implementation, hence the side condition that it does not start like a drive. *)
Theorem C19_output_relative : forall bi fname tree,
  fname_ok fname -> forall fuel evs o, exec_root bi fname tree fuel = Some (evs, o) ->
  forall dep ch p a ao, In (dep, ch, p, a, ao) (acts 1 [] [fname] evs o) ->
  forall k f q r, In (EOutput k f q r) a -> classify q = CRel ->
    classify (join_slash (dirc (ch ++ [q]))) = CRel -> r = as_kind k (resolved_name ch q).
Proof. exact output_relative. Qed.
Print Assumptions C19_output_relative.

(* Outputs given as a directory= argument (buildpath) *)
Theorem C19_outdir_relative : forall bi fname tree,
  fname_ok fname -> forall fuel evs o, exec_root bi fname tree fuel = Some (evs, o) ->
  forall dep ch p a ao, In (dep, ch, p, a, ao) (acts 1 [] [fname] evs o) ->
  forall f q s r, In (EOutDir f q s r) a -> classify q = CRel -> r = resolved Bld ch q.
Proof. exact outdir_relative. Qed.
Print Assumptions C19_outdir_relative.

(* rejected iff it leaves the root: the normalised path starts with a dotdot exactly when, walking the
   components from the root, some dotdot is met at depth 0 *)
Theorem C19_rejected_iff_leaves : forall cs, escapes (normc cs) = leaves 0 cs.
Proof. exact escapes_iff_leaves. Qed.
Print Assumptions C19_rejected_iff_leaves.

(* the path stack is compositional: resolving against an already resolved (non-escaping) directory equals
   resolving the concatenated path at once - so ../ out of a submodule is fine while inside the root *)
Theorem C19_rerooting_compositional : forall a b, escapes (normc a) = false -> normc (normc a ++ b) = normc (a ++ b).
Proof. exact normc_compose. Qed.
Print Assumptions C19_rerooting_compositional.

(* Project-defined arguments.  The model carries the variant of add_user_argument as a boolean: declare_all is
   the function as first written (fixed = false), declare_all_fixed the repaired one, which rejects an option
   string without a name (the bare double dash) with ValueError.  The check probes the tree under test and ties
   the matching variant.

   As first written: after any sequence of accepted declarations, respelling any subset of the
   tokens that name a plain registered option (alone or with =value) as --x-... gives the same parse result
   (namespace, error, or outside the modelled fragment) - provided no argument has the empty name. *)
Theorem C19_x_alias : forall decls p mask argv,
  declare_all UParse decls empty_parser = inl p -> registered p dd = false ->
  parse p (respell p mask argv) = parse p argv.
Proof. exact x_alias. Qed.
Print Assumptions C19_x_alias.

(* Without that guard the statement is false: argument('foo', '') registers the bare double dash, which on
   the command line is argparse's separator, while its twin --x- is an ordinary option. *)
Theorem C19_x_alias_refuted : exists decls p mask argv,
  declare_all UParse decls empty_parser = inl p /\ parse p (respell p mask argv) <> parse p argv.
Proof.
  exists [([STR "--foo"; STR "--"], AStore)].
  eexists. exists [true; false], [STR "--"; STR "v"]. split; [vm_compute; reflexivity|].
  vm_compute. discriminate.
Qed.
Print Assumptions C19_x_alias_refuted.

(* Repaired: the guard is an invariant of accepted declarations (plain names exclude the bare double dash,
   toggle actions register --enable-... / --disable-... / --with-... / --without-... strings, the x- twins start
   with --x-), so the statement holds for every accepted sequence of declarations and every command line. *)
Theorem C19_x_alias_repaired : forall decls p mask argv,
  declare_all_fixed UParse decls empty_parser = inl p ->
  parse p (respell p mask argv) = parse p argv.
Proof. exact x_alias_repaired. Qed.
Print Assumptions C19_x_alias_repaired.

Theorem C19_repaired_never_registers_separator : forall decls p,
  declare_all_fixed UParse decls empty_parser = inl p -> registered p dd = false.
Proof. exact fixed_nodd. Qed.
Print Assumptions C19_repaired_never_registers_separator.

(* The repair rejects a declaration naming the bare double dash (all names starting with two dashes, as the
   argument builtin makes them) with ValueError, and changes nothing else: declarations that do not name it are
   accepted or rejected alike, with the same parser or the same error at the same position, by both variants. *)
Theorem C19_repaired_rejects_nameless : forall u names k p,
  forallb (starts_with dd) names = true -> existsb (str_eqb dd) names = true ->
  declare true u (names, k) p = inr EValue.
Proof. exact declare_fixed_rejects. Qed.
Print Assumptions C19_repaired_rejects_nameless.

Theorem C19_repair_changes_nothing_else : forall u decls p,
  forallb (fun d => negb (existsb (str_eqb dd) (fst d))) decls = true ->
  declare_all_fixed u decls p = declare_all u decls p.
Proof. intros u decls p. exact (declare_from_fixed_same u decls 0%nat p). Qed.
Print Assumptions C19_repair_changes_nothing_else.

(* argument(n, action='enable' / 'with') registers exactly these four strings, the first two meaning True *)
Theorem C19_toggle_strings : forall k n, k = AEnable \/ k = AWith -> starts_with (STR "x-") n = false ->
  user_names false UParse [dd ++ n] = Some [dd ++ n; ddx ++ n] /\
  action_strings k [dd ++ n; ddx ++ n] =
    Some ([dd ++ true_prefix k ++ n; ddx ++ true_prefix k ++ n; dd ++ false_prefix k ++ n; ddx ++ false_prefix k ++ n],
          [dd ++ true_prefix k ++ n; ddx ++ true_prefix k ++ n]).
Proof. exact toggle_strings. Qed.
Print Assumptions C19_toggle_strings.

Theorem C19_toggle_strings_repaired : forall k n, k = AEnable \/ k = AWith -> starts_with (STR "x-") n = false -> n <> [] ->
  user_names true UParse [dd ++ n] = Some [dd ++ n; ddx ++ n] /\
  action_strings k [dd ++ n; ddx ++ n] =
    Some ([dd ++ true_prefix k ++ n; ddx ++ true_prefix k ++ n; dd ++ false_prefix k ++ n; ddx ++ false_prefix k ++ n],
          [dd ++ true_prefix k ++ n; ddx ++ true_prefix k ++ n]).
Proof. exact toggle_strings_repaired. Qed.
Print Assumptions C19_toggle_strings_repaired.

(* ---- non-vacuity ---- *)
Example fname_build : fname_ok (STR "build.bfg").
Proof. split; reflexivity. Qed.
Example fname_options : fname_ok (STR "options.bfg").
Proof. split; reflexivity. Qed.

Definition ex_bi (n : name) : bool :=
  existsb (str_eqb n) [STR "submodule"; STR "export"; STR "relpath"; STR "_out"; STR "print"].
Definition ex_tree : list (list str * list stmt) := [
  ([STR "build.bfg"],
   [Assign (STR "x") (STR "v1"); Submodule (STR "a"); Read (STR "x"); Submodule (STR "a/../a/"); Read (STR "y")]);
  ([STR "a"; STR "build.bfg"],
   [Read (STR "x"); Assign (STR "x") (STR "v2"); Read (STR "x"); Export (STR "y") (STR "v3");
    Input KPath (STR "relpath") (STR "../f.c"); Input KPath (STR "relpath") (STR "../../f.c");
    Output KPath (STR "_out") (STR "o"); Read (STR "print")])].
Definition ex_body : list event :=
  [ERead (STR "x") LNameErr; EAssign (STR "x") (STR "v2"); ERead (STR "x") (LVal (STR "v2"));
   EExport (STR "y") (STR "v3");
   EInput KPath (STR "relpath") (STR "../f.c") (POk Src [STR "f.c"] false);
   EInput KPath (STR "relpath") (STR "../../f.c") PErr;
   EOutput KPath (STR "_out") (STR "o") (POk Bld [STR "a"; STR "o"] false);
   ERead (STR "print") LBuiltin].
Example ex_run : exec_root ex_bi (STR "build.bfg") ex_tree 2 =
  Some ([EAssign (STR "x") (STR "v1");
         ESub (STR "a") [STR "a"; STR "build.bfg"] ex_body (ODone [(STR "y", STR "v3")]);
         ERead (STR "x") (LVal (STR "v1"));
         ESub (STR "a/../a/") [STR "a"; STR "build.bfg"] ex_body (ODone [(STR "y", STR "v3")]);
         ERead (STR "y") LNameErr], ODone []).
Proof. vm_compute. reflexivity. Qed.

(* a shadowed builtin crashes the script, the caller carries on with its path stack intact *)
Example ex_crash :
  exec_root ex_bi (STR "build.bfg")
    [([STR "build.bfg"], [Submodule (STR "a"); Input KPath (STR "relpath") (STR "f.c"); Export (STR "z") (STR "v")]);
     ([STR "a"; STR "build.bfg"], [Assign (STR "export") (STR "v"); Export (STR "y") (STR "w"); Read (STR "y")])] 2 =
  Some ([ESub (STR "a") [STR "a"; STR "build.bfg"] [EAssign (STR "export") (STR "v")] (OCrash XType);
         EInput KPath (STR "relpath") (STR "f.c") (POk Src [STR "f.c"] false)], OCrash XValue).
Proof. vm_compute. reflexivity. Qed.

Example ex_args :
  match declare_all UParse [([STR "--name"], AStore); ([STR "--fast"], AEnable)] empty_parser with
  | inl p =>
      parse p [STR "--name=Bob"; STR "--disable-fast"] =
        RNs [(STR "name", VStr (STR "Bob")); (STR "fast", VBool false)] /\
      parse p [STR "--x-name"; STR "Bob"; STR "--x-enable-fast"] =
        RNs [(STR "name", VStr (STR "Bob")); (STR "fast", VBool true)] /\
      respell p [true; true] [STR "--name=Bob"; STR "--disable-fast"] = [STR "--x-name=Bob"; STR "--x-disable-fast"] /\
      registered p dd = false /\
      parse p [STR "--nam=Bob"] = RError
  | inr _ => False
  end.
Proof. vm_compute. repeat split; reflexivity. Qed.

(* the repaired variant: the same declarations are accepted with the same parser and both spellings agree; the
   declarations of C19_x_alias_refuted are rejected (first failing declaration 0, ValueError), also when the
   nameless string is given to a toggle action or comes second; an empty name under a toggle prefix stays legal *)
Example ex_args_repaired :
  declare_all_fixed UParse [([STR "--name"], AStore); ([STR "--fast"], AEnable)] empty_parser =
    declare_all UParse [([STR "--name"], AStore); ([STR "--fast"], AEnable)] empty_parser /\
  match declare_all_fixed UParse [([STR "--name"], AStore); ([STR "--fast"], AEnable)] empty_parser with
  | inl p =>
      parse p [STR "--name=Bob"; STR "--disable-fast"] =
        RNs [(STR "name", VStr (STR "Bob")); (STR "fast", VBool false)] /\
      parse p (respell p [true; true] [STR "--name=Bob"; STR "--disable-fast"]) =
        RNs [(STR "name", VStr (STR "Bob")); (STR "fast", VBool false)] /\
      respell p [true; true] [STR "--name=Bob"; STR "--disable-fast"] = [STR "--x-name=Bob"; STR "--x-disable-fast"]
  | inr _ => False
  end /\
  declare_all_fixed UParse [([STR "--foo"; STR "--"], AStore)] empty_parser = inr (0%nat, EValue) /\
  declare_all_fixed UParse [([STR "--bar"], AStoreTrue); ([STR "--"], AWith)] empty_parser = inr (1%nat, EValue) /\
  declare_all_fixed UHelp [([STR "--"], AStore)] empty_parser = inr (0%nat, EValue) /\
  (exists p, declare_all UParse [([STR "--foo"; STR "--"], AStore)] empty_parser = inl p /\ registered p dd = true).
Proof. vm_compute. repeat split; try reflexivity. eexists. split; reflexivity. Qed.
