(* C20 - Windows command lines and MSBuild solutions are well-formed and stable.
   Only statements; proofs live in theories/. *)
From BFG Require Import Base.Chars Shell.WinQuote Shell.Msvcrt Shell.WinQuoteProofs.
Local Open Scope N_scope.

(* What windows.join writes is read back by the Microsoft C runtime argument rules as exactly the
   arguments: for every classification [us] of non-ASCII whitespace, every variant [dd] of the
   double-double-quote rule, every argument list in the domain.  [win_ok] only excludes arguments
   that end in backslash + newline (the regex end anchor also matches before a final newline);
   cmd.exe metacharacters are allowed here. *)
Theorem C20_msvcrt_rt : forall us dd args,
  Forall (fun s => win_ok s = true) args -> msvcrt_parse dd (join us args) = args.
Proof. exact msvcrt_join. Qed.
Print Assumptions C20_msvcrt_rt.

(* the domain of the property statement (no NUL / CR / LF) lies inside the guard *)
Theorem C20_msvcrt_rt_no_newline : forall us dd args,
  Forall (fun s => ~ In c_nl s) args -> msvcrt_parse dd (join us args) = args.
Proof. exact msvcrt_join_no_newline. Qed.
Print Assumptions C20_msvcrt_rt_no_newline.

(* the guard is tight: outside it the written text does not denote the argument *)
Example C20_guard_tight :
  win_ok [97; c_bs; c_nl] = false /\
  msvcrt_parse DDpost2008 (join (fun _ => false) [[97; c_bs; c_nl]]) = [[97; c_bs; c_bs; c_nl]].
Proof. split; reflexivity. Qed.

(* splitting a joined line is the inverse of joining (same domain) *)
Theorem C20_split_join : forall us args,
  Forall (fun s => win_ok s = true) args -> split (join us args) = args.
Proof. exact split_join. Qed.
Print Assumptions C20_split_join.

Theorem C20_split_join_no_newline : forall us args,
  Forall (fun s => ~ In c_nl s) args -> split (join us args) = args.
Proof. exact split_join_no_newline. Qed.
Print Assumptions C20_split_join_no_newline.

(* observation for the maintainers (not required by the property): on arbitrary text split drops an
   unterminated final backslash run, so it is not a total inverse of other writers
   (list2cmdline writes the argument a-backslash as a-backslash) *)
Example C20_split_not_total_inverse :
  split [97; c_bs] = [[97]] /\ msvcrt_parse DDpost2008 [97; c_bs] = [[97; c_bs]].
Proof. split; reflexivity. Qed.

(* quoting a jbos of alternating str / shell_literal bits denotes the concatenation, in any context *)
Theorem C20_jbos_concat : forall us dd ep bits,
  bits <> [] -> jbos_ok false bits = true ->
  exists t e, quote_info us ep (SJbos bits) = Some (t, e) /\
    (forall cur rest, starts_dq rest = false ->
       mparse dd false 0 cur (t ++ rest) = mparse dd false 0 (Some (getcur cur ++ jbos_denotes bits)) rest) /\
    msvcrt_parse dd t = [jbos_denotes bits].
Proof. exact msvcrt_jbos. Qed.
Print Assumptions C20_jbos_concat.

(* non-vacuity: an argument list with blanks, quotes, backslash runs before quotes and at the end,
   cmd metacharacters and an empty argument is in the domain and round-trips by computation *)
Definition ex_args : list str :=
  [[97; 32; 98]; []; [c_bs]; [97; c_bs; c_bs]; [c_bs; c_bs; c_dq; 97]; [97; c_dq; c_dq]; [38; 60; 124];
   [67; 58; c_bs; 80; 32; 70; c_bs]; [97; c_bs; 98]; [c_dq]; [9]].
Example C20_msvcrt_rt_nonvacuous :
  forallb win_ok ex_args = true /\
  msvcrt_parse DDpost2008 (join (fun _ => false) ex_args) = ex_args /\
  msvcrt_parse DDpre2008 (join (fun _ => false) ex_args) = ex_args /\
  msvcrt_parse DDnone (join (fun _ => false) ex_args) = ex_args.
Proof. repeat split; vm_compute; reflexivity. Qed.

Example C20_jbos_nonvacuous :
  let bits := [BLit [45; 73]; BStr [97; 32; 98; c_bs]; BLit [47; 120]; BStr [99; c_dq]] in
  jbos_ok false bits = true /\
  quote_info (fun _ => false) false (SJbos bits) =
    Some ([45; 73; c_dq; 97; 32; 98; c_bs; c_bs; c_dq; 47; 120; c_dq; 99; c_bs; c_dq; c_dq], true) /\
  jbos_denotes bits = [45; 73; 97; 32; 98; c_bs; 47; 120; 99; c_dq].
Proof. repeat split; vm_compute; reflexivity. Qed.

(* the three variants of the R model really differ (on text bfg9000 never writes) *)
Example C20_variants_differ :
  let t := [c_dq; 97; c_dq; c_dq; 98; 32; 99; c_dq] in
  msvcrt_parse DDnone t = [[97; 98; 32; 99]] /\
  msvcrt_parse DDpost2008 t = [[97; c_dq; 98; 32; 99]] /\
  msvcrt_parse DDpre2008 t = [[97; c_dq; 98]; [99]].
Proof. repeat split; vm_compute; reflexivity. Qed.
