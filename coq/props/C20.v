(* C20 - Windows command lines and MSBuild solutions are well-formed and stable.
   Only statements; proofs live in theories/. *)
From Coq Require Import Permutation.
From BFG Require Import Base.Chars Shell.WinQuote Shell.Msvcrt Shell.WinQuoteProofs Shell.WinSplit Shell.WinSplitProofs Shell.WinSplitExact
  State.Uuid State.UuidProofs.
Local Open Scope N_scope.

(* What windows.join writes is read back by the Microsoft C runtime argument rules as exactly the
   arguments: for every classification [us] of non-ASCII whitespace, every variant [dd] of the
   double-double-quote rule, every argument list in the domain.  [win_ok] only excludes arguments
   that end in backslash + newline (the regex end anchor also matches before a final newline);
   cmd.exe metacharacters are allowed here. *)
Theorem C20_msvcrt_rt : forall us dd args,
  Forall (fun s => win_ok s = true) args -> msvcrt_parse dd (join us args) = args.
Proof. exact msvcrt_join. Qed.
Print Assumptions C20_msvcrt_rt.

(* the domain of the property statement (no NUL / CR / LF) lies inside the guard *)
Theorem C20_msvcrt_rt_no_newline : forall us dd args,
  Forall (fun s => ~ In c_nl s) args -> msvcrt_parse dd (join us args) = args.
Proof. exact msvcrt_join_no_newline. Qed.
Print Assumptions C20_msvcrt_rt_no_newline.

(* the guard is tight: outside it the written text does not denote the argument *)
Example C20_guard_tight :
  win_ok [97; c_bs; c_nl] = false /\
  msvcrt_parse DDpost2008 (join (fun _ => false) [[97; c_bs; c_nl]]) = [[97; c_bs; c_bs; c_nl]].
Proof. split; reflexivity. Qed.

(* splitting a joined line is the inverse of joining (same domain) *)
Theorem C20_split_join : forall us args,
  Forall (fun s => win_ok s = true) args -> split (join us args) = args.
Proof. exact split_join. Qed.
Print Assumptions C20_split_join.

Theorem C20_split_join_no_newline : forall us args,
  Forall (fun s => ~ In c_nl s) args -> split (join us args) = args.
Proof. exact split_join_no_newline. Qed.
Print Assumptions C20_split_join_no_newline.

(* observation for the maintainers (not required by the property): on arbitrary text split drops an
   unterminated final backslash run, so it is not a total inverse of other writers
   (list2cmdline writes the argument a-backslash as a-backslash) *)
Example C20_split_not_total_inverse :
  split [97; c_bs] = [[97]] /\ msvcrt_parse DDpost2008 [97; c_bs] = [[97; c_bs]].
Proof. split; reflexivity. Qed.

(* quoting a jbos of alternating str / shell_literal bits denotes the concatenation, in any context *)
Theorem C20_jbos_concat : forall us dd ep bits,
  bits <> [] -> jbos_ok false bits = true ->
  exists t e, quote_info us ep (SJbos bits) = Some (t, e) /\
    (forall cur rest, starts_dq rest = false ->
       mparse dd false 0 cur (t ++ rest) = mparse dd false 0 (Some (getcur cur ++ jbos_denotes bits)) rest) /\
    msvcrt_parse dd t = [jbos_denotes bits].
Proof. exact msvcrt_jbos. Qed.
Print Assumptions C20_jbos_concat.

(* ======================= windows.split on ARBITRARY lines =======================
   windows.split is also applied to text bfg9000 did not write (flag variables such as CFLAGS, command strings
   of build scripts, pkg-config output).  On every line in [split_dom] it returns exactly what the Microsoft C
   runtime rules return, in all three variants of the doubled-quote rule.
     split_dom line = no_tail_bs line && no_dd_pair line
     no_tail_bs : the line does not end in a backslash;
     no_dd_pair : no double quote that follows an even backslash run inside a quoted region is directly followed
                  by another double quote (the doubled-quote rule of the C runtime never fires).
   The two excluded classes are exactly the lines on which windows.split deviates from the C runtime: the guard
   is exact (C20_split_dom_exact below; and on the real code, exhaustive comparison with the C runtime loop on
   all lines up to length 6 / 8 over a, space, tab, double quote, backslash on every run: harness/c20.py stage
   R/W:split-vs-crt, where outside the guard the readers differ on every line).  Neither class contains a line windows.join writes
   (C20_join_in_split_dom, C20_split_join_pieces), so they are boundaries of the domain of split and not
   violations of the property. *)
Theorem C20_split_is_crt : forall dd line, split_dom line = true -> split line = msvcrt_parse dd line.
Proof. exact split_is_crt. Qed.
Print Assumptions C20_split_is_crt.

(* per variant: for the C runtime without the doubled-quote rule the only condition is the final backslash run *)
Theorem C20_split_is_crt_nodd : forall line, no_tail_bs line = true -> split line = msvcrt_parse DDnone line.
Proof. exact split_is_crt_nodd. Qed.
Print Assumptions C20_split_is_crt_nodd.

(* the variants of the C runtime agree wherever the doubled-quote rule never fires *)
Theorem C20_crt_variants_agree : forall dd line, no_dd_pair line = true -> msvcrt_parse dd line = msvcrt_parse DDnone line.
Proof. exact crt_variants_agree. Qed.
Print Assumptions C20_crt_variants_agree.

(* without any guard: windows.split reads EVERY line as the C runtime (no doubled-quote rule) reads the line
   without its final backslash run; this is the whole deviation of class 1 *)
Theorem C20_split_is_crt_stripped : forall line, split line = msvcrt_parse DDnone (strip_tbs line).
Proof. exact split_stripped. Qed.
Print Assumptions C20_split_is_crt_stripped.

(* the guard is exact: split_dom is precisely the set of lines that windows.split reads as all three variants of
   the C runtime do.  Per class: a line that ends in a backslash is read differently by EVERY variant (the
   arguments the C runtime returns contain more backslashes), and a line on which the doubled-quote rule fires is
   read differently by both variants that have the rule (their arguments contain more double quotes) *)
Theorem C20_split_dom_exact : forall line,
  split_dom line = true <-> forall dd, split line = msvcrt_parse dd line.
Proof. exact split_dom_iff. Qed.
Print Assumptions C20_split_dom_exact.

Theorem C20_split_tail_bs_differs : forall dd line,
  no_tail_bs line = false -> split line <> msvcrt_parse dd line.
Proof. exact split_tail_bs_differs. Qed.
Print Assumptions C20_split_tail_bs_differs.

Theorem C20_split_dd_differs : forall dd line, dd <> DDnone ->
  no_tail_bs line = true -> no_dd_pair line = false -> split line <> msvcrt_parse dd line.
Proof. exact split_dd_differs. Qed.
Print Assumptions C20_split_dd_differs.

(* deviation class 1 (final backslash run), witness C:\dir\ : split gives C:\dir, every variant of the
   C runtime C:\dir\ *)
Theorem C20_split_is_crt_tail_bs_refuted : exists line,
  no_tail_bs line = false /\ no_dd_pair line = true /\ forall dd, split line <> msvcrt_parse dd line.
Proof.
  exists [67; 58; c_bs; 100; c_bs]. repeat split; try reflexivity. intros dd; destruct dd; vm_compute; discriminate.
Qed.
Print Assumptions C20_split_is_crt_tail_bs_refuted.

(* deviation class 2 (doubled quote inside a quoted region), witness dq a dq dq b dq : split gives ab like the
   variant without the rule, both variants with the rule give a dq b *)
Theorem C20_split_is_crt_dd_refuted : exists line,
  no_tail_bs line = true /\ no_dd_pair line = false /\ split line = msvcrt_parse DDnone line /\
  split line <> msvcrt_parse DDpost2008 line /\ split line <> msvcrt_parse DDpre2008 line.
Proof.
  exists [c_dq; 97; c_dq; c_dq; 98; c_dq]. repeat split; try reflexivity; vm_compute; discriminate.
Qed.
Print Assumptions C20_split_is_crt_dd_refuted.

(* the lines windows.join writes lie in the domain *)
Theorem C20_join_in_split_dom : forall us args,
  Forall (fun s => win_ok s = true) args -> split_dom (join us args) = true.
Proof. exact join_in_split_dom. Qed.
Print Assumptions C20_join_in_split_dom.

(* arguments made of several pieces (a jbos of strings, quoted piece by piece, and shell literals written as
   they are: the quoted regions sit in the MIDDLE of an argument): the line windows.join writes lies in the
   domain, and windows.split - as every variant of the C runtime - returns the concatenations of the pieces.
   Extends C20_jbos_concat from the C runtime reader to the splitter of bfg9000 and to whole lines. *)
Theorem C20_split_join_pieces : forall us args, Forall pieces_ok args ->
  exists line, join_sargs us (map SJbos args) = Some line /\ split_dom line = true /\
    split line = map jbos_denotes args /\ forall dd, msvcrt_parse dd line = map jbos_denotes args.
Proof. exact split_join_pieces. Qed.
Print Assumptions C20_split_join_pieces.

(* non-vacuity of the guard: lines nobody at bfg9000 wrote - a quoted region in the middle of a path, a
   backslash run before a quote, an unterminated quote, an empty argument, tabs - are in the domain, and the
   readers agree by computation *)
Example C20_split_is_crt_nonvacuous :
  let l1 := [c_dq; 67; 58; c_bs; 80; 32; 70; c_dq; c_bs; 76; c_bs; 99; 108; 32; 47; 68; 88; 61; c_bs; c_dq; 97; c_bs; c_dq] in
  let l2 := [97; c_bs; c_bs; c_dq; 98; 32; 99; c_dq; 9; c_dq; c_dq; 32; c_dq; 100; 32] in
  split_dom l1 = true /\ split l1 = [[67; 58; c_bs; 80; 32; 70; c_bs; 76; c_bs; 99; 108]; [47; 68; 88; 61; c_dq; 97; c_dq]] /\
  msvcrt_parse DDpost2008 l1 = split l1 /\
  split_dom l2 = true /\ split l2 = [[97; c_bs; 98; 32; 99]; []; [100; 32]] /\ msvcrt_parse DDpre2008 l2 = split l2.
Proof. repeat split; vm_compute; reflexivity. Qed.

Example C20_split_join_pieces_nonvacuous :
  let args := [[BLit [45; 73]; BStr [67; 58; c_bs; 109; 32; 100; c_bs]; BLit [120]]; [BStr [97; c_dq; 32]; BLit [61; 49]]] in
  (pieces_ok (nth 0 args []) /\ pieces_ok (nth 1 args [])) /\
  join_sargs (fun _ => false) (map SJbos args) =
    Some [45; 73; c_dq; 67; 58; c_bs; 109; 32; 100; c_bs; c_bs; c_dq; 120; 32; c_dq; 97; c_bs; c_dq; 32; c_dq; 61; 49] /\
  map jbos_denotes args = [[45; 73; 67; 58; c_bs; 109; 32; 100; c_bs; 120]; [97; c_dq; 32; 61; 49]].
Proof. repeat split; try (vm_compute; reflexivity); discriminate. Qed.

(* non-vacuity: an argument list with blanks, quotes, backslash runs before quotes and at the end,
   cmd metacharacters and an empty argument is in the domain and round-trips by computation *)
Definition ex_args : list str :=
  [[97; 32; 98]; []; [c_bs]; [97; c_bs; c_bs]; [c_bs; c_bs; c_dq; 97]; [97; c_dq; c_dq]; [38; 60; 124];
   [67; 58; c_bs; 80; 32; 70; c_bs]; [97; c_bs; 98]; [c_dq]; [9]].
Example C20_msvcrt_rt_nonvacuous :
  forallb win_ok ex_args = true /\
  msvcrt_parse DDpost2008 (join (fun _ => false) ex_args) = ex_args /\
  msvcrt_parse DDpre2008 (join (fun _ => false) ex_args) = ex_args /\
  msvcrt_parse DDnone (join (fun _ => false) ex_args) = ex_args.
Proof. repeat split; vm_compute; reflexivity. Qed.

Example C20_jbos_nonvacuous :
  let bits := [BLit [45; 73]; BStr [97; 32; 98; c_bs]; BLit [47; 120]; BStr [99; c_dq]] in
  jbos_ok false bits = true /\
  quote_info (fun _ => false) false (SJbos bits) =
    Some ([45; 73; c_dq; 97; 32; 98; c_bs; c_bs; c_dq; 47; 120; c_dq; 99; c_bs; c_dq; c_dq], true) /\
  jbos_denotes bits = [45; 73; 97; 32; 98; c_bs; 47; 120; 99; c_dq].
Proof. repeat split; vm_compute; reflexivity. Qed.

(* the three variants of the R model really differ (on text bfg9000 never writes) *)
Example C20_variants_differ :
  let t := [c_dq; 97; c_dq; c_dq; 98; 32; 99; c_dq] in
  msvcrt_parse DDnone t = [[97; 98; 32; 99]] /\
  msvcrt_parse DDpost2008 t = [[97; c_dq; 98; 32; 99]] /\
  msvcrt_parse DDpre2008 t = [[97; c_dq; 98]; [99]].
Proof. repeat split; vm_compute; reflexivity. Qed.

(* ======================= MSBuild solutions: GUID map over histories of runs =======================
   [fresh] is the uuid4 oracle (an explicit argument), assumed never to repeat; [FInv fresh f n] says the
   stored ids of .bfg_uuid are pairwise distinct and are not drawn again (true of an absent file). *)

Theorem C20_fresh_builddir_ok : forall fresh n, FInv fresh None n.
Proof. exact FInv_none. Qed.
Print Assumptions C20_fresh_builddir_ok.

(* stability: once a successful run gave a project its GUID, every later successful run gives a project of
   that name the same GUID while the name is a project of every successful run in between; failed runs
   (RuntimeError, ValueError) in between do not matter *)
Theorem C20_guid_stable : forall (fresh : nat -> uuid), (forall i j, fresh i = fresh j -> i = j) ->
  forall f n pre r mid f1 n1 f2 n2 su ps,
  FInv fresh f n -> state_after fresh f n pre = (f1, n1) -> run fresh f1 n1 r = ((f2, n2), RunOk (su, ps)) ->
  forall p, In p ps ->
  (forall su' ps', In (RunOk (su', ps')) (hist fresh f2 n2 mid) -> In (p_name p) (map p_name ps')) ->
  forall su' ps' p', In (RunOk (su', ps')) (hist fresh f2 n2 mid) -> In p' ps' -> p_name p' = p_name p ->
  p_uuid p' = p_uuid p.
Proof. exact guid_stable. Qed.
Print Assumptions C20_guid_stable.

(* uniqueness inside one solution: projects with distinct non-empty names get distinct GUIDs, all different
   from the GUID of the solution itself *)
Theorem C20_guid_unique : forall (fresh : nat -> uuid), (forall i j, fresh i = fresh j -> i = j) ->
  forall f n r f' n' su ps, FInv fresh f n -> run fresh f n r = ((f', n'), RunOk (su, ps)) ->
  NoDup (map p_name ps) -> ~ In [] (map p_name ps) -> NoDup (su :: map p_uuid ps).
Proof. exact guid_unique. Qed.
Print Assumptions C20_guid_unique.

(* dependency closure: every GUID in a ProjectDependencies section belongs to a project of the same
   solution, provided no two steps share their first public output *)
Theorem C20_deps_closed : forall (fresh : nat -> uuid) f n r f' n' su ps,
  run fresh f n r = ((f', n'), RunOk (su, ps)) -> NoDup (map sp_key (r_specs r)) ->
  forall p d, In p ps -> In d (p_deps p) -> exists q, In q ps /\ p_uuid q = d.
Proof. exact deps_closed. Qed.
Print Assumptions C20_deps_closed.

(* a removed project is dropped from the file (so re-adding it later draws a new GUID) *)
Theorem C20_forget_removed : forall (fresh : nat -> uuid), (forall i j, fresh i = fresh j -> i = j) ->
  forall f n r f' n' su ps k, FInv fresh f n -> run fresh f n r = ((f', n'), RunOk (su, ps)) ->
  k <> [] -> ~ In k (map sp_name (r_specs r)) -> file_lookup k f' = None.
Proof. exact forget_removed. Qed.
Print Assumptions C20_forget_removed.

(* a run that raises saves nothing *)
Theorem C20_failed_run_keeps_file : forall (fresh : nat -> uuid) f n r f' n' o, run fresh f n r = ((f', n'), o) -> (forall s, o <> RunOk s) -> f' = f.
Proof. exact failed_run_keeps_file. Qed.
Print Assumptions C20_failed_run_keeps_file.

(* one Project entry per step and the default project first: a successful run whose steps have pairwise
   distinct keys lists exactly the steps' projects (a permutation: no step is dropped or doubled, however
   many explicit and implicit defaults the script declares), and when the chosen default - the first
   explicit one, else the last implicit one (builtins/default.py msbuild_default) - is a step of the
   solution, its project is the first entry *)
Theorem C20_defaults_wellformed : forall (fresh : nat -> uuid) f n r f' n' su ps,
  run fresh f n r = ((f', n'), RunOk (su, ps)) -> NoDup (map sp_key (r_specs r)) ->
  Permutation (map p_name ps) (map sp_name (r_specs r)) /\
  (forall k, default_choice (r_explicit r) (r_fallback r) = Some k -> In k (map sp_key (r_specs r)) ->
     exists sp p, In sp (r_specs r) /\ sp_key sp = k /\ hd_error ps = Some p /\ p_name p = sp_name sp).
Proof. exact default_wellformed. Qed.
Print Assumptions C20_defaults_wellformed.

(* the choice, by computation: several explicit defaults - the first; none - the last implicit one *)
Example C20_default_choice :
  default_choice [[2]; [1]; [3]] [[1]; [2]; [3]] = Some [2] /\ default_choice [] [[1]; [2]; [3]] = Some [3] /\
  default_choice [] [] = None.
Proof. repeat split. Qed.

(* non-vacuity: a history add a,b(dep a) / failing run (unknown dependency) / remove a / re-add a, by
   computation: b keeps its GUID throughout, a gets a new one after the re-add, the dependency GUID of b
   resolves, the failing run leaves the file alone *)
Definition ex_fresh : nat -> uuid := fun i => (1000 + N.of_nat i)%N.
Definition sA := {| sp_key := [1]; sp_name := [97]; sp_deps := [None] |}.
Definition sB := {| sp_key := [2]; sp_name := [98]; sp_deps := [Some [1]; None] |}.
Definition sB' := {| sp_key := [2]; sp_name := [98]; sp_deps := [] |}.
Definition sBad := {| sp_key := [3]; sp_name := [99]; sp_deps := [Some [9]] |}.
Definition ex_hist : list run_in :=
  [ {| r_specs := [sA; sB]; r_explicit := [[2]; [1]]; r_fallback := [[1]; [2]] |};
    {| r_specs := [sA; sBad]; r_explicit := []; r_fallback := [] |};
    {| r_specs := [sB']; r_explicit := []; r_fallback := [] |};
    {| r_specs := [sA; sB]; r_explicit := []; r_fallback := [] |} ].
Example C20_history_nonvacuous :
  hist ex_fresh None 0 ex_hist =
  [ RunOk (1000, [ {| p_name := [98]; p_uuid := 1002; p_deps := [1001] |}; {| p_name := [97]; p_uuid := 1001; p_deps := [] |} ]);
    RunRuntimeError;
    RunOk (1000, [ {| p_name := [98]; p_uuid := 1002; p_deps := [] |} ]);
    RunOk (1000, [ {| p_name := [97]; p_uuid := 1003; p_deps := [] |}; {| p_name := [98]; p_uuid := 1002; p_deps := [1003] |} ]) ] /\
  state_after ex_fresh None 0 ex_hist = (Some (1, [([], 1000); ([98], 1002); ([97], 1003)]), 4%nat).
Proof. split; vm_compute; reflexivity. Qed.

(* observations, modelled as written:
   - two projects with the same name share one GUID (the uniqueness theorem needs distinct names);
   - two steps with the same key: the later project replaces the earlier one in the solution and a
     dependency on the earlier one dangles (the closure theorem needs distinct keys);
   - set_default stores the default project under one literal key: a second call would overwrite the
     first default project (bfg9000 calls it at most once per run: run applies it to default_choice only,
     and the tie W:uuid_history drives the real msbuild_default hook with 0..3 explicit defaults). *)
Example C20_same_name_shares_guid :
  hist ex_fresh None 0 [ {| r_specs := [sA; {| sp_key := [2]; sp_name := [97]; sp_deps := [] |}]; r_explicit := []; r_fallback := [] |} ] =
  [ RunOk (1000, [ {| p_name := [97]; p_uuid := 1001; p_deps := [] |}; {| p_name := [97]; p_uuid := 1001; p_deps := [] |} ]) ].
Proof. vm_compute; reflexivity. Qed.

Example C20_same_key_dangling_dependency :
  hist ex_fresh None 0 [ {| r_specs := [sA; sB; {| sp_key := [1]; sp_name := [99]; sp_deps := [] |}]; r_explicit := []; r_fallback := [] |} ] =
  [ RunOk (1000, [ {| p_name := [99]; p_uuid := 1003; p_deps := [] |}; {| p_name := [98]; p_uuid := 1002; p_deps := [1001] |} ]) ].
Proof. vm_compute; reflexivity. Qed.

Example C20_set_default_twice_drops_a_project :
  let pa := {| p_name := [97]; p_uuid := 1; p_deps := [] |} in
  let pb := {| p_name := [98]; p_uuid := 2; p_deps := [] |} in
  map snd (set_default (set_default [(PK [1], pa); (PK [2], pb)] [1]) [2]) = [pa].
Proof. vm_compute; reflexivity. Qed.
