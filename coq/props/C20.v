(* C20 - placeholder while proofs are being written *)
From BFG Require Import Base.Chars Shell.WinQuote Shell.Msvcrt.
Theorem C20_tmp : True. Proof. exact I. Qed.
Print Assumptions C20_tmp.
