(* Characters are Unicode code points (N); strings are lists of them. *)
From Coq Require Export List NArith Bool Lia.
From Coq Require Import Ascii String.
Export ListNotations.

Definition char := N.
Definition str := list char.

Fixpoint str_of_string (x : String.string) : str :=
  match x with
  | EmptyString => []
  | String a r => N_of_ascii a :: str_of_string r
  end.
Notation "'STR' x" := (str_of_string x%string) (at level 9, only parsing).

Fixpoint str_eqb (a b : str) : bool :=
  match a, b with
  | [], [] => true
  | x :: a', y :: b' => N.eqb x y && str_eqb a' b'
  | _, _ => false
  end.

Lemma str_eqb_eq a b : str_eqb a b = true <-> a = b.
Proof.
  revert b; induction a as [|x a IH]; intros [|y b]; cbn; try (split; congruence).
  rewrite andb_true_iff, N.eqb_eq, IH. split; [intros [-> ->]; reflexivity|intros H; inversion H; auto].
Qed.

Lemma str_eqb_refl a : str_eqb a a = true.
Proof. now apply str_eqb_eq. Qed.

Definition str_eq_dec (a b : str) : {a = b} + {a <> b} := list_eq_dec N.eq_dec a b.

(* frequently used ASCII code points *)
Definition c_tab : char := 9%N.
Definition c_nl : char := 10%N.
Definition c_cr : char := 13%N.
Definition c_sp : char := 32%N.
Definition c_dq : char := 34%N.
Definition c_hash : char := 35%N.
Definition c_dollar : char := 36%N.
Definition c_pct : char := 37%N.
Definition c_amp : char := 38%N.
Definition c_sq : char := 39%N.
Definition c_lp : char := 40%N.
Definition c_rp : char := 41%N.
Definition c_star : char := 42%N.
Definition c_comma : char := 44%N.
Definition c_dash : char := 45%N.
Definition c_dot : char := 46%N.
Definition c_slash : char := 47%N.
Definition c_colon : char := 58%N.
Definition c_semi : char := 59%N.
Definition c_eq : char := 61%N.
Definition c_qm : char := 63%N.
Definition c_at : char := 64%N.
Definition c_lb : char := 91%N.
Definition c_bs : char := 92%N.
Definition c_rb : char := 93%N.
Definition c_us : char := 95%N.
Definition c_pipe : char := 124%N.
Definition c_tilde : char := 126%N.

Definition is_digit (c : char) : bool := (48 <=? c)%N && (c <=? 57)%N.
Definition is_upper (c : char) : bool := (65 <=? c)%N && (c <=? 90)%N.
Definition is_lower (c : char) : bool := (97 <=? c)%N && (c <=? 122)%N.
Definition is_ascii_word (c : char) : bool :=
  is_digit c || is_upper c || is_lower c || N.eqb c c_us.

Definition mem_char (c : char) (l : list char) : bool := existsb (N.eqb c) l.

Lemma mem_char_In c l : mem_char c l = true <-> In c l.
Proof.
  unfold mem_char. rewrite existsb_exists. split.
  - intros [x [Hx E]]. apply N.eqb_eq in E. now subst.
  - intros H. exists c. split; [assumption|apply N.eqb_refl].
Qed.
