(* Wire format shared by the extracted driver and the vm_compute cross-check:
   every model input and output is a nested list of naturals. *)
From BFG Require Import Base.Chars.

Inductive sx := A (n : N) | L (l : list sx).

Definition sx_str (s : str) : sx := L (map A s).
Definition sx_bool (b : bool) : sx := A (if b then 1 else 0)%N.
Definition sx_nat (n : nat) : sx := A (N.of_nat n).
Definition sx_opt {T} (f : T -> sx) (o : option T) : sx :=
  match o with None => L [] | Some x => L [f x] end.
Definition sx_list {T} (f : T -> sx) (l : list T) : sx := L (map f l).
Definition sx_pair {T U} (f : T -> sx) (g : U -> sx) (p : T * U) : sx := L [f (fst p); g (snd p)].

Definition un_N (x : sx) : N := match x with A n => n | L _ => 0%N end.
Definition un_nat (x : sx) : nat := N.to_nat (un_N x).
Definition un_bool (x : sx) : bool := negb (N.eqb (un_N x) 0).
Definition un_list (x : sx) : list sx := match x with A _ => [] | L l => l end.
Definition un_str (x : sx) : str := map un_N (un_list x).
Definition un_strs (x : sx) : list str := map un_str (un_list x).
Definition un_opt {T} (f : sx -> T) (x : sx) : option T :=
  match un_list x with [] => None | y :: _ => Some (f y) end.
Definition nth_sx (n : nat) (x : sx) : sx := nth n (un_list x) (L []).

Fixpoint sx_eqb (a b : sx) {struct a} : bool :=
  match a, b with
  | A n, A m => N.eqb n m
  | L l, L k =>
      (fix go (l k : list sx) {struct l} : bool :=
         match l, k with
         | [], [] => true
         | x :: l', y :: k' => sx_eqb x y && go l' k'
         | _, _ => false
         end) l k
  | _, _ => false
  end.
