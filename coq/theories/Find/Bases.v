(* Model of FileFilter.bases() and of _find_files including its choice of walk roots.
   The base of a PathGlob is rebuilt by the Path constructor (Path(sep.join(base), root, directory=True));
   the walk roots are path.uniquetrees of the include bases.  Both are taken from the path-algebra model
   (Path/PathAlg.v: mk, uniquetrees with its stable sort on [root.value] + split()), so the order of the
   roots and the dropping of nested bases are those of the code, not of this file.  Model only. *)
From BFG Require Import Base.Chars Find.Glob Find.Filter Find.Walk.
From BFG Require Path.PathAlg.
Local Open Scope N_scope.

(* Root(value) for the three members a glob can be rooted at *)
Definition alg_root (n : N) : option PathAlg.root :=
  match n with
  | 1 => Some PathAlg.Srcdir
  | 2 => Some PathAlg.Builddir
  | 3 => Some PathAlg.Absolute
  | _ => None
  end.

(* PathGlob.base; None = the constructor raises *)
Definition base_alg (g : pglob) : option PathAlg.path :=
  match alg_root (g_root g) with
  | Some r => PathAlg.mk (PathAlg.join_on c_slash (g_base g)) (PathAlg.RRoot r) None (Some true)
  | None => None
  end.

(* what the harness observes of a Path object: [root.value, split(), directory] *)
Definition of_alg (q : PathAlg.path) : path :=
  mkpath (PathAlg.root_value (PathAlg.p_root q)) (PathAlg.split q) (PathAlg.p_dir q).

(* FileFilter.bases() *)
Definition bases (f : ffilter) : option (list path) :=
  option_map (fun ps => map of_alg (PathAlg.uniquetrees ps)) (all_some (map base_alg (f_inc f))).

(* _find_files(env, filter): the roots are filter.bases() looked up in the file system *)
Definition find_files_of (prune : path -> bool) (f : ffilter) (fs : fsys) : option (list (path * fres)) :=
  option_map (fun bs => find_files prune (fmatch f) (map (start_of fs) bs)) (bases f).

Definition seen_dirs_of (prune : path -> bool) (f : ffilter) (fs : fsys) : option (list path) :=
  option_map (fun bs => seen_dirs prune (map (start_of fs) bs)) (bases f).
