(* Glue C11 <- C12: the walk roots FileFilter.bases() chooses (Find/Bases.v: Path constructor + path.uniquetrees
   of the path-algebra model) satisfy the antichain hypothesis of the no-duplicates theorems of
   Find/BasesProofs.v, so that hypothesis can be discharged.

   The Find model compares paths by (root value, split()) - exactly the sort key path.uniquetrees compares.
   [below (of_alg u) (of_alg v)] therefore IS the key-prefix relation of Path/PathAlgTrees.v, and the antichain
   follows from the key-level statement about uniquetrees (uniquetrees_keys, C12_uniquetrees_keys), which holds for
   ALL inputs: no guard on the bases is needed for the antichain, and none for the no-duplicates statement.

   What does need guards is the reading of [below] as containment of directory trees ([under]: same root, component
   prefix): it coincides with the key-prefix relation for well-formed paths other than the file-system root, whose
   split() is two empty strings (finding uniquetrees-filesystem-root).  Both directions are stated below. *)
From BFG Require Import Base.Chars Find.Glob Find.GlobProofs Find.Filter Find.Walk Find.WalkProofs.
From BFG Require Import Find.Bases Find.BasesProofs.
From BFG Require Path.PathAlg Path.PathAlgRt Path.PathAlgWf Path.PathAlgTrees.
From Coq Require Import List NArith.
Import ListNotations.

(* ---- list facts *)
Lemma FOP_map {T U} (g : T -> U) (R : U -> U -> Prop) l :
  ForallOrdPairs (fun a b => R (g a) (g b)) l -> ForallOrdPairs R (map g l).
Proof.
  induction 1 as [|a l Ha _ IH]; cbn; [constructor|]. constructor; [|exact IH].
  rewrite Forall_forall in *. intros y Hy. apply in_map_iff in Hy as [x [<- Hx]]. apply Ha. exact Hx.
Qed.

Lemma FOP_impl {T} (R R' : T -> T -> Prop) l :
  (forall a b, R a b -> R' a b) -> ForallOrdPairs R l -> ForallOrdPairs R' l.
Proof.
  intros H. induction 1 as [|a l Ha _ IH]; [constructor|]. constructor; [|exact IH].
  rewrite Forall_forall in *. intros y Hy. apply H. apply Ha. exact Hy.
Qed.

Lemma all_some_in {T} : forall (l : list (option T)) r x, all_some l = Some r -> In x r -> In (Some x) l.
Proof.
  induction l as [|o l IH]; cbn; intros r x H Hx.
  - inversion H; subst. destruct Hx.
  - destruct o as [y|]; [|discriminate]. destruct (all_some l) as [r'|]; [|discriminate].
    inversion H; subst. destruct Hx as [->|Hx]; [left; reflexivity|right; exact (IH r' x eq_refl Hx)].
Qed.

(* ---- below on what the harness observes of a Path = prefix on the sort keys of uniquetrees *)
Lemma below_of_alg u v :
  below (of_alg u) (of_alg v) <-> PathAlgTrees.kprefix (PathAlg.key_of u) (PathAlg.key_of v).
Proof.
  unfold below, of_alg, PathAlgTrees.kprefix, PathAlg.key_of, PathAlgWf.prefix. cbn.
  split; intros [H1 [e H2]]; (split; [symmetry; exact H1|exists e; exact H2]).
Qed.

Lemma ischild_false_not_below u v :
  PathAlg.ischild (PathAlg.key_of u) (PathAlg.key_of v) = false ->
  ~ below (of_alg u) (of_alg v) /\ ~ below (of_alg v) (of_alg u).
Proof.
  intros E. split; intros B; apply below_of_alg in B;
    assert (T : PathAlg.ischild (PathAlg.key_of u) (PathAlg.key_of v) = true)
      by (apply PathAlgTrees.ischild_iff; auto); congruence.
Qed.

(* path.uniquetrees, seen through the observation [of_alg], returns an antichain for [below]: for ALL lists of
   paths (any roots, drives, the file-system root, ill-formed records) *)
Theorem uniquetrees_antichain ps : antichain (map of_alg (PathAlg.uniquetrees ps)).
Proof.
  destruct (PathAlgTrees.uniquetrees_keys ps) as (_ & _ & A).
  unfold antichain. apply FOP_map. revert A. apply FOP_impl. intros a b. apply ischild_false_not_below.
Qed.

(* ... chosen among the inputs, and covering them: every input lies below (or is) a chosen root *)
Theorem uniquetrees_cover ps :
  incl (PathAlg.uniquetrees ps) ps /\
  forall p, In p ps -> exists u, In u (PathAlg.uniquetrees ps) /\ below (of_alg u) (of_alg p).
Proof.
  destruct (PathAlgTrees.uniquetrees_keys ps) as (I & C & _). split; [exact I|].
  intros p Hp. destruct (C p Hp) as (u & Hu & K). exists u. split; [exact Hu|]. apply below_of_alg. exact K.
Qed.

(* ---- FileFilter.bases() *)
Theorem bases_antichain f bs : bases f = Some bs -> antichain bs.
Proof.
  unfold bases. destruct (all_some (map base_alg (f_inc f))) as [ps|]; cbn; [|discriminate].
  intros H. inversion H; subst. apply uniquetrees_antichain.
Qed.

(* every include pattern's base is (or lies below) one of the walk roots, and every walk root is the base of
   some include pattern *)
Theorem bases_cover f bs : bases f = Some bs ->
  (forall g, In g (f_inc f) -> exists q b, base_alg g = Some q /\ In b bs /\ below b (of_alg q)) /\
  (forall b, In b bs -> exists g q, In g (f_inc f) /\ base_alg g = Some q /\ b = of_alg q).
Proof.
  unfold bases. destruct (all_some (map base_alg (f_inc f))) as [ps|] eqn:E; cbn; [|discriminate].
  intros H. inversion H; subst. clear H. destruct (uniquetrees_cover ps) as [I C]. split.
  - intros g Hg.
    assert (S : exists q, base_alg g = Some q /\ In q ps).
    { clear I C. revert ps E. induction (f_inc f) as [|g' l IH]; [destruct Hg|]. cbn. intros ps E.
      destruct (base_alg g') as [q'|] eqn:B; [|discriminate].
      destruct (all_some (map base_alg l)) as [r|] eqn:E'; [|discriminate]. inversion E; subst.
      destruct Hg as [->|Hg].
      - exists q'. split; [exact B|left; reflexivity].
      - destruct (IH Hg r eq_refl) as (q & Bq & Hq). exists q. split; [exact Bq|right; exact Hq]. }
    destruct S as (q & Bq & Hq). destruct (C q Hq) as (u & Hu & K).
    exists q, (of_alg u). split; [exact Bq|]. split; [apply in_map; exact Hu|exact K].
  - intros b Hb. apply in_map_iff in Hb as (u & <- & Hu). apply I in Hu.
    apply (all_some_in _ _ _ E) in Hu. apply in_map_iff in Hu as (g & Bg & Hg).
    exists g, u. auto.
Qed.

(* the end-to-end statements: _find_files(env, filter) with the roots it chooses itself, in any well-formed file
   system, reports no entry twice - by (root, components), hence also as a list of paths *)
Theorem find_files_of_no_duplicates prune f fs r :
  find_files_of prune f fs = Some r -> wf_fsys fs ->
  NoDup (map ekey r) /\ NoDup (found_of r).
Proof.
  unfold find_files_of. destruct (bases f) as [bs|] eqn:E; cbn; [|discriminate].
  intros H Hw. inversion H; subst. apply roots_no_duplicates_fs; [exact (bases_antichain f bs E)|exact Hw].
Qed.

(* ---- the tree reading of [below], under the guards of the path algebra *)
Lemma base_alg_plain_root g q : base_alg g = Some q -> PathAlg.is_install (PathAlg.p_root q) = false.
Proof.
  unfold base_alg. destruct (alg_root (g_root g)) as [r|] eqn:R; [|discriminate].
  assert (Hr : PathAlg.is_install r = false).
  { unfold alg_root in R. destruct (g_root g) as [|[[|[]|]|[|[]|]|]]; inversion R; reflexivity. }
  unfold PathAlg.mk. cbn [PathAlg.truthy andb].
  destruct (PathAlg.normalize _) as [[[[d k] cs] isd]|]; [|discriminate]. cbn match.
  destruct (Nat.ltb 0 k).
  - unfold PathAlg.mk_finish. destruct (_ && _); [discriminate|]. intros H. inversion H. reflexivity.
  - destruct (PathAlg.root_eqb r PathAlg.Absolute); [discriminate|].
    unfold PathAlg.mk_finish. destruct (_ && _); [discriminate|]. intros H. inversion H. exact Hr.
Qed.

Lemma plain_root_value_inj a b :
  PathAlg.is_install a = false -> PathAlg.is_install b = false ->
  PathAlg.root_value a = PathAlg.root_value b -> a = b.
Proof. destruct a, b; cbn; intros; try reflexivity; discriminate. Qed.

(* a constructed base under the source or build root is well-formed unless it carries a drive or its first
   component looks like a drive prefix (C12_mk_wellformed) *)
Lemma base_alg_wf_rel g q :
  base_alg g = Some q -> PathAlg.p_root q <> PathAlg.Absolute -> PathAlg.p_drive q = [] ->
  PathAlgRt.nodrive (PathAlg.p_comps q) -> PathAlgRt.wfp q.
Proof.
  unfold base_alg. destruct (alg_root (g_root g)) as [r|]; [|discriminate]. apply PathAlgRt.mk_wf_rel.
Qed.

(* for well-formed paths with plain roots, none of them the file-system root: below on the observations is
   containment of directory trees *)
Theorem below_iff_under u v :
  PathAlgRt.wfp u -> PathAlgRt.wfp v -> PathAlgTrees.not_fsroot u -> PathAlgTrees.not_fsroot v ->
  PathAlg.is_install (PathAlg.p_root u) = false -> PathAlg.is_install (PathAlg.p_root v) = false ->
  (below (of_alg u) (of_alg v) <-> PathAlgTrees.under u v).
Proof.
  intros Wu Wv Nu Nv Iu Iv. rewrite below_of_alg. apply PathAlgTrees.kprefix_under; try assumption.
  apply plain_root_value_inj; assumption.
Qed.

(* so, when every include base is well-formed and none is the file-system root, the walk roots are pairwise
   tree-disjoint and every include base lies in the tree of one of them (C12_uniquetrees transported) *)
Theorem bases_tree_antichain f ps :
  all_some (map base_alg (f_inc f)) = Some ps ->
  (forall p, In p ps -> PathAlgRt.wfp p /\ PathAlgTrees.not_fsroot p) ->
  bases f = Some (map of_alg (PathAlg.uniquetrees ps)) /\
  (forall p, In p ps -> exists u, In u (PathAlg.uniquetrees ps) /\ PathAlgTrees.under u p) /\
  ForallOrdPairs (fun u v => ~ PathAlgTrees.under u v /\ ~ PathAlgTrees.under v u) (PathAlg.uniquetrees ps).
Proof.
  intros E G. split; [unfold bases; rewrite E; reflexivity|].
  assert (P : forall p, In p ps -> PathAlg.is_install (PathAlg.p_root p) = false).
  { intros p Hp. apply (all_some_in _ _ _ E) in Hp. apply in_map_iff in Hp as (g & Bg & _).
    exact (base_alg_plain_root g p Bg). }
  destruct (PathAlgTrees.uniquetrees_spec ps G) as (_ & C & A); [|split; assumption].
  intros p q Hp Hq. apply plain_root_value_inj; auto.
Qed.
