(* Proofs about the walk roots of _find_files: when the start directories form an antichain for the
   below-relation (no start directory lies in the tree of another one; in particular no start directory
   is listed twice) and every directory listing has pairwise distinct names, no entry is reported twice. *)
From BFG Require Import Base.Chars Find.Glob Find.GlobProofs Find.Filter Find.Walk Find.WalkProofs.
From Coq Require Import Lia Permutation.

Definition ekey (e : path * fres) : pkey := pkey_of (fst e).

(* directory listings have pairwise distinct names (what os.listdir returns), at every level *)
Inductive wf_tree : tree -> Prop :=
| wf_file n b : wf_tree (File n b)
| wf_dir n l ch : NoDup (map tname ch) -> Forall wf_tree ch -> wf_tree (Dir n l ch).
Definition wf_listing (ch : list tree) : Prop := NoDup (map tname ch) /\ Forall wf_tree ch.
Definition wf_start (s : start) : Prop := match snd s with Some ch => wf_listing ch | None => True end.

(* no element is below (or equal to) another one; [below] is reflexive, so this includes distinctness *)
Definition antichain (l : list path) : Prop := ForallOrdPairs (fun a b => ~ below a b /\ ~ below b a) l.

(* ---- list facts *)
Lemma NoDup_app_intro {T} (a b : list T) :
  NoDup a -> NoDup b -> (forall x, In x a -> In x b -> False) -> NoDup (a ++ b).
Proof.
  induction a as [|x a IH]; intros Ha Hb Hd; cbn; [exact Hb|].
  inversion Ha as [|? ? Hx Ha']; subst. constructor.
  - intros H. apply in_app_iff in H as [H|H]; [exact (Hx H)|]. apply (Hd x); [left; reflexivity|exact H].
  - apply IH; [exact Ha'|exact Hb|]. intros y Hy1 Hy2. apply (Hd y); [right; exact Hy1|exact Hy2].
Qed.

Lemma NoDup_map_inj {T U} (k : T -> U) l :
  (forall a b, In a l -> In b l -> k a = k b -> a = b) -> NoDup l -> NoDup (map k l).
Proof.
  induction l as [|x l IH]; intros Hk Hn; cbn; [constructor|].
  inversion Hn as [|? ? Hx Hn']; subst. constructor.
  - intros H. apply in_map_iff in H as [y [E Hy]]. apply Hx.
    rewrite (Hk x y); [exact Hy|left; reflexivity|right; exact Hy|symmetry; exact E].
  - apply IH; [|exact Hn']. intros a b Ha Hb. apply Hk; right; assumption.
Qed.

Lemma NoDup_map_filter {T U} (k : T -> U) (P : T -> bool) l : NoDup (map k l) -> NoDup (map k (filter P l)).
Proof.
  induction l as [|x l IH]; intros H; cbn; [constructor|].
  cbn in H. inversion H as [|? ? Hx Hn]; subst. destruct (P x); cbn; [|exact (IH Hn)].
  constructor; [|exact (IH Hn)]. intros Hi. apply Hx. apply in_map_iff in Hi as [y [E Hy]].
  apply in_map_iff. exists y. split; [exact E|]. apply filter_In in Hy as [Hy _]. exact Hy.
Qed.

Lemma NoDup_map_self {T U} (k : T -> U) l : NoDup (map k l) -> NoDup l.
Proof.
  induction l as [|x l IH]; intros H; [constructor|]. cbn in H. inversion H as [|? ? Hx Hn]; subst.
  constructor; [|exact (IH Hn)]. intros Hi. apply Hx. apply in_map. exact Hi.
Qed.

Lemma map_flat_map {T U V} (k : U -> V) (g : T -> list U) l :
  map k (flat_map g l) = flat_map (fun t => map k (g t)) l.
Proof. induction l as [|x l IH]; cbn; [reflexivity|]. rewrite map_app, IH. reflexivity. Qed.

(* the two halves of a listing (directories, then the rest) keep the names distinct *)
Lemma NoDup_partition {T U} (h : T -> U) (a : T -> bool) l :
  NoDup (map h l) -> NoDup (map h (filter a l) ++ map h (filter (fun t => negb (a t)) l)).
Proof.
  induction l as [|x l IH]; intros H; cbn; [constructor|].
  cbn in H. inversion H as [|? ? Hx Hn]; subst.
  assert (Hsub : forall y, In y (map h (filter a l) ++ map h (filter (fun t => negb (a t)) l)) -> In y (map h l)).
  { intros y Hy. apply in_app_iff in Hy as [Hy|Hy]; apply in_map_iff in Hy as [z [E Hz]];
      apply filter_In in Hz as [Hz _]; apply in_map_iff; exists z; auto. }
  destruct (a x); cbn.
  - constructor; [|exact (IH Hn)]. intros Hi. exact (Hx (Hsub _ Hi)).
  - eapply Permutation_NoDup; [apply Permutation_middle|].
    constructor; [|exact (IH Hn)]. intros Hi. exact (Hx (Hsub _ Hi)).
Qed.

(* results of different list elements carry different tags: no duplicates in the concatenation *)
Lemma NoDup_flat_map_tag {T K G} (g : T -> list K) (h : T -> G) (tag : K -> G -> Prop) l :
  (forall t x, In t l -> In x (g t) -> tag x (h t)) ->
  (forall x a b, tag x a -> tag x b -> a = b) ->
  NoDup (map h l) -> (forall t, In t l -> NoDup (g t)) -> NoDup (flat_map g l).
Proof.
  intros Ht Hf. induction l as [|t l IH]; intros Hn Hg; cbn; [constructor|].
  cbn in Hn. inversion Hn as [|? ? Hx Hn']; subst.
  apply NoDup_app_intro.
  - apply Hg. left. reflexivity.
  - apply IH; [intros; apply Ht; [right|]; assumption|exact Hn'|intros; apply Hg; right; assumption].
  - intros x H1 H2. apply in_flat_map in H2 as [t' [Ht' H2]]. apply Hx.
    assert (E : h t = h t').
    { apply (Hf x); [apply Ht; [left; reflexivity|exact H1]|apply Ht; [right; exact Ht'|exact H2]]. }
    rewrite E. apply in_map. exact Ht'.
Qed.

Lemma prefix_comparable {T} (a b e1 e2 : list T) :
  a ++ e1 = b ++ e2 -> (exists e, b = a ++ e) \/ (exists e, a = b ++ e).
Proof.
  revert b. induction a as [|x a IH]; intros b H.
  - left. exists b. reflexivity.
  - destruct b as [|y b].
    + right. exists (x :: a). reflexivity.
    + cbn in H. inversion H as [[E H']]. subst y. destruct (IH b H') as [[e ->]|[e ->]].
      * left. exists e. reflexivity.
      * right. exists e. reflexivity.
Qed.

(* ---- keys of the entries of one walk *)
Section Keys.
Variable prune : path -> bool.
Variable m : path -> fres.

Lemma in_level_gen e p ch : In e (level m p ch) -> exists t, In t ch /\ e = (tpath p t, m (tpath p t)).
Proof.
  unfold level. rewrite in_app_iff, !in_map_iff.
  intros [[t [E H]]|[t [E H]]]; apply filter_In in H as [H _]; exists t; auto.
Qed.

Lemma level_keys p ch :
  map ekey (level m p ch) =
  map (fun n => (p_root p, p_comps p ++ [n]))
      (map tname (filter is_dirt ch) ++ map tname (filter (fun t => negb (is_dirt t)) ch)).
Proof. unfold level. rewrite !map_app, !map_map. reflexivity. Qed.

Lemma NoDup_level p ch : NoDup (map tname ch) -> NoDup (map ekey (level m p ch)).
Proof.
  intros H. rewrite level_keys. apply NoDup_map_inj; [|apply NoDup_partition; exact H].
  intros a b _ _ E. inversion E as [E']. apply app_inv_head in E'. inversion E'. reflexivity.
Qed.

(* everything reported while descending into [t] lies at least two levels below [p], through [t] *)
Lemma walk_tree_under : forall t p e, In e (walk_tree prune m p t) ->
  exists n' ext, ekey e = (p_root p, p_comps p ++ tname t :: n' :: ext).
Proof.
  induction t as [n b|n link sub IH] using tree_ind'; intros p e H; cbn [walk_tree] in H; [destruct H|].
  destruct (link || prune (child p n true)); [destruct H|]. cbn [tname].
  apply in_app_iff in H as [H|H].
  - apply in_level_gen in H as [t [_ ->]]. exists (tname t), []. unfold ekey, pkey_of, tpath, child. cbn.
    rewrite <- app_assoc. reflexivity.
  - apply in_flat_map in H as [c [Hc H]]. rewrite Forall_forall in IH.
    destruct (IH c Hc _ _ H) as [n' [ext E]]. exists (tname c), (n' :: ext). rewrite E. cbn.
    rewrite <- app_assoc. reflexivity.
Qed.

Lemma walk_top_under p ch e : In e (walk_top prune m p ch) ->
  exists n ext, ekey e = (p_root p, p_comps p ++ n :: ext).
Proof.
  unfold walk_top. intros H. apply in_app_iff in H as [H|H].
  - apply in_level_gen in H as [t [_ ->]]. exists (tname t), []. reflexivity.
  - apply in_flat_map in H as [c [_ H]]. apply walk_tree_under in H as [n' [ext E]]. eauto.
Qed.

Lemma NoDup_walk_top_gen p ch :
  NoDup (map tname ch) ->
  Forall (fun c => forall q, NoDup (map ekey (walk_tree prune m q c))) ch ->
  NoDup (map ekey (walk_top prune m p ch)).
Proof.
  intros Hn Hc. unfold walk_top. rewrite map_app, map_flat_map. apply NoDup_app_intro.
  - apply NoDup_level. exact Hn.
  - apply (NoDup_flat_map_tag _ tname
             (fun k n => exists n' ext, k = (p_root p, p_comps p ++ n :: n' :: ext))).
    + intros t x _ Hx. apply in_map_iff in Hx as [e [<- He]]. apply walk_tree_under in He. exact He.
    + intros x a b [n1 [e1 ->]] [n2 [e2 E]]. inversion E as [E']. apply app_inv_head in E'.
      inversion E'. reflexivity.
    + exact Hn.
    + rewrite Forall_forall in Hc. intros t Ht. apply Hc. exact Ht.
  - intros x H1 H2. rewrite level_keys in H1. apply in_map_iff in H1 as [n1 [<- _]].
    apply in_flat_map in H2 as [c [_ H2]]. apply in_map_iff in H2 as [e [E He]].
    apply walk_tree_under in He as [n' [ext E2]]. rewrite E2 in E. inversion E as [E'].
    apply app_inv_head in E'. discriminate E'.
Qed.

Lemma NoDup_walk_tree : forall t, wf_tree t -> forall q, NoDup (map ekey (walk_tree prune m q t)).
Proof.
  induction t as [n b|n link sub IH] using tree_ind'; intros Hw q; cbn [walk_tree]; [constructor|].
  destruct (link || prune (child q n true)); [constructor|].
  inversion Hw as [|? ? ? Hn Hs]; subst.
  apply (NoDup_walk_top_gen (child q n true) sub Hn).
  rewrite Forall_forall in *. intros c Hc. apply IH; [exact Hc|]. apply Hs. exact Hc.
Qed.

Lemma NoDup_walk_top p ch : wf_listing ch -> NoDup (map ekey (walk_top prune m p ch)).
Proof.
  intros [Hn Hs]. apply NoDup_walk_top_gen; [exact Hn|].
  rewrite Forall_forall in *. intros c Hc. apply NoDup_walk_tree. apply Hs. exact Hc.
Qed.

(* ---- several walk roots *)
Definition walk_of (s : start) : list (path * fres) :=
  match snd s with Some ch => walk_top prune m (fst s) ch | None => [] end.

Lemma walk_of_under s e : In e (walk_of s) ->
  exists n ext, ekey e = (p_root (fst s), p_comps (fst s) ++ n :: ext).
Proof. unfold walk_of. destruct (snd s); [apply walk_top_under|intros []]. Qed.

Lemma under_below a k n ext : k = (p_root a, p_comps a ++ n :: ext) -> forall b, k = pkey_of b -> below a b.
Proof.
  intros -> b E. unfold pkey_of in E. inversion E as [[E1 E2]]. split; [symmetry; exact E1|].
  exists (n :: ext). symmetry. exact E2.
Qed.

Lemma under_comparable a b k n1 e1 n2 e2 :
  k = (p_root a, p_comps a ++ n1 :: e1) -> k = (p_root b, p_comps b ++ n2 :: e2) -> below a b \/ below b a.
Proof.
  intros -> E. inversion E as [[E1 E2]]. destruct (prefix_comparable _ _ _ _ E2) as [[e He]|[e He]].
  - left. split; [symmetry; exact E1|]. exists e. exact He.
  - right. split; [exact E1|]. exists e. exact He.
Qed.

Lemma antichain_In l : antichain l -> forall a b, In a l -> In b l -> a = b \/ (~ below a b /\ ~ below b a).
Proof.
  induction 1 as [|x l Hx Hl IH]; intros a b Ha Hb; [destruct Ha|].
  rewrite Forall_forall in Hx. destruct Ha as [<-|Ha], Hb as [<-|Hb].
  - left. reflexivity.
  - right. apply Hx. exact Hb.
  - right. destruct (Hx a Ha) as [H1 H2]. split; assumption.
  - apply IH; assumption.
Qed.

Lemma NoDup_start_keys (starts : list start) :
  antichain (map fst starts) -> NoDup (map (fun s => pkey_of (fst s)) starts).
Proof.
  induction starts as [|s l IH]; intros H; cbn; [constructor|].
  cbn in H. inversion H as [|? ? Hx Hl]; subst. constructor; [|exact (IH Hl)].
  intros Hi. apply in_map_iff in Hi as [s' [E Hs']]. rewrite Forall_forall in Hx.
  destruct (Hx (fst s') (in_map fst _ _ Hs')) as [H1 _]. apply H1.
  unfold pkey_of in E. inversion E as [[E1 E2]]. split; [exact E1|]. exists []. rewrite app_nil_r. exact E2.
Qed.

Lemma NoDup_walks (starts : list start) :
  antichain (map fst starts) -> Forall wf_start starts ->
  NoDup (flat_map (fun s => map ekey (walk_of s)) starts).
Proof.
  induction starts as [|s l IH]; intros H Hw; cbn [flat_map]; [constructor|].
  cbn in H. inversion H as [|? ? Hx Hl]; subst. inversion Hw as [|? ? Hs Hw']; subst.
  apply NoDup_app_intro.
  - unfold walk_of. unfold wf_start in Hs. destruct (snd s); [apply NoDup_walk_top; exact Hs|constructor].
  - apply IH; assumption.
  - intros k H1 H2. apply in_map_iff in H1 as [e1 [E1 H1]]. apply walk_of_under in H1 as [n1 [x1 K1]].
    apply in_flat_map in H2 as [s' [Hs' H2]]. apply in_map_iff in H2 as [e2 [E2 H2]].
    apply walk_of_under in H2 as [n2 [x2 K2]].
    rewrite Forall_forall in Hx. destruct (Hx (fst s') (in_map fst _ _ Hs')) as [N1 N2].
    rewrite E1 in K1. rewrite E2 in K2. destruct (under_comparable _ _ _ _ _ _ _ K1 K2); tauto.
Qed.

(* no entry is reported twice, neither among the start directories themselves nor inside the walks nor
   across them; entries are compared by root and components, which is stronger than Path equality *)
Theorem walk_roots_no_duplicates (starts : list start) :
  antichain (map fst starts) -> Forall wf_start starts ->
  NoDup (map ekey (find_files prune m starts)).
Proof.
  intros Ha Hw. unfold find_files. rewrite map_app, map_map, map_flat_map. apply NoDup_app_intro.
  - exact (NoDup_start_keys starts Ha).
  - exact (NoDup_walks starts Ha Hw).
  - intros k H1 H2. apply in_map_iff in H1 as [sj [E1 Hj]]. cbn in E1.
    apply in_flat_map in H2 as [si [Hi H2]]. apply in_map_iff in H2 as [e [E2 H2]].
    apply walk_of_under in H2 as [n [ext K]]. rewrite E2 in K.
    assert (B : below (fst si) (fst sj)) by (eapply under_below; [exact K|symmetry; exact E1]).
    destruct (antichain_In _ Ha (fst si) (fst sj) (in_map fst _ _ Hi) (in_map fst _ _ Hj)) as [E|[N _]];
      [|exact (N B)].
    rewrite <- E in E1. rewrite <- E1 in K. unfold pkey_of in K. inversion K as [K'].
    apply (f_equal (@length str)) in K'. rewrite app_length in K'. cbn in K'. lia.
Qed.

Corollary found_no_duplicates (starts : list start) :
  antichain (map fst starts) -> Forall wf_start starts ->
  NoDup (found_of (find_files prune m starts)).
Proof.
  intros Ha Hw. apply (NoDup_map_self pkey_of). unfold found_of. rewrite map_map.
  apply (NoDup_map_filter ekey). apply walk_roots_no_duplicates; assumption.
Qed.
End Keys.

(* the file-system lookup of a start directory yields well-formed listings from a well-formed file system *)
Definition wf_fsys (fs : fsys) : Prop := Forall (fun e => wf_listing (snd e)) fs.

Lemma find_child_in c : forall ch t, find_child c ch = Some t -> In t ch.
Proof.
  induction ch as [|x ch IH]; cbn; intros t H; [discriminate|].
  destruct (str_eqb (tname x) c); [inversion H; left; reflexivity|right; apply IH; exact H].
Qed.

Lemma lookup_wf : forall comps ch sub, wf_listing ch -> lookup ch comps = Some sub -> wf_listing sub.
Proof.
  induction comps as [|c r IH]; intros ch sub Hw H; cbn in H; [inversion H; subst; exact Hw|].
  destruct (find_child c ch) as [[n b|n l s]|] eqn:E; [| |discriminate].
  - destruct r; [|discriminate]. destruct b; [discriminate|]. inversion H; subst. split; constructor.
  - apply find_child_in in E. destruct Hw as [_ Hs]. rewrite Forall_forall in Hs.
    specialize (Hs _ E). inversion Hs as [|? ? ? Hn Hc]; subst. apply (IH s sub); [split; assumption|exact H].
Qed.

Lemma root_children_wf : forall fs r ch, wf_fsys fs -> root_children fs r = Some ch -> wf_listing ch.
Proof.
  induction fs as [|[r' c'] fs IH]; cbn; intros r ch Hw H; [discriminate|].
  inversion Hw as [|? ? H1 H2]; subst. destruct (r' =? r)%N; [inversion H; subst; exact H1|].
  apply (IH r); assumption.
Qed.

Lemma start_of_wf fs p : wf_fsys fs -> wf_start (start_of fs p).
Proof.
  intros Hw. unfold wf_start, start_of. cbn [snd].
  destruct (root_children fs (p_root p)) as [ch|] eqn:E; [|exact I].
  destruct (lookup ch (p_comps p)) as [sub|] eqn:E2; [|exact I].
  eapply lookup_wf; [eapply root_children_wf; eassumption|exact E2].
Qed.

Theorem roots_no_duplicates_fs prune m fs (bs : list path) :
  antichain bs -> wf_fsys fs ->
  NoDup (map ekey (find_files prune m (map (start_of fs) bs))) /\
  NoDup (found_of (find_files prune m (map (start_of fs) bs))).
Proof.
  intros Ha Hw.
  assert (E : map fst (map (start_of fs) bs) = bs).
  { rewrite map_map. unfold start_of. cbn [fst]. apply map_id. }
  assert (Hs : Forall wf_start (map (start_of fs) bs)).
  { apply Forall_forall. intros s Hs. apply in_map_iff in Hs as [p [<- _]]. apply start_of_wf. exact Hw. }
  split; [apply walk_roots_no_duplicates|apply found_no_duplicates]; try rewrite E; assumption.
Qed.
