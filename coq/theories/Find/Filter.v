(* Model of bfg9000/builtins/find.py: FindResult, FileFilter (_match_globs, match, equality). Model only. *)
From BFG Require Import Base.Chars Find.Glob.
Local Open Scope N_scope.

Inductive fres := Include | NotNow | Exclude | ExclRec.
Definition fres_val (r : fres) : nat :=
  match r with Include => 0%nat | NotNow => 1%nat | Exclude => 2%nat | ExclRec => 3%nat end.
Definition fand (a b : fres) : fres := if Nat.leb (fres_val a) (fres_val b) then b else a.   (* max *)
Definition for_ (a b : fres) : fres := if Nat.leb (fres_val a) (fres_val b) then a else b.   (* min *)
Definition is_inc (r : fres) : bool := match r with Include => true | _ => false end.
Definition is_notnow (r : fres) : bool := match r with NotNow => true | _ => false end.
Definition is_er (r : fres) : bool := match r with ExclRec => true | _ => false end.

(* filter_fn: an arbitrary function of the path, with an identity tag standing for Python's function
   equality (FileFilter.__eq__ compares filter_fn with ==) *)
Record ffilter := mkfilter {
  f_inc : list pglob;
  f_extra : list (str * nglob);     (* raw pattern text (used by equality) and compiled NameGlob *)
  f_excl : list (str * nglob);
  f_fn : option (N * (path -> fres))
}.

(* functools.reduce(or) over a non-empty sequence; FileFilter.__init__ rejects an empty include list, so
   the first branch is not reachable from mk_filter *)
Definition reduce_or (l : list res) : res :=
  match l with
  | [] => No
  | x :: r => fold_left ror r x
  end.

Definition inc_res (f : ffilter) (p : path) : res :=
  let skip := Nat.eqb (length (f_inc f)) 1 in
  reduce_or (map (fun g => pg_match g p skip) (f_inc f)).

Definition any_ng (l : list (str * nglob)) (p : path) : bool := existsb (fun n => ng_match (snd n) p) l.

Definition match_globs (f : ffilter) (p : path) : fres :=
  if any_ng (f_excl f) p then ExclRec
  else
    let r := inc_res f p in
    if is_yes r then Include
    else if any_ng (f_extra f) p then NotNow
    else match r with Never => ExclRec | _ => Exclude end.

Definition fmatch (f : ffilter) (p : path) : fres :=
  let r := match_globs f p in
  match f_fn f with
  | Some fn => fand r (snd fn p)
  | None => r
  end.

(* FileFilter.__init__: None = ValueError / NonGlobError *)
Fixpoint all_some {T} (l : list (option T)) : option (list T) :=
  match l with
  | [] => Some []
  | None :: _ => None
  | Some x :: r => match all_some r with Some r' => Some (x :: r') | None => None end
  end.

Definition mk_filter (incs : list path) (ty : option gtype) (extra excl : list str)
                     (fn : option (N * (path -> fres))) : option ffilter :=
  match all_some (map (fun p => mk_pglob p ty) incs) with
  | None => None
  | Some [] => None
  | Some gi =>
      match all_some (map (fun s => option_map (pair s) (mk_nglob s ty)) extra),
            all_some (map (fun s => option_map (pair s) (mk_nglob s ty)) excl) with
      | Some ge, Some gx => Some (mkfilter gi ge gx fn)
      | _, _ => None
      end
  end.

(* FileFilter.__eq__: include (pattern path and type), extra, exclude (pattern text and type), filter_fn *)
Definition gtype_val (t : gtype) : N := match t with TFile => 1 | TDir => 2 | TAnyT => 3 end.
Definition fkey : Type := (list (N * list str * N) * list (str * N) * list (str * N) * option N)%type.
Definition key_of (f : ffilter) : fkey :=
  (map (fun g => (g_root g, g_base g ++ g_pat g, gtype_val (g_type g))) (f_inc f),
   map (fun n => (fst n, gtype_val (n_type (snd n)))) (f_extra f),
   map (fun n => (fst n, gtype_val (n_type (snd n)))) (f_excl f),
   option_map fst (f_fn f)).

Definition fkey_eq_dec (a b : fkey) : {a = b} + {a <> b}.
Proof.
  repeat (decide equality; try apply N.eq_dec).
Defined.
