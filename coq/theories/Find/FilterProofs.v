(* Proofs about Find/Filter.v: the FindResult lattice and what an ExclRec / Never answer implies. *)
From BFG Require Import Base.Chars Find.Glob Find.GlobProofs Find.Filter.
From Coq Require Import Lia.

(* ---- FindResult is a chain: and = max, or = min *)
Lemma fand_max a b : fres_val (fand a b) = Nat.max (fres_val a) (fres_val b).
Proof. destruct a, b; reflexivity. Qed.
Lemma for_min a b : fres_val (for_ a b) = Nat.min (fres_val a) (fres_val b).
Proof. destruct a, b; reflexivity. Qed.
Lemma fand_comm a b : fand a b = fand b a. Proof. destruct a, b; reflexivity. Qed.
Lemma fand_assoc a b c : fand a (fand b c) = fand (fand a b) c. Proof. destruct a, b, c; reflexivity. Qed.
Lemma fand_idem a : fand a a = a. Proof. destruct a; reflexivity. Qed.
Lemma for_comm a b : for_ a b = for_ b a. Proof. destruct a, b; reflexivity. Qed.
Lemma for_assoc a b c : for_ a (for_ b c) = for_ (for_ a b) c. Proof. destruct a, b, c; reflexivity. Qed.
Lemma for_idem a : for_ a a = a. Proof. destruct a; reflexivity. Qed.
Lemma f_absorb1 a b : for_ a (fand a b) = a. Proof. destruct a, b; reflexivity. Qed.
Lemma f_absorb2 a b : fand a (for_ a b) = a. Proof. destruct a, b; reflexivity. Qed.
Lemma f_distr a b c : fand a (for_ b c) = for_ (fand a b) (fand a c). Proof. destruct a, b, c; reflexivity. Qed.
Lemma fand_include_l a : fand Include a = a. Proof. destruct a; reflexivity. Qed.
Lemma for_exclrec_l a : for_ ExclRec a = a. Proof. destruct a; reflexivity. Qed.

Theorem fres_lattice :
  (forall a b, fres_val (fand a b) = Nat.max (fres_val a) (fres_val b)) /\
  (forall a b, fres_val (for_ a b) = Nat.min (fres_val a) (fres_val b)) /\
  (forall a b, fand a b = fand b a) /\ (forall a b c, fand a (fand b c) = fand (fand a b) c) /\ (forall a, fand a a = a) /\
  (forall a b, for_ a b = for_ b a) /\ (forall a b c, for_ a (for_ b c) = for_ (for_ a b) c) /\ (forall a, for_ a a = a) /\
  (forall a b, for_ a (fand a b) = a) /\ (forall a b, fand a (for_ a b) = a).
Proof.
  repeat split; intros.
  - apply fand_max. - apply for_min. - apply fand_comm. - apply fand_assoc. - apply fand_idem.
  - apply for_comm. - apply for_assoc. - apply for_idem. - apply f_absorb1. - apply f_absorb2.
Qed.

Theorem res_lattice :
  (forall a b, res_val (rand a b) = Nat.max (res_val a) (res_val b)) /\
  (forall a b, res_val (ror a b) = Nat.min (res_val a) (res_val b)) /\
  (forall a b, rand a b = rand b a) /\ (forall a b c, rand a (rand b c) = rand (rand a b) c) /\ (forall a, rand a a = a) /\
  (forall a b, ror a b = ror b a) /\ (forall a b c, ror a (ror b c) = ror (ror a b) c) /\ (forall a, ror a a = a) /\
  (forall a b, ror a (rand a b) = a) /\ (forall a b, rand a (ror a b) = a).
Proof.
  repeat split; intros; try (destruct a; try destruct b; try destruct c; reflexivity).
Qed.

Lemma is_inc_fand a b : is_inc (fand a b) = is_inc a && is_inc b.
Proof. destruct a, b; reflexivity. Qed.

Lemma fand_er a b : fand a b = ExclRec -> a = ExclRec \/ b = ExclRec.
Proof. destruct a, b; cbn; auto; discriminate. Qed.

(* ---- reduce(or): never only if every include says never *)
Lemma fold_ror_never : forall r x, fold_left ror r x = Never -> x = Never /\ Forall (fun y => y = Never) r.
Proof.
  induction r as [|y r IH]; intros x H; cbn in H; [auto|].
  destruct (IH _ H) as [H1 H2]. destruct x, y; try discriminate. auto.
Qed.

Lemma fold_ror_all_never : forall r, Forall (fun y => y = Never) r -> fold_left ror r Never = Never.
Proof. induction r as [|y r IH]; intros H; cbn; [reflexivity|]. inversion H; subst. cbn. apply IH. assumption. Qed.

Lemma reduce_or_never l : reduce_or l = Never <-> l <> [] /\ Forall (fun y => y = Never) l.
Proof.
  destruct l as [|x r]; cbn.
  - split; [discriminate|intros [H _]; congruence].
  - split.
    + intros H. apply fold_ror_never in H. destruct H as [-> H]. split; [discriminate|]. constructor; auto.
    + intros [_ H]. inversion H; subst. apply fold_ror_all_never. assumption.
Qed.

(* the include globs say never at a directory: they say never everywhere below it *)
Theorem inc_res_never_below f d q : inc_res f d = Never -> below d q -> inc_res f q = Never.
Proof.
  unfold inc_res. intros H B. apply reduce_or_never in H. destruct H as [Hne H].
  apply reduce_or_never. split.
  - destruct (f_inc f); [cbn in Hne; congruence|discriminate].
  - rewrite Forall_map in *. eapply Forall_impl; [|exact H]. cbn beta. intros g Hg.
    exact (pg_never_persists g d q _ Hg B).
Qed.

Lemma inc_res_never_not_include f q : inc_res f q = Never -> is_inc (fmatch f q) = false.
Proof.
  intros H. unfold fmatch.
  assert (Hm : is_inc (match_globs f q) = false).
  { unfold match_globs. destruct (any_ng (f_excl f) q); [reflexivity|]. rewrite H. cbn.
    destruct (any_ng (f_extra f) q); reflexivity. }
  destruct (f_fn f); [|exact Hm]. rewrite is_inc_fand, Hm. reflexivity.
Qed.

Theorem never_sound_filter f d q : inc_res f d = Never -> below d q -> is_inc (fmatch f q) = false.
Proof. intros H B. apply inc_res_never_not_include. eapply inc_res_never_below; eassumption. Qed.
