(* Dispatch entries (name -> sx wrapper) for the Find models. *)
From BFG Require Import Base.Chars Base.Sx Find.Glob.
From Coq Require Import String.
Local Open Scope N_scope.

Definition un_gtype (x : sx) : gtype :=
  match un_N x with 1 => TFile | 2 => TDir | _ => TAnyT end.
Definition un_path (x : sx) : path :=
  mkpath (un_N (nth_sx 0 x)) (un_strs (nth_sx 1 x)) (un_bool (nth_sx 2 x)).
Definition sx_res (r : res) : sx := A (N.of_nat (res_val r)).

(* pattern spec: [path; type option] *)
Definition un_pglob (x : sx) : option pglob := mk_pglob (un_path (nth_sx 0 x)) (un_opt un_gtype (nth_sx 1 x)).
Definition un_nglob (x : sx) : option nglob := mk_nglob (un_str (nth_sx 0 x)) (un_opt un_gtype (nth_sx 1 x)).

Definition table : list (string * (sx -> sx)) := [
  ("glob.fnmatch", fun a => sx_bool (fn_match (un_str (nth_sx 0 a)) (un_str (nth_sx 1 a))));
  ("glob.pmatch", fun a =>
      sx_opt sx_res (option_map (fun g => pg_match g (un_path (nth_sx 1 a)) (un_bool (nth_sx 2 a)))
                                (un_pglob (nth_sx 0 a))));
  ("glob.nmatch", fun a =>
      sx_opt sx_bool (option_map (fun n => ng_match n (un_path (nth_sx 1 a))) (un_nglob (nth_sx 0 a))))
]%string.
