(* Dispatch entries (name -> sx wrapper) for the Find models. *)
From BFG Require Import Base.Chars Base.Sx Find.Glob Find.Filter Find.Walk Find.Bases.
From Coq Require Import String.
Local Open Scope N_scope.

Definition un_gtype (x : sx) : gtype :=
  match un_N x with 1 => TFile | 2 => TDir | _ => TAnyT end.
Definition un_path (x : sx) : path :=
  mkpath (un_N (nth_sx 0 x)) (un_strs (nth_sx 1 x)) (un_bool (nth_sx 2 x)).
Definition sx_res (r : res) : sx := A (N.of_nat (res_val r)).

(* pattern spec: [path; type option] *)
Definition un_pglob (x : sx) : option pglob := mk_pglob (un_path (nth_sx 0 x)) (un_opt un_gtype (nth_sx 1 x)).
Definition un_nglob (x : sx) : option nglob := mk_nglob (un_str (nth_sx 0 x)) (un_opt un_gtype (nth_sx 1 x)).


Definition sx_fres (r : fres) : sx := A (N.of_nat (fres_val r)).
Definition un_fres (x : sx) : fres :=
  match un_N x with 0 => Include | 1 => NotNow | 2 => Exclude | _ => ExclRec end.
Definition sx_path (p : path) : sx := L [A (p_root p); sx_list sx_str (p_comps p); sx_bool (p_dir p)].

(* filter_fn given as a finite table [[root; comps]; value] with default include *)
Fixpoint fn_lookup (t : list (pkey * fres)) (p : path) : fres :=
  match t with
  | [] => Include
  | (k, v) :: r => if pkey_eqb k (pkey_of p) then v else fn_lookup r p
  end.
Definition un_fn (x : sx) : N * (path -> fres) :=
  (un_N (nth_sx 0 x),
   fn_lookup (map (fun e => ((un_N (nth_sx 0 (nth_sx 0 e)), un_strs (nth_sx 1 (nth_sx 0 e))), un_fres (nth_sx 1 e)))
                  (un_list (nth_sx 1 x)))).

(* filter spec: [include paths; type option; extra texts; exclude texts; filter_fn option] *)
Definition un_filter (x : sx) : option ffilter :=
  mk_filter (map un_path (un_list (nth_sx 0 x))) (un_opt un_gtype (nth_sx 1 x))
            (un_strs (nth_sx 2 x)) (un_strs (nth_sx 3 x)) (un_opt un_fn (nth_sx 4 x)).

(* tree: [0; name] or [0; name; 1] (dangling link) or [1; name; link; children] *)
Fixpoint un_tree (x : sx) : tree :=
  match x with
  | A _ => File [] false
  | L l =>
      match l with
      | _ :: n :: lk :: L ch :: _ => Dir (un_str n) (un_bool lk) (map un_tree ch)
      | _ :: n :: b :: _ => File (un_str n) (un_bool b)
      | _ :: n :: _ => File (un_str n) false
      | _ => File [] false
      end
  end.
Definition un_fsys (x : sx) : fsys :=
  map (fun e => (un_N (nth_sx 0 e), map un_tree (un_list (nth_sx 1 e)))) (un_list x).

Definition sx_ents (l : list (path * fres)) : sx := sx_list (fun e => L [sx_path (fst e); sx_fres (snd e)]) l.
Definition sx_pkey (k : pkey) : sx := L [A (fst k); sx_list sx_str (snd k)].

(* session: a sequence of find_from_filter calls against one file system and one build state;
   call = [filter spec; start paths or empty; dist; cache] *)
Fixpoint run_session (fixed : bool) (fs : fsys) (calls : list sx) (st : fstate) : list sx * fstate :=
  match calls with
  | [] => ([], st)
  | c :: r =>
      match un_filter (nth_sx 0 c) with
      | None => let '(o, st') := run_session fixed fs r st in (L [] :: o, st')
      | Some f =>
          (* an empty list of start paths (FileFilter.bases() is never empty) = the roots chosen by the model *)
          let roots := match un_list (nth_sx 1 c) with
                       | [] => match bases f with Some bs => bs | None => [] end
                       | l => map un_path l
                       end in
          let '(res, st1) := find_from_filter fixed f (map (start_of fs) roots)
                                              (un_bool (nth_sx 2 c)) (un_bool (nth_sx 3 c)) st in
          let '(o, st') := run_session fixed fs r st1 in
          (L [sx_list sx_path res] :: o, st')
      end
  end.

Definition table : list (string * (sx -> sx)) := [
  ("glob.fnmatch", fun a => sx_bool (fn_match (un_str (nth_sx 0 a)) (un_str (nth_sx 1 a))));
  ("glob.pmatch", fun a =>
      sx_opt sx_res (option_map (fun g => pg_match g (un_path (nth_sx 1 a)) (un_bool (nth_sx 2 a)))
                                (un_pglob (nth_sx 0 a))));
  ("glob.nmatch", fun a =>
      sx_opt sx_bool (option_map (fun n => ng_match n (un_path (nth_sx 1 a))) (un_nglob (nth_sx 0 a))));
  ("glob.pmatch_many", fun a =>
      sx_opt (sx_list sx_res)
             (option_map (fun g => map (fun p => pg_match g (un_path p) (un_bool (nth_sx 1 a))) (un_list (nth_sx 2 a)))
                         (un_pglob (nth_sx 0 a))));
  ("find.fmatch", fun a =>
      sx_opt (sx_list sx_fres)
             (option_map (fun f => map (fun p => fmatch f (un_path p)) (un_list (nth_sx 1 a))) (un_filter (nth_sx 0 a))));
  (* [filter spec; file system; start paths; policy 0 = as implemented, 1 = documented exclusions only, 2 = none] *)
  ("find.walk", fun a =>
      sx_opt (fun f : ffilter =>
                let starts := map (fun p => start_of (un_fsys (nth_sx 1 a)) (un_path p)) (un_list (nth_sx 2 a)) in
                let prune := match un_N (nth_sx 3 a) with 0 => prune_real f | 1 => prune_doc f | _ => prune_none end in
                L [sx_ents (find_files prune (fmatch f) starts); sx_list sx_path (seen_dirs prune starts)])
             (un_filter (nth_sx 0 a)));
  (* FileFilter.bases(): [filter spec] -> outer option = FileFilter constructor, inner = a base constructor *)
  ("find.bases", fun a =>
      sx_opt (fun f : ffilter => sx_opt (sx_list sx_path) (bases f)) (un_filter (nth_sx 0 a)));
  (* _find_files with the roots chosen by the model: [filter spec; file system; policy] *)
  ("find.find", fun a =>
      sx_opt (fun f : ffilter =>
                let prune := match un_N (nth_sx 2 a) with 0 => prune_real f | 1 => prune_doc f | _ => prune_none end in
                match find_files_of prune f (un_fsys (nth_sx 1 a)), seen_dirs_of prune f (un_fsys (nth_sx 1 a)) with
                | Some ents, Some seen => L [sx_ents ents; sx_list sx_path seen]
                | _, _ => L []
                end)
             (un_filter (nth_sx 0 a)));
  ("find.session", fun a =>
      let '(o, st) := run_session (un_bool (nth_sx 0 a)) (un_fsys (nth_sx 1 a)) (un_list (nth_sx 2 a)) (mkst [] [] []) in
      L [L o; sx_list sx_pkey (st_dist st); sx_list sx_path (st_dirs st)])
]%string.
