(* Model of bfg9000/glob.py: component matching (fnmatch.translate as used through
   re.compile(...).match), PathGlob (_compile_glob, _match_base, _match_glob_run(s), match,
   three-valued Result) and NameGlob; plus the declarative reading glob_sem.
   Model only: proofs are in GlobProofs.v. *)
From BFG Require Import Base.Chars.
Local Open Scope N_scope.

Definition c_bang : char := 33.
Definition c_caret : char := 94.

(* ------------------------------------------------------------------ fnmatch *)
Inductive sitem := IChar (c : char) | IRange (lo hi : char).
Inductive tok := TStar | TAny | TLit (c : char) | TSet (neg : bool) (items : list sitem).

Definition in_item (x : char) (i : sitem) : bool :=
  match i with
  | IChar c => x =? c
  | IRange lo hi => (lo <=? x) && (x <=? hi)
  end.
Definition in_items (x : char) (l : list sitem) : bool := existsb (in_item x) l.

(* one non-star token against one character *)
Definition tok1 (t : tok) (x : char) : bool :=
  match t with
  | TStar => false
  | TAny => true
  | TLit c => x =? c
  | TSet neg it => xorb neg (in_items x it)
  end.

(* executable matcher: a star tries every split point (left to right) *)
Fixpoint tmatch (ts : list tok) (s : str) {struct ts} : bool :=
  match ts with
  | [] => match s with [] => true | _ :: _ => false end
  | TStar :: ts' =>
      (fix star (s : str) : bool :=
         tmatch ts' s || match s with [] => false | _ :: s' => star s' end) s
  | t :: ts' => match s with [] => false | x :: s' => tok1 t x && tmatch ts' s' end
  end.

(* declarative reading: star = any string, every other token = exactly one character *)
Inductive tok_sem : list tok -> str -> Prop :=
| ts_nil : tok_sem [] []
| ts_star ts s1 s2 : tok_sem ts s2 -> tok_sem (TStar :: ts) (s1 ++ s2)
| ts_one t ts x s : tok1 t x = true -> tok_sem ts s -> tok_sem (t :: ts) (x :: s).

(* --- parsing of a bracket expression, following fnmatch.translate of CPython 3.12 step by step *)

(* split at the first closing bracket *)
Fixpoint break_rb (s : str) : option (str * str) :=
  match s with
  | [] => None
  | c :: r => if c =? c_rb then Some ([], r)
              else match break_rb r with Some (a, b) => Some (c :: a, b) | None => None end
  end.

(* [r] is the text after the opening bracket.  Result: (stuff, text after the closing bracket);
   a leading bang and then a leading closing bracket belong to the stuff. *)
Definition split_set (r : str) : option (str * str) :=
  let '(pre1, r1) := match r with c :: r' => if c =? c_bang then ([c], r') else ([], r) | [] => ([], r) end in
  let '(pre2, r2) := match r1 with c :: r' => if c =? c_rb then ([c], r') else ([], r1) | [] => ([], r1) end in
  match break_rb r2 with
  | Some (a, b) => Some (pre1 ++ pre2 ++ a, b)
  | None => None
  end.

(* the chunk loop: a hyphen at relative position >= k ends the chunk; afterwards k = 2 *)
Fixpoint chunks_from (k : nat) (acc : str) (b : str) : list str :=
  match b with
  | [] => [rev acc]
  | c :: r =>
      match k with
      | O => if c =? c_dash then rev acc :: chunks_from 2%nat [] r else chunks_from 0%nat (c :: acc) r
      | Datatypes.S k' => chunks_from k' (c :: acc) r
      end
  end.

(* if the last chunk is empty, a hyphen is appended to the one before it *)
Fixpoint fix_last (cs : list str) : list str :=
  match cs with
  | [] => []
  | [c] => [c]
  | c :: [[]] => [c ++ [c_dash]]
  | c :: r => c :: fix_last r
  end.

Definition last_char (s : str) : char := last s 0.
Definition first_char (s : str) : char := hd 0 s.

(* removal of empty ranges, from the last chunk towards the first *)
Fixpoint drop_empty (cs : list str) : list str :=
  match cs with
  | [] => []
  | c :: r =>
      match drop_empty r with
      | [] => [c]
      | d :: r' => if first_char d <? last_char c then (removelast c ++ tl d) :: r' else c :: d :: r'
      end
  end.

(* characters and ranges denoted by a chunk list joined with range hyphens *)
Fixpoint chunk_items (cs : list str) : list sitem :=
  match cs with
  | [] => []
  | c :: r =>
      map IChar c ++
      match r with
      | [] => []
      | d :: _ => IRange (last_char c) (first_char d) :: chunk_items r
      end
  end.

Definition has_dash (s : str) : bool := existsb (fun c => c =? c_dash) s.

Definition set_tok (stuff : str) : tok :=
  let cs :=
    if has_dash stuff
    then drop_empty (fix_last (chunks_from (match stuff with c :: _ => if c =? c_bang then 2%nat else 1%nat | [] => 1%nat end)
                                           [] stuff))
    else [stuff] in
  match cs with
  | [] => TSet false []
  | c0 :: r =>
      match c0 with
      | x :: c0' =>
          if x =? c_bang
          then match c0', r with
               | [], _ :: _ => TSet true (IChar c_dash :: chunk_items r)  (* the regex set starts with the hyphen *)
               | _, _ => TSet true (chunk_items (c0' :: r))
               end
          else TSet false (chunk_items cs)
      | [] => TSet false (chunk_items cs)
      end
  end.

Fixpoint fn_parse_fuel (fuel : nat) (p : str) : list tok :=
  match fuel with
  | O => []
  | Datatypes.S fuel' =>
      match p with
      | [] => []
      | c :: r =>
          if c =? c_star then TStar :: fn_parse_fuel fuel' r
          else if c =? c_qm then TAny :: fn_parse_fuel fuel' r
          else if c =? c_lb then
            match split_set r with
            | None => TLit c_lb :: fn_parse_fuel fuel' r
            | Some (stuff, rest) => set_tok stuff :: fn_parse_fuel fuel' rest
            end
          else TLit c :: fn_parse_fuel fuel' r
      end
  end.
(* every step consumes at least one character, so fuel = length suffices (fn_parse_fuel_enough) *)
Definition fn_parse (p : str) : list tok := fn_parse_fuel (length p) p.

Definition fn_match (pat name : str) : bool := tmatch (fn_parse pat) name.

(* ------------------------------------------------------------------ PathGlob *)
Inductive res := Yes | No | Never.
Definition res_val (r : res) : nat := match r with Yes => 0%nat | No => 1%nat | Never => 2%nat end.
Definition rand (a b : res) : res := if Nat.leb (res_val a) (res_val b) then b else a.   (* max *)
Definition ror (a b : res) : res := if Nat.leb (res_val a) (res_val b) then a else b.    (* min *)
Definition is_yes (r : res) : bool := match r with Yes => true | _ => false end.

(* Glob.Type flags: file = 1, dir = 2, any = 3 *)
Inductive gtype := TFile | TDir | TAnyT.
Definition type_ok (t : gtype) (isdir : bool) : bool :=
  match t with TFile => negb isdir | TDir => isdir | TAnyT => true end.

Record path := mkpath { p_root : N; p_comps : list str; p_dir : bool }.

Definition is_glob (s : str) : bool :=
  existsb (fun c => (c =? c_star) || (c =? c_qm) || (c =? c_lb)) s.
Definition starstar : str := [c_star; c_star].

Inductive matcher := MStr (s : str) | MPat (s : str).
Definition mk_matcher (bit : str) : matcher := if is_glob bit then MPat bit else MStr bit.
Definition matcher_ok (m : matcher) (x : str) : bool :=
  match m with MStr s => str_eqb x s | MPat s => fn_match s x end.

Record run := mkrun { matchers : list matcher; rlen : nat }.

(* _compile_glob, first half: runs of matchers separated by (one or more) double stars.
   The head of the result is the run being filled; [ss] is the starstar flag. *)
Fixpoint split_runs (ss : bool) (bits : list str) : list (list matcher) :=
  match bits with
  | [] => [[]]
  | b :: r =>
      if str_eqb b starstar
      then (if ss then split_runs true r else [] :: split_runs true r)
      else match split_runs false r with
           | h :: t => (mk_matcher b :: h) :: t
           | [] => [[mk_matcher b]]
           end
  end.

(* second half: remaining total lengths *)
Fixpoint with_lengths (rs : list (list matcher)) : list run :=
  match rs with
  | [] => []
  | m :: r =>
      let rr := with_lengths r in
      mkrun m (length m + match rr with [] => 0 | x :: _ => rlen x end)%nat :: rr
  end.

Definition compile_glob (bits : list str) : list run := with_lengths (split_runs false bits).

Record pglob := mkpglob { g_root : N; g_base : list str; g_pat : list str; g_type : gtype }.

(* PathGlob.__init__ after Path.ensure: split the components at the first glob component.
   None = NonGlobError / ValueError (type f on a directory pattern). *)
Fixpoint split_first_glob (bits : list str) : option (list str * list str) :=
  match bits with
  | [] => None
  | b :: r => if is_glob b then Some ([], bits)
              else match split_first_glob r with Some (a, g) => Some (b :: a, g) | None => None end
  end.

Definition glob_type (ty : option gtype) (isdir : bool) : option gtype :=
  match ty with
  | None => Some (if isdir then TDir else TFile)
  | Some TFile => if isdir then None else Some TFile
  | Some t => Some t
  end.

Definition mk_pglob (p : path) (ty : option gtype) : option pglob :=
  match glob_type ty (p_dir p), split_first_glob (p_comps p) with
  | Some t, Some (base, g) =>
      (* an absolute pattern whose first glob component sits directly under the root: the base is rebuilt as
         Path('', Root.absolute), which raises ValueError *)
      if (p_root p =? 3) && match base with [] :: [] => true | _ => false end
      then None
      else Some (mkpglob (p_root p) base g t)
  | _, _ => None
  end.

(* _match_base: zip_longest over the base and the first len(base) components *)
Fixpoint base_res (base bits : list str) : res :=
  match base with
  | [] => Yes
  | e :: base' =>
      match bits with
      | [] => No
      | a :: bits' => if str_eqb a e then base_res base' bits' else Never
      end
  end.

Definition match_base (g : pglob) (p : path) (skip : bool) : res * list str :=
  (if skip then Yes
   else if negb (p_root p =? g_root g) then No
   else base_res (g_base g) (p_comps p),
   skipn (length (g_base g)) (p_comps p)).

(* _match_glob_run: result only; the remaining bits are skipn (length ms) bits *)
Fixpoint run_res (ms : list matcher) (bits : list str) (first : bool) : res :=
  match ms with
  | [] => Yes
  | m :: ms' =>
      match bits with
      | [] => No
      | b :: bits' => if matcher_ok m b then run_res ms' bits' first
                      else if first then Never else No
      end
  end.

(* the offset loop of _match_glob_runs: n offsets left to try, bits = path_bits[offset:] *)
Definition offset_loop (ms : list matcher) (k : list str -> res) : nat -> list str -> res :=
  fix loop (n : nat) (bits : list str) : res :=
    match n with
    | O => No
    | Datatypes.S n' =>
        if is_yes (run_res ms bits false) then k (skipn (length ms) bits)
        else match bits with [] => No | _ :: bits' => loop n' bits' end
    end.

Fixpoint match_runs (runs : list run) (bits : list str) : res :=
  match runs with
  | [] => No   (* not reachable: callers pass at least one run *)
  | r :: rest =>
      match rest with
      | [] => run_res (matchers r) (skipn (length bits - length (matchers r))%nat bits) false
      | _ :: _ =>
          offset_loop (matchers r) (fun b => match_runs rest b) (Datatypes.S (length bits) - rlen r)%nat bits
      end
  end.

(* the part of PathGlob.match after the base check *)
Definition glob_core (runs : list run) (ty : gtype) (bits : list str) (isdir : bool) : res :=
  match runs with
  | [] => No   (* not reachable: compile_glob never returns the empty list *)
  | r0 :: rest =>
      match run_res (matchers r0) bits true with
      | Yes =>
          let bits' := skipn (length (matchers r0)) bits in
          let typed := if type_ok ty isdir then Yes else No in
          match rest with
          | [] => match bits' with [] => typed | _ :: _ => Never end
          | _ :: _ => match match_runs rest bits' with Yes => typed | r' => r' end
          end
      | r' => r'
      end
  end.

Definition pg_match (g : pglob) (p : path) (skip : bool) : res :=
  let '(r, bits) := match_base g p skip in
  match r with
  | Yes => glob_core (compile_glob (g_pat g)) (g_type g) bits (p_dir p)
  | r' => r'
  end.

(* ------------------------------------------------------------------ declarative reading *)
Definition comp_sem (pc c : str) : Prop := matcher_ok (mk_matcher pc) c = true.

Inductive glob_sem : list str -> list str -> Prop :=
| gs_nil : glob_sem [] []
| gs_comp pc ps c cs : str_eqb pc starstar = false -> comp_sem pc c -> glob_sem ps cs ->
                       glob_sem (pc :: ps) (c :: cs)
| gs_zero pc ps cs : str_eqb pc starstar = true -> glob_sem ps cs -> glob_sem (pc :: ps) cs
| gs_more pc ps c cs : str_eqb pc starstar = true -> glob_sem (pc :: ps) cs -> glob_sem (pc :: ps) (c :: cs).

(* ------------------------------------------------------------------ NameGlob *)
Record nglob := mknglob { n_pat : str; n_type : gtype }.

Definition is_slash (c : char) : bool := (c =? c_slash) || (c =? c_bs).
Fixpoint drop_while (f : char -> bool) (s : str) : str :=
  match s with [] => [] | c :: r => if f c then drop_while f r else s end.

(* re.subn of the trailing-slash expression; the dollar also matches before one final newline *)
Definition strip_slashes (s : str) : str * bool :=
  match rev s with
  | [] => (s, false)
  | c :: r =>
      if is_slash c then (rev (drop_while is_slash r), true)
      else if c =? c_nl
      then match r with
           | d :: _ => if is_slash d then (rev (c_nl :: drop_while is_slash r), true) else (s, false)
           | [] => (s, false)
           end
      else (s, false)
  end.

Definition mk_nglob (pattern : str) (ty : option gtype) : option nglob :=
  let '(np, isdir) := strip_slashes pattern in
  match glob_type ty isdir with
  | Some t => Some (mknglob np t)
  | None => None
  end.

Definition basename (p : path) : str := last (p_comps p) [].

Definition ng_match (n : nglob) (p : path) : bool :=
  if fn_match (n_pat n) (basename p) then type_ok (n_type n) (p_dir p) else false.
