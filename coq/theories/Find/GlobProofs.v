(* Proofs about Find/Glob.v: component matcher against its declarative reading, PathGlob.match = Yes
   against glob_sem (needs completeness of the greedy offset loop), persistence of Never. *)
From BFG Require Import Base.Chars Find.Glob.
From Coq Require Import Lia Arith Wf_nat.

(* ------------------------------------------------------------------ component matcher *)
Lemma tmatch_star ts s :
  tmatch (TStar :: ts) s = tmatch ts s || match s with [] => false | _ :: s' => tmatch (TStar :: ts) s' end.
Proof. destruct s; reflexivity. Qed.

Lemma tmatch_one t ts s : t <> TStar ->
  tmatch (t :: ts) s = match s with [] => false | x :: s' => tok1 t x && tmatch ts s' end.
Proof. intros H. destruct t; try reflexivity. congruence. Qed.

Lemma tmatch_sound : forall ts s, tmatch ts s = true -> tok_sem ts s.
Proof.
  induction ts as [|t ts IH]; intros s H.
  - destruct s; [constructor|discriminate].
  - assert (Hd : t = TStar \/ t <> TStar) by (destruct t; auto; right; discriminate).
    destruct Hd as [->|Hn].
    + induction s as [|x s IHs].
      * rewrite tmatch_star, orb_false_r in H. apply (ts_star ts [] []). auto.
      * rewrite tmatch_star in H. apply orb_true_iff in H as [H|H].
        -- apply (ts_star ts [] (x :: s)). auto.
        -- specialize (IHs H). inversion IHs; subst.
           ++ apply (ts_star ts (x :: s1) s2). assumption.
           ++ discriminate.
    + rewrite tmatch_one in H by assumption. destruct s as [|x s]; [discriminate|].
      apply andb_true_iff in H as [H1 H2]. apply ts_one; auto.
Qed.

Lemma tmatch_complete : forall ts s, tok_sem ts s -> tmatch ts s = true.
Proof.
  intros ts s H. induction H as [|ts s1 s2 H IH|t ts x s Ht H IH].
  - reflexivity.
  - induction s1 as [|c s1 IHs].
    + rewrite tmatch_star. cbn [app]. rewrite IH. reflexivity.
    + rewrite tmatch_star. cbn [app]. rewrite IHs. apply orb_true_r.
  - rewrite tmatch_one by (intros ->; discriminate). rewrite Ht, IH. reflexivity.
Qed.

Theorem tmatch_iff ts s : tmatch ts s = true <-> tok_sem ts s.
Proof. split; [apply tmatch_sound|apply tmatch_complete]. Qed.

Theorem fn_match_iff pat name : fn_match pat name = true <-> tok_sem (fn_parse pat) name.
Proof. apply tmatch_iff. Qed.

(* the fuel of the pattern parser suffices *)
Lemma break_rb_len : forall s a b, break_rb s = Some (a, b) -> length s = Datatypes.S (length a + length b).
Proof.
  induction s as [|c s IH]; intros a b H; [discriminate|]. cbn in H.
  destruct (N.eqb c c_rb).
  - inversion H; subst. reflexivity.
  - destruct (break_rb s) as [[a' b']|] eqn:E; [|discriminate]. inversion H; subst.
    cbn. rewrite (IH a' b eq_refl). reflexivity.
Qed.

Lemma split_set_len r stuff rest : split_set r = Some (stuff, rest) -> length rest < length r.
Proof.
  unfold split_set. intros H.
  set (x1 := match r with c :: r' => if N.eqb c c_bang then ([c], r') else ([], r) | [] => ([], r) end) in H.
  assert (L1 : length (snd x1) <= length r).
  { subst x1. destruct r as [|c r']; cbn; [lia|]. destruct (N.eqb c c_bang); cbn; lia. }
  destruct x1 as [pre1 r1]. cbn [snd] in L1.
  set (x2 := match r1 with c :: r' => if N.eqb c c_rb then ([c], r') else ([], r1) | [] => ([], r1) end) in H.
  assert (L2 : length (snd x2) <= length r1).
  { subst x2. destruct r1 as [|c r']; cbn; [lia|]. destruct (N.eqb c c_rb); cbn; lia. }
  destruct x2 as [pre2 r2]. cbn [snd] in L2.
  destruct (break_rb r2) as [[a b]|] eqn:E; [|discriminate]. inversion H; subst.
  apply break_rb_len in E. lia.
Qed.

Lemma fn_parse_fuel_enough : forall fuel p, length p <= fuel -> fn_parse_fuel fuel p = fn_parse_fuel (length p) p.
Proof.
  induction fuel as [fuel IH] using lt_wf_ind. intros p Hp.
  destruct p as [|c r]; [destruct fuel; reflexivity|].
  destruct fuel as [|fuel]; [cbn in Hp; lia|]. cbn in Hp.
  cbn [length fn_parse_fuel].
  assert (Hr : fn_parse_fuel fuel r = fn_parse_fuel (length r) r) by (apply IH; lia).
  destruct (N.eqb c c_star); [now rewrite Hr|].
  destruct (N.eqb c c_qm); [now rewrite Hr|].
  destruct (N.eqb c c_lb); [|now rewrite Hr].
  destruct (split_set r) as [[stuff rest]|] eqn:E; [|now rewrite Hr].
  apply split_set_len in E.
  rewrite (IH fuel) by lia. symmetry. destruct (Nat.eq_dec (length r) fuel) as [->|Hne]; [now rewrite (IH fuel) by lia|].
  rewrite (IH (length r)) by lia. reflexivity.
Qed.

(* ------------------------------------------------------------------ runs *)
Definition all_ok (ms : list matcher) (bs : list str) : Prop :=
  Forall2 (fun m b => matcher_ok m b = true) ms bs.

Lemma all_ok_len ms bs : all_ok ms bs -> length bs = length ms.
Proof. intros H. induction H; cbn; auto. Qed.

Lemma run_yes_app : forall ms b1 b2 f, all_ok ms b1 -> run_res ms (b1 ++ b2) f = Yes.
Proof.
  induction ms as [|m ms IH]; intros b1 b2 f H; inversion H; subst; cbn; [reflexivity|].
  rewrite H2. apply IH. assumption.
Qed.

Lemma run_yes_inv : forall ms bits f, run_res ms bits f = Yes ->
  exists b1, bits = b1 ++ skipn (length ms) bits /\ all_ok ms b1.
Proof.
  induction ms as [|m ms IH]; intros bits f H.
  - exists []. split; [reflexivity|constructor].
  - destruct bits as [|b bits]; cbn in H; [discriminate|].
    destruct (matcher_ok m b) eqn:E; [|destruct f; discriminate].
    destruct (IH bits f H) as [b1 [E1 A1]]. exists (b :: b1). split.
    + cbn. f_equal. exact E1.
    + constructor; assumption.
Qed.

Lemma run_first_yes ms bits f : run_res ms bits f = Yes <-> run_res ms bits false = Yes.
Proof.
  revert bits; induction ms as [|m ms IH]; intros bits; cbn; [tauto|].
  destruct bits as [|b bits]; [tauto|]. destruct (matcher_ok m b); [apply IH|].
  destruct f; split; discriminate.
Qed.

Lemma run_false_not_never : forall ms bits, run_res ms bits false <> Never.
Proof.
  induction ms as [|m ms IH]; intros bits; cbn; [discriminate|].
  destruct bits; [discriminate|]. destruct (matcher_ok m s); [apply IH|discriminate].
Qed.

Lemma skipn_app_le {T} : forall n (l r : list T), n <= length l -> skipn n (l ++ r) = skipn n l ++ r.
Proof.
  induction n as [|n IH]; intros l r H; [reflexivity|].
  destruct l as [|x l]; cbn in H; [lia|]. cbn. apply IH. lia.
Qed.

Lemma skipn_exact {T} : forall (l r : list T), skipn (length l) (l ++ r) = r.
Proof. induction l; intros; cbn; auto. Qed.

Section Loop.
Variable ms : list matcher.
Variable k : list str -> res.

Lemma loop_sound : forall n bits, offset_loop ms k n bits = Yes ->
  exists gap b1 b2, bits = gap ++ b1 ++ b2 /\ all_ok ms b1 /\ k b2 = Yes.
Proof.
  induction n as [|n IH]; intros bits H; cbn in H; [discriminate|].
  destruct (run_res ms bits false) eqn:E; cbn [is_yes] in H.
  - destruct (run_yes_inv _ _ _ E) as [b1 [E1 A1]].
    exists [], b1, (skipn (length ms) bits). auto.
  - destruct bits as [|b bits]; [discriminate|]. destruct (IH _ H) as [gap [b1 [b2 [E1 [A1 K]]]]].
    exists (b :: gap), b1, b2. subst. auto.
  - destruct bits as [|b bits]; [discriminate|]. destruct (IH _ H) as [gap [b1 [b2 [E1 [A1 K]]]]].
    exists (b :: gap), b1, b2. subst. auto.
Qed.

(* completeness of the greedy loop: it commits to the first offset at which the run matches; any later
   offset that leads to a solution leaves a shorter remainder, and the continuation is monotone *)
Lemma loop_complete : forall gap n b1 b2,
  (forall X y, k y = Yes -> k (X ++ y) = Yes) ->
  length gap < n -> all_ok ms b1 -> k b2 = Yes ->
  offset_loop ms k n (gap ++ b1 ++ b2) = Yes.
Proof.
  induction gap as [|g gap IH]; intros n b1 b2 Mono Hn A K; (destruct n as [|n]; [cbn in Hn; lia|]).
  - cbn [app offset_loop]. rewrite (run_yes_app ms b1 b2 false A). cbn [is_yes].
    rewrite <- (all_ok_len _ _ A), skipn_exact. exact K.
  - cbn [app]. cbn [offset_loop].
    destruct (is_yes (run_res ms (g :: gap ++ b1 ++ b2) false)) eqn:E.
    + change (g :: gap ++ b1 ++ b2) with ((g :: gap) ++ b1 ++ b2). rewrite app_assoc.
      rewrite skipn_app_le.
      * apply Mono. exact K.
      * rewrite app_length, (all_ok_len _ _ A). lia.
    + apply IH; auto. cbn in Hn. lia.
Qed.
End Loop.

(* declarative reading of a list of runs: the first run is anchored at the start; every later run is
   preceded by an arbitrary gap; the whole list is anchored at the end *)
Fixpoint sem_rest (R : list (list matcher)) (b : list str) : Prop :=
  match R with
  | [] => b = []
  | m :: R' => exists gap b1 b2, b = gap ++ b1 ++ b2 /\ all_ok m b1 /\ sem_rest R' b2
  end.

Definition sem_first (R : list (list matcher)) (bits : list str) : Prop :=
  match R with
  | [] => False
  | m :: R' => exists b1 b2, bits = b1 ++ b2 /\ all_ok m b1 /\ sem_rest R' b2
  end.

Fixpoint total (R : list (list matcher)) : nat :=
  match R with [] => 0 | m :: R' => length m + total R' end.

Lemma hd_rlen_total : forall R, match with_lengths R with [] => 0 | x :: _ => rlen x end = total R.
Proof.
  induction R as [|m R IH]; [reflexivity|]. cbn [with_lengths rlen total]. rewrite IH. reflexivity.
Qed.

Lemma with_lengths_cons m R : with_lengths (m :: R) = mkrun m (total (m :: R)) :: with_lengths R.
Proof. cbn [with_lengths total]. rewrite hd_rlen_total. reflexivity. Qed.

Lemma sem_rest_mono R X y : R <> [] -> sem_rest R y -> sem_rest R (X ++ y).
Proof.
  destruct R as [|m R]; [congruence|]. intros _ [gap [b1 [b2 [E [A S]]]]].
  exists (X ++ gap), b1, b2. subst. rewrite <- app_assoc. auto.
Qed.

Lemma sem_rest_len : forall R b, sem_rest R b -> total R <= length b.
Proof.
  induction R as [|m R IH]; intros b H; cbn in *; [lia|].
  destruct H as [gap [b1 [b2 [E [A S]]]]]. subst. rewrite !app_length, (all_ok_len _ _ A).
  specialize (IH _ S). lia.
Qed.

Lemma match_runs_cons2 r r' rest b :
  match_runs (r :: r' :: rest) b =
  offset_loop (matchers r) (fun b => match_runs (r' :: rest) b) (Datatypes.S (length b) - rlen r) b.
Proof. reflexivity. Qed.

Lemma match_runs_single r b :
  match_runs [r] b = run_res (matchers r) (skipn (length b - length (matchers r)) b) false.
Proof. reflexivity. Qed.

Theorem match_runs_iff : forall R, R <> [] -> forall b,
  match_runs (with_lengths R) b = Yes <-> sem_rest R b.
Proof.
  induction R as [|m R IH]; [congruence|]. intros _ b. destruct R as [|m' R'].
  - cbn [with_lengths]. rewrite match_runs_single. cbn [matchers sem_rest]. split.
    + intros H. destruct (run_yes_inv _ _ _ H) as [b1 [E A]].
      set (d := length b - length m) in *.
      exists (firstn d b), b1, []. split; [|split; [exact A|reflexivity]].
      assert (L := all_ok_len _ _ A).
      assert (L2 : length (skipn d b) = length b - d) by apply skipn_length.
      rewrite E in L2. rewrite app_length, skipn_length in L2.
      assert (Hs : skipn (length m) (skipn d b) = []).
      { apply length_zero_iff_nil. rewrite !skipn_length. subst d. lia. }
      rewrite Hs, app_nil_r in E. rewrite app_nil_r, <- E. symmetry. apply firstn_skipn.
    + intros [gap [b1 [b2 [E [A ->]]]]]. subst b. assert (L := all_ok_len _ _ A).
      rewrite !app_length, L. cbn [length].
      replace (length gap + (length m + 0) - length m) with (length gap) by lia.
      rewrite skipn_exact. apply run_yes_app. exact A.
  - rewrite with_lengths_cons. rewrite with_lengths_cons. rewrite match_runs_cons2. cbn [matchers rlen].
    rewrite <- with_lengths_cons.
    assert (IH' : forall b, match_runs (with_lengths (m' :: R')) b = Yes <-> sem_rest (m' :: R') b)
      by (apply IH; congruence).
    split.
    + intros H. apply loop_sound in H. destruct H as [gap [b1 [b2 [E [A K]]]]].
      exists gap, b1, b2. split; [exact E|split; [exact A|]]. apply IH'. exact K.
    + intros [gap [b1 [b2 [E [A S]]]]]. subst b. apply loop_complete.
      * intros X y Hy. apply IH'. apply sem_rest_mono; [congruence|]. apply IH'. exact Hy.
      * apply sem_rest_len in S. rewrite !app_length, (all_ok_len _ _ A).
        change (total (m :: m' :: R')) with (length m + total (m' :: R')). lia.
      * exact A.
      * apply IH'. exact S.
Qed.

Lemma match_runs_not_never : forall runs b, match_runs runs b <> Never.
Proof.
  induction runs as [|r rest IH]; intros b; [discriminate|].
  destruct rest as [|r' rest].
  - rewrite match_runs_single. apply run_false_not_never.
  - rewrite match_runs_cons2. generalize (Datatypes.S (length b) - rlen r). intros n. revert b.
    induction n as [|n IHn]; intros b; cbn; [discriminate|].
    destruct (is_yes _); [apply IH|]. destruct b; [discriminate|apply IHn].
Qed.

(* ------------------------------------------------------------------ runs against glob_sem *)
Lemma split_runs_nonempty : forall bits ss, split_runs ss bits <> [].
Proof.
  induction bits as [|b r IH]; intros ss; cbn; [discriminate|].
  destruct (str_eqb b starstar).
  - destruct ss; [apply IH|discriminate].
  - destruct (split_runs false r); discriminate.
Qed.

Lemma gs_star_iff pc r bits : str_eqb pc starstar = true ->
  (glob_sem (pc :: r) bits <-> exists gap b, bits = gap ++ b /\ glob_sem r b).
Proof.
  intros Hs. split.
  - intros H. remember (pc :: r) as pat eqn:Ep. induction H as [|pc' ps c cs Hn Hc H IH|pc' ps cs Hy H IH|pc' ps c cs Hy H IH].
    + discriminate.
    + inversion Ep; subst. congruence.
    + inversion Ep; subst. exists [], cs. auto.
    + inversion Ep; subst. destruct (IH eq_refl) as [gap [b [E G]]]. exists (c :: gap), b. subst. auto.
  - intros [gap [b [E G]]]. subst bits. induction gap as [|c gap IH]; cbn.
    + apply gs_zero; assumption.
    + apply gs_more; assumption.
Qed.

Lemma all_ok_nil b : all_ok [] b <-> b = [].
Proof. split; [intros H; inversion H; reflexivity|intros ->; constructor]. Qed.

Lemma all_ok_cons m ms b : all_ok (m :: ms) b <-> exists c b', b = c :: b' /\ matcher_ok m c = true /\ all_ok ms b'.
Proof.
  split.
  - intros H. inversion H; subst. eauto.
  - intros [c [b' [-> [H1 H2]]]]. constructor; assumption.
Qed.

Theorem split_sem : forall pat bits,
  (sem_first (split_runs false pat) bits <-> glob_sem pat bits) /\
  (sem_rest (split_runs true pat) bits <-> exists gap b, bits = gap ++ b /\ glob_sem pat b).
Proof.
  induction pat as [|pc r IH]; intros bits.
  - cbn [split_runs sem_first sem_rest]. split; split.
    + intros [b1 [b2 [E [A ->]]]]. apply all_ok_nil in A. subst. constructor.
    + intros H. inversion H. exists [], []. split; [reflexivity|split; [constructor|reflexivity]].
    + intros [gap [b1 [b2 [E [A ->]]]]]. apply all_ok_nil in A. subst. exists gap, []. split; [reflexivity|constructor].
    + intros [gap [b [E G]]]. inversion G; subst. exists gap, [], []. split; [reflexivity|split; [constructor|reflexivity]].
  - cbn [split_runs]. destruct (str_eqb pc starstar) eqn:Hs.
    + split.
      * cbn [sem_first]. rewrite (gs_star_iff pc r bits Hs). rewrite <- (proj2 (IH bits)). split.
        -- intros [b1 [b2 [E [A S]]]]. apply all_ok_nil in A. subst. exact S.
        -- intros S. exists [], bits. split; [reflexivity|split; [constructor|exact S]].
      * rewrite (proj2 (IH bits)). split.
        -- intros [gap [b [E G]]]. exists gap, b. split; [exact E|apply gs_zero; assumption].
        -- intros [gap [b [E G]]]. apply (gs_star_iff pc r b Hs) in G. destruct G as [gap' [b' [E' G']]].
           exists (gap ++ gap'), b'. subst. rewrite <- app_assoc. auto.
    + destruct (split_runs false r) as [|h t] eqn:Er; [exfalso; eapply split_runs_nonempty; exact Er|].
      assert (IH1 : forall bits, sem_first (h :: t) bits <-> glob_sem r bits).
      { intros b'. apply (proj1 (IH b')). }
      cbn [sem_first sem_rest] in *. split; split.
      * intros [b1 [b2 [E [A S]]]]. apply all_ok_cons in A. destruct A as [c [b' [-> [Hc A]]]]. subst bits.
        cbn [app]. apply gs_comp; [exact Hs|exact Hc|]. apply IH1. exists b', b2. auto.
      * intros H. inversion H; subst; try congruence.
        match goal with Hg : glob_sem r _ |- _ => apply IH1 in Hg; destruct Hg as [b1 [b2 [E [A S]]]] end.
        exists (c :: b1), b2. subst. split; [reflexivity|split; [|exact S]]. constructor; assumption.
      * intros [gap [b1 [b2 [E [A S]]]]]. apply all_ok_cons in A. destruct A as [c [b' [-> [Hc A]]]]. subst bits.
        exists gap, (c :: b' ++ b2). split; [reflexivity|]. apply gs_comp; [exact Hs|exact Hc|]. apply IH1.
        exists b', b2. auto.
      * intros [gap [b [E G]]]. inversion G; subst; try congruence.
        match goal with Hg : glob_sem r _ |- _ => apply IH1 in Hg; destruct Hg as [b1 [b2 [E [A S]]]] end.
        exists gap, (c :: b1), b2. subst. split; [reflexivity|split; [|exact S]]. constructor; assumption.
Qed.

(* ------------------------------------------------------------------ PathGlob.match *)
Lemma base_res_yes : forall base bits, base_res base bits = Yes <-> exists rest, bits = base ++ rest.
Proof.
  induction base as [|e base IH]; intros bits; cbn.
  - split; [intros _; exists bits; reflexivity|reflexivity].
  - destruct bits as [|a bits].
    + split; [discriminate|intros [rest H]; discriminate].
    + destruct (str_eqb a e) eqn:E.
      * apply str_eqb_eq in E. subst. rewrite IH. split; intros [rest H]; exists rest; [now subst|now inversion H].
      * split; [discriminate|]. intros [rest H]. inversion H; subst. rewrite str_eqb_refl in E. discriminate.
Qed.

Definition base_ok (g : pglob) (p : path) (skip : bool) : Prop :=
  skip = true \/ (p_root p = g_root g /\ exists rest, p_comps p = g_base g ++ rest).

Theorem glob_core_yes pat ty bits isdir :
  glob_core (compile_glob pat) ty bits isdir = Yes <-> glob_sem pat bits /\ type_ok ty isdir = true.
Proof.
  rewrite <- (proj1 (split_sem pat bits)). unfold compile_glob.
  destruct (split_runs false pat) as [|m0 R] eqn:Er; [exfalso; eapply split_runs_nonempty; exact Er|].
  rewrite with_lengths_cons. cbn [glob_core matchers sem_first].
  destruct R as [|m1 R1].
  - cbn [with_lengths sem_rest]. split.
    + intros H. destruct (run_res m0 bits true) eqn:E; try discriminate.
      destruct (run_yes_inv _ _ _ E) as [b1 [E1 A1]].
      destruct (skipn (length m0) bits) eqn:Es; [|discriminate].
      destruct (type_ok ty isdir); [|discriminate]. split; [|reflexivity].
      exists b1, []. auto.
    + intros [[b1 [b2 [E [A ->]]]] T]. subst bits. rewrite (run_yes_app m0 b1 [] true A).
      rewrite <- (all_ok_len _ _ A), skipn_exact, T. reflexivity.
  - assert (Hne : m1 :: R1 <> []) by congruence.
    assert (IFF := match_runs_iff (m1 :: R1) Hne).
    destruct (with_lengths (m1 :: R1)) as [|r1 rs] eqn:Ew; [rewrite with_lengths_cons in Ew; discriminate|].
    split.
    + intros H. destruct (run_res m0 bits true) eqn:E; try discriminate.
      destruct (run_yes_inv _ _ _ E) as [b1 [E1 A1]].
      destruct (match_runs (r1 :: rs) (skipn (length m0) bits)) eqn:Em; try discriminate.
      destruct (type_ok ty isdir); [|discriminate]. split; [|reflexivity].
      exists b1, (skipn (length m0) bits). split; [exact E1|split; [exact A1|]]. apply IFF. exact Em.
    + intros [[b1 [b2 [E [A S]]]] T]. subst bits. rewrite (run_yes_app m0 b1 b2 true A).
      rewrite <- (all_ok_len _ _ A), skipn_exact. apply IFF in S. rewrite S, T. reflexivity.
Qed.

Theorem pg_match_yes_iff g p skip :
  pg_match g p skip = Yes <->
  base_ok g p skip /\ glob_sem (g_pat g) (skipn (length (g_base g)) (p_comps p)) /\ type_ok (g_type g) (p_dir p) = true.
Proof.
  unfold pg_match, match_base, base_ok. destruct skip.
  - rewrite glob_core_yes. tauto.
  - destruct (N.eqb (p_root p) (g_root g)) eqn:Er; cbn [negb].
    + apply N.eqb_eq in Er. destruct (base_res (g_base g) (p_comps p)) eqn:Eb.
      * rewrite glob_core_yes. apply base_res_yes in Eb. intuition.
      * split; [discriminate|]. intros [[H|[_ H]] _]; [discriminate|]. apply base_res_yes in H. congruence.
      * split; [discriminate|]. intros [[H|[_ H]] _]; [discriminate|]. apply base_res_yes in H. congruence.
    + apply N.eqb_neq in Er. split; [discriminate|]. intros [[H|[H _]] _]; [discriminate|congruence].
Qed.

(* ------------------------------------------------------------------ Never persists below a directory *)
Lemma base_res_never_ext : forall base bits ext, base_res base bits = Never -> base_res base (bits ++ ext) = Never.
Proof.
  induction base as [|e base IH]; intros bits ext H; cbn in *; [discriminate|].
  destruct bits as [|a bits]; [discriminate|]. cbn. destruct (str_eqb a e); [apply IH; assumption|reflexivity].
Qed.

Lemma run_never_ext : forall ms bits ext, run_res ms bits true = Never -> run_res ms (bits ++ ext) true = Never.
Proof.
  induction ms as [|m ms IH]; intros bits ext H; cbn in *; [discriminate|].
  destruct bits as [|b bits]; [discriminate|]. cbn. destruct (matcher_ok m b); [apply IH; assumption|reflexivity].
Qed.

Lemma run_yes_len : forall ms bits f, run_res ms bits f = Yes -> length ms <= length bits.
Proof.
  intros ms bits f H. destruct (run_yes_inv _ _ _ H) as [b1 [E A]]. rewrite E, app_length, (all_ok_len _ _ A). lia.
Qed.

Lemma run_yes_ext ms bits ext f : run_res ms bits f = Yes -> run_res ms (bits ++ ext) f = Yes.
Proof.
  intros H. destruct (run_yes_inv _ _ _ H) as [b1 [E A]]. rewrite E, <- app_assoc. apply run_yes_app. exact A.
Qed.

Theorem glob_core_never_ext runs ty bits isdir ext isdir' :
  glob_core runs ty bits isdir = Never -> glob_core runs ty (bits ++ ext) isdir' = Never.
Proof.
  destruct runs as [|r0 rest]; cbn [glob_core]; [discriminate|].
  destruct (run_res (matchers r0) bits true) eqn:E.
  - rewrite (run_yes_ext _ _ ext _ E). rewrite skipn_app_le by (eapply run_yes_len; exact E).
    destruct rest as [|r1 rest].
    + destruct (skipn (length (matchers r0)) bits) as [|x l]; [destruct (type_ok ty isdir); discriminate|].
      reflexivity.
    + intros H. exfalso. destruct (match_runs (r1 :: rest) (skipn (length (matchers r0)) bits)) eqn:Em.
      * destruct (type_ok ty isdir); discriminate.
      * discriminate.
      * eapply match_runs_not_never. exact Em.
  - discriminate.
  - intros _. rewrite (run_never_ext _ _ ext E). reflexivity.
Qed.

Definition below (d q : path) : Prop :=
  p_root q = p_root d /\ exists ext, p_comps q = p_comps d ++ ext.

Theorem pg_never_persists g d q skip : pg_match g d skip = Never -> below d q -> pg_match g q skip = Never.
Proof.
  intros H [Hr [ext Hc]]. unfold pg_match, match_base in *. rewrite Hr, Hc.
  destruct skip.
  - destruct (Nat.le_gt_cases (length (g_base g)) (length (p_comps d))) as [Hl|Hl].
    + rewrite skipn_app_le by exact Hl. eapply glob_core_never_ext. exact H.
    + exfalso. rewrite skipn_all2 in H by lia.
      (* nothing left after the base: the core cannot answer Never *)
      unfold glob_core in H. destruct (compile_glob (g_pat g)) as [|r0 rest]; [discriminate|].
      destruct (matchers r0) as [|m ms]; cbn in H.
      * destruct rest as [|r1 rest]; [destruct (type_ok _ _); discriminate|].
        destruct (match_runs (r1 :: rest) []) eqn:Em; [destruct (type_ok _ _); discriminate|discriminate|].
        eapply match_runs_not_never; exact Em.
      * discriminate.
  - destruct (negb (N.eqb (p_root d) (g_root g))); [discriminate|].
    destruct (base_res (g_base g) (p_comps d)) eqn:Eb.
    + assert (Eb' := Eb). apply base_res_yes in Eb'. destruct Eb' as [rest Erest].
      assert (Ey : base_res (g_base g) (p_comps d ++ ext) = Yes).
      { apply base_res_yes. exists (rest ++ ext). rewrite Erest, app_assoc. reflexivity. }
      rewrite Ey. rewrite skipn_app_le by (rewrite Erest, app_length; lia).
      eapply glob_core_never_ext. exact H.
    + discriminate.
    + rewrite (base_res_never_ext _ _ ext Eb). reflexivity.
Qed.

Corollary pg_never_sound g d q skip : pg_match g d skip = Never -> below d q -> pg_match g q skip <> Yes.
Proof. intros H B. rewrite (pg_never_persists g d q skip H B). discriminate. Qed.

(* ------------------------------------------------------------------ Result lattice *)
Lemma ror_comm a b : ror a b = ror b a. Proof. destruct a, b; reflexivity. Qed.
Lemma ror_assoc a b c : ror a (ror b c) = ror (ror a b) c. Proof. destruct a, b, c; reflexivity. Qed.
Lemma ror_idem a : ror a a = a. Proof. destruct a; reflexivity. Qed.
Lemma rand_comm a b : rand a b = rand b a. Proof. destruct a, b; reflexivity. Qed.
Lemma rand_assoc a b c : rand a (rand b c) = rand (rand a b) c. Proof. destruct a, b, c; reflexivity. Qed.
Lemma rand_idem a : rand a a = a. Proof. destruct a; reflexivity. Qed.
Lemma r_absorb1 a b : ror a (rand a b) = a. Proof. destruct a, b; reflexivity. Qed.
Lemma r_absorb2 a b : rand a (ror a b) = a. Proof. destruct a, b; reflexivity. Qed.
