(* Model of path.walk / listdir over an inductive tree, _find_files (with its in-place pruning of the
   directory list), find_from_filter with FindCache and the dist registration.  Model only. *)
From BFG Require Import Base.Chars Find.Glob Find.Filter.
Local Open Scope N_scope.

(* children are in os.listdir order; [link] = the directory entry is a symbolic link (to a directory) *)
(* [broken] = a dangling symbolic link: listed by its parent, but path.exists is false for it *)
Inductive tree := File (n : str) (broken : bool) | Dir (n : str) (link : bool) (ch : list tree).

Definition tname (t : tree) : str := match t with File n _ => n | Dir n _ _ => n end.
Definition is_dirt (t : tree) : bool := match t with Dir _ _ _ => true | File _ _ => false end.

Definition child (p : path) (n : str) (d : bool) : path := mkpath (p_root p) (p_comps p ++ [n]) d.
Definition tpath (p : path) (t : tree) : path := child p (tname t) (is_dirt t).

(* one step of the walk as consumed by _find_files: the directories of the listing, then the rest *)
Definition level (m : path -> fres) (p : path) (ch : list tree) : list (path * fres) :=
  map (fun t => (tpath p t, m (tpath p t))) (filter is_dirt ch) ++
  map (fun t => (tpath p t, m (tpath p t))) (filter (fun t => negb (is_dirt t)) ch).

(* entries produced by descending into [t], which lives in directory [p]; [prune] says which directories
   the consumer deleted from the list; symbolic links are listed but not followed *)
Fixpoint walk_tree (prune : path -> bool) (m : path -> fres) (p : path) (t : tree) : list (path * fres) :=
  match t with
  | File _ _ => []
  | Dir n link sub =>
      let q := child p n true in
      if link || prune q then [] else level m q sub ++ flat_map (walk_tree prune m q) sub
  end.

Definition walk_top (prune : path -> bool) (m : path -> fres) (p : path) (ch : list tree) : list (path * fres) :=
  level m p ch ++ flat_map (walk_tree prune m p) ch.

Fixpoint seen_tree (prune : path -> bool) (p : path) (t : tree) : list path :=
  match t with
  | File _ _ => []
  | Dir n link sub =>
      let q := child p n true in
      if link || prune q then [] else q :: flat_map (seen_tree prune q) sub
  end.
Definition seen_top (prune : path -> bool) (p : path) (ch : list tree) : list path :=
  p :: flat_map (seen_tree prune p) ch.

(* a start directory with its listing; None = does not exist *)
Definition start := (path * option (list tree))%type.

Definition find_files (prune : path -> bool) (m : path -> fres) (starts : list start) : list (path * fres) :=
  map (fun s => (fst s, m (fst s))) starts ++
  flat_map (fun s => match snd s with Some ch => walk_top prune m (fst s) ch | None => [] end) starts.

Definition seen_dirs (prune : path -> bool) (starts : list start) : list path :=
  flat_map (fun s => match snd s with Some ch => seen_top prune (fst s) ch | None => [] end) starts.

(* the three pruning policies: as implemented; only the documented exclusions; none *)
Definition hard_excl (f : ffilter) (p : path) : bool :=
  any_ng (f_excl f) p || match f_fn f with Some fn => is_er (snd fn p) | None => false end.
Definition prune_real (f : ffilter) (p : path) : bool := is_er (fmatch f p).
Definition prune_doc (f : ffilter) (p : path) : bool := hard_excl f p.
Definition prune_none (p : path) : bool := false.

Definition found_of (l : list (path * fres)) : list path := map fst (filter (fun e => is_inc (snd e)) l).
Definition extra_of (l : list (path * fres)) : list path := map fst (filter (fun e => is_notnow (snd e)) l).

(* ---- file system lookup of a start directory *)
Fixpoint find_child (c : str) (ch : list tree) : option tree :=
  match ch with
  | [] => None
  | t :: r => if str_eqb (tname t) c then Some t else find_child c r
  end.

(* None = path.exists is false; a non-directory start exists but lists nothing (OSError swallowed) *)
Fixpoint lookup (ch : list tree) (comps : list str) : option (list tree) :=
  match comps with
  | [] => Some ch
  | c :: r =>
      match find_child c ch with
      | Some (Dir _ _ sub) => lookup sub r
      | Some (File _ broken) => match r with [] => if broken then None else Some [] | _ :: _ => None end
      | None => None
      end
  end.

Definition fsys := list (N * list tree).
Fixpoint root_children (fs : fsys) (root : N) : option (list tree) :=
  match fs with
  | [] => None
  | (r, ch) :: rest => if r =? root then Some ch else root_children rest root
  end.
Definition start_of (fs : fsys) (p : path) : start :=
  (p, match root_children fs (p_root p) with Some ch => lookup ch (p_comps p) | None => None end).

(* ---- find_from_filter *)
Definition pkey := (N * list str)%type.
Definition pkey_of (p : path) : pkey := (p_root p, p_comps p).
Definition pkey_eqb (a b : pkey) : bool :=
  (fst a =? fst b) && (if list_eq_dec str_eq_dec (snd a) (snd b) then true else false).

Record fstate := mkst {
  st_cache : list (fkey * (list path * list path));
  st_dist : list pkey;       (* keys of build._sources in insertion order *)
  st_dirs : list path        (* find_dirs (a set in Python; compared as a set) *)
}.

(* static_file: registered only when dist is set and the path is in the source directory;
   build._sources is a dict keyed by the path *)
Definition dist_add (dist : bool) (d : list pkey) (p : path) : list pkey :=
  if dist && (p_root p =? 1)
  then (if existsb (pkey_eqb (pkey_of p)) d then d else d ++ [pkey_of p])
  else d.

Fixpoint cache_get (k : fkey) (c : list (fkey * (list path * list path))) : option (list path * list path) :=
  match c with
  | [] => None
  | (k', v) :: r => if fkey_eq_dec k' k then Some v else cache_get k r
  end.

(* [fixed] = the cache-hit branch re-registers the cached extra files (repo commit 491a34f);
   fixed = false is the branch as it was written before *)
Definition find_from_filter (fixed : bool) (f : ffilter) (starts : list start) (dist cache : bool) (st : fstate)
  : list path * fstate :=
  match (if cache then cache_get (key_of f) (st_cache st) else None) with
  | Some (found, extra) =>
      let d1 := if fixed then fold_left (dist_add dist) extra (st_dist st) else st_dist st in
      (found, mkst (st_cache st) (fold_left (dist_add dist) found d1) (st_dirs st))
  | None =>
      let ents := find_files (prune_real f) (fmatch f) starts in
      let d := fold_left (fun d e => if is_inc (snd e) || is_notnow (snd e) then dist_add dist d (fst e) else d)
                         ents (st_dist st) in
      if cache
      then (found_of ents,
            mkst (st_cache st ++ [(key_of f, (found_of ents, extra_of ents))]) d
                 (st_dirs st ++ seen_dirs (prune_real f) starts))
      else (found_of ents, mkst (st_cache st) d (st_dirs st))
  end.
