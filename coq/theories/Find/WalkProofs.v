(* Proofs about Find/Walk.v: pruning on a Never answer is invisible, the walk finds exactly the
   declaratively selected entries, found entries are entries of the tree, extras are disjoint from found
   and registered for dist, the cache returns the first result. *)
From BFG Require Import Base.Chars Find.Glob Find.GlobProofs Find.Filter Find.FilterProofs Find.Walk.
From Coq Require Import Lia.

(* ---- induction principle for the nested tree type *)
Section TreeInd.
Variable P : tree -> Prop.
Hypothesis HF : forall n b, P (File n b).
Hypothesis HD : forall n l ch, Forall P ch -> P (Dir n l ch).
Fixpoint tree_ind' (t : tree) : P t :=
  match t with
  | File n b => HF n b
  | Dir n l ch =>
      HD n l ch ((fix go (ch : list tree) : Forall P ch :=
                    match ch with
                    | [] => Forall_nil P
                    | c :: r => Forall_cons c (tree_ind' c) (go r)
                    end) ch)
  end.
End TreeInd.

(* ---- small list facts *)
Lemma found_of_app a b : found_of (a ++ b) = found_of a ++ found_of b.
Proof. unfold found_of. rewrite filter_app, map_app. reflexivity. Qed.

Lemma found_of_flat_map {T} (g : T -> list (path * fres)) l :
  found_of (flat_map g l) = flat_map (fun x => found_of (g x)) l.
Proof. induction l as [|x l IH]; cbn [flat_map]; [reflexivity|]. rewrite found_of_app, IH. reflexivity. Qed.

Lemma flat_map_ext_Forall {T U} (g h : T -> list U) l :
  Forall (fun x => g x = h x) l -> flat_map g l = flat_map h l.
Proof. induction 1; cbn; [reflexivity|]. congruence. Qed.

Lemma flat_map_nil_Forall {T U} (g : T -> list U) l : Forall (fun x => g x = []) l -> flat_map g l = [].
Proof. induction 1; cbn; [reflexivity|]. rewrite H, IHForall. reflexivity. Qed.

Lemma below_refl_child p n d : below p (child p n d).
Proof. split; [reflexivity|]. exists [n]. reflexivity. Qed.

Lemma below_trans a b c : below a b -> below b c -> below a c.
Proof.
  intros [R1 [e1 E1]] [R2 [e2 E2]]. split; [congruence|]. exists (e1 ++ e2). rewrite E2, E1, app_assoc. reflexivity.
Qed.

Lemma below_child_dir p n d x : below (child p n d) x -> below (child p n true) x.
Proof. intros H. exact H. Qed.

Section Walk.
Variable f : ffilter.
Notation m := (fmatch f).

Lemma found_level_dead p ch : (forall x, below p x -> is_inc (m x) = false) -> found_of (level m p ch) = [].
Proof.
  intros H. unfold level. rewrite found_of_app. unfold found_of.
  assert (E : forall l, map fst (filter (fun e : path * fres => is_inc (snd e))
                          (map (fun t => (tpath p t, m (tpath p t))) l)) = []).
  { induction l as [|t l IH]; cbn; [reflexivity|].
    rewrite (H (tpath p t)) by apply below_refl_child. exact IH. }
  rewrite !E. reflexivity.
Qed.

(* nothing is found in a subtree below which nothing is included *)
Lemma found_walk_dead prune : forall t p,
  (forall x, below (child p (tname t) true) x -> is_inc (m x) = false) ->
  found_of (walk_tree prune m p t) = [].
Proof.
  induction t as [n b|n link sub IH] using tree_ind'; intros p H; cbn [walk_tree]; [reflexivity|].
  cbn [tname] in H. destruct (link || prune (child p n true)); [reflexivity|].
  rewrite found_of_app, found_level_dead by exact H. cbn [app].
  rewrite found_of_flat_map. apply flat_map_nil_Forall.
  eapply Forall_impl; [|exact IH]. cbn beta. intros c Hc. apply Hc.
  intros x Hx. apply H. eapply below_trans; [apply below_refl_child|exact Hx].
Qed.

Lemma hard_excl_er q : hard_excl f q = true -> m q = ExclRec.
Proof.
  unfold hard_excl, fmatch, match_globs. intros H. apply orb_true_iff in H as [H|H].
  - rewrite H. destruct (f_fn f); [|reflexivity]. destruct (snd p q); reflexivity.
  - destruct (f_fn f) as [fn|]; [|discriminate]. destruct (snd fn q); try discriminate.
    destruct (if any_ng (f_excl f) q then ExclRec else _); reflexivity.
Qed.

Lemma er_not_hard_never q : m q = ExclRec -> hard_excl f q = false -> inc_res f q = Never.
Proof.
  unfold hard_excl, fmatch. intros H Hh. apply orb_false_iff in Hh as [H1 H2].
  assert (Hm : match_globs f q = ExclRec).
  { destruct (f_fn f) as [fn|]; [|exact H]. apply fand_er in H as [H|H]; [exact H|]. rewrite H in H2. discriminate. }
  unfold match_globs in Hm. rewrite H1 in Hm.
  destruct (inc_res f q); cbn in Hm; try reflexivity.
  - discriminate.
  - destruct (any_ng (f_extra f) q); discriminate.
Qed.

(* pruning a directory because the globs answered never does not change what is found *)
Theorem pruning_invisible_tree : forall t p,
  found_of (walk_tree (prune_real f) m p t) = found_of (walk_tree (prune_doc f) m p t).
Proof.
  induction t as [n b|n link sub IH] using tree_ind'; intros p; [reflexivity|].
  cbn [walk_tree]. destruct link; [reflexivity|]. cbn [orb].
  unfold prune_real at 1, prune_doc at 1. set (q := child p n true).
  destruct (hard_excl f q) eqn:Hh.
  - rewrite (hard_excl_er q Hh). reflexivity.
  - destruct (is_er (m q)) eqn:He.
    + assert (Hm : m q = ExclRec) by (destruct (m q); try discriminate; reflexivity).
      assert (Hn := er_not_hard_never q Hm Hh).
      symmetry.
      assert (D := found_walk_dead (prune_doc f) (Dir n false sub) p).
      cbn [walk_tree tname orb] in D. fold q in D. unfold prune_doc at 1 in D. rewrite Hh in D.
      apply D. intros x Hx. apply inc_res_never_not_include. eapply inc_res_never_below; eassumption.
    + rewrite !found_of_app, !found_of_flat_map. f_equal.
      apply flat_map_ext_Forall. eapply Forall_impl; [|exact IH]. cbn beta. intros c Hc. apply Hc.
Qed.

Theorem pruning_invisible_top p ch :
  found_of (walk_top (prune_real f) m p ch) = found_of (walk_top (prune_doc f) m p ch).
Proof.
  unfold walk_top. rewrite !found_of_app, !found_of_flat_map. f_equal.
  apply flat_map_ext_Forall. apply Forall_forall. intros t _. apply pruning_invisible_tree.
Qed.

Theorem pruning_invisible starts :
  found_of (find_files (prune_real f) m starts) = found_of (find_files (prune_doc f) m starts).
Proof.
  unfold find_files. rewrite !found_of_app, !found_of_flat_map. f_equal.
  apply flat_map_ext_Forall. apply Forall_forall. intros [p [ch|]] _; cbn [fst snd]; [|reflexivity].
  apply pruning_invisible_top.
Qed.

(* ---- declarative selection over the tree *)
(* an entry of the listing [ch] of directory [p] is selected when the filter includes it; entries deeper down
   are reachable only through directories that are not symbolic links and not excluded by an exclude pattern
   (or an exclude_recursive answer of the filter function) *)
Inductive selected : path -> list tree -> path -> Prop :=
| sel_here p ch t : In t ch -> m (tpath p t) = Include -> selected p ch (tpath p t)
| sel_below p ch n sub x : In (Dir n false sub) ch -> hard_excl f (child p n true) = false ->
                           selected (child p n true) sub x -> selected p ch x.

Lemma in_found_of x l : In x (found_of l) <-> In (x, Include) l.
Proof.
  unfold found_of. rewrite in_map_iff. split.
  - intros [[y r] [E H]]. cbn in E. subst. apply filter_In in H as [H1 H2]. cbn in H2. destruct r; try discriminate. exact H1.
  - intros H. exists (x, Include). split; [reflexivity|]. apply filter_In. auto.
Qed.

Lemma in_level e p ch : In e (level m p ch) <-> exists t, In t ch /\ e = (tpath p t, m (tpath p t)).
Proof.
  unfold level. rewrite in_app_iff, !in_map_iff. split.
  - intros [[t [E H]]|[t [E H]]]; apply filter_In in H as [H _]; exists t; auto.
  - intros [t [H E]]. destruct (is_dirt t) eqn:D; [left|right]; exists t; (split; [auto|]); apply filter_In;
      rewrite ?D; auto.
Qed.

Lemma walk_doc_dir p n sub : hard_excl f (child p n true) = false ->
  walk_tree (prune_doc f) m p (Dir n false sub) = walk_top (prune_doc f) m (child p n true) sub.
Proof. intros H. cbn [walk_tree orb]. unfold prune_doc at 1. rewrite H. reflexivity. Qed.

Lemma selected_complete p ch x : selected p ch x -> In x (found_of (walk_top (prune_doc f) m p ch)).
Proof.
  induction 1 as [p ch t Ht Hm|p ch n sub x Hin Hh Hs IH].
  - apply in_found_of. unfold walk_top. apply in_app_iff. left. apply in_level. exists t. rewrite Hm. auto.
  - apply in_found_of. apply in_found_of in IH. unfold walk_top at 1. apply in_app_iff. right.
    apply in_flat_map. exists (Dir n false sub). split; [exact Hin|]. rewrite walk_doc_dir by exact Hh. exact IH.
Qed.

Lemma selected_sound_tree : forall t p x, In (x, Include) (walk_tree (prune_doc f) m p t) ->
  exists n sub, t = Dir n false sub /\ hard_excl f (child p n true) = false /\ selected (child p n true) sub x.
Proof.
  induction t as [n b|n link sub IH] using tree_ind'; intros p x H; cbn [walk_tree] in H; [destruct H|].
  destruct link; cbn [orb] in H; [destruct H|]. unfold prune_doc at 1 in H.
  destruct (hard_excl f (child p n true)) eqn:Hh; [destruct H|].
  exists n, sub. split; [reflexivity|split; [exact Hh|]].
  apply in_app_iff in H as [H|H].
  - apply in_level in H. destruct H as [t [Ht E]]. inversion E; subst. apply sel_here; auto.
  - apply in_flat_map in H. destruct H as [c [Hc H]]. rewrite Forall_forall in IH.
    destruct (IH c Hc _ _ H) as [n' [sub' [-> [Hh' Hs]]]]. eapply sel_below; eauto.
Qed.

Theorem walk_selected p ch x : In x (found_of (walk_top (prune_doc f) m p ch)) <-> selected p ch x.
Proof.
  split; [|apply selected_complete]. intros H. apply in_found_of in H. unfold walk_top in H.
  apply in_app_iff in H as [H|H].
  - apply in_level in H. destruct H as [t [Ht E]]. inversion E; subst. apply sel_here; auto.
  - apply in_flat_map in H. destruct H as [c [Hc H]].
    destruct (selected_sound_tree c p x H) as [n [sub [-> [Hh Hs]]]]. eapply sel_below; eauto.
Qed.

(* as implemented (pruning included) = the declarative selection *)
Theorem find_selected p ch x : In x (found_of (walk_top (prune_real f) m p ch)) <-> selected p ch x.
Proof. rewrite pruning_invisible_top. apply walk_selected. Qed.

(* ---- found entries are entries of the tree *)
Inductive in_tree : path -> list tree -> path -> Prop :=
| it_here p ch t : In t ch -> in_tree p ch (tpath p t)
| it_below p ch n l sub x : In (Dir n l sub) ch -> in_tree (child p n true) sub x -> in_tree p ch x.

Lemma walk_tree_in_tree prune : forall t p e, In e (walk_tree prune m p t) ->
  exists n l sub, t = Dir n l sub /\ in_tree (child p n true) sub (fst e) /\ snd e = m (fst e).
Proof.
  induction t as [n b|n link sub IH] using tree_ind'; intros p e H; cbn [walk_tree] in H; [destruct H|].
  destruct (link || prune (child p n true)); [destruct H|].
  exists n, link, sub. split; [reflexivity|]. apply in_app_iff in H as [H|H].
  - apply in_level in H. destruct H as [t [Ht ->]]. cbn. split; [apply it_here; exact Ht|reflexivity].
  - apply in_flat_map in H. destruct H as [c [Hc H]]. rewrite Forall_forall in IH.
    destruct (IH c Hc _ _ H) as [n' [l' [sub' [-> [Hi Hs]]]]]. split; [|exact Hs]. eapply it_below; eauto.
Qed.

Lemma walk_top_in_tree prune p ch e : In e (walk_top prune m p ch) -> in_tree p ch (fst e) /\ snd e = m (fst e).
Proof.
  unfold walk_top. intros H. apply in_app_iff in H as [H|H].
  - apply in_level in H. destruct H as [t [Ht ->]]. cbn. split; [apply it_here; exact Ht|reflexivity].
  - apply in_flat_map in H. destruct H as [c [Hc H]].
    destruct (walk_tree_in_tree prune c p e H) as [n [l [sub [-> [Hi Hs]]]]]. split; [|exact Hs]. eapply it_below; eauto.
Qed.

(* every entry reported by _find_files is a start directory or an entry of the tree below an existing start
   directory, and its result is the filter's answer for it *)
Theorem find_files_entries prune starts e : In e (find_files prune m starts) ->
  snd e = m (fst e) /\
  ((exists s, In s starts /\ fst e = fst s) \/ (exists p ch, In (p, Some ch) starts /\ in_tree p ch (fst e))).
Proof.
  unfold find_files. intros H. apply in_app_iff in H as [H|H].
  - apply in_map_iff in H. destruct H as [s [<- Hs]]. cbn. split; [reflexivity|]. left. exists s. auto.
  - apply in_flat_map in H. destruct H as [[p [ch|]] [Hs H]]; cbn [fst snd] in H; [|destruct H].
    apply walk_top_in_tree in H. destruct H as [Hi Hr]. split; [exact Hr|]. right. exists p, ch. auto.
Qed.

Theorem found_exist starts x : In x (found_of (find_files (prune_real f) m starts)) ->
  (exists s, In s starts /\ x = fst s) \/ (exists p ch, In (p, Some ch) starts /\ in_tree p ch x).
Proof. intros H. apply in_found_of in H. apply find_files_entries in H. cbn in H. tauto. Qed.

Lemma in_extra_of x l : In x (extra_of l) <-> In (x, NotNow) l.
Proof.
  unfold extra_of. rewrite in_map_iff. split.
  - intros [[y r] [E H]]. cbn in E. subst. apply filter_In in H as [H1 H2]. cbn in H2. destruct r; try discriminate. exact H1.
  - intros H. exists (x, NotNow). split; [reflexivity|]. apply filter_In. auto.
Qed.

Theorem extras_disjoint prune starts x :
  In x (found_of (find_files prune m starts)) -> In x (extra_of (find_files prune m starts)) -> False.
Proof.
  intros H1 H2. apply in_found_of in H1. apply in_extra_of in H2.
  apply find_files_entries in H1. apply find_files_entries in H2. cbn in H1, H2. destruct H1 as [H1 _], H2 as [H2 _].
  congruence.
Qed.
End Walk.

(* ---- dist registration and the cache *)
Lemma pkey_eqb_eq a b : pkey_eqb a b = true -> a = b.
Proof.
  destruct a as [r1 c1], b as [r2 c2]. unfold pkey_eqb. cbn [fst snd]. intros H. apply andb_true_iff in H as [H1 H2].
  apply N.eqb_eq in H1. destruct (list_eq_dec str_eq_dec c1 c2); [|discriminate]. congruence.
Qed.

Lemma dist_add_mono dist d p k : In k d -> In k (dist_add dist d p).
Proof.
  unfold dist_add. intros H. destruct (dist && _); [|exact H]. destruct (existsb _ d); [exact H|].
  apply in_app_iff. auto.
Qed.

Lemma dist_add_in d p : p_root p = 1%N -> In (pkey_of p) (dist_add true d p).
Proof.
  unfold dist_add. intros ->. cbn. destruct (existsb (pkey_eqb (pkey_of p)) d) eqn:E.
  - apply existsb_exists in E. destruct E as [y [Hy E]]. apply pkey_eqb_eq in E. subst. exact Hy.
  - apply in_app_iff. right. left. reflexivity.
Qed.

Lemma fold_dist_mono dist l : forall d k, In k d -> In k (fold_left (dist_add dist) l d).
Proof. induction l as [|p l IH]; intros d k H; cbn; [exact H|]. apply IH. apply dist_add_mono. exact H. Qed.

Lemma fold_dist_in l : forall d x, In x l -> p_root x = 1%N -> In (pkey_of x) (fold_left (dist_add true) l d).
Proof.
  induction l as [|p l IH]; intros d x H Hr; [destruct H|]. cbn. destruct H as [->|H].
  - apply fold_dist_mono. apply dist_add_in. exact Hr.
  - apply IH; assumption.
Qed.

Lemma fold_ents_mono dist (l : list (path * fres)) : forall d k, In k d ->
  In k (fold_left (fun d e => if is_inc (snd e) || is_notnow (snd e) then dist_add dist d (fst e) else d) l d).
Proof.
  induction l as [|e l IH]; intros d k H; cbn; [exact H|]. apply IH.
  destruct (is_inc (snd e) || is_notnow (snd e)); [apply dist_add_mono|]; exact H.
Qed.

Lemma fold_ents_in (l : list (path * fres)) : forall d e, In e l -> is_inc (snd e) || is_notnow (snd e) = true ->
  p_root (fst e) = 1%N ->
  In (pkey_of (fst e))
     (fold_left (fun d e => if is_inc (snd e) || is_notnow (snd e) then dist_add true d (fst e) else d) l d).
Proof.
  induction l as [|e' l IH]; intros d e H Hv Hr; [destruct H|]. cbn. destruct H as [->|H].
  - rewrite Hv. apply fold_ents_mono. apply dist_add_in. exact Hr.
  - apply IH; assumption.
Qed.

Lemma cache_get_app_new k v : forall c, cache_get k c = None -> cache_get k (c ++ [(k, v)]) = Some v.
Proof.
  induction c as [|[k' v'] c IH]; cbn; intros H.
  - destruct (fkey_eq_dec k k); [reflexivity|congruence].
  - destruct (fkey_eq_dec k' k); [discriminate|]. apply IH. exact H.
Qed.

(* with dist set, everything found and every extra entry in the source directory is registered for the source
   distribution: on a search (cache miss or cache not used) ... *)
Theorem dist_registered_miss fixed f starts (cache : bool) st x :
  (if cache then cache_get (key_of f) (st_cache st) else None) = None ->
  let ents := find_files (prune_real f) (fmatch f) starts in
  In x (found_of ents) \/ In x (extra_of ents) -> p_root x = 1%N ->
  fst (find_from_filter fixed f starts true cache st) = found_of ents /\
  In (pkey_of x) (st_dist (snd (find_from_filter fixed f starts true cache st))).
Proof.
  intros Ec ents Hx Hr. unfold find_from_filter. rewrite Ec. fold ents.
  assert (Hin : In (pkey_of x) (fold_left (fun d e => if is_inc (snd e) || is_notnow (snd e)
                                                     then dist_add true d (fst e) else d) ents (st_dist st))).
  { destruct Hx as [Hx|Hx].
    - apply in_found_of in Hx. apply (fold_ents_in ents _ (x, Include)); auto.
    - apply in_extra_of in Hx. apply (fold_ents_in ents _ (x, NotNow)); auto. }
  destruct cache; cbn [fst snd st_dist]; auto.
Qed.

(* ... and, with the repaired cache-hit branch, on a cache hit *)
Theorem dist_registered_hit f starts st found extra x :
  cache_get (key_of f) (st_cache st) = Some (found, extra) ->
  In x found \/ In x extra -> p_root x = 1%N ->
  fst (find_from_filter true f starts true true st) = found /\
  In (pkey_of x) (st_dist (snd (find_from_filter true f starts true true st))).
Proof.
  intros Ec Hx Hr. unfold find_from_filter. rewrite Ec. cbn [fst snd st_dist]. split; [reflexivity|].
  destruct Hx as [Hx|Hx].
  - apply fold_dist_in; assumption.
  - apply fold_dist_mono. apply fold_dist_in; assumption.
Qed.

(* a second cached lookup of an equal filter returns the list the first one returned *)
Theorem cache_second_lookup fixed f f' starts starts' dist dist' st :
  key_of f' = key_of f ->
  let '(r1, st1) := find_from_filter fixed f starts dist true st in
  fst (find_from_filter fixed f' starts' dist' true st1) = r1.
Proof.
  intros Hk. unfold find_from_filter at 1.
  destruct (cache_get (key_of f) (st_cache st)) as [[found extra]|] eqn:Ec.
  - unfold find_from_filter. cbn [st_cache]. rewrite Hk, Ec. reflexivity.
  - unfold find_from_filter. cbn [st_cache]. rewrite Hk. rewrite (cache_get_app_new _ _ _ Ec). reflexivity.
Qed.
