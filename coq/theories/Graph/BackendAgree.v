(* C06 core: the three emitters hand the same flag words to the compiler.
   Make:   GLOBAL_X := g            (Section.flags)
           tgt: X := $(GLOBAL_X) t  (target-specific, immediate)      recipe uses $(X)
   Ninja:  global_x = g ; x = ${global_x}   (file level)
           edge:  x = ${global_x} t                                    rule uses ${x}
   compdb: arguments = ... g ++ t ...        (a JSON list, no quoting layer)
   For each backend the words the started process receives for the flag variable are g ++ t. *)
From Coq Require Import ZArith Lia ZifyBool.
From BFG Require Import Base.Chars Shell.PosixQuote Shell.Sh Shell.PosixQuoteProofs
  Make.MakeWrite Make.MakeRead Make.MakeProofs Ninja.NinjaWrite Ninja.NinjaRead Ninja.NinjaProofs.
Local Open Scope N_scope.

Definition upd (v : str -> str) (n : str) (x : str) : str -> str := fun m => if str_eqb m n then x else v m.

Lemma upd_same v n x : upd v n x n = x.
Proof. unfold upd. now rewrite str_eqb_refl. Qed.

(* a variable name that can be referenced as $(NAME) / ${name} *)
Definition mk_name_ok (n : str) : bool := forallb ref_char n && negb (match n with [] => true | _ => false end).

Definition mk_ref (n : str) : str := c_dollar :: c_lp :: n ++ [c_rp].

Lemma expand_ref_go v n : forall acc rest,
  forallb ref_char n = true ->
  expand_go v (XR acc) (n ++ c_rp :: rest) = option_map (app (v (acc ++ n))) (expand_go v XN rest).
Proof.
  induction n as [|c n IH]; intros acc rest H.
  - cbn. now rewrite app_nil_r.
  - cbn [forallb] in H. apply andb_true_iff in H as [Hc Hn]. cbn [app expand_go].
    assert (N.eqb c c_rp = false) as ->.
    { destruct (N.eqb c c_rp) eqn:E; [|reflexivity]. apply N.eqb_eq in E; subst c. discriminate. }
    rewrite Hc, IH by assumption. now rewrite <- app_assoc.
Qed.

Lemma expand_ref v n rest : forallb ref_char n = true ->
  expand_go v XN (mk_ref n ++ rest) = option_map (app (v n)) (expand_go v XN rest).
Proof.
  intros H. unfold mk_ref. cbn [app expand_go]. change (N.eqb c_dollar c_dollar) with true. cbn iota.
  change (N.eqb c_lp c_dollar) with false. change (N.eqb c_lp c_lp) with true. cbn iota.
  rewrite <- app_assoc. cbn [app]. now rewrite expand_ref_go.
Qed.

Section Agree.
Variable uw us : char -> bool.

(* ---- Make ---- *)
(* text of  tgt: X := $(GLOBAL_X) t...  : the reference is a literal fragment followed by the words *)
Definition make_target_items (gname : str) (t : list str) : list (list mfrag) :=
  [MLit (mk_ref gname)] :: words_items t.

Lemma write_each_lit_cons lit t :
  write_each uw us ([MLit lit] :: words_items t) SynShell =
  match t with
  | [] => Some lit
  | _ => option_map (fun u => lit ++ c_sp :: u) (write_each uw us (words_items t) SynShell)
  end.
Proof.
  destruct t as [|w t]; [cbn; now rewrite app_nil_r|].
  change (words_items (w :: t)) with ([MStr w] :: words_items t).
  cbn [write_each write_jbos write cat2]. rewrite app_nil_r.
  change ([MStr w] :: words_items t) with (words_items (w :: t)).
  destruct (write_each uw us (words_items (w :: t)) SynShell); reflexivity.
Qed.

End Agree.

(* variable names are made of ASCII word characters *)
Definition name_ok (n : str) : bool := forallb is_ascii_word n.

Lemma word_char_props c : is_ascii_word c = true ->
  ref_char c = true /\ N.eqb c c_bs = false /\ N.eqb c c_hash = false /\ N.eqb c 125 = false /\
  braced_var_char c = true /\ N.eqb c c_dollar = false.
Proof.
  unfold is_ascii_word, is_digit, is_upper, is_lower, ref_char, braced_var_char, simple_var_char, is_ascii_word,
    is_digit, is_upper, is_lower, mem_char, c_us, c_bs, c_hash, c_dash, c_dot, c_dollar.
  cbn [existsb]. intros H. repeat split; lia.
Qed.

Lemma name_ok_ref n : name_ok n = true -> forallb ref_char n = true.
Proof.
  unfold name_ok. rewrite !forallb_forall. intros H c Hc. now destruct (word_char_props c (H c Hc)) as [? _].
Qed.

Lemma hash_free s : forallb (fun c => negb (N.eqb c c_bs) && negb (N.eqb c c_hash)) s = true ->
  bs_esc hash_special 0 s = s.
Proof.
  induction s as [|c s IH]; intros Hs; [reflexivity|]. cbn [forallb] in Hs.
  apply andb_true_iff in Hs as [Hc Hs]. apply andb_true_iff in Hc as [Hb Hh].
  apply negb_true_iff in Hb, Hh. cbn [bs_esc]. change (hash_special c) with (N.eqb c c_hash). rewrite Hb, Hh. cbn. now rewrite IH.
Qed.

Lemma hash_free_ref n : name_ok n = true -> bs_esc hash_special 0 (mk_ref n) = mk_ref n.
Proof.
  intros H. apply hash_free. unfold mk_ref. cbn [forallb].
  change (negb (N.eqb c_dollar c_bs) && negb (N.eqb c_dollar c_hash)) with true.
  change (negb (N.eqb c_lp c_bs) && negb (N.eqb c_lp c_hash)) with true. cbn [andb].
  rewrite forallb_app. cbn [forallb]. change (negb (N.eqb c_rp c_bs) && negb (N.eqb c_rp c_hash)) with true.
  rewrite andb_true_r. unfold name_ok in H. rewrite forallb_forall in *. intros c Hc.
  destruct (word_char_props c (H c Hc)) as [_ [Hb [Hh _]]]. now rewrite Hb, Hh.
Qed.

Section Agree2.
Variable uw us : char -> bool.

(* ---------------- Make ---------------- *)
Theorem make_flags_words v gname g t text_g text_t :
  name_ok gname = true ->
  write_value uw us (words_items g) SynShell = Some text_g ->
  write_value uw us (make_target_items gname t) SynShell = Some text_t ->
  match assign_value v text_g with
  | Some vg => match assign_value (upd v gname vg) text_t with
               | Some vt => sh_words uw vt
               | None => None
               end
  | None => None
  end = Some (g ++ t).
Proof.
  intros Hn Hg Ht. rewrite (assign_roundtrip uw us v g text_g Hg).
  unfold write_value, make_target_items in Ht.
  pose proof (name_ok_ref gname Hn) as Hr.
  destruct t as [|w t']; rewrite write_each_lit_cons in Ht; cbv beta match in Ht.
  - cbn [option_map] in Ht.
    assert (Hs : strip_comment 0 text_t = mk_ref gname)
      by (assert (E : text_t = bs_esc hash_special 0 (mk_ref gname)) by congruence;
          rewrite E; exact (strip_comment_hash_esc (mk_ref gname) 0)).
    unfold assign_value. rewrite Hs. rewrite drop_blanks_ok by reflexivity.
    unfold expand. rewrite <- (app_nil_r (mk_ref gname)), expand_ref by assumption. cbn [expand_go option_map].
    rewrite upd_same, !app_nil_r. apply join_words.
  - destruct (write_each uw us (words_items (w :: t')) SynShell) as [u|] eqn:U; [|discriminate].
    cbn [option_map] in Ht.
    apply write_each_words in U. subst u.
    assert (Hs : strip_comment 0 text_t = mk_ref gname ++ c_sp :: join_sp (map (fun w0 => dollar_esc (quote uw w0)) (w :: t')))
      by (assert (E : text_t = bs_esc hash_special 0
                     (mk_ref gname ++ c_sp :: join_sp (map (fun w0 => dollar_esc (quote uw w0)) (w :: t')))) by congruence;
          rewrite E; exact (strip_comment_hash_esc _ 0)).
    unfold assign_value. rewrite Hs. rewrite drop_blanks_ok by reflexivity.
    unfold expand. rewrite expand_ref by assumption. rewrite upd_same.
    change (expand_go (upd v gname (join uw g)) XN (c_sp :: join_sp (map (fun w0 => dollar_esc (quote uw w0)) (w :: t'))))
      with (option_map (cons c_sp) (expand (upd v gname (join uw g)) (join_sp (map (fun w0 => dollar_esc (quote uw w0)) (w :: t'))))).
    rewrite expand_written_words. cbn [option_map]. apply join_concat_words.
Qed.

(* ---------------- Ninja ---------------- *)
Definition nj_ref (n : str) : str := c_dollar :: 123 :: n ++ [125].

Lemma nlex_braced_go path n : forall acc rest,
  name_ok n = true ->
  nlex path (LB acc) (n ++ 125 :: rest) = option_map (fun p => (TV (acc ++ n) :: fst p, snd p)) (nlex path LN rest).
Proof.
  induction n as [|c n IH]; intros acc rest H.
  - cbn. now rewrite app_nil_r.
  - unfold name_ok in H. cbn [forallb] in H. apply andb_true_iff in H as [Hc Hn].
    destruct (word_char_props c Hc) as [_ [_ [_ [H125 [Hbr _]]]]].
    cbn [app nlex]. rewrite H125, Hbr, IH by assumption. now rewrite <- app_assoc.
Qed.

Lemma nlex_ref path n rest : name_ok n = true ->
  nlex path LN (nj_ref n ++ rest) = option_map (fun p => (TV n :: fst p, snd p)) (nlex path LN rest).
Proof.
  intros H. unfold nj_ref. cbn [app nlex]. change (N.eqb c_dollar c_dollar) with true. cbn iota.
  change (N.eqb 123 c_dollar || N.eqb 123 c_sp || N.eqb 123 c_colon) with false. change (N.eqb 123 123) with true.
  cbn iota. rewrite <- app_assoc. cbn [app]. now rewrite nlex_braced_go.
Qed.

Definition ninja_edge_items (gname : str) (t : list str) : list (list nfrag) :=
  [NLit (nj_ref gname)] :: nwords_items t.

Lemma nwrite_each_lit_cons lit t :
  nwrite_each uw ([NLit lit] :: nwords_items t) NShell =
  match t with
  | [] => Some lit
  | _ => option_map (fun u => lit ++ c_sp :: u) (nwrite_each uw (nwords_items t) NShell)
  end.
Proof.
  destruct t as [|w t]; [cbn; now rewrite app_nil_r|].
  change (nwords_items (w :: t)) with ([NStr w] :: nwords_items t).
  cbn [nwrite_each nwrite_jbos nwrite cat2]. rewrite app_nil_r.
  change ([NStr w] :: nwords_items t) with (nwords_items (w :: t)).
  destruct (nwrite_each uw (nwords_items (w :: t)) NShell); reflexivity.
Qed.

Lemma skip_sp_dollar s : skip_sp (c_dollar :: s) = c_dollar :: s.
Proof. reflexivity. Qed.

(* value of the edge binding  x = ${global_x} t  in an environment where global_x = join g *)
Theorem ninja_flags_words env gname g t text_t :
  name_ok gname = true ->
  env gname = join uw g ->
  nwrite_each uw (ninja_edge_items gname t) NShell = Some text_t ->
  match option_map (neval env) (lex_value text_t) with
  | Some vt => sh_words uw vt
  | None => None
  end = Some (g ++ t).
Proof.
  intros Hn He Ht. unfold ninja_edge_items in Ht.
  destruct t as [|w t']; rewrite nwrite_each_lit_cons in Ht; cbv beta match in Ht.
  - inversion Ht; subst text_t. unfold lex_value, nj_ref. rewrite skip_sp_dollar. fold (nj_ref gname).
    rewrite <- (app_nil_r (nj_ref gname)), nlex_ref by assumption. cbn. rewrite He, !app_nil_r. apply join_words.
  - destruct (nwrite_each uw (nwords_items (w :: t')) NShell) as [u|] eqn:U; [|discriminate].
    cbn [option_map] in Ht. inversion Ht; subst text_t. clear Ht.
    apply nwrite_each_words in U as [-> Hnl].
    unfold lex_value, nj_ref. cbn [app]. rewrite skip_sp_dollar.
    change (c_dollar :: 123 :: (gname ++ [125]) ++ c_sp :: dollar_esc (join uw (w :: t')))
      with (nj_ref gname ++ c_sp :: dollar_esc (join uw (w :: t'))).
    rewrite nlex_ref by assumption.
    change (nlex false LN (c_sp :: dollar_esc (join uw (w :: t'))))
      with (option_map (fun p => (TC c_sp :: fst p, snd p)) (nlex false LN (dollar_esc (join uw (w :: t'))))).
    rewrite <- (app_nil_r (dollar_esc (join uw (w :: t')))), nlex_value_dollar_esc by assumption.
    cbn. rewrite app_nil_r, He.
    assert (NC : forall s, neval env (map TC s) = s)
      by (intros s0; rewrite <- (app_nil_r (map TC s0)), neval_chars; apply app_nil_r).
    rewrite NC. exact (join_concat_words uw g (w :: t')).
Qed.

(* ---------------- agreement ---------------- *)
(* compdb stores the argument list itself: the flag words are g ++ t by construction.  Hence all three
   backends deliver the same flag words. *)
Definition compdb_flags (g t : list str) : list str := g ++ t.

Theorem backends_agree_on_flags v env gname g t text_g text_tm text_tn :
  name_ok gname = true ->
  write_value uw us (words_items g) SynShell = Some text_g ->
  write_value uw us (make_target_items gname t) SynShell = Some text_tm ->
  env gname = join uw g ->
  nwrite_each uw (ninja_edge_items gname t) NShell = Some text_tn ->
  let via_make := match assign_value v text_g with
                  | Some vg => match assign_value (upd v gname vg) text_tm with
                               | Some vt => sh_words uw vt | None => None end
                  | None => None end in
  let via_ninja := match option_map (neval env) (lex_value text_tn) with
                   | Some vt => sh_words uw vt | None => None end in
  via_make = Some (compdb_flags g t) /\ via_ninja = Some (compdb_flags g t).
Proof.
  intros Hn Hg Htm He Htn. split.
  - exact (make_flags_words v gname g t text_g text_tm Hn Hg Htm).
  - exact (ninja_flags_words env gname g t text_tn Hn He Htn).
Qed.
End Agree2.
