(* W model of bfg9000/backends/compdb/writer.py (CompDB._stringify, _stringify_arguments, append) and of the compdb rule
   handlers builtins/compile.py compdb_compile, builtins/link.py compdb_link, together with the command line the Make
   and the Ninja handler of the SAME step write (make_compile / make_link, ninja_compile / ninja_link: the text of the
   define body resp. of the rule command, the tool variable, the global and the per-target flag variable).

   Arguments are typed (safe_str): plain str, safe_str.literal, safe_str.shell_literal, Path (root + suffix), and jbos
   (a list of these bits).  One argument is the list of its bits.

   compdb:  str -> itself; literal / shell_literal -> the OBJECT itself (not a JSON string: json.dump raises TypeError
            when the file is written); Path -> path.string(env.base_dirs), and for Root.builddir
            os.path.relpath(that, builddir); jbos -> jbos.from_iterable(bits stringified): empty strs dropped,
            neighbours of the same type merged, no bit -> the empty str, one bit -> that bit.
            arguments = list form; a shell_list is joined by shell.posix.join into the command form. *)
From BFG Require Import Path.PathAlg.
From BFG Require Import Base.Chars Shell.PosixQuote Make.MakeWrite Make.MakeRead Ninja.NinjaWrite Ninja.NinjaRead
  Graph.BackendAgree.
Local Open Scope N_scope.

Inductive croot := RSrc | RBld | RAbs.
Inductive cbit :=
| CStr (s : str) | CLit (s : str) | CShLit (s : str)
| CPath (r : croot) (sfx : str).          (* suffix already normalised by Path.__init__ (C12) *)
Definition carg := list cbit.

(* env.base_dirs realised: the absolute strings of srcdir and builddir *)
Record cdirs := mkDirs { d_src : str; d_bld : str }.

(* BasePath.string: root value, separator, suffix (realize: no separator when the suffix is empty) *)
Definition base_join (base sfx : str) : str := if is_nil sfx then base else base ++ c_slash :: sfx.
Definition path_string (d : cdirs) (r : croot) (sfx : str) : str :=
  match r with
  | RAbs => or_dot sfx
  | RSrc => base_join (d_src d) sfx
  | RBld => base_join (d_bld d) sfx
  end.
(* CompDB._stringify on a path; directory = env.builddir *)
Definition stringify_path (d : cdirs) (r : croot) (sfx : str) : str :=
  match r with
  | RBld => posix_relpath (path_string d r sfx) (d_bld d)
  | _ => path_string d r sfx
  end.

(* what _stringify leaves: str, literal, shell_literal *)
Inductive rbit := RS (s : str) | RL (s : str) | RSL (s : str).

Definition stringify_bit (d : cdirs) (b : cbit) : rbit :=
  match b with
  | CStr s => RS s | CLit s => RL s | CShLit s => RSL s
  | CPath r sfx => RS (stringify_path d r sfx)
  end.

(* jbos.__canonicalize: filter(None, bits) drops empty strs (literal objects are always truthy) ... *)
Definition keep_rbit (b : rbit) : bool := match b with RS [] => false | _ => true end.
(* ... and neighbours of the same type are merged *)
Fixpoint canon (bits : list rbit) : list rbit :=
  match bits with
  | [] => []
  | b :: r =>
    match b, canon r with
    | RS x, RS y :: r' => RS (x ++ y) :: r'
    | RL x, RL y :: r' => RL (x ++ y) :: r'
    | RSL x, RSL y :: r' => RSL (x ++ y) :: r'
    | _, cr => b :: cr
    end
  end.

(* _stringify of one argument: [] is the empty str, [b] the single thing, longer lists a jbos object *)
Definition stringify (d : cdirs) (a : carg) : list rbit := canon (filter keep_rbit (map (stringify_bit d) a)).
Definition stringify_args (d : cdirs) (args : list carg) : list (list rbit) := map (stringify d) args.

Fixpoint all_some {T} (l : list (option T)) : option (list T) :=
  match l with
  | [] => Some []
  | Some x :: r => option_map (cons x) (all_some r)
  | None :: _ => None
  end.

(* the JSON value of one stringified argument; None: not a str, json.dump raises TypeError *)
Definition json_str (bits : list rbit) : option str :=
  match bits with [] => Some [] | [RS s] => Some s | _ => None end.
(* entry['arguments'] as it lands in compile_commands.json *)
Definition arguments (d : cdirs) (args : list carg) : option (list str) :=
  all_some (map json_str (stringify_args d args)).

(* the command form: shell.posix.join = quote of every argument; quote_info walks the bits of a jbos; a literal
   raises TypeError in inner_quote_info *)
Section Command.
Variable uw : char -> bool.
Definition quote_rbit (b : rbit) : option str :=
  match b with
  | RS s => Some (quote uw s)
  | RSL s => Some s
  | RL _ => None
  end.
Definition quote_arg (bits : list rbit) : option str :=
  match bits with
  | [] => Some (quote uw [])
  | _ => option_map (@concat char) (all_some (map quote_rbit bits))
  end.
Definition command (d : cdirs) (args : list carg) : option str :=
  option_map join_sp (all_some (map quote_arg (stringify_args d args))).
End Command.

(* ------------------------------------------------------------------------------------------ entries *)
Record centry := mkEntry {
  e_directory : list rbit;
  e_arguments : list (list rbit);
  e_file : list rbit;
  e_output : list rbit
}.

Definition wd (s : str) : carg := [CStr s].
Definition wds (l : list str) : list carg := map wd l.

Definition s_c : str := [45; 99].                (* -c *)
Definition s_o : str := [45; 111].               (* -o *)
Definition s_MMD : str := [45; 77; 77; 68].      (* -MMD *)
Definition s_MF : str := [45; 77; 70].           (* -MF *)
Definition s_dotd : str := [46; 100].            (* .d *)

(* tools/cc/compiler.py CcBaseCompiler._call *)
Definition cc_compile_call (cmd always : list str) (flags : list carg) (input : carg) (deps : option carg)
    (output : carg) : list carg :=
  wds cmd ++ wds always ++ flags ++ [wd s_c; input] ++
  (match deps with Some dp => [wd s_MMD; wd s_MF; dp] | None => [] end) ++ [wd s_o; output].
(* tools/cc/linker.py CcLinker._call *)
Definition cc_link_call (cmd always : list str) (flags inputs libs : list carg) (output : carg) : list carg :=
  wds cmd ++ wds always ++ flags ++ inputs ++ libs ++ [wd s_o; output].
(* tools/ar.py ArLinker._call *)
Definition ar_call (cmd : list str) (flags inputs : list carg) (output : carg) : list carg :=
  wds cmd ++ flags ++ [output] ++ inputs.

(* a compile step as the handlers see it: compiler.command, _always_flags (without / only the Ninja colour flag),
   compiler.global_flags + compiler.flags(gopts, mode=global), rule.flags(gopts), rule.file, rule.output[0] (a
   builddir path), deps_flavor = gcc *)
Record compile_step := mkCompile {
  cs_cmd : list str; cs_always : list str; cs_color : list str;
  cs_g : list carg; cs_t : list carg;
  cs_file : croot * str; cs_out : str; cs_deps : bool
}.

Definition cpath (p : croot * str) : carg := [CPath (fst p) (snd p)].

Definition compile_args (ninja : bool) (st : compile_step) : list carg :=
  cc_compile_call (cs_cmd st) (cs_always st ++ (if ninja then cs_color st else []))
    (cs_g st ++ cs_t st) (cpath (cs_file st))
    (if cs_deps st then Some [CPath RBld (cs_out st ++ s_dotd)] else None)
    [CPath RBld (cs_out st)].

(* builtins/compile.py compdb_compile + CompDB.append; [ninja]: env.backend == ninja *)
Definition compdb_compile (d : cdirs) (ninja : bool) (st : compile_step) : centry :=
  mkEntry [RS (d_bld d)] (stringify_args d (compile_args ninja st))
          (stringify d (cpath (cs_file st))) (stringify d [CPath RBld (cs_out st)]).

(* a link step: dynamic (cc) or static (ar); files non-empty or else user_libs[0] names the entry *)
Record link_step := mkLink {
  ls_static : bool;
  ls_cmd : list str; ls_always : list str;
  ls_g : list carg; ls_t : list carg;            (* linker.global_flags + flags(gopts, global) ; rule.flags(gopts) *)
  ls_glibs : list carg; ls_tlibs : list carg;    (* linker.global_libs + lib_flags(gopts, global) ; rule.lib_flags(gopts) *)
  ls_files : list (croot * str); ls_userlib : croot * str; ls_out : str
}.

Definition link_args (st : link_step) : list carg :=
  if ls_static st
  then ar_call (ls_cmd st) (ls_g st ++ ls_t st) (map cpath (ls_files st)) [CPath RBld (ls_out st)]
  else cc_link_call (ls_cmd st) (ls_always st) (ls_g st ++ ls_t st) (map cpath (ls_files st))
         (ls_glibs st ++ ls_tlibs st) [CPath RBld (ls_out st)].

(* builtins/link.py compdb_link *)
Definition compdb_link (d : cdirs) (st : link_step) : centry :=
  mkEntry [RS (d_bld d)] (stringify_args d (link_args st))
          (stringify d (cpath (match ls_files st with f :: _ => f | [] => ls_userlib st end)))
          (stringify d [CPath RBld (ls_out st)]).

(* ------------------------------------------------------------------------------------------ the Make side *)
(* how Writer.write sees a typed argument: Path.realize(path_vars, executable = shelly): srcdir is the variable
   reference (a literal bit), builddir is None (a ./ is put before a suffix without separator) *)
Definition s_srcdir : str := [115; 114; 99; 100; 105; 114].
Definition has_slash_b (s : str) : bool := mem_char c_slash s.
Definition make_bld_spelling (sfx : str) : str :=
  if is_nil sfx then dot else if has_slash_b sfx then sfx else c_dot :: c_slash :: sfx.
Definition path_bits (ref : str) (r : croot) (sfx : str) : list (bool * str) :=
  match r with
  | RSrc => if is_nil sfx then [(true, ref)] else [(true, ref); (false, c_slash :: sfx)]
  | RBld => [(false, make_bld_spelling sfx)]
  | RAbs => [(false, or_dot sfx)]
  end.
Definition mfrag_of (b : cbit) : mfrag :=
  match b with
  | CStr s => MStr s | CLit s => MLit s | CShLit s => MShLit s
  | CPath r sfx => MPath (path_bits (mk_ref s_srcdir) r sfx)
  end.
Definition mitems (args : list carg) : list (list mfrag) := map (map mfrag_of) args.

(* qvar of a one-character name: the reference between single quotes *)
Definition qref1 (c : char) : str := [c_sq; c_dollar; c; c_sq].
Definition c_lt : char := 60.
Definition c_one : char := 49.

(* make_compile: the first line of  define RULE_X ; cname / fname: the tool and the flag variable (CC, CFLAGS) *)
Definition mk_compile_items (cname fname : str) (always : list str) (deps : bool) : list (list mfrag) :=
  [MLit (mk_ref cname)] :: words_items always ++
  [[MLit (mk_ref fname)]; [MStr s_c]; [MLit (qref1 c_lt)]] ++
  (if deps then [[MStr s_MMD]; [MStr s_MF]; [MLit (qref1 c_at); MStr s_dotd]] else []) ++
  [[MStr s_o]; [MLit (qref1 c_at)]].
(* make_link with a cc linker:  $(CC) always $(LDFLAGS) $1 $(LDLIBS) -o '$@' *)
Definition mk_link_items (cname fname lname : str) (always : list str) : list (list mfrag) :=
  [MLit (mk_ref cname)] :: words_items always ++
  [[MLit (mk_ref fname)]; [MLit [c_dollar; c_one]]; [MLit (mk_ref lname)]; [MStr s_o]; [MLit (qref1 c_at)]].
(* make_link with ar:  $(AR) $(ARFLAGS) '$@' $1 *)
Definition mk_ar_items (cname fname : str) : list (list mfrag) :=
  [[MLit (mk_ref cname)]; [MLit (mk_ref fname)]; [MLit (qref1 c_at)]; [MLit [c_dollar; c_one]]].

(* the variable context of the recipe: tool variable, flag variable(s), automatic variables, first call parameter *)
Definition recipe_env (v : vars) (binds : list (str * str)) : vars :=
  fold_left (fun acc p => upd acc (fst p) (snd p)) binds v.

(* the texts the Make backend writes for a compile step with typed flags:
   [CC := cmd ; GLOBAL_X := g ; tgt: X := $(GLOBAL_X) t ; body line] *)
Section MakeTexts.
Variable uw us : char -> bool.
Definition make_flag_texts (gname : str) (g t : list carg) : option str * option str :=
  (write_value uw us (mitems g) SynShell,
   write_value uw us ([MLit (mk_ref gname)] :: mitems t) SynShell).
Definition make_compile_texts (cname gname fname : str) (st : compile_step) : list (option str) :=
  [write_value uw us (words_items (cs_cmd st)) SynShell;
   fst (make_flag_texts gname (cs_g st) (cs_t st)); snd (make_flag_texts gname (cs_g st) (cs_t st));
   write_each uw us (mk_compile_items cname fname (cs_always st) (cs_deps st)) SynShell].
Definition make_link_texts (cname gname fname glname lname : str) (st : link_step) : list (option str) :=
  [write_value uw us (words_items (ls_cmd st)) SynShell;
   fst (make_flag_texts gname (ls_g st) (ls_t st)); snd (make_flag_texts gname (ls_g st) (ls_t st))] ++
  (if ls_static st then [write_each uw us (mk_ar_items cname fname) SynShell]
   else [fst (make_flag_texts glname (ls_glibs st) (ls_tlibs st)); snd (make_flag_texts glname (ls_glibs st) (ls_tlibs st));
         write_each uw us (mk_link_items cname fname lname (ls_always st)) SynShell]).
End MakeTexts.

(* ------------------------------------------------------------------------------------------ the Ninja side *)
Definition nfrag_of (b : cbit) : nfrag :=
  match b with
  | CStr s => NStr s | CLit s => NLit s | CShLit s => NShLit s
  | CPath r sfx => NPath (path_bits (nj_ref s_srcdir) r sfx)
  end.
Definition nitems (args : list carg) : list (list nfrag) := map (map nfrag_of) args.

Definition s_in : str := [105; 110].
Definition s_out : str := [111; 117; 116].

(* ninja_compile: rule command; always already contains the colour flag *)
Definition nj_compile_items (cname fname : str) (always : list str) (deps : bool) : list (list nfrag) :=
  [NLit (nj_ref cname)] :: nwords_items always ++
  [[NLit (nj_ref fname)]; [NStr s_c]; [NLit (nj_ref s_in)]] ++
  (if deps then [[NStr s_MMD]; [NStr s_MF]; [NLit (nj_ref s_out); NStr s_dotd]] else []) ++
  [[NStr s_o]; [NLit (nj_ref s_out)]].
Definition nj_link_items (cname fname lname : str) (always : list str) : list (list nfrag) :=
  [NLit (nj_ref cname)] :: nwords_items always ++
  [[NLit (nj_ref fname)]; [NLit (nj_ref s_in)]; [NLit (nj_ref lname)]; [NStr s_o]; [NLit (nj_ref s_out)]].
Definition nj_ar_items (cname fname : str) : list (list nfrag) :=
  [[NLit (nj_ref cname)]; [NLit (nj_ref fname)]; [NLit (nj_ref s_out)]; [NLit (nj_ref s_in)]].

Definition nenv_upd (e : nenv) (binds : list (str * str)) : nenv :=
  fold_left (fun acc p => upd acc (fst p) (snd p)) binds e.

Section NinjaTexts.
Variable uw : char -> bool.
Definition ninja_flag_texts (gname : str) (g t : list carg) : option str * option str :=
  (nwrite_each uw (nitems g) NShell, nwrite_each uw ([NLit (nj_ref gname)] :: nitems t) NShell).
Definition ninja_compile_texts (cname gname fname : str) (st : compile_step) : list (option str) :=
  [nwrite_each uw (nwords_items (cs_cmd st)) NShell;
   fst (ninja_flag_texts gname (cs_g st) (cs_t st)); snd (ninja_flag_texts gname (cs_g st) (cs_t st));
   nwrite_each uw (nj_compile_items cname fname (cs_always st ++ cs_color st) (cs_deps st)) NShell].
Definition ninja_link_texts (cname gname fname glname lname : str) (st : link_step) : list (option str) :=
  [nwrite_each uw (nwords_items (ls_cmd st)) NShell;
   fst (ninja_flag_texts gname (ls_g st) (ls_t st)); snd (ninja_flag_texts gname (ls_g st) (ls_t st))] ++
  (if ls_static st then [nwrite_each uw (nj_ar_items cname fname) NShell]
   else [fst (ninja_flag_texts glname (ls_glibs st) (ls_tlibs st)); snd (ninja_flag_texts glname (ls_glibs st) (ls_tlibs st));
         nwrite_each uw (nj_link_items cname fname lname (ls_always st)) NShell]).
End NinjaTexts.

(* ------------------------------------------------------------------------------------------ expected words *)
(* the argument words of a compile step whose flags are plain words, for given spellings of input, output, depfile *)
Definition compile_words (cmd always g t : list str) (i o : str) (dp : option str) : list str :=
  cmd ++ always ++ (g ++ t) ++ [s_c; i] ++ (match dp with Some x => [s_MMD; s_MF; x] | None => [] end) ++ [s_o; o].
Definition link_words (cmd always g t : list str) (ins : list str) (gl tl : list str) (o : str) : list str :=
  cmd ++ always ++ (g ++ t) ++ ins ++ (gl ++ tl) ++ [s_o; o].
Definition ar_words (cmd g t : list str) (ins : list str) (o : str) : list str :=
  cmd ++ (g ++ t) ++ [o] ++ ins.
