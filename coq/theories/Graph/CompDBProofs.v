(* C06: the compilation database agrees with the command lines of the Make and the Ninja backend.
   Generic part: sh word splitting and Make expansion are compositional over blank-separated pieces. *)
From Coq Require Import ZArith Lia ZifyBool.
From BFG Require Import Path.PathAlg Path.PathAlgProofs Path.PathAlgWf Path.PathAlgRt Path.PathAlgOps.
From BFG Require Import Base.Chars Shell.PosixQuote Shell.Sh Shell.PosixQuoteProofs
  Make.MakeWrite Make.MakeRead Make.MakeProofs Ninja.NinjaWrite Ninja.NinjaRead Ninja.NinjaProofs
  Graph.BackendAgree Graph.CompDB.
Local Open Scope N_scope.

Lemma omap_app_nil {T} (x : option (list T)) : option_map (app []) x = x.
Proof. destruct x; reflexivity. Qed.

Lemma omap_omap {A B C} (f : A -> B) (g : B -> C) x : option_map g (option_map f x) = option_map (fun y => g (f y)) x.
Proof. destruct x; reflexivity. Qed.

(* ------------------------------------------------------------------------------------------ sh *)
Section ShCompose.
Variable uw : char -> bool.

(* a text that sh lexes completely, followed by a blank: the tokens, then the tokens of the rest *)
Lemma lex_app_sp n : forall a inq inw cur ta rest, (length a <= n)%nat ->
  lex uw inq inw cur a = Some ta ->
  lex uw inq inw cur (a ++ c_sp :: rest) = option_map (app ta) (lex uw false false [] rest).
Proof.
  induction n as [|n IH]; intros a inq inw cur ta rest Hl H.
  - destruct a; [|cbn in Hl; lia]. cbn [app]. cbn [lex] in H. destruct inq; [discriminate|].
    injection H as <-. destruct inw.
    + rewrite lex_sep. destruct (lex uw false false [] rest); reflexivity.
    + change (lex uw false false cur (c_sp :: rest)) with (lex uw false false [] rest). now rewrite omap_app_nil.
  - destruct a as [|c r].
    { apply (IH [] inq inw cur ta rest); [cbn; lia|exact H]. }
    cbn [length] in Hl. assert (Hr : (length r <= n)%nat) by lia.
    cbn [app]. cbn [lex] in H |- *. destruct inq.
    + destruct (N.eqb c c_sq); now apply IH.
    + destruct (N.eqb c c_sq); [now apply IH|].
      destruct (N.eqb c c_bs).
      { destruct r as [|d r']; [discriminate|]. cbn [app]. destruct (N.eqb d c_nl); [discriminate|].
        apply IH; [cbn in Hr; lia|exact H]. }
      destruct (is_blank c).
      { destruct inw.
        - destruct (lex uw false false [] r) as [t'|] eqn:E; [|discriminate]. injection H as <-.
          rewrite (IH r false false [] t' rest Hr E). rewrite omap_omap. reflexivity.
        - now apply IH. }
      destruct (N.eqb c c_amp).
      { destruct r as [|d r']; [discriminate|]. cbn [app]. destruct (N.eqb d c_amp); [|discriminate].
        assert (Hr' : (length r' <= n)%nat) by (cbn in Hr; lia).
        destruct (lex uw false false [] r') as [t'|] eqn:E.
        - rewrite (IH r' false false [] t' rest Hr' E). cbn [option_map] in H.
          destruct inw; injection H as <-; rewrite !omap_omap; reflexivity.
        - destruct inw; discriminate. }
      destruct (posix_bad uw c); [discriminate|]. now apply IH.
Qed.

Lemma sh_words_inv s ws : sh_words uw s = Some ws ->
  exists ts, lex uw false false [] s = Some ts /\ words_only ts = Some ws.
Proof. unfold sh_words, sh_lex. destruct (lex uw false false [] s) as [ts|]; [eauto|discriminate]. Qed.

Theorem sh_words_app_sp a b wa wb :
  sh_words uw a = Some wa -> sh_words uw b = Some wb -> sh_words uw (a ++ c_sp :: b) = Some (wa ++ wb).
Proof.
  intros Ha Hb. apply sh_words_inv in Ha as (ta & La & Wa). apply sh_words_inv in Hb as (tb & Lb & Wb).
  unfold sh_words, sh_lex. rewrite (lex_app_sp (length a) a false false [] ta b (Nat.le_refl _) La), Lb.
  cbn [option_map]. now apply words_only_app.
Qed.

(* pieces separated by single blanks *)
Theorem sh_words_join_sp pieces wss :
  Forall2 (fun p ws => sh_words uw p = Some ws) pieces wss ->
  sh_words uw (join_sp pieces) = Some (concat wss).
Proof.
  induction 1 as [|p ws ps wss Hp Hps IH]; [reflexivity|].
  destruct ps as [|p2 ps'].
  - inversion Hps; subst. cbn. now rewrite app_nil_r.
  - change (join_sp (p :: p2 :: ps')) with (p ++ c_sp :: join_sp (p2 :: ps')). cbn [concat].
    now apply sh_words_app_sp.
Qed.

(* a quoted unit without quote characters, followed by a plain tail:  'x'tail  is the one word x ++ tail *)
Lemma quoted_unit x tail : no_sq x = true -> existsb (posix_bad uw) tail = false ->
  sh_words uw (c_sq :: x ++ c_sq :: tail) = Some [x ++ tail].
Proof.
  intros Hx Ht. unfold sh_words, sh_lex. rewrite open_quote.
  rewrite (lex_inq_plain uw x [] (c_sq :: tail) Hx). cbn [app].
  assert (E : lex uw true true (fl true x) (c_sq :: tail) = lex uw false true (fl true x) tail).
  { cbn [lex]. now rewrite N.eqb_refl. }
  rewrite E. destruct tail as [|c tl].
  - cbn [lex words_only option_map]. rewrite word_str_fl, app_nil_r. reflexivity.
  - rewrite <- (app_nil_r (c :: tl)). rewrite (lex_plain uw (c :: tl) true (fl true x) []) by (discriminate || assumption).
    cbn [lex words_only option_map]. unfold word_str. rewrite map_app.
    fold (word_str (fl true x)) (word_str (fl false (c :: tl))). rewrite !word_str_fl. now rewrite app_nil_r.
Qed.
End ShCompose.

(* ------------------------------------------------------------------------------------------ Make expansion *)
Lemma expand_go_app v a : forall st a' b,
  expand_go v st a = Some a' -> expand_go v st (a ++ b) = option_map (app a') (expand_go v XN b).
Proof.
  induction a as [|c r IH]; intros st a' b H.
  - cbn in H. destruct st; try discriminate. injection H as <-. cbn [app]. now rewrite omap_app_nil.
  - cbn [app expand_go] in H |- *. destruct st as [| |acc].
    + destruct (N.eqb c c_dollar); [now apply IH|].
      destruct (expand_go v XN r) as [x|] eqn:E; [|discriminate]. injection H as <-.
      rewrite (IH XN x b E), omap_omap. reflexivity.
    + destruct (N.eqb c c_dollar).
      { destruct (expand_go v XN r) as [x|] eqn:E; [|discriminate]. injection H as <-.
        rewrite (IH XN x b E), omap_omap. reflexivity. }
      destruct (N.eqb c c_lp); [now apply IH|].
      destruct (ref_char c); [|discriminate].
      destruct (expand_go v XN r) as [x|] eqn:E; [|discriminate]. injection H as <-.
      rewrite (IH XN x b E), omap_omap. destruct (expand_go v XN b); cbn; [now rewrite app_assoc|reflexivity].
    + destruct (N.eqb c c_rp).
      { destruct (expand_go v XN r) as [x|] eqn:E; [|discriminate]. injection H as <-.
        rewrite (IH XN x b E), omap_omap. destruct (expand_go v XN b); cbn; [now rewrite app_assoc|reflexivity]. }
      destruct (ref_char c); [now apply IH|discriminate].
Qed.

Lemma expand_app_sp v a b a' b' :
  expand v a = Some a' -> expand v b = Some b' -> expand v (a ++ c_sp :: b) = Some (a' ++ c_sp :: b').
Proof.
  unfold expand. intros Ha Hb. rewrite (expand_go_app v a XN a' (c_sp :: b) Ha).
  change (expand_go v XN (c_sp :: b)) with (option_map (cons c_sp) (expand_go v XN b)). now rewrite Hb.
Qed.

Lemma expand_join_sp v texts exs :
  Forall2 (fun t e => expand v t = Some e) texts exs -> expand v (join_sp texts) = Some (join_sp exs).
Proof.
  induction 1 as [|t e ts es Ht Hts IH]; [reflexivity|].
  destruct ts as [|t2 ts'].
  - inversion Hts; subst. exact Ht.
  - destruct es as [|e2 es']; [inversion Hts|].
    change (join_sp (t :: t2 :: ts')) with (t ++ c_sp :: join_sp (t2 :: ts')).
    change (join_sp (e :: e2 :: es')) with (e ++ c_sp :: join_sp (e2 :: es')).
    now apply expand_app_sp.
Qed.

(* ------------------------------------------------------------------------------------------ a Make command line *)
Section MakeLine.
Variable uw us : char -> bool.

(* the meaning of one item of a command line: whenever the writer accepts it, Make's expansion of the written text
   is a text that sh splits into the words [ws] *)
Definition mitem_sem (v : vars) (it : list mfrag) (ws : list str) : Prop :=
  forall t e, write_jbos uw us it SynShell QInfo = Some (t, e) ->
  exists ex, expand v t = Some ex /\ sh_words uw ex = Some ws.

Lemma write_each_inv items : forall body,
  write_each uw us items SynShell = Some body ->
  exists texts, Forall2 (fun it t => exists e, write_jbos uw us it SynShell QInfo = Some (t, e)) items texts /\
                body = join_sp texts.
Proof.
  induction items as [|x r IH]; intros body H.
  - cbn in H. injection H as <-. exists []. split; [constructor|reflexivity].
  - destruct r as [|y r'].
    + cbn [write_each] in H. destruct (write_jbos uw us x SynShell QInfo) as [[t e]|] eqn:E; [|discriminate].
      injection H as <-. exists [t]. split; [constructor; [eauto|constructor]|reflexivity].
    + change (write_each uw us (x :: y :: r') SynShell) with
        (match write_jbos uw us x SynShell QInfo, write_each uw us (y :: r') SynShell with
         | Some (t, _), Some u => Some (t ++ c_sp :: u) | _, _ => None end) in H.
      destruct (write_jbos uw us x SynShell QInfo) as [[t e]|] eqn:E; [|discriminate].
      destruct (write_each uw us (y :: r') SynShell) as [u|] eqn:U; [|discriminate].
      injection H as <-. destruct (IH u eq_refl) as (texts & F & ->).
      exists (t :: texts). split; [constructor; eauto|].
      inversion F; subst. reflexivity.
Qed.

(* composition: the written line expands to a text that sh splits into the concatenation of the items' words *)
Theorem make_line_compose v items wss body :
  Forall2 (mitem_sem v) items wss ->
  write_each uw us items SynShell = Some body ->
  exists line, expand v body = Some line /\ sh_words uw line = Some (concat wss).
Proof.
  intros Hs Hw. destruct (write_each_inv items body Hw) as (texts & F & ->).
  assert (G : exists exs, Forall2 (fun t e => expand v t = Some e) texts exs /\
                          Forall2 (fun p ws => sh_words uw p = Some ws) exs wss).
  { clear Hw. revert wss Hs. induction F as [|it t its ts [e Hit] _ IH]; intros wss Hs.
    - inversion Hs; subst. exists []. split; constructor.
    - inversion Hs as [|? ws ? wss' Hsem Hrest]; subst.
      destruct (Hsem t e Hit) as (ex & Hex & Hsh). destruct (IH wss' Hrest) as (exs & F1 & F2).
      exists (ex :: exs). split; constructor; assumption. }
  destruct G as (exs & F1 & F2). exists (join_sp exs). split.
  - now apply expand_join_sp.
  - now apply sh_words_join_sp.
Qed.

Lemma write_jbos_lit s : write_jbos uw us [MLit s] SynShell QInfo = Some (s, true).
Proof. cbn. now rewrite app_nil_r. Qed.

(* a plain word *)
Lemma mitem_word v w : mitem_sem v [MStr w] [w].
Proof.
  intros t e H. rewrite write_jbos_word in H.
  destruct (escape_str us (quote uw w) SynShell) as [x|] eqn:E; [|discriminate].
  injection H as <- _. apply escape_shell_some in E. subst x.
  exists (quote uw w). split; [apply expand_dollar_esc_id|apply quote_word].
Qed.

Lemma mitem_words v ws : Forall2 (mitem_sem v) (words_items ws) (map (fun w => [w]) ws).
Proof. induction ws as [|w ws IH]; [constructor|]. cbn [words_items map]. constructor; [apply mitem_word|exact IH]. Qed.

(* a reference to a variable whose value sh splits into ws *)
Lemma mitem_ref v n ws : name_ok n = true -> sh_words uw (v n) = Some ws -> mitem_sem v [MLit (mk_ref n)] ws.
Proof.
  intros Hn Hv t e H. rewrite write_jbos_lit in H. injection H as <- _.
  exists (v n). split; [|exact Hv]. unfold expand.
  rewrite <- (app_nil_r (mk_ref n)), expand_ref by now apply name_ok_ref. cbn. now rewrite app_nil_r.
Qed.

(* the first call parameter *)
Lemma mitem_param v ws : sh_words uw (v [c_one]) = Some ws -> mitem_sem v [MLit [c_dollar; c_one]] ws.
Proof.
  intros Hv t e H. rewrite write_jbos_lit in H. injection H as <- _.
  exists (v [c_one]). split; [|exact Hv]. cbn. now rewrite app_nil_r.
Qed.

(* an automatic variable between single quotes, optionally followed by .d *)
Lemma expand_qref1 v c tail : ref_char c = true -> N.eqb c c_dollar = false -> N.eqb c c_lp = false ->
  expand v (qref1 c ++ dollar_esc tail) = Some (c_sq :: v [c] ++ c_sq :: tail).
Proof.
  intros Hr Hd Hl. unfold expand, qref1. cbn [app expand_go].
  change (N.eqb c_sq c_dollar) with false. change (N.eqb c_dollar c_dollar) with true. cbn iota.
  rewrite Hd, Hl, Hr. change (N.eqb c_sq c_dollar) with false. cbn iota.
  rewrite <- (app_nil_r (dollar_esc tail)), expand_dollar_esc. cbn. now rewrite app_nil_r.
Qed.

Lemma mitem_qref v c : ref_char c = true -> N.eqb c c_dollar = false -> N.eqb c c_lp = false ->
  no_sq (v [c]) = true -> mitem_sem v [MLit (qref1 c)] [v [c]].
Proof.
  intros Hr Hd Hl Hq t e H. rewrite write_jbos_lit in H. injection H as <- _.
  exists (c_sq :: v [c] ++ [c_sq]). split.
  - rewrite <- (app_nil_r (qref1 c)). change (@nil char) with (dollar_esc []) at 1. now apply expand_qref1.
  - rewrite <- (app_nil_r (v [c])) at 2. now apply quoted_unit.
Qed.

Lemma mitem_qref_dotd v c : ref_char c = true -> N.eqb c c_dollar = false -> N.eqb c c_lp = false ->
  no_sq (v [c]) = true -> mitem_sem v [MLit (qref1 c); MStr s_dotd] [v [c] ++ s_dotd].
Proof.
  intros Hr Hd Hl Hq t e H. cbn in H. injection H as <- _.
  exists (c_sq :: v [c] ++ c_sq :: s_dotd). split.
  - exact (expand_qref1 v c s_dotd Hr Hd Hl).
  - now apply quoted_unit.
Qed.
End MakeLine.

(* ------------------------------------------------------------------------------------------ a Ninja command line *)
Lemma neval_app env a b : neval env (a ++ b) = neval env a ++ neval env b.
Proof. induction a as [|[c|n] a IH]; cbn; [reflexivity| |]; rewrite IH; [reflexivity|now rewrite app_assoc]. Qed.

Lemma neval_TC env s : neval env (map TC s) = s.
Proof. rewrite <- (app_nil_r (map TC s)), neval_chars. apply app_nil_r. Qed.

Definition nprefix (toks : list ntok) (p : list ntok * str) : list ntok * str := (toks ++ fst p, snd p).

Lemma nprefix_nprefix a b x : option_map (nprefix a) (option_map (nprefix b) x) = option_map (nprefix (a ++ b)) x.
Proof. destruct x as [[t r]|]; [|reflexivity]. cbn. unfold nprefix. cbn. now rewrite app_assoc. Qed.

Section NinjaLine.
Variable uw : char -> bool.

(* the written text of an item is lexed, in front of any rest, into [toks]; their value in [env] is a text sh splits
   into the words [ws] *)
Definition nitem_sem (env : nenv) (it : list nfrag) (ws : list str) : Prop :=
  forall t e, nwrite_jbos uw it NShell = Some (t, e) ->
  exists toks, (forall rest, nlex false LN (t ++ rest) = option_map (nprefix toks) (nlex false LN rest)) /\
               sh_words uw (neval env toks) = Some ws.

Lemma nwrite_each_inv items : forall body,
  nwrite_each uw items NShell = Some body ->
  exists texts, Forall2 (fun it t => exists e, nwrite_jbos uw it NShell = Some (t, e)) items texts /\
                body = join_sp texts.
Proof.
  induction items as [|x r IH]; intros body H.
  - cbn in H. injection H as <-. exists []. split; [constructor|reflexivity].
  - destruct r as [|y r'].
    + cbn [nwrite_each] in H. destruct (nwrite_jbos uw x NShell) as [[t e]|] eqn:E; [|discriminate].
      injection H as <-. exists [t]. split; [constructor; [eauto|constructor]|reflexivity].
    + change (nwrite_each uw (x :: y :: r') NShell) with
        (match nwrite_jbos uw x NShell, nwrite_each uw (y :: r') NShell with
         | Some (t, _), Some u => Some (t ++ c_sp :: u) | _, _ => None end) in H.
      destruct (nwrite_jbos uw x NShell) as [[t e]|] eqn:E; [|discriminate].
      destruct (nwrite_each uw (y :: r') NShell) as [u|] eqn:U; [|discriminate].
      injection H as <-. destruct (IH u eq_refl) as (texts & F & ->).
      exists (t :: texts). split; [constructor; eauto|].
      inversion F; subst. reflexivity.
Qed.

Lemma nlex_sp rest : nlex false LN (c_sp :: rest) = option_map (nprefix [TC c_sp]) (nlex false LN rest).
Proof. reflexivity. Qed.

Theorem ninja_line_compose env items wss body :
  Forall2 (nitem_sem env) items wss ->
  nwrite_each uw items NShell = Some body ->
  exists ts, nlex false LN body = Some (ts, []) /\ sh_words uw (neval env ts) = Some (concat wss).
Proof.
  intros Hs Hw. destruct (nwrite_each_inv items body Hw) as (texts & F & ->). clear Hw.
  revert wss Hs. induction F as [|it t its ts [e Hit] F' IH]; intros wss Hs.
  - inversion Hs; subst. exists []. split; reflexivity.
  - inversion Hs as [|? ws ? wss' Hsem Hrest]; subst.
    destruct (Hsem t e Hit) as (toks & Hlex & Hsh). destruct (IH wss' Hrest) as (ts' & L' & S').
    destruct ts as [|t2 ts2].
    + inversion F'; subst. inversion Hrest; subst. exists toks. split.
      * cbn [join_sp]. rewrite <- (app_nil_r t), Hlex. cbn. unfold nprefix. cbn. now rewrite app_nil_r.
      * cbn [concat]. now rewrite app_nil_r.
    + change (join_sp (t :: t2 :: ts2)) with (t ++ c_sp :: join_sp (t2 :: ts2)).
      exists (toks ++ TC c_sp :: ts'). split.
      * rewrite Hlex, nlex_sp, L'. cbn. unfold nprefix. cbn. reflexivity.
      * rewrite neval_app. cbn [neval concat]. now apply sh_words_app_sp.
Qed.

Lemma nwrite_jbos_lit s : nwrite_jbos uw [NLit s] NShell = Some (s, true).
Proof. cbn. now rewrite app_nil_r. Qed.

Lemma nitem_word env w : nitem_sem env [NStr w] [w].
Proof.
  intros t e H. rewrite nwrite_jbos_word in H.
  destruct (nj_escape_str (quote uw w) NShell) as [x|] eqn:E; [|discriminate].
  injection H as <- _. apply nj_escape_shell_some in E as [-> Hn].
  exists (map TC (quote uw w)). split.
  - intros rest. now rewrite nlex_value_dollar_esc.
  - rewrite neval_TC. apply quote_word.
Qed.

Lemma nitem_words env ws : Forall2 (nitem_sem env) (nwords_items ws) (map (fun w => [w]) ws).
Proof. induction ws as [|w ws IH]; [constructor|]. cbn [nwords_items map]. constructor; [apply nitem_word|exact IH]. Qed.

Lemma nitem_ref env n ws : name_ok n = true -> sh_words uw (env n) = Some ws -> nitem_sem env [NLit (nj_ref n)] ws.
Proof.
  intros Hn Hv t e H. rewrite nwrite_jbos_lit in H. injection H as <- _.
  exists [TV n]. split.
  - intros rest. now rewrite nlex_ref.
  - cbn. now rewrite app_nil_r.
Qed.

Lemma escaped_dotd p : p <> [] -> sh_words uw (nj_in_out [p] ++ s_dotd) = Some [p ++ s_dotd].
Proof.
  intros Hp. unfold sh_words, sh_lex. cbn [nj_in_out map nj_join].
  destruct (escape_img uw p false [] s_dotd Hp) as [b ->]. cbn [app].
  rewrite <- (app_nil_r s_dotd). rewrite (lex_plain uw s_dotd true (fl b p) []) by (discriminate || reflexivity).
  cbn [lex words_only option_map]. unfold word_str. rewrite map_app.
  fold (word_str (fl b p)) (word_str (fl false s_dotd)). now rewrite !word_str_fl.
Qed.

Lemma nitem_ref_dotd env n p : name_ok n = true -> env n = nj_in_out [p] -> p <> [] ->
  nitem_sem env [NLit (nj_ref n); NStr s_dotd] [p ++ s_dotd].
Proof.
  intros Hn Hv Hp t e H. cbn in H. injection H as <- _.
  exists (TV n :: map TC s_dotd). split.
  - intros rest.
    transitivity (nlex false LN (nj_ref n ++ s_dotd ++ rest));
      [f_equal; unfold nj_ref; cbn [app]; now rewrite <- !app_assoc|].
    rewrite nlex_ref by assumption. cbn. destruct (nlex false LN rest) as [[a b]|]; reflexivity.
  - cbn [neval]. rewrite neval_TC, Hv. now apply escaped_dotd.
Qed.
End NinjaLine.

(* ------------------------------------------------------------------------------------------ compdb side *)
Lemma all_some_app {T} (a b : list (option T)) :
  all_some (a ++ b) = match all_some a, all_some b with Some x, Some y => Some (x ++ y) | _, _ => None end.
Proof.
  induction a as [|[x|] a IH]; cbn.
  - destruct (all_some b); reflexivity.
  - rewrite IH. destruct (all_some a), (all_some b); reflexivity.
  - reflexivity.
Qed.

Lemma arguments_app d a b :
  arguments d (a ++ b) = match arguments d a, arguments d b with Some x, Some y => Some (x ++ y) | _, _ => None end.
Proof. unfold arguments, stringify_args. rewrite !map_app. apply all_some_app. Qed.

Lemma json_wd d s : json_str (stringify d (wd s)) = Some s.
Proof. destruct s; reflexivity. Qed.

Lemma json_path d r sfx : json_str (stringify d [CPath r sfx]) = Some (stringify_path d r sfx).
Proof. unfold stringify. cbn [map stringify_bit]. destruct (stringify_path d r sfx); reflexivity. Qed.

Lemma arguments_cons d a r x xs :
  json_str (stringify d a) = Some x -> arguments d r = Some xs -> arguments d (a :: r) = Some (x :: xs).
Proof. unfold arguments, stringify_args. cbn [map all_some]. intros -> ->. reflexivity. Qed.

Lemma arguments_wds d l : arguments d (wds l) = Some l.
Proof.
  induction l as [|w l IH]; [reflexivity|]. cbn [wds map]. apply arguments_cons; [apply json_wd|exact IH].
Qed.

Lemma arguments_paths d ps : arguments d (map cpath ps) = Some (map (fun p => stringify_path d (fst p) (snd p)) ps).
Proof.
  induction ps as [|p ps IH]; [reflexivity|]. cbn [map]. apply arguments_cons; [apply json_path|exact IH].
Qed.

Lemma arguments_compile d ninja cmd always color g t file osfx deps :
  arguments d (compile_args ninja (mkCompile cmd always color (wds g) (wds t) file osfx deps)) =
  Some (compile_words cmd (always ++ if ninja then color else []) g t
          (stringify_path d (fst file) (snd file)) (stringify_path d RBld osfx)
          (if deps then Some (stringify_path d RBld (osfx ++ s_dotd)) else None)).
Proof.
  unfold compile_args, cc_compile_call, compile_words. cbn [cs_cmd cs_always cs_color cs_g cs_t cs_file cs_out cs_deps].
  rewrite !arguments_app, !arguments_wds.
  rewrite (arguments_cons d (wd s_c) [cpath file] s_c [stringify_path d (fst file) (snd file)] (json_wd d s_c)
             (arguments_cons d (cpath file) [] _ [] (json_path d _ _) eq_refl)).
  assert (Eo : arguments d (wd s_o :: ([CPath RBld osfx] : carg) :: @nil carg) = Some [s_o; stringify_path d RBld osfx])
    by exact (arguments_cons d (wd s_o) [[CPath RBld osfx]] s_o [stringify_path d RBld osfx] (json_wd d s_o)
             (arguments_cons d _ [] _ [] (json_path d _ _) eq_refl)).
  destruct deps.
  - rewrite (arguments_cons d (wd s_MMD) _ s_MMD _ (json_wd d s_MMD)
               (arguments_cons d (wd s_MF) _ s_MF _ (json_wd d s_MF)
                  (arguments_cons d [CPath RBld (osfx ++ s_dotd)] [] _ [] (json_path d _ _) eq_refl))).
    cbv beta iota. rewrite Eo. reflexivity.
  - change (arguments d []) with (Some (@nil str)). cbv beta iota. rewrite Eo. reflexivity.
Qed.

Lemma arguments_link d cmd always g t gl tl files ul osfx :
  arguments d (link_args (mkLink false cmd always (wds g) (wds t) (wds gl) (wds tl) files ul osfx)) =
  Some (link_words cmd always g t (map (fun p => stringify_path d (fst p) (snd p)) files) gl tl (stringify_path d RBld osfx)).
Proof.
  unfold link_args, cc_link_call, link_words. cbn [ls_static ls_cmd ls_always ls_g ls_t ls_glibs ls_tlibs ls_files ls_out].
  rewrite !arguments_app, !arguments_wds, arguments_paths.
  assert (Eo : arguments d (wd s_o :: ([CPath RBld osfx] : carg) :: @nil carg) = Some [s_o; stringify_path d RBld osfx])
    by exact (arguments_cons d (wd s_o) [[CPath RBld osfx]] s_o [stringify_path d RBld osfx] (json_wd d s_o)
             (arguments_cons d _ [] _ [] (json_path d _ _) eq_refl)).
  rewrite Eo. reflexivity.
Qed.

Lemma arguments_ar d cmd always g t gl tl files ul osfx :
  arguments d (link_args (mkLink true cmd always (wds g) (wds t) gl tl files ul osfx)) =
  Some (ar_words cmd g t (map (fun p => stringify_path d (fst p) (snd p)) files) (stringify_path d RBld osfx)).
Proof.
  unfold link_args, ar_call, ar_words. cbn [ls_static ls_cmd ls_always ls_g ls_t ls_glibs ls_tlibs ls_files ls_out].
  rewrite !arguments_app, !arguments_wds, arguments_paths.
  assert (Eo : arguments d (([CPath RBld osfx] : carg) :: @nil carg) = Some [stringify_path d RBld osfx])
    by exact (arguments_cons d [CPath RBld osfx] [] _ [] (json_path d _ _) eq_refl).
  rewrite Eo. reflexivity.
Qed.

(* ------------------------------------------------------------------------------------------ path spelling *)
(* a source path: the value of srcdir, a separator, the suffix - the text Make and Ninja obtain from the written
   reference followed by the suffix once the variable srcdir holds the same value *)
Lemma src_spelling d sfx : stringify_path d RSrc sfx = base_join (d_src d) sfx.
Proof. reflexivity. Qed.

(* a build path: builddir is an absolute normalised directory other than the file-system root, the suffix a normalised
   relative path: os.path.relpath gives back the suffix (Make / Ninja write the suffix, with ./ in front of a
   suffix without separator in shell position) *)
Definition bld_rel_ok (d : cdirs) (sfx : str) : Prop :=
  exists bc sc, d_bld d = render 1 bc /\ bc <> [] /\ normal bc /\ sfx = join_on c_slash sc /\ sc <> [] /\ normal sc.

Lemma initial_slashes_pos z : Nat.ltb 0 (initial_slashes (c_slash :: z)) = true.
Proof.
  destruct z as [|b [|c z]]; cbn; [reflexivity| |].
  - destruct (is_slash b); reflexivity.
  - destruct (is_slash b); [|reflexivity]. destruct (is_slash c); reflexivity.
Qed.

Lemma rel_comps_render1 cs : normal cs -> rel_comps (render 1 cs) = cs.
Proof.
  intros Hn. unfold rel_comps, posix_normpath. cbn [snd]. rewrite initial_slashes_pos.
  change (split_on c_slash (c_slash :: render 1 cs)) with ([] :: split_on c_slash (render 1 cs)).
  rewrite norm_go_skip_empty. exact (proj1 (render_split 1 cs (Nat.le_refl 1) Hn)).
Qed.

Lemma join_on_app sep (a b : list str) : a <> [] -> b <> [] ->
  join_on sep (a ++ b) = join_on sep a ++ sep :: join_on sep b.
Proof.
  induction a as [|x a IH]; intros Ha Hb; [congruence|].
  destruct a as [|y a'].
  - cbn [app]. now rewrite join_on_cons.
  - change ((x :: y :: a') ++ b) with (x :: ((y :: a') ++ b)).
    rewrite join_on_cons by (cbn; discriminate). rewrite IH by (discriminate || assumption).
    rewrite (join_on_cons sep x (y :: a')) by discriminate. now rewrite <- app_assoc.
Qed.

Lemma common_len_app a b : common_len a (a ++ b) = length a.
Proof. induction a as [|x a IH]; [destruct b; reflexivity|]. cbn. now rewrite str_eqb_refl, IH. Qed.

Theorem bld_spelling d sfx : bld_rel_ok d sfx -> stringify_path d RBld sfx = sfx.
Proof.
  intros (bc & sc & Hb & Hbc & Nb & -> & Hsc & Ns).
  unfold stringify_path, path_string, base_join.
  assert (Hne : is_nil (join_on c_slash sc) = false).
  { pose proof (render_nonnil 0 sc Ns) as R. unfold render in R. cbn [repeat app Nat.eqb andb] in R. rewrite R.
    destruct sc; [congruence|reflexivity]. }
  rewrite Hne, Hb.
  assert (E : render 1 bc ++ c_slash :: join_on c_slash sc = render 1 (bc ++ sc)).
  { unfold render. cbn [repeat app]. now rewrite join_on_app. }
  rewrite E. unfold posix_relpath.
  rewrite (rel_comps_render1 bc Nb), (rel_comps_render1 (bc ++ sc)) by (apply normal_app; split; assumption).
  rewrite common_len_app, Nat.sub_diag. cbn [repeat app].
  rewrite skipn_app, skipn_all, Nat.sub_diag. cbn [skipn app].
  destruct sc; [congruence|reflexivity].
Qed.

(* ------------------------------------------------------------------------------------------ agreement *)
Lemma concat_singletons (l : list str) : concat (map (fun w => [w]) l) = l.
Proof. induction l as [|w l IH]; [reflexivity|]. cbn. now rewrite IH. Qed.

(* in shell position the Make and the Ninja writer put ./ before a build path without separator; nothing else differs *)
Lemma make_bld_spelling_cases sfx : sfx <> [] ->
  make_bld_spelling sfx = sfx \/ make_bld_spelling sfx = c_dot :: c_slash :: sfx.
Proof.
  intros H. unfold make_bld_spelling. destruct sfx; [congruence|]. cbn [is_nil].
  destruct (has_slash_b (c :: sfx)); auto.
Qed.

Lemma nwrite_each_head uw c s r body :
  nwrite_each uw ([NLit (c :: s)] :: r) NShell = Some body -> exists b', body = c :: b'.
Proof.
  intros H. destruct r as [|y r'].
  - cbn in H. injection H as <-. eauto.
  - change (nwrite_each uw ([NLit (c :: s)] :: y :: r') NShell) with
      (match nwrite_jbos uw [NLit (c :: s)] NShell, nwrite_each uw (y :: r') NShell with
       | Some (t, _), Some u => Some (t ++ c_sp :: u) | _, _ => None end) in H.
    rewrite nwrite_jbos_lit in H. destruct (nwrite_each uw (y :: r') NShell); [|discriminate].
    injection H as <-. eauto.
Qed.

Section Agreement.
Variable uw us : char -> bool.

(* the flag variable of a step, Make: GLOBAL_X := g ; tgt: X := $(GLOBAL_X) t *)
Lemma make_flag_value v (ve : vars) gname fname g t text_g text_t :
  name_ok gname = true ->
  write_value uw us (words_items g) SynShell = Some text_g ->
  write_value uw us (make_target_items gname t) SynShell = Some text_t ->
  (exists vg, assign_value v text_g = Some vg /\ assign_value (upd v gname vg) text_t = Some (ve fname)) ->
  sh_words uw (ve fname) = Some (g ++ t).
Proof.
  intros Hn Hg Ht (vg & E1 & E2).
  pose proof (make_flags_words uw us v gname g t text_g text_t Hn Hg Ht) as M. now rewrite E1, E2 in M.
Qed.

Lemma make_tool_value v (ve : vars) cname cmd text_cc :
  write_value uw us (words_items cmd) SynShell = Some text_cc ->
  assign_value v text_cc = Some (ve cname) -> sh_words uw (ve cname) = Some cmd.
Proof.
  intros Hw Ha. rewrite (assign_roundtrip uw us v cmd text_cc Hw) in Ha. injection Ha as <-. apply join_words.
Qed.

Theorem compdb_agrees_make_compile d v (ve : vars) cname gname fname cmd always color g t isfx osfx deps
    text_cc text_g text_t body :
  name_ok cname = true -> name_ok gname = true -> name_ok fname = true ->
  write_value uw us (words_items cmd) SynShell = Some text_cc ->
  write_value uw us (words_items g) SynShell = Some text_g ->
  write_value uw us (make_target_items gname t) SynShell = Some text_t ->
  write_each uw us (mk_compile_items cname fname always deps) SynShell = Some body ->
  assign_value v text_cc = Some (ve cname) ->
  (exists vg, assign_value v text_g = Some vg /\ assign_value (upd v gname vg) text_t = Some (ve fname)) ->
  ve [c_lt] = base_join (d_src d) isfx -> ve [c_at] = osfx ->
  no_sq (base_join (d_src d) isfx) = true -> no_sq osfx = true ->
  bld_rel_ok d osfx -> (deps = true -> bld_rel_ok d (osfx ++ s_dotd)) ->
  let st := mkCompile cmd always color (wds g) (wds t) (RSrc, isfx) osfx deps in
  let W := compile_words cmd always g t (base_join (d_src d) isfx) osfx (if deps then Some (osfx ++ s_dotd) else None) in
  exists line, expand ve body = Some line /\ sh_words uw line = Some W /\ arguments d (compile_args false st) = Some W.
Proof.
  intros Hc Hg Hf Wcc Wg Wt Wb Acc Afl Vin Vout Qin Qout Bo Bd st W.
  pose proof (make_tool_value v ve cname cmd text_cc Wcc Acc) as Scc.
  pose proof (make_flag_value v ve gname fname g t text_g text_t Hg Wg Wt Afl) as Sfl.
  assert (Qi : no_sq (ve [c_lt]) = true) by now rewrite Vin.
  assert (Qo : no_sq (ve [c_at]) = true) by now rewrite Vout.
  set (wss := cmd :: map (fun w => [w]) always ++ [g ++ t; [s_c]; [ve [c_lt]]] ++
              (if deps then [[s_MMD]; [s_MF]; [ve [c_at] ++ s_dotd]] else []) ++ [[s_o]; [ve [c_at]]]).
  assert (F : Forall2 (mitem_sem uw us ve) (mk_compile_items cname fname always deps) wss).
  { unfold mk_compile_items, wss. constructor; [now apply mitem_ref|].
    apply Forall2_app; [apply mitem_words|].
    apply Forall2_app.
    { constructor; [now apply mitem_ref|]. constructor; [apply mitem_word|].
      constructor; [now apply mitem_qref|constructor]. }
    apply Forall2_app.
    { destruct deps; [|constructor]. constructor; [apply mitem_word|]. constructor; [apply mitem_word|].
      constructor; [now apply mitem_qref_dotd|constructor]. }
    constructor; [apply mitem_word|]. constructor; [now apply mitem_qref|constructor]. }
  destruct (make_line_compose uw us ve _ wss body F Wb) as (line & Hex & Hsh).
  assert (EW : concat wss = W).
  { unfold wss, W, compile_words. cbn [concat]. rewrite !concat_app, concat_singletons, Vin, Vout.
    destruct deps; cbn [concat]; rewrite <- ?app_assoc; cbn [app]; reflexivity. }
  exists line. split; [exact Hex|]. split; [now rewrite <- EW|].
  unfold st. rewrite arguments_compile. cbn [fst snd]. rewrite app_nil_r, src_spelling, (bld_spelling d osfx Bo).
  unfold W. destruct deps; [|reflexivity]. now rewrite (bld_spelling d _ (Bd eq_refl)).
Qed.

Theorem compdb_agrees_ninja_compile d (env0 env : nenv) cname gname fname cmd always color g t isfx osfx deps
    text_cc text_t body :
  name_ok cname = true -> name_ok gname = true -> name_ok fname = true ->
  nwrite_each uw (nwords_items cmd) NShell = Some text_cc ->
  nwrite_each uw (ninja_edge_items gname t) NShell = Some text_t ->
  nwrite_each uw (nj_compile_items cname fname (always ++ color) deps) NShell = Some body ->
  env0 gname = join uw g ->
  option_map (neval env0) (lex_value text_cc) = Some (env cname) ->
  option_map (neval env0) (lex_value text_t) = Some (env fname) ->
  env s_in = nj_in_out [base_join (d_src d) isfx] -> env s_out = nj_in_out [osfx] ->
  base_join (d_src d) isfx <> [] -> osfx <> [] ->
  bld_rel_ok d osfx -> (deps = true -> bld_rel_ok d (osfx ++ s_dotd)) ->
  let st := mkCompile cmd always color (wds g) (wds t) (RSrc, isfx) osfx deps in
  let W := compile_words cmd (always ++ color) g t (base_join (d_src d) isfx) osfx
             (if deps then Some (osfx ++ s_dotd) else None) in
  exists ts, lex_value body = Some ts /\ sh_words uw (neval env ts) = Some W /\
             arguments d (compile_args true st) = Some W.
Proof.
  intros Hc Hg Hf Wcc Wt Wb Eg Acc Afl Vin Vout Nin Nout Bo Bd st W.
  assert (Scc : sh_words uw (env cname) = Some cmd).
  { rewrite (value_roundtrip uw env0 cmd text_cc Wcc) in Acc. injection Acc as <-. apply join_words. }
  assert (Sfl : sh_words uw (env fname) = Some (g ++ t)).
  { pose proof (ninja_flags_words uw env0 gname g t text_t Hg Eg Wt) as M.
    destruct (option_map (neval env0) (lex_value text_t)) as [x|]; [|discriminate]. injection Afl as <-. exact M. }
  assert (Sin : sh_words uw (env s_in) = Some [base_join (d_src d) isfx]).
  { rewrite Vin. apply in_out_words. constructor; [exact Nin|constructor]. }
  assert (Sout : sh_words uw (env s_out) = Some [osfx]).
  { rewrite Vout. apply in_out_words. constructor; [exact Nout|constructor]. }
  set (wss := cmd :: map (fun w => [w]) (always ++ color) ++ [g ++ t; [s_c]; [base_join (d_src d) isfx]] ++
              (if deps then [[s_MMD]; [s_MF]; [osfx ++ s_dotd]] else []) ++ [[s_o]; [osfx]]).
  assert (F : Forall2 (nitem_sem uw env) (nj_compile_items cname fname (always ++ color) deps) wss).
  { unfold nj_compile_items, wss. constructor; [now apply nitem_ref|].
    apply Forall2_app; [apply nitem_words|].
    apply Forall2_app.
    { constructor; [now apply nitem_ref|]. constructor; [apply nitem_word|].
      constructor; [now apply nitem_ref|constructor]. }
    apply Forall2_app.
    { destruct deps; [|constructor]. constructor; [apply nitem_word|]. constructor; [apply nitem_word|].
      constructor; [now apply nitem_ref_dotd|constructor]. }
    constructor; [apply nitem_word|]. constructor; [now apply nitem_ref|constructor]. }
  destruct (ninja_line_compose uw env _ wss body F Wb) as (ts & Hlex & Hsh).
  assert (EW : concat wss = W).
  { unfold wss, W, compile_words. cbn [concat]. rewrite !concat_app, concat_singletons.
    destruct deps; cbn [concat]; rewrite <- ?app_assoc; cbn [app]; reflexivity. }
  exists ts. split.
  { unfold lex_value. unfold nj_compile_items, nj_ref in Wb. destruct (nwrite_each_head uw _ _ _ _ Wb) as [b' ->].
    rewrite skip_sp_dollar. unfold c_dollar in *. now rewrite Hlex. }
  split; [now rewrite <- EW|].
  unfold st. rewrite arguments_compile. cbn [fst snd]. rewrite src_spelling, (bld_spelling d osfx Bo).
  unfold W. destruct deps; [|reflexivity]. now rewrite (bld_spelling d _ (Bd eq_refl)).
Qed.

(* link step with a cc linker.  Make hands the input files over as the first parameter of the call; its value is a text
   that sh splits into the file names as the Make writer spells them in shell position (C01_call_arg) *)
Theorem compdb_agrees_make_link d v (ve : vars) cname gname fname glname lname cmd always g t gl tl fsfxs ul osfx
    text_cc text_g text_t text_gl text_tl body :
  name_ok cname = true -> name_ok gname = true -> name_ok fname = true -> name_ok glname = true -> name_ok lname = true ->
  write_value uw us (words_items cmd) SynShell = Some text_cc ->
  write_value uw us (words_items g) SynShell = Some text_g ->
  write_value uw us (make_target_items gname t) SynShell = Some text_t ->
  write_value uw us (words_items gl) SynShell = Some text_gl ->
  write_value uw us (make_target_items glname tl) SynShell = Some text_tl ->
  write_each uw us (mk_link_items cname fname lname always) SynShell = Some body ->
  assign_value v text_cc = Some (ve cname) ->
  (exists vg, assign_value v text_g = Some vg /\ assign_value (upd v gname vg) text_t = Some (ve fname)) ->
  (exists vg, assign_value v text_gl = Some vg /\ assign_value (upd v glname vg) text_tl = Some (ve lname)) ->
  sh_words uw (ve [c_one]) = Some (map make_bld_spelling fsfxs) ->
  ve [c_at] = osfx -> no_sq osfx = true ->
  bld_rel_ok d osfx -> Forall (bld_rel_ok d) fsfxs ->
  let st := mkLink false cmd always (wds g) (wds t) (wds gl) (wds tl) (map (fun s => (RBld, s)) fsfxs) ul osfx in
  exists line, expand ve body = Some line /\
    sh_words uw line = Some (link_words cmd always g t (map make_bld_spelling fsfxs) gl tl osfx) /\
    arguments d (link_args st) = Some (link_words cmd always g t fsfxs gl tl osfx).
Proof.
  intros Hc Hg Hf Hgl Hl Wcc Wg Wt Wgl Wtl Wb Acc Afl Alb S1 Vout Qout Bo Bf st.
  pose proof (make_tool_value v ve cname cmd text_cc Wcc Acc) as Scc.
  pose proof (make_flag_value v ve gname fname g t text_g text_t Hg Wg Wt Afl) as Sfl.
  pose proof (make_flag_value v ve glname lname gl tl text_gl text_tl Hgl Wgl Wtl Alb) as Slb.
  assert (Qo : no_sq (ve [c_at]) = true) by now rewrite Vout.
  set (wss := cmd :: map (fun w => [w]) always ++
              [g ++ t; map make_bld_spelling fsfxs; gl ++ tl; [s_o]; [ve [c_at]]]).
  assert (F : Forall2 (mitem_sem uw us ve) (mk_link_items cname fname lname always) wss).
  { unfold mk_link_items, wss. constructor; [now apply mitem_ref|].
    apply Forall2_app; [apply mitem_words|].
    constructor; [now apply mitem_ref|]. constructor; [now apply mitem_param|].
    constructor; [now apply mitem_ref|]. constructor; [apply mitem_word|].
    constructor; [now apply mitem_qref|constructor]. }
  destruct (make_line_compose uw us ve _ wss body F Wb) as (line & Hex & Hsh).
  exists line. split; [exact Hex|]. split.
  - rewrite Hsh. f_equal. unfold wss, link_words. cbn [concat]. rewrite concat_app, concat_singletons, Vout.
    cbn [concat]. rewrite <- ?app_assoc. cbn [app]. reflexivity.
  - unfold st. rewrite arguments_link, (bld_spelling d osfx Bo). f_equal. f_equal. rewrite map_map. cbn [fst snd].
    clear -Bf. induction Bf as [|s l Hs _ IH]; [reflexivity|]. cbn [map]. now rewrite (bld_spelling d s Hs), IH.
Qed.

(* Ninja names the inputs as the build statement lists them (no ./): exactly the compdb spelling *)
Theorem compdb_agrees_ninja_link d (env0 env : nenv) cname gname fname glname lname cmd always g t gl tl fsfxs ul osfx
    text_cc text_t text_tl body :
  name_ok cname = true -> name_ok gname = true -> name_ok fname = true -> name_ok glname = true -> name_ok lname = true ->
  nwrite_each uw (nwords_items cmd) NShell = Some text_cc ->
  nwrite_each uw (ninja_edge_items gname t) NShell = Some text_t ->
  nwrite_each uw (ninja_edge_items glname tl) NShell = Some text_tl ->
  nwrite_each uw (nj_link_items cname fname lname always) NShell = Some body ->
  env0 gname = join uw g -> env0 glname = join uw gl ->
  option_map (neval env0) (lex_value text_cc) = Some (env cname) ->
  option_map (neval env0) (lex_value text_t) = Some (env fname) ->
  option_map (neval env0) (lex_value text_tl) = Some (env lname) ->
  env s_in = nj_in_out fsfxs -> env s_out = nj_in_out [osfx] ->
  osfx <> [] -> bld_rel_ok d osfx -> Forall (bld_rel_ok d) fsfxs ->
  let st := mkLink false cmd always (wds g) (wds t) (wds gl) (wds tl) (map (fun s => (RBld, s)) fsfxs) ul osfx in
  let W := link_words cmd always g t fsfxs gl tl osfx in
  exists ts, lex_value body = Some ts /\ sh_words uw (neval env ts) = Some W /\ arguments d (link_args st) = Some W.
Proof.
  intros Hc Hg Hf Hgl Hl Wcc Wt Wtl Wb Eg Egl Acc Afl Alb Vin Vout Nout Bo Bf st W.
  assert (Scc : sh_words uw (env cname) = Some cmd).
  { rewrite (value_roundtrip uw env0 cmd text_cc Wcc) in Acc. injection Acc as <-. apply join_words. }
  assert (Sfl : sh_words uw (env fname) = Some (g ++ t)).
  { pose proof (ninja_flags_words uw env0 gname g t text_t Hg Eg Wt) as M.
    destruct (option_map (neval env0) (lex_value text_t)) as [x|]; [|discriminate]. injection Afl as <-. exact M. }
  assert (Slb : sh_words uw (env lname) = Some (gl ++ tl)).
  { pose proof (ninja_flags_words uw env0 glname gl tl text_tl Hgl Egl Wtl) as M.
    destruct (option_map (neval env0) (lex_value text_tl)) as [x|]; [|discriminate]. injection Alb as <-. exact M. }
  assert (Ne : Forall (fun p : str => p <> []) fsfxs).
  { clear -Bf. induction Bf as [|s l Hs _ IH]; constructor; [|exact IH].
    destruct Hs as (bc & sc & _ & _ & _ & -> & Hsc & Ns). intros E.
    pose proof (render_nonnil 0 sc Ns) as R. unfold render in R. cbn [repeat app Nat.eqb andb] in R. rewrite E in R.
    destruct sc; [congruence|discriminate]. }
  assert (Sin : sh_words uw (env s_in) = Some fsfxs) by (rewrite Vin; now apply in_out_words).
  assert (Sout : sh_words uw (env s_out) = Some [osfx]).
  { rewrite Vout. apply in_out_words. constructor; [exact Nout|constructor]. }
  set (wss := cmd :: map (fun w => [w]) always ++ [g ++ t; fsfxs; gl ++ tl; [s_o]; [osfx]]).
  assert (F : Forall2 (nitem_sem uw env) (nj_link_items cname fname lname always) wss).
  { unfold nj_link_items, wss. constructor; [now apply nitem_ref|].
    apply Forall2_app; [apply nitem_words|].
    constructor; [now apply nitem_ref|]. constructor; [now apply nitem_ref|].
    constructor; [now apply nitem_ref|]. constructor; [apply nitem_word|].
    constructor; [now apply nitem_ref|constructor]. }
  destruct (ninja_line_compose uw env _ wss body F Wb) as (ts & Hlex & Hsh).
  exists ts. split.
  { unfold lex_value. unfold nj_link_items, nj_ref in Wb. destruct (nwrite_each_head uw _ _ _ _ Wb) as [b' ->].
    rewrite skip_sp_dollar. unfold c_dollar in *. now rewrite Hlex. }
  split.
  - rewrite Hsh. f_equal. unfold wss, W, link_words. cbn [concat]. rewrite concat_app, concat_singletons.
    cbn [concat]. rewrite <- ?app_assoc. cbn [app]. reflexivity.
  - unfold st. rewrite arguments_link, (bld_spelling d osfx Bo). unfold W. f_equal. f_equal. rewrite map_map. cbn [fst snd].
    clear -Bf. induction Bf as [|s l Hs _ IH]; [reflexivity|]. cbn [map]. now rewrite (bld_spelling d s Hs), IH.
Qed.

(* the command form (shell_list) of an argument list without literal objects is the sh-joined arguments form *)
Lemma quote_args_of_json l : forall r,
  all_some (map json_str l) = Some r -> all_some (map (quote_arg uw) l) = Some (map (quote uw) r).
Proof.
  induction l as [|bits l IH]; intros r H.
  - cbn in H. injection H as <-. reflexivity.
  - cbn [map all_some] in H |- *.
    destruct (json_str bits) as [s|] eqn:J; [|discriminate].
    destruct (all_some (map json_str l)) as [r'|] eqn:A; [|discriminate]. injection H as <-.
    rewrite (IH r' eq_refl).
    assert (Q : quote_arg uw bits = Some (quote uw s)).
    { destruct bits as [|[x|x|x] [|b bs]]; try discriminate.
      - injection J as <-. reflexivity.
      - injection J as <-. cbn. now rewrite app_nil_r. }
    rewrite Q. reflexivity.
Qed.

Theorem command_words d args ws :
  arguments d args = Some ws -> command uw d args = Some (join uw ws) /\ sh_words uw (join uw ws) = Some ws.
Proof.
  intros H. split; [|apply join_words].
  unfold command, arguments in *. now rewrite (quote_args_of_json _ ws H).
Qed.

(* a literal or shell_literal anywhere in the arguments: the entry cannot be written (json.dump raises TypeError) *)
Theorem arguments_literal_refuted : exists d args, arguments d args = None.
Proof. exists (mkDirs [47; 115] [47; 98]), [[CStr [45; 73]; CLit [120]]]. reflexivity. Qed.
End Agreement.

Lemma bld_rel_ok_nonnil d sfx : bld_rel_ok d sfx -> sfx <> [].
Proof.
  intros (bc & sc & _ & _ & _ & -> & Hsc & Ns) E.
  pose proof (render_nonnil 0 sc Ns) as R. unfold render in R. cbn [repeat app Nat.eqb andb] in R. rewrite E in R.
  destruct sc; [congruence|discriminate].
Qed.

Theorem build_spelling d sfx : bld_rel_ok d sfx ->
  stringify_path d RBld sfx = sfx /\
  (make_bld_spelling sfx = sfx \/ make_bld_spelling sfx = c_dot :: c_slash :: sfx).
Proof.
  intros H. split; [now apply bld_spelling|]. apply make_bld_spelling_cases. now apply (bld_rel_ok_nonnil d).
Qed.

(* the build directory ITSELF (the path with the empty suffix, e.g. the include directory of a header generated at the top
   of the build directory): compile_commands.json names it by a single dot, as the Make and Ninja writers do *)
Theorem build_root_spelling d bc : d_bld d = render 1 bc -> bc <> [] -> normal bc ->
  stringify_path d RBld [] = dot /\ make_bld_spelling [] = dot.
Proof.
  intros Hb Hbc Nb. split; [|reflexivity].
  unfold stringify_path, path_string, base_join. cbn [is_nil]. rewrite Hb. unfold posix_relpath.
  rewrite (rel_comps_render1 bc Nb).
  pose proof (common_len_app bc []) as E. rewrite app_nil_r in E. rewrite E.
  rewrite Nat.sub_diag, skipn_all. reflexivity.
Qed.

Theorem compdb_path_unit uw d sfx : no_sq (d_src d) = true -> d_src d <> [] -> sfx <> [] ->
  sh_words uw (path_text (d_src d) (c_slash :: sfx)) = Some [stringify_path d RSrc sfx].
Proof.
  intros Hq Hne Hs. rewrite (path_unit_words uw (d_src d) (c_slash :: sfx) Hq Hne).
  destruct sfx; [congruence|reflexivity].
Qed.
