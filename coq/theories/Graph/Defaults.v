(* W model of bfg9000/builtins/default.py DefaultOutputs (add / remove / outputs) as written, including the
   pop-while-enumerating loop of remove. Outputs are identified by numbers (object identity). *)
From BFG Require Import Base.Chars.
Local Open Scope N_scope.

Record dstate := { d_explicit : list N; d_fallback : list N }.
Definition d_init : dstate := {| d_explicit := []; d_fallback := [] |}.

(* for i in output.all: if i.creator: outputs.append(i)   -- [items] = (id, has_creator) of output.all *)
Definition add_items (l : list N) (items : list (N * bool)) : list N :=
  l ++ map fst (filter snd items).

(* for i, v in enumerate(outputs): if output is v: outputs.pop(i)
   Python's list iterator keeps an index: after a pop at index i the element that moved into slot i is
   skipped.  [skip] = the next element is to be passed over without a test. *)
Fixpoint remove_loop (x : N) (skip : bool) (l : list N) : list N :=
  match l with
  | [] => []
  | v :: r =>
    if skip then v :: remove_loop x false r
    else if N.eqb v x then remove_loop x true r
    else v :: remove_loop x false r
  end.
Definition remove_item (l : list N) (x : N) : list N := remove_loop x false l.

Inductive dop := DAdd (items : list (N * bool)) (explicit : bool) | DRemove (x : N) (explicit : bool).

Definition dstep (s : dstate) (o : dop) : dstate :=
  match o with
  | DAdd items true => {| d_explicit := add_items (d_explicit s) items; d_fallback := d_fallback s |}
  | DAdd items false => {| d_explicit := d_explicit s; d_fallback := add_items (d_fallback s) items |}
  | DRemove x true => {| d_explicit := remove_item (d_explicit s) x; d_fallback := d_fallback s |}
  | DRemove x false => {| d_explicit := d_explicit s; d_fallback := remove_item (d_fallback s) x |}
  end.

(* return self.default_outputs or self.fallback_defaults *)
Definition d_outputs (s : dstate) : list N :=
  match d_explicit s with [] => d_fallback s | e => e end.

Definition run_dops (ops : list dop) : dstate := fold_left dstep ops d_init.
