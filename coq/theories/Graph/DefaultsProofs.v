From BFG Require Import Base.Chars Graph.Defaults.
Local Open Scope N_scope.

Lemma forallb_filter_id {T} (f : T -> bool) l : forallb f l = true -> filter f l = l.
Proof.
  induction l as [|x l IH]; cbn; [reflexivity|]. intros H. apply andb_true_iff in H as [Hx Hl].
  now rewrite Hx, IH.
Qed.

(* On a duplicate-free list the loop removes exactly the element (the skipped neighbour is never equal). *)
Lemma remove_loop_notin x l : ~ In x l -> forall skip, remove_loop x skip l = l.
Proof.
  induction l as [|v r IH]; intros H skip; [reflexivity|].
  cbn [remove_loop]. assert (Hv : N.eqb v x = false).
  { destruct (N.eqb v x) eqn:E; [|reflexivity]. apply N.eqb_eq in E. subst. exfalso. apply H. now left. }
  assert (Hr : ~ In x r) by (intros C; apply H; now right).
  destruct skip; [now rewrite IH|]. rewrite Hv. now rewrite IH.
Qed.

Lemma remove_item_nodup x l : NoDup l ->
  remove_item l x = filter (fun v => negb (N.eqb v x)) l.
Proof.
  unfold remove_item. induction l as [|v r IH]; intros H; [reflexivity|].
  inversion H as [|? ? Hnin Hnd]; subst. cbn [remove_loop filter].
  destruct (N.eqb v x) eqn:E; cbn [negb].
  - apply N.eqb_eq in E; subst v. rewrite remove_loop_notin by assumption.
    symmetry. apply forallb_filter_id. apply forallb_forall. intros y Hy.
    apply negb_true_iff. destruct (N.eqb y x) eqn:F; [|reflexivity]. apply N.eqb_eq in F. subst. contradiction.
  - now rewrite IH.
Qed.

(* ... but the loop is wrong on lists with adjacent duplicates: the copy that slides into the popped slot survives *)
Example remove_loop_skips_neighbour : remove_item [7; 7; 3] 7 = [7; 3].
Proof. reflexivity. Qed.

(* --- the default set --- *)
(* what the script declared, read off the operation list *)
Definition added (explicit : bool) (ops : list dop) : list N :=
  flat_map (fun o => match o with
                     | DAdd items e => if Bool.eqb e explicit then map fst (filter snd items) else []
                     | DRemove _ _ => []
                     end) ops.
Definition removed (explicit : bool) (ops : list dop) : list N :=
  flat_map (fun o => match o with
                     | DRemove x e => if Bool.eqb e explicit then [x] else []
                     | DAdd _ _ => []
                     end) ops.

(* well-formed histories: an output is added at most once to each list (each step registers its own
   outputs once) and an output removed by test() is not added again afterwards *)
Fixpoint wf_rm (ops : list dop) : Prop :=
  match ops with
  | [] => True
  | DRemove x e :: r => ~ In x (added e r) /\ wf_rm r
  | DAdd _ _ :: r => wf_rm r
  end.

Definition minus (l rm : list N) : list N := filter (fun v => negb (mem_char v rm)) l.

Lemma filter_filter {T} (f g : T -> bool) l : filter f (filter g l) = filter (fun x => g x && f x) l.
Proof.
  induction l as [|x l IH]; [reflexivity|]. cbn. destruct (g x); cbn; [destruct (f x); now rewrite IH|exact IH].
Qed.

Lemma minus_remove l rm x : filter (fun v => negb (N.eqb v x)) (minus l rm) = minus l (rm ++ [x]).
Proof.
  unfold minus. rewrite filter_filter. apply filter_ext. intros v.
  unfold mem_char. rewrite existsb_app. cbn. rewrite orb_false_r.
  destruct (existsb (N.eqb v) rm), (N.eqb v x); reflexivity.
Qed.

Lemma NoDup_filter {T} (f : T -> bool) l : NoDup l -> NoDup (filter f l).
Proof.
  induction 1 as [|x l Hx Hl IH]; cbn; [constructor|]. destruct (f x); [|exact IH].
  constructor; [|exact IH]. intros C. apply filter_In in C as [C _]. contradiction.
Qed.

Lemma minus_app l1 l2 rm : minus (l1 ++ l2) rm = minus l1 rm ++ minus l2 rm.
Proof. apply filter_app. Qed.

Lemma minus_fresh new rm : (forall y, In y new -> ~ In y rm) -> minus new rm = new.
Proof.
  intros H. unfold minus. apply forallb_filter_id. apply forallb_forall. intros y Hy. apply negb_true_iff.
  destruct (mem_char y rm) eqn:M; [|reflexivity]. apply mem_char_In in M. exfalso. exact (H y Hy M).
Qed.

Lemma NoDup_app_l {T} (a b : list T) : NoDup (a ++ b) -> NoDup a.
Proof. induction a as [|x a IH]; cbn; intros H; [constructor|]. inversion H; subst. constructor; [|now apply IH].
  intros C. apply H2. apply in_or_app. now left. Qed.

Definition new_of (items : list (N * bool)) : list N := map fst (filter snd items).

Lemma added_add e items ops explicit :
  added explicit (DAdd items e :: ops) = (if Bool.eqb e explicit then new_of items else []) ++ added explicit ops.
Proof. reflexivity. Qed.
Lemma added_rm x e ops explicit : added explicit (DRemove x e :: ops) = added explicit ops.
Proof. reflexivity. Qed.
Lemma removed_add e items ops explicit : removed explicit (DAdd items e :: ops) = removed explicit ops.
Proof. reflexivity. Qed.
Lemma removed_rm x e ops explicit :
  removed explicit (DRemove x e :: ops) = (if Bool.eqb e explicit then [x] else []) ++ removed explicit ops.
Proof. reflexivity. Qed.

(* one list at a time: [sel] projects the list, the other list is untouched by operations on it *)
Lemma run_inv ops : forall s ae af re rf,
  NoDup (ae ++ added true ops) -> NoDup (af ++ added false ops) -> wf_rm ops ->
  (forall x, In x re -> ~ In x (added true ops)) -> (forall x, In x rf -> ~ In x (added false ops)) ->
  d_explicit s = minus ae re -> d_fallback s = minus af rf ->
  d_explicit (fold_left dstep ops s) = minus (ae ++ added true ops) (re ++ removed true ops) /\
  d_fallback (fold_left dstep ops s) = minus (af ++ added false ops) (rf ++ removed false ops).
Proof.
  induction ops as [|o ops IH]; intros s ae af re rf Ne Nf Hwf Hre Hrf He Hf; cbn [fold_left].
  - cbn. now rewrite !app_nil_r.
  - destruct o as [items e|x e]; cbn [wf_rm] in Hwf.
    + rewrite !added_add, !removed_add in *. destruct e; cbn [Bool.eqb] in *; cbn [app] in *.
      * rewrite app_assoc in Ne |- *. apply IH; try assumption.
        -- intros y Hy C. apply (Hre y Hy). apply in_or_app. now right.
        -- cbn [dstep d_explicit]. unfold add_items. fold (new_of items). rewrite He, minus_app. f_equal.
           symmetry. apply minus_fresh. intros y Hy C. apply (Hre y C). apply in_or_app. now left.
      * rewrite app_assoc in Nf |- *. apply IH; try assumption.
        -- intros y Hy C. apply (Hrf y Hy). apply in_or_app. now right.
        -- cbn [dstep d_fallback]. unfold add_items. fold (new_of items). rewrite Hf, minus_app. f_equal.
           symmetry. apply minus_fresh. intros y Hy C. apply (Hrf y C). apply in_or_app. now left.
    + destruct Hwf as [Hx Hwf]. rewrite !added_rm, !removed_rm in *. destruct e; cbn [Bool.eqb] in *; cbn [app] in *.
      * replace (re ++ x :: removed true ops) with ((re ++ [x]) ++ removed true ops) by (now rewrite <- app_assoc).
        apply IH; try assumption.
        -- intros y Hy. apply in_app_or in Hy as [Hy|[<-|[]]]; [now apply Hre|exact Hx].
        -- cbn [dstep d_explicit]. rewrite He, remove_item_nodup.
           ++ apply minus_remove.
           ++ apply NoDup_filter. now apply NoDup_app_l in Ne.
      * replace (rf ++ x :: removed false ops) with ((rf ++ [x]) ++ removed false ops) by (now rewrite <- app_assoc).
        apply IH; try assumption.
        -- intros y Hy. apply in_app_or in Hy as [Hy|[<-|[]]]; [now apply Hrf|exact Hx].
        -- cbn [dstep d_fallback]. rewrite Hf, remove_item_nodup.
           ++ apply minus_remove.
           ++ apply NoDup_filter. now apply NoDup_app_l in Nf.
Qed.

(* The default target's dependencies: the explicitly declared outputs if there are any, otherwise every
   registered (linked) output that was not handed to test(). *)
Theorem default_set ops :
  NoDup (added true ops) -> NoDup (added false ops) -> wf_rm ops ->
  d_outputs (run_dops ops) =
    match minus (added true ops) (removed true ops) with
    | [] => minus (added false ops) (removed false ops)
    | e => e
    end.
Proof.
  intros Ne Nf Hwf. unfold d_outputs, run_dops.
  destruct (run_inv ops d_init [] [] [] [] Ne Nf Hwf) as [He Hf]; try (intros ? []); try reflexivity.
  cbn [app] in He, Hf. rewrite He, Hf. reflexivity.
Qed.
