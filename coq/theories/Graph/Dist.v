(* C18 - model of source registration for the dist targets.

   Mirrors (as written):
     builtins/file_types.py  static_file (registers iff dist and root = srcdir), the short circuit of
                             builtin.type (an object of the right type is returned as is, nothing is registered),
                             directory / header_directory (find first, then static_file)
     build_inputs.py         Edge.__init__ make() for extra_deps given as strings (registers iff root = srcdir),
                             BuildInputs.add_source (dict keyed by path: first position kept), add_bootstrap, sources()
     build.py                configure_build: bootstrap = build.bfg, then seen_paths[1:], then the option scripts
     builtins/find.py        find_from_filter: walk branch (every include / not_now entry is created in walk order)
                             and cache-hit branch (extra entries first, then found; before commit 491a34f the extra
                             entries were skipped: parameter fixed = false)
     builtins/dist.py        extra_dist, _dist_command;  tools/doppel.py _call_archive
     builtins/compile.py link.py copy_file.py command.py: the order in which object_file / object_files /
                             precompiled_header / executable / libraries / copy_file / man_page / command /
                             build_step convert their string arguments into file objects (expand below).

   Inputs that are not modelled: path resolution of names (a name arrives as root + suffix), the walk of the
   file system (a find call arrives with its list of walk events), types of objects (scripts are type correct). *)
From BFG Require Import Base.Chars.
Local Open Scope N_scope.

Inductive root := RSrc | RBuild | RAbs.

Definition root_eqb (a b : root) : bool :=
  match a, b with RSrc, RSrc | RBuild, RBuild | RAbs, RAbs => true | _, _ => false end.

Record node := mkNode { n_root : root; n_path : str }.

Definition node_eqb (a b : node) : bool := root_eqb (n_root a) (n_root b) && str_eqb (n_path a) (n_path b).

Definition is_src (n : node) : bool := root_eqb (n_root n) RSrc.

(* an argument that may be a string / Path (already resolved) or an object created earlier (entry of the log) *)
Inductive farg := AName (n : node) | AObj (i : nat).

Inductive fkind := KGeneric | KSource | KHeader | KModuleDef | KAuto | KDirectory | KHeaderDir | KManPage | KPch
                 | KObject | KExe | KShared | KStatic | KLibrary.

(* one entry produced by _find_files that is include or not_now *)
Record walkev := mkEv { w_node : node; w_inc : bool }.
Record findcall := mkFind { f_walk : list walkev; f_cache : bool; f_hit : bool }.

Definition found_of (f : findcall) : list node := map w_node (filter w_inc (f_walk f)).
Definition extra_of (f : findcall) : list node := map w_node (filter (fun e => negb (w_inc e)) (f_walk f)).

(* micro operations every builtin is a sequence of *)
Inductive mop :=
| MConv (k : fkind) (a : farg) (dist use push : bool)   (* a file builtin applied to a *)
| MDep (a : farg)                                       (* element of Edge extra_deps: string -> make(), object as is *)
| MFind (f : findcall) (dist push : bool)               (* find_from_filter *)
| MConvs (k : fkind) (l : list node) (dist push : bool)  (* [k(i) for i in paths] *)
| MPush (l : list str)                                  (* result of the statement: outputs in the build dir *)
| MSeen (n : node).                                     (* push_path of a submodule script *)

Record state := mkSt {
  sources : list node;        (* BuildInputs._sources in insertion order *)
  nodist : list node;         (* srcdir nodes some builtin created with dist=False *)
  log : list (list node);     (* values the script holds: one (singleton) entry per file object a statement returned *)
  refs : list node;           (* nodes the edges / rules consume, hence the build file mentions *)
  listed : list node;         (* every include / not_now entry of every find call *)
  bootstrap : list node;      (* BuildInputs.bootstrap_paths during execution *)
  seen : list node            (* context.seen_paths *)
}.

Definition mem (n : node) (l : list node) : bool := existsb (node_eqb n) l.

Definition add_source (st : state) (n : node) : state :=
  if mem n (sources st) then st
  else mkSt (sources st ++ [n]) (nodist st) (log st) (refs st) (listed st) (bootstrap st) (seen st).

Definition mark_nodist (st : state) (n : node) : state :=
  mkSt (sources st) (nodist st ++ [n]) (log st) (refs st) (listed st) (bootstrap st) (seen st).

(* file_types.static_file *)
Definition static_file (st : state) (n : node) (dist : bool) : state :=
  if is_src n then (if dist then add_source st n else mark_nodist st n) else st.

(* Edge.__init__ make *)
Definition edge_make (st : state) (n : node) : state := if is_src n then add_source st n else st.

Definition add_refs (st : state) (l : list node) : state :=
  mkSt (sources st) (nodist st) (log st) (refs st ++ l) (listed st) (bootstrap st) (seen st).
Definition push_log (st : state) (l : list node) : state :=
  mkSt (sources st) (nodist st) (log st ++ map (fun n => [n]) l) (refs st) (listed st) (bootstrap st) (seen st).
Definition add_listed (st : state) (l : list node) : state :=
  mkSt (sources st) (nodist st) (log st) (refs st) (listed st ++ l) (bootstrap st) (seen st).
Definition add_seen (st : state) (n : node) : state :=
  mkSt (sources st) (nodist st) (log st) (refs st) (listed st) (bootstrap st) (seen st ++ [n]).

Definition finish (use push : bool) (ns : list node) (st : state) : state :=
  let st1 := if use then add_refs st ns else st in
  if push then push_log st1 ns else st1.

Definition reg_all (dist : bool) (ns : list node) (st : state) : state :=
  fold_left (fun s n => static_file s n dist) ns st.

(* find_from_filter; fixed = false is the code before 491a34f (cached extra entries not re-created) *)
Definition run_find (fixed : bool) (st : state) (f : findcall) (dist : bool) : state :=
  if f_cache f && f_hit f then
    let st1 := if fixed then reg_all dist (extra_of f) st else st in
    reg_all dist (found_of f) st1
  else reg_all dist (map w_node (f_walk f)) st.

Definition run_mop (fixed : bool) (st : state) (m : mop) : option state :=
  match m with
  | MConv _ (AName n) dist use push => Some (finish use push [n] (static_file st n dist))
  | MConv _ (AObj i) _ use push =>
      match nth_error (log st) i with Some ns => Some (finish use push ns st) | None => None end
  | MDep (AName n) => Some (add_refs (edge_make st n) [n])
  | MDep (AObj i) => match nth_error (log st) i with Some ns => Some (add_refs st ns) | None => None end
  | MFind f dist push =>
      let st1 := add_listed (run_find fixed st f dist) (map w_node (f_walk f)) in
      Some (if push then push_log st1 (found_of f) else st1)
  | MConvs _ l dist push => Some (finish false push l (reg_all dist l st))
  | MPush l => Some (push_log st (map (mkNode RBuild) l))
  | MSeen n => Some (add_seen st n)
  end.

Fixpoint run_mops (fixed : bool) (st : state) (ms : list mop) : option state :=
  match ms with
  | [] => Some st
  | m :: r => match run_mop fixed st m with Some st1 => run_mops fixed st1 r | None => None end
  end.

(* ---- the builtins as sequences of conversions ---- *)
Inductive call :=
| CFile (k : fkind) (a : farg) (dist : bool)
| CDirInc (hdr : bool) (p : node) (f : option findcall) (dist : bool)
| CFind (f : findcall) (dist : bool)
| CFindPaths (f : findcall) (dist : bool)                       (* [source_file(i) for i in find_paths(...)] *)
| CExtraDist (files : list farg) (dirs : list (node * findcall))
| CObject (file : farg) (lang : bool) (incs : list farg) (pch : option farg) (deps : list farg) (out : str)
| CObjects (files : list (farg * bool)) (incs : list farg) (pch : option farg) (outs : list str)
| CPch (hdr : farg) (src : option farg) (incs : list farg) (out : str)
| CLink (files : list (farg * bool)) (incs libs : list farg) (pch : option farg) (deps : list farg) (out : str)
| CCopy (a : farg) (deps : list farg) (out : str)
| CManZ (a : farg) (dist : bool) (out : str)
| CCommand (files : list farg) (nodes : list nat) (deps : list farg) (out : str)
| CSub (script : node)
| CUse (i : nat).

Definition conv_inc (a : farg) : mop := MConv KHeaderDir a true true false.

(* Compile.convert_args: includes, then pch -> precompiled_header(file, file, includes=...) *)
Definition conv_compile_kw (incs : list farg) (pch : option farg) : list mop :=
  map conv_inc incs ++
  match pch with
  | Some h => MConv KHeader h true true false :: map conv_inc incs
  | None => []
  end.

(* CompileSource.convert_args + Compile.convert_args for one file; lang = an explicit lang= was passed *)
Definition conv_source (lang : bool) (file : farg) (incs : list farg) (pch : option farg) : list mop :=
  (if lang then [] else [MConv KAuto file true false false]) ++
  [MConv KSource file true true false] ++ conv_compile_kw incs pch.

(* object_files: an ObjectFile object is passed through, anything else is compiled *)
Definition conv_objects (files : list (farg * bool)) (incs : list farg) (pch : option farg) : list mop :=
  flat_map (fun fb : farg * bool => if snd fb then [MConv KObject (fst fb) true true false]
                      else conv_source false (fst fb) incs pch) files.

Definition kind_dir (hdr : bool) : fkind := if hdr then KHeaderDir else KDirectory.

Definition expand (c : call) : list mop :=
  match c with
  | CFile k a dist => [MConv k a dist false true]
  | CDirInc hdr p f dist =>
      match f with Some f => [MFind f dist false] | None => [] end ++ [MConv (kind_dir hdr) (AName p) dist false true]
  | CFind f dist => [MFind f dist true]
  | CFindPaths f dist =>
      [MFind f dist false; MConvs KSource (found_of f) true true]
  | CExtraDist files dirs =>
      map (fun a => MConv KGeneric a true false false) files ++
      flat_map (fun pf : node * findcall => [MFind (snd pf) true false; MConv KDirectory (AName (fst pf)) true false false]) dirs
  | CObject file lang incs pch deps out =>
      conv_source lang file incs pch ++ map MDep deps ++ [MPush [out]]
  | CObjects files incs pch outs => conv_objects files incs pch ++ [MPush outs]
  | CPch hdr src incs out =>
      MConv KHeader hdr true true false ::
      match src with Some s => [MConv KSource s true true false] | None => [] end ++
      map conv_inc incs ++ [MPush [out]]
  | CLink files incs libs pch deps out =>
      map (fun a => MConv KLibrary a true true false) libs ++ conv_objects files incs pch ++
      map MDep deps ++ [MPush [out]]
  | CCopy a deps out => MConv KAuto a true true false :: map MDep deps ++ [MPush [out]]
  | CManZ a dist out => [MConv KManPage a dist true false; MPush [out]]
  | CCommand files nodes deps out =>
      map (fun a => MConv KAuto a true true false) files ++ map (fun i => MDep (AObj i)) nodes ++
      map MDep deps ++ [MPush [out]]
  | CSub n => [MSeen n]
  | CUse i => [MDep (AObj i)]
  end.

Definition compile (script : list call) : list mop := flat_map expand script.

(* BuildInputs.__init__ adds build.bfg; execute_file pushes it on seen_paths *)
Definition init (bfg : node) : state := mkSt [] [] [] [] [] [bfg] [bfg].

Definition run (fixed : bool) (bfg : node) (script : list call) : option state :=
  run_mops fixed (init bfg) (compile script).

(* configure_build: for i in chain(seen_paths[1:], opts_paths): add_bootstrap(i);  sources() = bootstrap then _sources *)
Definition dist_members (st : state) (opts : list node) : list node :=
  (bootstrap st ++ tl (seen st) ++ opts) ++ sources st.

Definition scripts_read (st : state) (opts : list node) : list node := seen st ++ opts.

(* what the property says must be distributed: what the build file mentions, what find_files listed, scripts *)
Definition srcdir_refs (st : state) : list node := filter is_src (refs st ++ listed st).

(* ---- _dist_command / Doppel._call_archive ---- *)
Inductive word := WStr (s : str) | WSrcdir | WBuildFile (s : str).

Definition dot : str := [46].
Definition relpath_src (n : node) : option str :=
  if is_src n then Some (match n_path n with [] => dot | p => p end) else None.

Fixpoint map_opt {T U} (f : T -> option U) (l : list T) : option (list U) :=
  match l with
  | [] => Some []
  | x :: r => match f x, map_opt f r with Some y, Some ys => Some (y :: ys) | _, _ => None end
  end.

Definition w_ipN : str := [45; 105; 112; 78].
Definition w_f : str := [45; 102].
Definition w_C : str := [45; 67].
Definition w_P : str := [45; 80].
Definition w_doppel : str := [100; 111; 112; 112; 101; 108].
Definition c_dash : char := 45.

(* dstname = project name [- version]; dest_prefix only when non-empty *)
Definition dstname (name : str) (version : option str) : str :=
  match version with Some v => name ++ c_dash :: v | None => name end.

Definition dist_command (fmt ext name : str) (version : option str) (st : state) (opts : list node) : option (list word) :=
  match map_opt relpath_src (dist_members st opts) with
  | Some rels =>
      let d := dstname name version in
      Some ([WStr w_doppel; WStr w_ipN; WStr w_f; WStr fmt; WStr w_C; WSrcdir] ++
            match d with [] => [] | _ => [WStr w_P; WStr d] end ++
            map WStr rels ++ [WBuildFile (d ++ ext)])
  | None => None
  end.

(* syntactic: the script creates n with dist somewhere (string given to a builtin with dist, to an Edge, or a find
   entry with dist) *)
Definition withdist_mop (m : mop) : list node :=
  match m with
  | MConv _ (AName n) true _ _ => [n]
  | MDep (AName n) => [n]
  | MFind f true _ => map w_node (f_walk f)
  | MConvs _ l true _ => l
  | _ => []
  end.
Definition created_with_dist (script : list call) : list node := flat_map withdist_mop (compile script).

Definition scripts_in_src (bfg : node) (script : list call) (opts : list node) : bool :=
  is_src bfg && forallb is_src opts &&
  forallb (fun m => match m with MSeen n => is_src n | _ => true end) (compile script).
