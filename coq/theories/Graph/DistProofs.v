(* Proofs about Graph/Dist.v (property C18). *)
From BFG Require Import Base.Chars Graph.Dist.
Local Open Scope N_scope.

Lemma root_eqb_eq a b : root_eqb a b = true <-> a = b.
Proof. destruct a, b; cbn; split; congruence. Qed.

Lemma node_eqb_eq a b : node_eqb a b = true <-> a = b.
Proof.
  destruct a as [ra pa], b as [rb pb]; unfold node_eqb; cbn.
  rewrite andb_true_iff, root_eqb_eq, str_eqb_eq. split; [intros [-> ->]; reflexivity|intros H; inversion H; auto].
Qed.

Lemma mem_In n l : mem n l = true <-> In n l.
Proof.
  unfold mem. rewrite existsb_exists. split.
  - intros [x [Hx He]]. apply node_eqb_eq in He. subst. exact Hx.
  - intros H. exists n. split; [exact H|now apply node_eqb_eq].
Qed.

Lemma is_src_root n : is_src n = true <-> n_root n = RSrc.
Proof. unfold is_src. apply root_eqb_eq. Qed.

(* ---- the registration predicate and monotonicity ---- *)
Definition P (st : state) (n : node) : Prop := is_src n = true -> In n (sources st) \/ In n (nodist st).
Definition le (a b : state) : Prop := incl (sources a) (sources b) /\ incl (nodist a) (nodist b).

Lemma le_refl a : le a a.
Proof. split; apply incl_refl. Qed.
Lemma le_trans a b c : le a b -> le b c -> le a c.
Proof. intros [H1 H2] [H3 H4]. split; eapply incl_tran; eauto. Qed.
Lemma P_le a b n : le a b -> P a n -> P b n.
Proof. intros [H1 H2] HP Hs. destruct (HP Hs) as [H|H]; [left; apply H1|right; apply H2]; exact H. Qed.

Lemma add_source_le st n : le st (add_source st n).
Proof.
  unfold add_source. destruct (mem n (sources st)); [apply le_refl|].
  split; cbn; [apply incl_appl|]; apply incl_refl.
Qed.
Lemma add_source_In st n : In n (sources (add_source st n)).
Proof.
  unfold add_source. destruct (mem n (sources st)) eqn:E; [now apply mem_In|].
  cbn. apply in_or_app. right. now left.
Qed.
Lemma mark_nodist_le st n : le st (mark_nodist st n).
Proof. split; cbn; [|apply incl_appl]; apply incl_refl. Qed.

Lemma static_file_le st n d : le st (static_file st n d).
Proof.
  unfold static_file. destruct (is_src n); [|apply le_refl].
  destruct d; [apply add_source_le|apply mark_nodist_le].
Qed.
Lemma static_file_P st n d : P (static_file st n d) n.
Proof.
  unfold static_file, P. intros Hs. rewrite Hs. destruct d.
  - left. apply add_source_In.
  - right. cbn. apply in_or_app. right. now left.
Qed.
Lemma edge_make_le st n : le st (edge_make st n).
Proof. unfold edge_make. destruct (is_src n); [apply add_source_le|apply le_refl]. Qed.
Lemma edge_make_P st n : P (edge_make st n) n.
Proof. unfold edge_make, P. intros Hs. rewrite Hs. left. apply add_source_In. Qed.

Lemma reg_all_le d ns : forall st, le st (reg_all d ns st).
Proof.
  induction ns as [|n ns IH]; intros st; cbn; [apply le_refl|].
  eapply le_trans; [apply (static_file_le st n d)|apply IH].
Qed.
Lemma reg_all_P d ns : forall st n, In n ns -> P (reg_all d ns st) n.
Proof.
  induction ns as [|m ns IH]; intros st n Hin; [destruct Hin|].
  cbn. destruct Hin as [->|Hin].
  - eapply P_le; [apply reg_all_le|apply static_file_P].
  - apply IH. exact Hin.
Qed.

(* the other fields are untouched by registration *)
Definition same_rest (a b : state) : Prop :=
  log a = log b /\ refs a = refs b /\ listed a = listed b /\ bootstrap a = bootstrap b /\ seen a = seen b.
Lemma same_rest_refl a : same_rest a a.
Proof. repeat split. Qed.
Lemma same_rest_trans a b c : same_rest a b -> same_rest b c -> same_rest a c.
Proof. unfold same_rest. intuition congruence. Qed.
Lemma add_source_rest st n : same_rest st (add_source st n).
Proof. unfold add_source. destruct (mem n (sources st)); repeat split. Qed.
Lemma static_file_rest st n d : same_rest st (static_file st n d).
Proof.
  unfold static_file. destruct (is_src n); [|apply same_rest_refl].
  destruct d; [apply add_source_rest|repeat split].
Qed.
Lemma edge_make_rest st n : same_rest st (edge_make st n).
Proof. unfold edge_make. destruct (is_src n); [apply add_source_rest|apply same_rest_refl]. Qed.
Lemma reg_all_rest d ns : forall st, same_rest st (reg_all d ns st).
Proof.
  induction ns as [|n ns IH]; intros st; cbn; [apply same_rest_refl|].
  eapply same_rest_trans; [apply (static_file_rest st n d)|apply IH].
Qed.

Lemma walk_split f n : In n (map w_node (f_walk f)) -> In n (found_of f) \/ In n (extra_of f).
Proof.
  unfold found_of, extra_of. intros H. apply in_map_iff in H. destruct H as [e [<- He]].
  destruct (w_inc e) eqn:E; [left|right]; apply in_map; apply filter_In; split; auto. now rewrite E.
Qed.

Lemma run_find_le fixed st f d : le st (run_find fixed st f d).
Proof.
  unfold run_find. destruct (f_cache f && f_hit f).
  - destruct fixed.
    + eapply le_trans; apply reg_all_le.
    + apply reg_all_le.
  - apply reg_all_le.
Qed.
Lemma run_find_rest fixed st f d : same_rest st (run_find fixed st f d).
Proof.
  unfold run_find. destruct (f_cache f && f_hit f).
  - destruct fixed.
    + eapply same_rest_trans; apply reg_all_rest.
    + apply reg_all_rest.
  - apply reg_all_rest.
Qed.
(* the current code creates every listed entry on both branches *)
Lemma run_find_P st f d n : In n (map w_node (f_walk f)) -> P (run_find true st f d) n.
Proof.
  intros Hin. unfold run_find. destruct (f_cache f && f_hit f).
  - destruct (walk_split f n Hin) as [H|H].
    + apply reg_all_P. exact H.
    + eapply P_le; [apply reg_all_le|]. apply reg_all_P. exact H.
  - apply reg_all_P. exact Hin.
Qed.

(* ---- invariant of a run of the current code ---- *)
Definition Inv (st : state) : Prop :=
  (forall ns n, In ns (log st) -> In n ns -> P st n) /\
  (forall n, In n (refs st) -> P st n) /\
  (forall n, In n (listed st) -> P st n).

Lemma Inv_le a b : Inv a -> le a b -> same_rest a b -> Inv b.
Proof.
  intros [H1 [H2 H3]] Hle [E1 [E2 [E3 _]]]. unfold Inv. rewrite <- E1, <- E2, <- E3.
  repeat split; intros; eapply P_le; eauto.
Qed.

Lemma P_fields a b n : sources a = sources b -> nodist a = nodist b -> P a n -> P b n.
Proof. unfold P. intros -> ->. auto. Qed.

Lemma Inv_finish use push ns st : Inv st -> (forall n, In n ns -> P st n) -> Inv (finish use push ns st).
Proof.
  intros [H1 [H2 H3]] Hns. unfold finish, Inv, P in *.
  destruct use, push; cbn; repeat split; intros;
    repeat match goal with
    | H : In _ (_ ++ _) |- _ => apply in_app_or in H; destruct H as [H|H]
    | H : In _ (map _ _) |- _ => apply in_map_iff in H; destruct H as [? [? H]]; subst
    | H : In _ [_] |- _ => destruct H as [H|[]]; subst
    end; eauto.
Qed.

Lemma Inv_step st m st' : Inv st -> run_mop true st m = Some st' -> Inv st'.
Proof.
  intros HI Hr. destruct m as [k a dist use push|a|f dist push|k l dist push|l|n]; cbn in Hr.
  - destruct a as [n|i].
    + inversion Hr; subst. apply Inv_finish.
      * eapply Inv_le; [exact HI|apply static_file_le|apply static_file_rest].
      * intros x [<-|[]]. apply static_file_P.
    + destruct (nth_error (log st) i) as [ns|] eqn:E; [|discriminate]. inversion Hr; subst.
      apply Inv_finish; [exact HI|]. intros x Hx. destruct HI as [H1 _]. eapply H1; [eapply nth_error_In; exact E|exact Hx].
  - destruct a as [n|i].
    + inversion Hr; subst. apply (Inv_finish true false).
      * eapply Inv_le; [exact HI|apply edge_make_le|apply edge_make_rest].
      * intros x [<-|[]]. apply edge_make_P.
    + destruct (nth_error (log st) i) as [ns|] eqn:E; [|discriminate]. inversion Hr; subst.
      apply (Inv_finish true false); [exact HI|]. intros x Hx. destruct HI as [H1 _].
      eapply H1; [eapply nth_error_In; exact E|exact Hx].
  - inversion Hr; subst. clear Hr.
    assert (HA : Inv (add_listed (run_find true st f dist) (map w_node (f_walk f)))).
    { assert (HF : Inv (run_find true st f dist)) by (eapply Inv_le; [exact HI|apply run_find_le|apply run_find_rest]).
      destruct HF as [F1 [F2 F3]]. repeat split; cbn.
      - intros l n Hl Hn. eapply P_fields; [| |apply (F1 l n Hl Hn)]; reflexivity.
      - intros n Hn. eapply P_fields; [| |apply (F2 n Hn)]; reflexivity.
      - intros n Hn. apply in_app_or in Hn. destruct Hn as [Hn|Hn].
        + eapply P_fields; [| |apply (F3 n Hn)]; reflexivity.
        + eapply P_fields; [| |apply (run_find_P st f dist n Hn)]; reflexivity. }
    destruct push; [|exact HA].
    apply (Inv_finish false true (found_of f)) in HA; [exact HA|].
    intros n Hn. eapply P_fields; [| |apply (run_find_P st f dist n)]; try reflexivity.
    unfold found_of in Hn. apply in_map_iff in Hn. destruct Hn as [e [<- He]]. apply in_map.
    apply filter_In in He. tauto.
  - inversion Hr; subst. apply Inv_finish.
    + eapply Inv_le; [exact HI|apply reg_all_le|apply reg_all_rest].
    + intros x Hx. apply reg_all_P. exact Hx.
  - inversion Hr; subst. apply (Inv_finish false true (map (mkNode RBuild) l)) in HI; [exact HI|].
    intros x Hx Hs. apply in_map_iff in Hx. destruct Hx as [p [<- _]]. discriminate Hs.
  - inversion Hr; subst. destruct HI as [H1 [H2 H3]]. repeat split; cbn; intros; eapply P_fields; eauto.
Qed.

Lemma Inv_run ms : forall st st', Inv st -> run_mops true st ms = Some st' -> Inv st'.
Proof.
  induction ms as [|m ms IH]; intros st st' HI Hr; cbn in Hr.
  - inversion Hr; subst. exact HI.
  - destruct (run_mop true st m) as [s1|] eqn:E; [|discriminate].
    eapply IH; [eapply Inv_step; eauto|exact Hr].
Qed.

Lemma Inv_init bfg : Inv (init bfg).
Proof. repeat split; cbn; intros; contradiction. Qed.

(* ---- scripts: bootstrap stays [build.bfg], seen_paths starts with it ---- *)
Definition B (bfg : node) (st : state) : Prop := bootstrap st = [bfg] /\ exists r, seen st = bfg :: r.

Lemma finish_boot use push ns st : bootstrap (finish use push ns st) = bootstrap st /\ seen (finish use push ns st) = seen st.
Proof. unfold finish. destruct use, push; cbn; auto. Qed.

Lemma B_step fixed bfg st m st' : B bfg st -> run_mop fixed st m = Some st' -> B bfg st'.
Proof.
  intros [Hb [r Hs]] Hr. unfold B.
  destruct m as [k a dist use push|a|f dist push|k l dist push|l|n]; cbn in Hr.
  - destruct a as [n|i].
    + inversion Hr; subst. destruct (finish_boot use push [n] (static_file st n dist)) as [-> ->].
      destruct (static_file_rest st n dist) as [_ [_ [_ [<- <-]]]]. eauto.
    + destruct (nth_error (log st) i); [|discriminate]. inversion Hr; subst.
      destruct (finish_boot use push l st) as [-> ->]. eauto.
  - destruct a as [n|i].
    + inversion Hr; subst. cbn. destruct (edge_make_rest st n) as [_ [_ [_ [<- <-]]]]. eauto.
    + destruct (nth_error (log st) i); [|discriminate]. inversion Hr; subst. cbn. eauto.
  - inversion Hr; subst. destruct (run_find_rest fixed st f dist) as [_ [_ [_ [E1 E2]]]].
    destruct push; cbn; rewrite <- E1, <- E2; eauto.
  - inversion Hr; subst. destruct (finish_boot false push l (reg_all dist l st)) as [-> ->].
    destruct (reg_all_rest dist l st) as [_ [_ [_ [<- <-]]]]. eauto.
  - inversion Hr; subst. cbn. eauto.
  - inversion Hr; subst. cbn. rewrite Hs. split; [exact Hb|]. exists (r ++ [n]). reflexivity.
Qed.

Lemma B_run fixed bfg ms : forall st st', B bfg st -> run_mops fixed st ms = Some st' -> B bfg st'.
Proof.
  induction ms as [|m ms IH]; intros st st' HB Hr; cbn in Hr.
  - inversion Hr; subst. exact HB.
  - destruct (run_mop fixed st m) as [s1|] eqn:E; [|discriminate].
    eapply IH; [eapply B_step; eauto|exact Hr].
Qed.

Lemma B_init bfg : B bfg (init bfg).
Proof. split; [reflexivity|exists []; reflexivity]. Qed.

Lemma scripts_members bfg st opts n : B bfg st -> In n (scripts_read st opts) <-> In n (bootstrap st ++ tl (seen st) ++ opts).
Proof.
  intros [Hb [r Hs]]. unfold scripts_read. rewrite Hb, Hs. cbn. rewrite !in_app_iff. tauto.
Qed.

(* C18_complete *)
Theorem complete bfg script opts st :
  run true bfg script = Some st ->
  forall n, In n (srcdir_refs st) \/ In n (scripts_read st opts) ->
  In n (dist_members st opts) \/ In n (nodist st).
Proof.
  intros Hr n Hn. unfold run in Hr.
  pose proof (Inv_run _ _ _ (Inv_init bfg) Hr) as [_ [H2 H3]].
  pose proof (B_run true bfg _ _ _ (B_init bfg) Hr) as HB.
  unfold dist_members. destruct Hn as [Hn|Hn].
  - unfold srcdir_refs in Hn. apply filter_In in Hn. destruct Hn as [Hn Hs].
    apply in_app_or in Hn. destruct Hn as [Hn|Hn]; [destruct (H2 n Hn Hs)|destruct (H3 n Hn Hs)];
      auto; left; apply in_or_app; right; assumption.
  - left. apply in_or_app. left. now apply (scripts_members bfg).
Qed.

(* the code before 491a34f: an extra entry of a cached find call is listed but neither distributed nor marked *)
Definition w_bfg : node := mkNode RSrc [98; 117; 105; 108; 100; 46; 98; 102; 103].
Definition w_found : node := mkNode RSrc [115; 114; 99; 47; 97; 46; 99].
Definition w_extra : node := mkNode RSrc [115; 114; 99; 47; 97; 46; 104].
Definition w_script (hit : bool) : list call :=
  [CFind (mkFind [mkEv w_found true; mkEv w_extra false] true hit) true].

Lemma not_mem_In n l : mem n l = false -> ~ In n l.
Proof. intros H Hin. apply mem_In in Hin. congruence. Qed.

Theorem complete_refuted :
  exists bfg script st, run false bfg script = Some st /\
    exists n, In n (srcdir_refs st) /\ ~ In n (dist_members st []) /\ ~ In n (nodist st).
Proof.
  exists w_bfg, (w_script true). eexists. split; [vm_compute; reflexivity|].
  exists w_extra. split; [vm_compute; auto|]. split; apply not_mem_In; vm_compute; reflexivity.
Qed.

(* ---- sources only come from creations with dist ---- *)
Lemma add_source_src st n x : In x (sources (add_source st n)) -> In x (sources st) \/ x = n.
Proof.
  unfold add_source. destruct (mem n (sources st)); [auto|]. cbn. intros H. apply in_app_or in H.
  destruct H as [H|[H|[]]]; auto.
Qed.
Lemma static_file_src st n d x : In x (sources (static_file st n d)) -> In x (sources st) \/ (x = n /\ d = true /\ is_src n = true).
Proof.
  unfold static_file. destruct (is_src n) eqn:E; [|auto]. destruct d; [|auto].
  intros H. apply add_source_src in H. tauto.
Qed.
Lemma reg_all_src d ns : forall st x, In x (sources (reg_all d ns st)) ->
  In x (sources st) \/ (In x ns /\ d = true /\ is_src x = true).
Proof.
  induction ns as [|n ns IH]; intros st x H; cbn in *; [auto|].
  apply IH in H. destruct H as [H|[H1 H2]]; [|right; tauto].
  apply static_file_src in H. destruct H as [H|[-> [H1 H2]]]; [auto|right; auto].
Qed.
Lemma finish_src use push ns st : sources (finish use push ns st) = sources st.
Proof. unfold finish. destruct use, push; reflexivity. Qed.

Lemma run_find_src fixed st f d x : In x (sources (run_find fixed st f d)) ->
  In x (sources st) \/ (In x (map w_node (f_walk f)) /\ d = true /\ is_src x = true).
Proof.
  assert (HF : forall y, In y (found_of f) -> In y (map w_node (f_walk f))).
  { intros y Hy. unfold found_of in Hy. apply in_map_iff in Hy. destruct Hy as [e [<- He]]. apply in_map.
    apply filter_In in He. tauto. }
  assert (HE : forall y, In y (extra_of f) -> In y (map w_node (f_walk f))).
  { intros y Hy. unfold extra_of in Hy. apply in_map_iff in Hy. destruct Hy as [e [<- He]]. apply in_map.
    apply filter_In in He. tauto. }
  unfold run_find. destruct (f_cache f && f_hit f).
  - intros H. apply reg_all_src in H. destruct H as [H|[H1 H2]]; [|right; split; [apply HF|]; tauto].
    destruct fixed; [|auto]. apply reg_all_src in H. destruct H as [H|[H1 H2]]; [auto|right; split; [apply HE|]; tauto].
  - intros H. apply reg_all_src in H. tauto.
Qed.

Lemma step_src fixed st m st' x : run_mop fixed st m = Some st' -> In x (sources st') ->
  In x (sources st) \/ (In x (withdist_mop m) /\ is_src x = true).
Proof.
  intros Hr Hx. destruct m as [k a dist use push|a|f dist push|k l dist push|l|n]; cbn in Hr.
  - destruct a as [n|i].
    + inversion Hr; subst. rewrite finish_src in Hx. apply static_file_src in Hx.
      destruct Hx as [Hx|[-> [-> Hs]]]; [auto|]. right. cbn. auto.
    + destruct (nth_error (log st) i); [|discriminate]. inversion Hr; subst. rewrite finish_src in Hx. auto.
  - destruct a as [n|i].
    + inversion Hr; subst. cbn in Hx. unfold edge_make in Hx. destruct (is_src n) eqn:E; [|auto].
      apply add_source_src in Hx. destruct Hx as [Hx| ->]; [auto|]. right. cbn. auto.
    + destruct (nth_error (log st) i); [|discriminate]. inversion Hr; subst. cbn in Hx. auto.
  - inversion Hr; subst. assert (Hx' : In x (sources (run_find fixed st f dist))) by (destruct push; exact Hx).
    apply run_find_src in Hx'. destruct Hx' as [H|[H1 [-> H3]]]; [auto|]. right. cbn. auto.
  - inversion Hr; subst. rewrite finish_src in Hx. apply reg_all_src in Hx.
    destruct Hx as [H|[H1 [-> H3]]]; [auto|]. right. cbn. auto.
  - inversion Hr; subst. cbn in Hx. auto.
  - inversion Hr; subst. cbn in Hx. auto.
Qed.

Lemma run_src fixed ms : forall st st' x, run_mops fixed st ms = Some st' -> In x (sources st') ->
  In x (sources st) \/ (In x (flat_map withdist_mop ms) /\ is_src x = true).
Proof.
  induction ms as [|m ms IH]; intros st st' x Hr Hx; cbn in Hr.
  - inversion Hr; subst. auto.
  - destruct (run_mop fixed st m) as [s1|] eqn:E; [|discriminate].
    destruct (IH _ _ _ Hr Hx) as [H|[H1 H2]].
    + destruct (step_src _ _ _ _ _ E H) as [H0|[H1 H2]]; [auto|]. right. cbn. split; [apply in_or_app; auto|exact H2].
    + right. cbn. split; [apply in_or_app; auto|exact H2].
Qed.

(* every registered source is a srcdir node the script created with dist *)
Theorem sources_created fixed bfg script st x :
  run fixed bfg script = Some st -> In x (sources st) -> In x (created_with_dist script) /\ n_root x = RSrc.
Proof.
  intros Hr Hx. destruct (run_src _ _ _ _ _ Hr Hx) as [[]|[H1 H2]]. split; [exact H1|now apply is_src_root].
Qed.

(* C18_nodist_absent *)
Theorem nodist_absent fixed bfg script opts st n :
  run fixed bfg script = Some st ->
  In n (nodist st) -> ~ In n (created_with_dist script) -> ~ In n (scripts_read st opts) ->
  ~ In n (dist_members st opts).
Proof.
  intros Hr _ Hc Hs Hm. unfold dist_members in Hm. apply in_app_or in Hm. destruct Hm as [Hm|Hm].
  - apply Hs. apply (scripts_members bfg); [|exact Hm]. exact (B_run fixed bfg _ _ _ (B_init bfg) Hr).
  - apply Hc. eapply sources_created; eauto.
Qed.

(* C18_no_builddir *)
Lemma seen_src fixed ms : forall st st', run_mops fixed st ms = Some st' ->
  forallb (fun m => match m with MSeen n => is_src n | _ => true end) ms = true ->
  forallb is_src (seen st) = true -> forallb is_src (seen st') = true.
Proof.
  induction ms as [|m ms IH]; intros st st' Hr Hg Hs; cbn in Hr.
  - inversion Hr; subst. exact Hs.
  - destruct (run_mop fixed st m) as [s1|] eqn:E; [|discriminate]. cbn in Hg. apply andb_true_iff in Hg.
    destruct Hg as [Hg1 Hg2]. eapply IH; [exact Hr|exact Hg2|].
    destruct m as [k a dist use push|a|f dist push|k l dist push|l|n]; cbn in E.
    + destruct a as [n|i].
      * inversion E; subst. destruct (finish_boot use push [n] (static_file st n dist)) as [_ ->].
        destruct (static_file_rest st n dist) as [_ [_ [_ [_ <-]]]]. exact Hs.
      * destruct (nth_error (log st) i); [|discriminate]. inversion E; subst.
        destruct (finish_boot use push l st) as [_ ->]. exact Hs.
    + destruct a as [n|i].
      * inversion E; subst. cbn. destruct (edge_make_rest st n) as [_ [_ [_ [_ <-]]]]. exact Hs.
      * destruct (nth_error (log st) i); [|discriminate]. inversion E; subst. exact Hs.
    + inversion E; subst. destruct (run_find_rest fixed st f dist) as [_ [_ [_ [_ E2]]]].
      destruct push; cbn; rewrite <- E2; exact Hs.
    + inversion E; subst. destruct (finish_boot false push l (reg_all dist l st)) as [_ ->].
      destruct (reg_all_rest dist l st) as [_ [_ [_ [_ <-]]]]. exact Hs.
    + inversion E; subst. exact Hs.
    + inversion E; subst. cbn. rewrite forallb_app, Hs. cbn. rewrite Hg1. reflexivity.
Qed.

Theorem no_builddir fixed bfg script opts st :
  run fixed bfg script = Some st -> scripts_in_src bfg script opts = true ->
  forall n, In n (dist_members st opts) -> n_root n = RSrc.
Proof.
  intros Hr Hg n Hn. unfold scripts_in_src in Hg. apply andb_true_iff in Hg. destruct Hg as [Hg Hg3].
  apply andb_true_iff in Hg. destruct Hg as [Hg1 Hg2].
  unfold dist_members in Hn. apply in_app_or in Hn. destruct Hn as [Hn|Hn].
  - apply (scripts_members bfg) in Hn; [|exact (B_run fixed bfg _ _ _ (B_init bfg) Hr)].
    apply is_src_root. unfold scripts_read in Hn. apply in_app_or in Hn. destruct Hn as [Hn|Hn].
    + assert (HS : forallb is_src (seen st) = true).
      { eapply seen_src; [exact Hr|exact Hg3|]. cbn. now rewrite Hg1. }
      rewrite forallb_forall in HS. auto.
    + rewrite forallb_forall in Hg2. auto.
  - eapply sources_created; eauto.
Qed.

(* C18_relative *)
Definition rel_text (n : node) : str := match n_path n with [] => dot | p => p end.

Lemma map_opt_rel l : (forall n, In n l -> n_root n = RSrc) -> map_opt relpath_src l = Some (map rel_text l).
Proof.
  induction l as [|x l IH]; intros H; [reflexivity|]. cbn.
  assert (Hx : is_src x = true) by (apply is_src_root; apply H; now left).
  unfold relpath_src at 1. rewrite Hx. rewrite IH; [reflexivity|]. intros n Hn. apply H. now right.
Qed.

Theorem relative fixed bfg script opts st fmt ext name version :
  run fixed bfg script = Some st -> scripts_in_src bfg script opts = true ->
  dist_command fmt ext name version st opts =
    Some ([WStr w_doppel; WStr w_ipN; WStr w_f; WStr fmt; WStr w_C; WSrcdir] ++
          match dstname name version with [] => [] | d => [WStr w_P; WStr d] end ++
          map WStr (map rel_text (dist_members st opts)) ++ [WBuildFile (dstname name version ++ ext)]).
Proof.
  intros Hr Hg. unfold dist_command. rewrite map_opt_rel; [|eapply no_builddir; eauto].
  destruct (dstname name version); reflexivity.
Qed.
