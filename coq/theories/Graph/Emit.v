(* W model of the rule handlers of the Make and Ninja backends AS WRITTEN:
     builtins/compile.py   make_compile / ninja_compile
     builtins/link.py      make_link / ninja_link
     builtins/command.py   make_command / ninja_command
     builtins/copy_file.py make_copy_file / ninja_copy_file
     builtins/alias.py     make_alias / ninja_alias
     builtins/default.py   make_all_rule / ninja_all_rule
     builtins/tests.py     make_test_rule / ninja_test_rule
     builtins/install.py   make_install_rule / ninja_install_rule
     backends/make/writer.py  multitarget_rule (stamp), directory_deps (.dir sentinels)
     backends/ninja/writer.py command_build (PHONY)
   reduced to the dependency structure of the Rule / Build tuples they register (Makefile._rules, NinjaFile._builds).
   Recipes, variables and descriptions are the subject of C01/C02/C06 flag theorems.  Definitions only. *)
From BFG Require Import Base.Chars Graph.Steps.
Local Open Scope N_scope.

(* what a rule can name: a file or phony name of the script, the stamp file of a multi-output step
   (first output + .stamp), the sentinel of a directory (dir/.dir), Ninja's always-dirty PHONY *)
Inductive node := NF (f : N) | NStamp (f : N) | NDir (d : N) | NPhony.

Definition node_eqb (a b : node) : bool :=
  match a, b with
  | NF x, NF y | NStamp x, NStamp y | NDir x, NDir y => x =? y
  | NPhony, NPhony => true
  | _, _ => false
  end.

(* ------------------------------------------------------------------ Make *)
Record mrule := mkM {
  mr_targets : list node; mr_deps : list node; mr_order : list node; mr_recipe : bool; mr_phony : bool
}.

(* writer.py directory_deps:  dirs = uniques(parent(i) for i in targets); [d/.dir for d in dirs if d != builddir] *)
Definition directory_deps (os : list out) : list node :=
  map NDir (filter (fun d => negb (d =? 0)) (nuniq (map o_dir os))).

(* writer.py multitarget_rule.  None: targets[0] on an empty list raises IndexError.
   [fx] selects the variant of the rule  outs: first.stamp  of a multi-output step:
     fx = false  buildfile.rule(target=targets, deps=[primary])                            no recipe (as first written)
     fx = true   buildfile.rule(target=targets, deps=[primary], recipe=[Silent([':'])])    the no-op recipe  @:
   (repair of finding C03-make-stamp-consumer-stale: with a recipe GNU Make looks at the outputs again after the
   stamp's recipe ran; Graph/StampSem.v).  The harness probes the tree under test and passes the variant it finds. *)
Definition multitarget_rule (fx : bool) (targets : list out) (deps order : list node) (recipe phony : bool) :
  option (list mrule) :=
  match targets with
  | [] => None
  | [t] => Some [mkM [NF (o_file t)] deps order recipe phony]
  | t :: _ :: _ =>
      Some [mkM (map (fun o => NF (o_file o)) targets) [NStamp (o_file t)] [] fx false;
            mkM [NStamp (o_file t)] deps order true phony]
  end.

Definition fs_ (l : list N) : list node := map NF l.

Definition make_compile_deps (st : step) : list N :=
  oN (s_pch_source st) ++ oN (s_file st) ++ oN (s_pch st) ++ s_include_deps st ++ s_libs st ++ s_pkg_deps st ++
  s_extra_deps st.

Definition make_link_deps (st : step) : list N :=
  s_files st ++ s_libs st ++ s_pkg_deps st ++ s_module_defs st ++ s_manifest st ++ s_extra_deps st.

Definition emit_make_step (fx : bool) (st : step) : option (list mrule) :=
  match s_kind st with
  | KCompile =>
      multitarget_rule fx (s_outputs st) (fs_ (make_compile_deps st)) (directory_deps (s_outputs st)) true false
  | KLink =>
      multitarget_rule fx (s_outputs st) (fs_ (make_link_deps st)) (directory_deps (s_outputs st)) true false
  | KCommand =>
      multitarget_rule fx (s_outputs st) (fs_ (s_files st ++ s_extra_deps st)) [] true (s_phony st)
  | KBuildStep =>
      multitarget_rule fx (s_outputs st) (fs_ (s_files st ++ s_extra_deps st)) (directory_deps (s_outputs st)) true
                       (s_phony st)
  | KCopyFile =>
      (* buildfile.rule(target=rule.output, ...): one rule, no stamp; Makefile.rule rejects an empty target list *)
      match s_outputs st with
      | [] => None
      | os => Some [mkM (map (fun o => NF (o_file o)) os) (fs_ (oN (s_file st) ++ s_extra_deps st))
                        (directory_deps os) true false]
      end
  | KAlias =>
      match s_outputs st with
      | [] => None
      | os => Some [mkM (map (fun o => NF (o_file o)) os) (fs_ (s_extra_deps st)) [] false true]
      end
  end.

Fixpoint emit_make_steps (fx : bool) (steps : list step) : option (list mrule) :=
  match steps with
  | [] => Some []
  | st :: r =>
      match emit_make_step fx st, emit_make_steps fx r with
      | Some a, Some b => Some (a ++ b)
      | _, _ => None
      end
  end.

(* ---- the ORDER of the recipe lines (writer.py multitarget_rule:  recipe = listify(recipe) + [Silent([touch, $@])] ).
   The recipe of every rule [emit_make_step] registers, as the list of its command lines in order:
     RcStep   the command line(s) of the step itself (the only thing that can fail),
     RcTouch  touch $@  (the stamp of a multi-output step),
     RcNoop   the no-op  @:  of the repaired rule  outs: stamp.
   [] = no recipe.  Same length and order as the rule list of emit_make_step.  [tb] = true describes the recipe order
   touch-first ([touch $@] + recipe), which is NOT what the code under test writes: it is the variant refuted by
   C03_touch_before_command_refuted; the harness (stage W:emit) always compares the real Rule objects with tb = false. *)
Inductive rcmd := RcStep | RcTouch | RcNoop.

Definition multitarget_recipes (tb fx : bool) (targets : list out) (recipe : bool) : option (list (list rcmd)) :=
  let own := if recipe then [RcStep] else [] in
  match targets with
  | [] => None
  | [_] => Some [own]
  | _ :: _ :: _ => Some [if fx then [RcNoop] else []; if tb then RcTouch :: own else own ++ [RcTouch]]
  end.

Definition emit_make_recipes (tb fx : bool) (st : step) : option (list (list rcmd)) :=
  match s_kind st with
  | KCompile | KLink | KCommand | KBuildStep => multitarget_recipes tb fx (s_outputs st) true
  | KCopyFile => match s_outputs st with [] => None | _ => Some [[RcStep]] end
  | KAlias => match s_outputs st with [] => None | _ => Some [[]] end
  end.

(* pre_rules_hook make_all_rule; post_rules_hook make_test_rule, make_install_rule *)
Definition make_all_rule (sc : script) : list mrule := [mkM [NF (sc_all sc)] (fs_ (sc_defaults sc)) [] false true].
Definition make_test_rules (sc : script) : list mrule :=
  match sc_tests sc with
  | None => []
  | Some (deps, extra) =>
      [mkM [NF (sc_tests_name sc)] (fs_ (deps ++ extra)) [] false true;
       mkM [NF (sc_test_name sc)] [NF (sc_tests_name sc)] [] true true]
  end.
Definition make_install_rules (sc : script) : list mrule :=
  (if sc_install sc then [mkM [NF (sc_install_name sc)] [NF (sc_all sc)] [] true true] else []) ++
  (if sc_uninstall sc then [mkM [NF (sc_uninstall_name sc)] [] [] true true] else []).

Definition emit_make (fx : bool) (sc : script) : option (list mrule) :=
  match emit_make_steps fx (sc_steps sc) with
  | Some rs => Some (make_all_rule sc ++ rs ++ make_test_rules sc ++ make_install_rules sc)
  | None => None
  end.

(* ------------------------------------------------------------------ Ninja *)
Record nbuild := mkNB {
  nb_outputs : list node; nb_phony_rule : bool;       (* rule == 'phony' *)
  nb_inputs : list node; nb_implicit : list node; nb_order : list node
}.

Definition ninja_compile_implicit (st : step) : list N :=
  oN (s_pch st) ++ (match s_pch_source st with Some _ => oN (s_file st) | None => [] end) ++
  s_include_deps st ++ s_libs st ++ s_pkg_deps st ++ s_extra_deps st.
Definition ninja_compile_inputs (st : step) : list N :=
  match s_pch_source st with Some p => [p] | None => oN (s_file st) end.

Definition ninja_link_implicit (st : step) : list N :=
  s_libs st ++ s_pkg_deps st ++ s_module_defs st ++ s_manifest st ++ s_extra_deps st.

(* writer.py command_build: the PHONY build is registered by the first phony command; [has] = has_build('PHONY') *)
Definition command_build (has : bool) (outputs inputs implicit : list node) (phony : bool) : list nbuild * bool :=
  if phony then
    ((if has then [] else [mkNB [NPhony] true [] [] []]) ++ [mkNB outputs false inputs (implicit ++ [NPhony]) []], true)
  else ([mkNB outputs false inputs implicit []], has).

Definition onodes (os : list out) : list node := map (fun o => NF (o_file o)) os.

Definition emit_ninja_step (has : bool) (st : step) : list nbuild * bool :=
  match s_kind st with
  | KCompile =>
      (match s_depsflavor st, s_outputs st with
       | true, o1 :: (_ :: _) as rest =>
           [mkNB (onodes rest) true [NF (o_file o1)] [] [];
            mkNB [NF (o_file o1)] false (fs_ (ninja_compile_inputs st)) (fs_ (ninja_compile_implicit st)) []]
       | _, os => [mkNB (onodes os) false (fs_ (ninja_compile_inputs st)) (fs_ (ninja_compile_implicit st)) []]
       end, has)
  | KLink => ([mkNB (onodes (s_outputs st)) false (fs_ (s_files st)) (fs_ (ninja_link_implicit st)) []], has)
  | KCommand | KBuildStep =>
      command_build has (onodes (s_outputs st)) (fs_ (s_files st)) (fs_ (s_extra_deps st)) (s_phony st)
  | KCopyFile => ([mkNB (onodes (s_outputs st)) false (fs_ (oN (s_file st))) (fs_ (s_extra_deps st)) []], has)
  | KAlias => ([mkNB (onodes (s_outputs st)) true (fs_ (s_extra_deps st)) [] []], has)
  end.

Fixpoint emit_ninja_steps (has : bool) (steps : list step) : list nbuild * bool :=
  match steps with
  | [] => ([], has)
  | st :: r =>
      let (a, h1) := emit_ninja_step has st in
      let (b, h2) := emit_ninja_steps h1 r in (a ++ b, h2)
  end.

Definition ninja_all_rule (sc : script) : list nbuild := [mkNB [NF (sc_all sc)] true (fs_ (sc_defaults sc)) [] []].
Definition ninja_test_rules (has : bool) (sc : script) : list nbuild * bool :=
  match sc_tests sc with
  | None => ([], has)
  | Some (deps, extra) =>
      let (b, h) := command_build has [NF (sc_test_name sc)] [NF (sc_tests_name sc)] [] true in
      (mkNB [NF (sc_tests_name sc)] true (fs_ (deps ++ extra)) [] [] :: b, h)
  end.
Definition ninja_install_rules (has : bool) (sc : script) : list nbuild * bool :=
  let (a, h1) := if sc_install sc then command_build has [NF (sc_install_name sc)] [NF (sc_all sc)] [] true
                 else ([], has) in
  let (b, h2) := if sc_uninstall sc then command_build h1 [NF (sc_uninstall_name sc)] [] [] true else ([], h1) in
  (a ++ b, h2).

Definition emit_ninja (sc : script) : list nbuild :=
  let (a, h1) := emit_ninja_steps false (sc_steps sc) in
  let (t, h2) := ninja_test_rules h1 sc in
  let (i, _) := ninja_install_rules h2 sc in
  ninja_all_rule sc ++ a ++ t ++ i.

(* ------------------------------------------------------------------ reading the emitted graphs back *)
Definition is_file_node (n : node) : bool := match n with NF _ => true | _ => false end.
Definition file_ids (l : list node) : list N :=
  flat_map (fun n => match n with NF f => [f] | _ => [] end) l.

Definition find_mrule (rs : list mrule) (t : node) : option mrule :=
  find (fun r => existsb (node_eqb t) (mr_targets r)) rs.
Definition find_nbuild (bs : list nbuild) (t : node) : option nbuild :=
  find (fun b => existsb (node_eqb t) (nb_outputs b)) bs.

(* Make: the prerequisites of the rule that carries the recipe of output o, read from the rules [rs] one step
   registered: normal prerequisites of o's rule, followed through a stamp (an internal name) to the stamp's own rule;
   order-only sentinels and internal names dropped *)
Definition make_prereqs (rs : list mrule) (o : N) : option (list N) :=
  match find_mrule rs (NF o) with
  | None => None
  | Some r =>
      match mr_deps r with
      | [NStamp s] =>
          match find_mrule rs (NStamp s) with
          | Some r2 => Some (file_ids (mr_deps r2))
          | None => None
          end
      | d => Some (file_ids d)
      end
  end.

(* Ninja: explicit + implicit inputs of the edge producing o, read from the builds [bs] one step registered; an output
   that is only a phony alias of another output of the same step (deps=gcc with several outputs) is followed to the
   edge of that output; PHONY dropped *)
Definition nb_ins (b : nbuild) : list N := file_ids (nb_inputs b ++ nb_implicit b).
Definition ninja_prereqs (bs : list nbuild) (o : N) : option (list N) :=
  match find_nbuild bs (NF o) with
  | None => None
  | Some b =>
      if nb_phony_rule b then
        match nb_inputs b with
        | [NF a] =>
            match find_nbuild bs (NF a) with
            | Some b2 => if nb_phony_rule b2 then Some (nb_ins b) else Some (nb_ins b2)
            | None => Some (nb_ins b)
            end
        | _ => Some (nb_ins b)
        end
      else Some (nb_ins b)
  end.

(* buildable, non-internal targets *)
Definition make_buildable (rs : list mrule) : list N := file_ids (flat_map mr_targets rs).
Definition ninja_buildable (bs : list nbuild) : list N := file_ids (flat_map nb_outputs bs).
