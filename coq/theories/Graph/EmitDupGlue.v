(* Glue C03 <- C05: the one-producer-per-file hypotheses of the dependency-graph theorems (NoDup (outs st) of
   deps_exact_ninja; NoDup (flat_map outs steps) inside wf_script / wf_script_multi) are what the duplicate check of
   the emitters (Path/Within.v emit_paths, the model of Makefile.rule / NinjaFile.build tied under C05) enforces:
   whenever the emitter accepted the output lists of the steps - under ANY naming [esc] of the files, injective or
   not - every file has one producer and no step names an output twice. *)
From BFG Require Import Base.Chars Graph.Steps Graph.Emit Graph.EmitProofs Graph.EmitSem Graph.EmitStamp.
From BFG Require Path.Within Path.WithinProofs.
From Coq Require Import List NArith.
Import ListNotations.

Lemma nodup_app_left {T} (a b : list T) : NoDup (a ++ b) -> NoDup a.
Proof.
  induction a as [|x a IH]; intros H; [constructor|]. cbn in H. inversion H as [|? ? Hx Hn]; subst.
  constructor; [|exact (IH Hn)]. intros Hi. apply Hx. apply in_or_app. left. exact Hi.
Qed.

Lemma nodup_app_right {T} (a b : list T) : NoDup (a ++ b) -> NoDup b.
Proof. induction a as [|x a IH]; intros H; [exact H|]. cbn in H. inversion H; subst. auto. Qed.

Lemma nodup_flat_map_each {T U} (g : T -> list U) l : NoDup (flat_map g l) -> Forall (fun t => NoDup (g t)) l.
Proof.
  induction l as [|t l IH]; intros H; [constructor|]. cbn in H. constructor.
  - exact (nodup_app_left _ _ H).
  - exact (IH (nodup_app_right _ _ H)).
Qed.

Theorem emitted_one_producer (esc : N -> str) mk (steps : list step) rules :
  Within.emit_paths esc mk (map outs steps) = Within.EOk rules ->
  NoDup (flat_map outs steps) /\ Forall (fun st => NoDup (outs st)) steps.
Proof.
  intros E. apply WithinProofs.emit_ok_distinct in E. destruct E as [_ ND].
  rewrite <- flat_map_concat_map in ND. split; [exact ND|exact (nodup_flat_map_each outs steps ND)].
Qed.

(* deps_exact_ninja with its NoDup hypothesis replaced by acceptance of the script by the emitter *)
Theorem deps_exact_ninja_emitted (esc : N -> str) mk steps rules has st o :
  Within.emit_paths esc mk (map outs steps) = Within.EOk rules -> In st steps ->
  shape_ok st = true -> In o (outs st) ->
  exists l, ninja_prereqs (fst (emit_ninja_step has st)) o = Some l /\ set_eq l (consumed st).
Proof.
  intros E Hin Hs Ho. destruct (emitted_one_producer esc mk steps rules E) as [_ F].
  rewrite Forall_forall in F. exact (deps_exact_ninja has st o Hs (F st Hin) Ho).
Qed.

(* the well-formedness of a script with its one-producer clause replaced by acceptance by the emitter *)
Theorem wf_script_emitted (esc : N -> str) mk steps rules :
  Within.emit_paths esc mk (map outs steps) = Within.EOk rules ->
  Forall (fun st => simple st = true /\ shape_ok st = true) steps -> ordered steps -> wf_script steps.
Proof. intros E F O. split; [exact F|]. split; [exact (proj1 (emitted_one_producer esc mk steps rules E))|exact O]. Qed.

Theorem wf_script_multi_emitted (esc : N -> str) mk steps rules :
  Within.emit_paths esc mk (map outs steps) = Within.EOk rules ->
  Forall (fun st => (simple st = true \/ multi st = true) /\ shape_ok st = true) steps -> ordered steps ->
  wf_script_multi steps.
Proof. intros E F O. split; [exact F|]. split; [exact (proj1 (emitted_one_producer esc mk steps rules E))|exact O]. Qed.
