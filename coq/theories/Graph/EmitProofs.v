(* Proofs about the emitter model: per-step prerequisite sets equal the declared consumption (both backends),
   the two backends agree on prerequisites and buildable targets, membership of the hook targets. *)
From BFG Require Import Base.Chars Graph.Steps Graph.Emit Graph.Defaults.
Local Open Scope N_scope.

Lemma file_ids_fs l : file_ids (fs_ l) = l.
Proof. induction l as [|x l IH]; [reflexivity|]. cbn. f_equal. exact IH. Qed.

Lemma file_ids_app a b : file_ids (a ++ b) = file_ids a ++ file_ids b.
Proof. unfold file_ids. now rewrite flat_map_app. Qed.

Lemma file_ids_onodes os : file_ids (onodes os) = map o_file os.
Proof. induction os as [|o os IH]; [reflexivity|]. cbn. f_equal. exact IH. Qed.

Lemma onodes_mem o os : In o (map o_file os) -> existsb (node_eqb (NF o)) (onodes os) = true.
Proof.
  intros H. apply existsb_exists. apply in_map_iff in H as [x [<- Hx]].
  exists (NF (o_file x)). split; [unfold onodes; apply in_map_iff; now exists x|cbn; apply N.eqb_refl].
Qed.

Lemma is_nil_eq {T} (l : list T) : is_nil l = true -> l = [].
Proof. destruct l; [reflexivity|discriminate]. Qed.
Lemma is_noneb_eq {T} (o : option T) : is_noneb o = true -> o = None.
Proof. destruct o; [discriminate|reflexivity]. Qed.

Ltac shape H :=
  repeat match type of H with
         | (_ && _) = true => let H2 := fresh "Hs" in apply andb_true_iff in H as [H H2]; shape H2
         end;
  repeat match goal with
         | K : is_nil _ = true |- _ => apply is_nil_eq in K
         | K : is_noneb _ = true |- _ => apply is_noneb_eq in K
         end.

Lemma set_eq_refl {T} (l : list T) : set_eq l l.
Proof. intros x; tauto. Qed.

(* ------------------------------------------------------------------ multitarget_rule *)
Lemma stamp_not_onodes s l : existsb (node_eqb (NStamp s)) (onodes l) = false.
Proof. induction l; cbn; [reflexivity|assumption]. Qed.

Lemma fs_single_stamp d : match fs_ d with [NStamp _] => False | _ => True end.
Proof. destruct d as [|x [|y d]]; cbn; exact I. Qed.

Lemma make_prereqs_single ts d ord rc ph o :
  existsb (node_eqb (NF o)) ts = true ->
  make_prereqs [mkM ts (fs_ d) ord rc ph] o = Some d.
Proof.
  intros H. unfold make_prereqs, find_mrule. cbn [find mr_targets]. rewrite H. cbn [mr_deps].
  pose proof (fs_single_stamp d) as K. rewrite <- (file_ids_fs d) at 2.
  destruct (fs_ d) as [|[] [|]]; try reflexivity. contradiction.
Qed.

Lemma multitarget_multi fx t t2 r deps order recipe phony :
  multitarget_rule fx (t :: t2 :: r) deps order recipe phony =
  Some [mkM (onodes (t :: t2 :: r)) [NStamp (o_file t)] [] fx false; mkM [NStamp (o_file t)] deps order true phony].
Proof. reflexivity. Qed.

Lemma multitarget_prereqs fx os deps order recipe phony rs o :
  multitarget_rule fx os (fs_ deps) order recipe phony = Some rs -> In o (map o_file os) ->
  make_prereqs rs o = Some deps.
Proof.
  intros E Ho. destruct os as [|t [|t2 r]]; [discriminate| |].
  - unfold multitarget_rule in E. injection E as <-.
    apply make_prereqs_single. change [NF (o_file t)] with (onodes [t]). now apply onodes_mem.
  - remember (t :: t2 :: r) as l eqn:El.
    assert (E' : rs = [mkM (onodes l) [NStamp (o_file t)] [] fx false;
                       mkM [NStamp (o_file t)] (fs_ deps) order true phony]).
    { subst l. rewrite multitarget_multi in E. congruence. }
    clear E. subst rs.
    unfold make_prereqs, find_mrule. cbn [find mr_targets].
    rewrite (onodes_mem o _ Ho). cbn [mr_deps find mr_targets].
    rewrite stamp_not_onodes. cbn [existsb node_eqb]. rewrite N.eqb_refl. cbn [orb mr_deps]. now rewrite file_ids_fs.
Qed.

(* ------------------------------------------------------------------ C03_deps_exact_make *)
Ltac seteqm :=
  unfold consumed, make_compile_deps, make_link_deps;
  repeat match goal with K : _ = [] |- _ => rewrite K; clear K | K : _ = None |- _ => rewrite K; clear K end;
  intros x; repeat (progress cbn [oN app In] || rewrite in_app_iff); tauto.

Theorem deps_exact_make fx st rs o :
  shape_ok st = true -> emit_make_step fx st = Some rs -> In o (outs st) ->
  exists l, make_prereqs rs o = Some l /\ set_eq l (consumed st).
Proof.
  intros Hs E Ho. unfold shape_ok, emit_make_step in *. unfold outs in Ho.
  destruct (s_kind st) eqn:Ek.
  - shape Hs. clear Hs. eexists. split; [eapply multitarget_prereqs; eassumption|]. seteqm.
  - shape Hs. eexists. split; [eapply multitarget_prereqs; eassumption|]. seteqm.
  - shape Hs. eexists. split; [eapply multitarget_prereqs; eassumption|]. seteqm.
  - shape Hs. eexists. split; [eapply multitarget_prereqs; eassumption|]. seteqm.
  - shape Hs. clear Hs. destruct (s_outputs st) as [|o1 os] eqn:Eo; [discriminate|]. injection E as <-.
    eexists. split; [apply make_prereqs_single; exact (onodes_mem o (o1 :: os) Ho)|]. seteqm.
  - shape Hs. destruct (s_outputs st) as [|o1 os] eqn:Eo; [discriminate|]. injection E as <-.
    eexists. split; [apply make_prereqs_single; exact (onodes_mem o (o1 :: os) Ho)|]. seteqm.
Qed.

(* ------------------------------------------------------------------ C03_deps_exact_ninja *)
Lemma ninja_single_prereqs os ph ins imp ord o :
  ph = false -> In o (map o_file os) ->
  ninja_prereqs [mkNB (onodes os) ph ins imp ord] o = Some (file_ids (ins ++ imp)).
Proof.
  intros -> Ho. unfold ninja_prereqs, find_nbuild. cbn [find nb_outputs]. now rewrite (onodes_mem o _ Ho).
Qed.

Lemma onodes_nomem o os : ~ In o (map o_file os) -> existsb (node_eqb (NF o)) (onodes os) = false.
Proof.
  intros H. destruct (existsb _ _) eqn:E; [|reflexivity]. exfalso. apply H.
  apply existsb_exists in E as [n [Hn E]]. unfold onodes in Hn. apply in_map_iff in Hn as [x [<- Hx]].
  cbn in E. apply N.eqb_eq in E. subst. apply in_map_iff. now exists x.
Qed.

Lemma command_build_prereqs has os ins imp phony o :
  In o (map o_file os) ->
  ninja_prereqs (fst (command_build has (onodes os) (fs_ ins) (fs_ imp) phony)) o = Some (ins ++ imp).
Proof.
  intros Ho. unfold command_build. destruct phony.
  - assert (E : ninja_prereqs [mkNB (onodes os) false (fs_ ins) (fs_ imp ++ [NPhony]) []] o = Some (ins ++ imp)).
    { rewrite ninja_single_prereqs by auto. rewrite !file_ids_app, !file_ids_fs. cbn. now rewrite app_nil_r. }
    destruct has; cbn [fst app]; [exact E|].
    unfold ninja_prereqs, find_nbuild in *. cbn [find nb_outputs existsb node_eqb orb] in *. exact E.
  - cbn [fst]. rewrite ninja_single_prereqs by auto. now rewrite file_ids_app, !file_ids_fs.
Qed.

Ltac seteq Hs :=
  unfold consumed, ninja_compile_inputs, ninja_compile_implicit, ninja_link_implicit, make_compile_deps, make_link_deps;
  repeat match goal with K : _ = [] |- _ => rewrite K; clear K | K : _ = None |- _ => rewrite K; clear K end;
  intros x; repeat (progress cbn [oN app In] || rewrite in_app_iff); tauto.

Theorem deps_exact_ninja has st o :
  shape_ok st = true -> NoDup (outs st) -> In o (outs st) ->
  exists l, ninja_prereqs (fst (emit_ninja_step has st)) o = Some l /\ set_eq l (consumed st).
Proof.
  intros Hs Hnd Ho. unfold shape_ok, emit_ninja_step in *. unfold outs in *.
  destruct (s_kind st) eqn:Ek.
  - shape Hs. exists (ninja_compile_inputs st ++ ninja_compile_implicit st). split.
    + destruct (s_depsflavor st); [destruct (s_outputs st) as [|o1 [|o2 r]] eqn:Eo|]; cbn [fst];
        try (cbn in Ho; contradiction);
        try (rewrite ninja_single_prereqs by auto; now rewrite file_ids_app, !file_ids_fs).
      (* the phony alias of the extra outputs *)
      cbn [map] in Hnd, Ho. inversion Hnd as [|? ? Hn1 Hnd']; subst.
      destruct Ho as [<-|Ho].
      * unfold ninja_prereqs, find_nbuild. cbn [find nb_outputs].
        rewrite (onodes_nomem (o_file o1) (o2 :: r)) by exact Hn1.
        cbn [existsb node_eqb]. rewrite N.eqb_refl. cbn [orb nb_phony_rule].
        unfold nb_ins. cbn [nb_inputs nb_implicit]. now rewrite file_ids_app, !file_ids_fs.
      * unfold ninja_prereqs, find_nbuild. cbn [find nb_outputs].
        rewrite (onodes_mem o (o2 :: r)) by exact Ho. cbn [nb_phony_rule nb_inputs find nb_outputs].
        rewrite (onodes_nomem (o_file o1) (o2 :: r)) by exact Hn1.
        cbn [existsb node_eqb]. rewrite N.eqb_refl. cbn [orb nb_phony_rule].
        unfold nb_ins. cbn [nb_inputs nb_implicit]. now rewrite file_ids_app, !file_ids_fs.
    + destruct (s_file st) as [f|] eqn:Ef; [|discriminate]. clear Hs.
      unfold consumed, ninja_compile_inputs, ninja_compile_implicit. rewrite Ef.
      repeat match goal with K : _ = [] |- _ => rewrite K; clear K end.
      destruct (s_pch_source st); intros x; repeat (progress cbn [oN app In] || rewrite in_app_iff); tauto.
  - shape Hs. eexists. split.
    + cbn [fst]. rewrite ninja_single_prereqs by auto. rewrite file_ids_app, !file_ids_fs. reflexivity.
    + seteq Hs.
  - shape Hs. eexists. split; [apply command_build_prereqs; assumption|]. seteq Hs.
  - shape Hs. eexists. split; [apply command_build_prereqs; assumption|]. seteq Hs.
  - shape Hs. eexists. split.
    + cbn [fst]. rewrite ninja_single_prereqs by auto. rewrite file_ids_app, !file_ids_fs. reflexivity.
    + seteq Hs.
  - shape Hs. exists (s_extra_deps st). split.
    + cbn [fst]. unfold ninja_prereqs, find_nbuild. cbn [find nb_outputs]. rewrite (onodes_mem o _ Ho).
      cbn [nb_phony_rule nb_inputs]. unfold nb_ins. cbn [nb_inputs nb_implicit]. rewrite app_nil_r, file_ids_fs.
      destruct (fs_ (s_extra_deps st)) as [|[a| | |] [|]] eqn:Ed; try reflexivity.
      cbn [find nb_outputs]. destruct (existsb (node_eqb (NF a)) (onodes (s_outputs st))); reflexivity.
    + seteq Hs.
Qed.

(* ------------------------------------------------------------------ C06_deps *)
Theorem backends_same_deps fx has st rs o :
  shape_ok st = true -> NoDup (outs st) -> emit_make_step fx st = Some rs -> In o (outs st) ->
  exists lm ln, make_prereqs rs o = Some lm /\ ninja_prereqs (fst (emit_ninja_step has st)) o = Some ln /\
                set_eq lm ln.
Proof.
  intros Hs Hnd E Ho.
  destruct (deps_exact_make fx st rs o Hs E Ho) as [lm [E1 S1]].
  destruct (deps_exact_ninja has st o Hs Hnd Ho) as [ln [E2 S2]].
  exists lm, ln. repeat split; try assumption; intros H.
  - apply S2. now apply S1.
  - apply S1. now apply S2.
Qed.

(* ------------------------------------------------------------------ C06_targets *)
Lemma make_buildable_app a b : make_buildable (a ++ b) = make_buildable a ++ make_buildable b.
Proof. unfold make_buildable. now rewrite flat_map_app, file_ids_app. Qed.
Lemma ninja_buildable_app a b : ninja_buildable (a ++ b) = ninja_buildable a ++ ninja_buildable b.
Proof. unfold ninja_buildable. now rewrite flat_map_app, file_ids_app. Qed.

Lemma multitarget_buildable fx os deps order recipe phony rs :
  multitarget_rule fx os deps order recipe phony = Some rs -> make_buildable rs = map o_file os.
Proof.
  intros E. destruct os as [|t [|t2 r]]; [discriminate| |].
  - unfold multitarget_rule in E. injection E as <-. reflexivity.
  - remember (t :: t2 :: r) as l eqn:El.
    assert (E' : rs = [mkM (onodes l) [NStamp (o_file t)] [] fx false; mkM [NStamp (o_file t)] deps order true phony]).
    { subst l. rewrite multitarget_multi in E. congruence. }
    clear E. subst rs. unfold make_buildable. cbn [flat_map mr_targets]. rewrite app_nil_r, file_ids_app.
    rewrite file_ids_onodes. cbn. now rewrite app_nil_r.
Qed.

Lemma make_step_buildable fx st rs : emit_make_step fx st = Some rs -> make_buildable rs = outs st.
Proof.
  unfold emit_make_step, outs. intros E.
  destruct (s_kind st); try (eapply multitarget_buildable; eassumption);
    destruct (s_outputs st) as [|o1 os] eqn:Eo; try discriminate; injection E as <-;
    unfold make_buildable; cbn [flat_map mr_targets]; rewrite app_nil_r;
    exact (file_ids_onodes (o1 :: os)).
Qed.

Lemma command_build_buildable has os ins imp phony :
  ninja_buildable (fst (command_build has (onodes os) ins imp phony)) = map o_file os.
Proof.
  unfold command_build. destruct phony; [destruct has|]; cbn [fst app]; unfold ninja_buildable;
    cbn [flat_map nb_outputs app]; rewrite ?app_nil_r; cbn [file_ids flat_map app]; apply file_ids_onodes.
Qed.

Lemma ninja_step_buildable has st : set_eq (ninja_buildable (fst (emit_ninja_step has st))) (outs st).
Proof.
  unfold emit_ninja_step, outs.
  destruct (s_kind st); try (rewrite command_build_buildable; apply set_eq_refl);
    try (cbn [fst]; unfold ninja_buildable; cbn [flat_map nb_outputs]; rewrite app_nil_r, file_ids_onodes;
         apply set_eq_refl).
  destruct (s_depsflavor st); [destruct (s_outputs st) as [|o1 [|o2 r]]|]; cbn [fst];
    try (unfold ninja_buildable; cbn [flat_map nb_outputs]; rewrite app_nil_r, file_ids_onodes; apply set_eq_refl).
  unfold ninja_buildable. cbn [flat_map nb_outputs]. rewrite app_nil_r, file_ids_app, file_ids_onodes.
  intros x. rewrite in_app_iff. cbn. tauto.
Qed.

Lemma make_steps_buildable fx steps rs : emit_make_steps fx steps = Some rs -> make_buildable rs = flat_map outs steps.
Proof.
  revert rs; induction steps as [|st r IH]; intros rs E; cbn in E.
  - now injection E as <-.
  - destruct (emit_make_step fx st) as [a|] eqn:Ea; [|discriminate].
    destruct (emit_make_steps fx r) as [b|] eqn:Eb; [|discriminate]. injection E as <-.
    rewrite make_buildable_app. cbn [flat_map]. now rewrite (make_step_buildable fx st a Ea), (IH b eq_refl).
Qed.

Lemma ninja_steps_buildable steps : forall has,
  set_eq (ninja_buildable (fst (emit_ninja_steps has steps))) (flat_map outs steps).
Proof.
  induction steps as [|st r IH]; intros has; cbn [emit_ninja_steps flat_map].
  - cbn. apply set_eq_refl.
  - pose proof (ninja_step_buildable has st) as H1. destruct (emit_ninja_step has st) as [a h1].
    pose proof (IH h1) as H2. destruct (emit_ninja_steps h1 r) as [b h2]. cbn [fst] in *.
    rewrite ninja_buildable_app. intros x. rewrite !in_app_iff. now rewrite (H1 x), (H2 x).
Qed.

Lemma cb1_buildable has n ins imp : ninja_buildable (fst (command_build has [NF n] ins imp true)) = [n].
Proof. exact (command_build_buildable has [mkOut n 0] ins imp true). Qed.

Theorem backends_same_targets fx sc rs :
  emit_make fx sc = Some rs -> set_eq (make_buildable rs) (ninja_buildable (emit_ninja sc)).
Proof.
  unfold emit_make, emit_ninja. destruct (emit_make_steps fx (sc_steps sc)) as [ms|] eqn:Em; [|discriminate].
  intros E. assert (E2 : rs = make_all_rule sc ++ ms ++ make_test_rules sc ++ make_install_rules sc) by congruence. clear E. subst rs.
  pose proof (ninja_steps_buildable (sc_steps sc) false) as Hn.
  destruct (emit_ninja_steps false (sc_steps sc)) as [a h1]. cbn [fst] in Hn.
  rewrite !make_buildable_app, (make_steps_buildable _ _ _ Em).
  assert (Ht : make_buildable (make_test_rules sc) = ninja_buildable (fst (ninja_test_rules h1 sc))).
  { unfold make_test_rules, ninja_test_rules. destruct (sc_tests sc) as [[deps extra]|]; [|reflexivity].
    pose proof (cb1_buildable h1 (sc_test_name sc) [NF (sc_tests_name sc)] []) as Hc.
    destruct (command_build h1 _ _ _ true) as [b h]. cbn [fst] in *.
    change (mkNB [NF (sc_tests_name sc)] true (fs_ (deps ++ extra)) [] [] :: b)
      with ([mkNB [NF (sc_tests_name sc)] true (fs_ (deps ++ extra)) [] []] ++ b).
    rewrite ninja_buildable_app, Hc. reflexivity. }
  destruct (ninja_test_rules h1 sc) as [t h2]. cbn [fst] in Ht.
  assert (Hi : make_buildable (make_install_rules sc) = ninja_buildable (fst (ninja_install_rules h2 sc))).
  { unfold make_install_rules, ninja_install_rules.
    destruct (sc_install sc).
    - pose proof (cb1_buildable h2 (sc_install_name sc) [NF (sc_all sc)] []) as Hc.
      destruct (command_build h2 _ _ _ true) as [b h]. cbn [fst] in Hc.
      destruct (sc_uninstall sc).
      + pose proof (cb1_buildable h (sc_uninstall_name sc) [] []) as Hc2.
        destruct (command_build h _ _ _ true) as [b2 h']. cbn [fst] in *.
        rewrite make_buildable_app, ninja_buildable_app, Hc, Hc2. reflexivity.
      + cbn [fst]. rewrite ninja_buildable_app, make_buildable_app, Hc. reflexivity.
    - destruct (sc_uninstall sc).
      + pose proof (cb1_buildable h2 (sc_uninstall_name sc) [] []) as Hc2.
        destruct (command_build h2 _ _ _ true) as [b2 h']. cbn [fst app] in *.
        rewrite Hc2. reflexivity.
      + reflexivity. }
  destruct (ninja_install_rules h2 sc) as [i h3]. cbn [fst] in Hi.
  rewrite !ninja_buildable_app, Ht, Hi.
  intros x. rewrite !in_app_iff. rewrite (Hn x). cbn. tauto.
Qed.

(* ------------------------------------------------------------------ C03_members *)
Theorem members_make sc :
  make_prereqs (make_all_rule sc) (sc_all sc) = Some (sc_defaults sc) /\
  (forall deps extra, sc_tests sc = Some (deps, extra) -> sc_test_name sc <> sc_tests_name sc ->
     make_prereqs (make_test_rules sc) (sc_tests_name sc) = Some (deps ++ extra) /\
     make_prereqs (make_test_rules sc) (sc_test_name sc) = Some [sc_tests_name sc]) /\
  (sc_install sc = true -> make_prereqs (make_install_rules sc) (sc_install_name sc) = Some [sc_all sc]).
Proof.
  assert (G : forall t d o p, make_prereqs [mkM [NF t] (fs_ d) [] o p] t = Some d).
  { intros t d o p. unfold make_prereqs, find_mrule. cbn [find mr_targets existsb node_eqb].
    rewrite N.eqb_refl. cbn [orb mr_deps]. rewrite <- (file_ids_fs d) at 2.
    destruct (fs_ d) as [|[] [|]] eqn:Ed; try reflexivity. destruct d; discriminate. }
  split; [apply G|]. split.
  - intros deps extra E Hne. unfold make_test_rules. rewrite E. split.
    + unfold make_prereqs, find_mrule. cbn [find mr_targets existsb node_eqb]. rewrite N.eqb_refl. cbn [orb mr_deps].
      rewrite <- (file_ids_fs (deps ++ extra)) at 2.
      destruct (fs_ (deps ++ extra)) as [|[] [|]] eqn:Ed; try reflexivity. destruct (deps ++ extra); discriminate.
    + unfold make_prereqs, find_mrule. cbn [find mr_targets existsb node_eqb].
      apply N.eqb_neq in Hne. rewrite Hne. cbn [orb]. rewrite N.eqb_refl. reflexivity.
  - intros E. unfold make_install_rules. rewrite E.
    unfold make_prereqs, find_mrule. cbn [app find mr_targets existsb node_eqb]. rewrite N.eqb_refl. reflexivity.
Qed.

Theorem members_ninja sc has :
  ninja_prereqs (ninja_all_rule sc) (sc_all sc) = Some (sc_defaults sc) /\
  (forall deps extra, sc_tests sc = Some (deps, extra) -> sc_test_name sc <> sc_tests_name sc ->
     ~ In (sc_tests_name sc) (deps ++ extra) -> ~ In (sc_test_name sc) (deps ++ extra) ->
     ninja_prereqs (fst (ninja_test_rules has sc)) (sc_tests_name sc) = Some (deps ++ extra) /\
     ninja_prereqs (fst (ninja_test_rules has sc)) (sc_test_name sc) = Some [sc_tests_name sc]).
Proof.
  split.
  - unfold ninja_all_rule, ninja_prereqs, find_nbuild. cbn [find nb_outputs existsb node_eqb]. rewrite N.eqb_refl.
    cbn [orb nb_phony_rule nb_inputs]. unfold nb_ins. cbn [nb_inputs nb_implicit]. rewrite app_nil_r, file_ids_fs.
    destruct (fs_ (sc_defaults sc)) as [|[a| | |] [|]] eqn:Ed; try reflexivity.
    cbn [find nb_outputs existsb node_eqb orb]. destruct (a =? sc_all sc); reflexivity.
  - intros deps extra E Hne Hself Hself2. unfold ninja_test_rules. rewrite E.
    apply N.eqb_neq in Hne.
    assert (Hne' : (sc_tests_name sc =? sc_test_name sc) = false) by (rewrite N.eqb_sym; exact Hne).
    unfold command_build. destruct has; cbn [fst app]; split;
      unfold ninja_prereqs, find_nbuild; cbn [find nb_outputs existsb node_eqb orb]; rewrite ?N.eqb_refl, ?Hne, ?Hne';
      cbn [orb nb_phony_rule nb_inputs]; unfold nb_ins; cbn [nb_inputs nb_implicit app file_ids flat_map];
      rewrite ?app_nil_r, ?file_ids_fs; try reflexivity.
    all: destruct (fs_ (deps ++ extra)) as [|[a| | |] [|]] eqn:Ed; try reflexivity.
    all: cbn [find nb_outputs existsb node_eqb orb].
    all: assert (Ha : (a =? sc_tests_name sc) = false)
           by (apply N.eqb_neq; intros ->; apply Hself; destruct (deps ++ extra) as [|y [|]]; cbn in Ed; try discriminate;
               injection Ed as ->; now left).
    all: assert (Hb : (a =? sc_test_name sc) = false)
           by (apply N.eqb_neq; intros ->; apply Hself2; destruct (deps ++ extra) as [|y [|]]; cbn in Ed; try discriminate;
               injection Ed as ->; now left).
    all: rewrite Ha, ?Hb; cbn [orb]; rewrite ?Hb; reflexivity.
Qed.

(* alias targets: prerequisites are exactly the declared members, in order (both backends) *)
Theorem members_alias fx st rs o has :
  s_kind st = KAlias -> emit_make_step fx st = Some rs -> In o (outs st) ->
  make_prereqs rs o = Some (s_extra_deps st) /\
  ninja_prereqs (fst (emit_ninja_step has st)) o = Some (s_extra_deps st).
Proof.
  intros Hk E Ho. unfold emit_make_step, emit_ninja_step, outs in *. rewrite Hk in *.
  destruct (s_outputs st) as [|o1 os] eqn:Eo; [discriminate|]. split.
  - injection E as <-. apply make_prereqs_single. exact (onodes_mem o (o1 :: os) Ho).
  - cbn [fst]. unfold ninja_prereqs, find_nbuild. cbn [find nb_outputs]. rewrite (onodes_mem o _ Ho).
    cbn [nb_phony_rule nb_inputs]. unfold nb_ins. cbn [nb_inputs nb_implicit]. rewrite app_nil_r, file_ids_fs.
    destruct (fs_ (s_extra_deps st)) as [|[a| | |] [|]] eqn:Ed; try reflexivity.
    cbn [find nb_outputs]. destruct (existsb (node_eqb (NF a)) (onodes (o1 :: os))); reflexivity.
Qed.

(* files named in the command lines of command()/build_step() are consumed: exactly those that a step produces, and
   for a non-phony step every one (BaseCommand.__init__) *)
Theorem command_nodes_consumed phony nodes extra x :
  In x (command_extra_deps phony nodes extra) <->
  (exists c, In (x, c) nodes /\ (c = true \/ phony = false)) \/ In x extra.
Proof.
  unfold command_extra_deps. rewrite in_app_iff, in_map_iff. split.
  - intros [[[y c] [<- H]]|H]; [left|now right]. apply filter_In in H as [H1 H2]. cbn in *.
    exists c. split; [assumption|]. apply orb_true_iff in H2 as [H2|H2]; [now left|right; now destruct phony].
  - intros [[c [H1 H2]]|H]; [left|now right]. exists (x, c). split; [reflexivity|]. apply filter_In. split; [assumption|].
    cbn. destruct H2 as [->| ->]; [reflexivity|apply orb_true_r].
Qed.

(* several command lines: a file named in ANY of the lines - the first, a middle one, the last - is consumed *)
Theorem command_lines_nodes_consumed phony lines extra x :
  In x (command_lines_extra_deps phony lines extra) <->
  (exists line c, In line lines /\ In (x, c) line /\ (c = true \/ phony = false)) \/ In x extra.
Proof.
  unfold command_lines_extra_deps. rewrite command_nodes_consumed. split.
  - intros [[c [H1 H2]]|H]; [left|now right]. apply in_concat in H1 as [line [Hl Hx]]. exists line, c. auto.
  - intros [[line [c [Hl [Hx H2]]]]|H]; [left|now right]. exists c. split; [|assumption].
    apply in_concat. exists line. auto.
Qed.

(* install(args) calls default(args): the explicit list is then non-empty and contains the argument *)
Lemma install_in_default s items x :
  In (x, true) items -> In x (d_outputs (dstep s (DAdd items true))).
Proof.
  intros H. unfold d_outputs. cbn [dstep d_explicit].
  assert (Hin : In x (add_items (d_explicit s) items)).
  { unfold add_items. apply in_or_app. right. apply in_map_iff. exists (x, true). split; [reflexivity|].
    apply filter_In. now split. }
  destruct (add_items (d_explicit s) items); [contradiction|assumption].
Qed.
