(* The Make rules of a script under the mtime semantics of Make/MakeSem.v: rebuild exactness for scripts whose steps
   have one output each and are not phony (compile, link, build_step, copy_file).  Multi-output steps go through a
   stamp rule without recipe, for which the generic theorems do not apply (leaves_flat fails) - and GNU Make indeed
   does not rebuild their consumers in the same run: see Graph/StampSem.v and finding C03-make-stamp-consumer-stale. *)
From BFG Require Import Base.Chars Make.MakeSem Make.MakeSemProofs Graph.Steps Graph.Emit Graph.EmitProofs.
Local Open Scope N_scope.

(* nodes as MakeSem file identifiers (injective) *)
Definition enc (n : node) : N :=
  match n with NF f => 4 * f | NStamp f => 4 * f + 1 | NDir d => 4 * d + 2 | NPhony => 3 end.
Definition encF (f : N) : N := enc (NF f).

Lemma enc_inj a b : enc a = enc b -> a = b.
Proof. destruct a, b; cbn [enc]; intros H; try (f_equal; lia); try lia; reflexivity. Qed.

Definition sem_multi (r : mrule) : multirule :=
  mkMulti (map enc (mr_targets r)) (map enc (mr_deps r)) (map enc (mr_order r)) (mr_recipe r) (mr_phony r).
Definition sem_rules (rs : list mrule) : list rule := expand (map sem_multi rs).
Definition sem_step (fx : bool) (st : step) : list rule :=
  match emit_make_step fx st with Some rs => sem_rules rs | None => [] end.
Definition sem_steps (fx : bool) (steps : list step) : list rule := flat_map (sem_step fx) steps.

Lemma sem_rules_app a b : sem_rules (a ++ b) = sem_rules a ++ sem_rules b.
Proof. unfold sem_rules, expand. now rewrite map_app, flat_map_app. Qed.

(* the rules of the whole edge list are the concatenation of the rules of the steps *)
Lemma sem_steps_emit fx steps rs : emit_make_steps fx steps = Some rs -> sem_rules rs = sem_steps fx steps.
Proof.
  revert rs; induction steps as [|st r IH]; intros rs E; cbn in E.
  - now injection E as <-.
  - destruct (emit_make_step fx st) as [a|] eqn:Ea; [|discriminate].
    destruct (emit_make_steps fx r) as [b|] eqn:Eb; [|discriminate].
    assert (rs = a ++ b) by congruence. subst rs.
    rewrite sem_rules_app. cbn [sem_steps flat_map]. unfold sem_step at 1. rewrite Ea. f_equal. now apply IH.
Qed.

Section WithVariant.
(* which variant of multitarget_rule wrote the rules (Graph/Emit.v); single-output steps do not depend on it *)
Variable fx : bool.

(* one output, a recipe, not phony *)
Definition simple (st : step) : bool :=
  match s_outputs st with [_] => true | _ => false end &&
  match s_kind st with
  | KAlias => false
  | KCommand | KBuildStep => negb (s_phony st)
  | _ => true
  end.

(* the steps that re-run when x changes, computed on the script alone: a step that consumes x or an output of an
   earlier such step *)
Definition sdown_step (x : N) (d : list N) (st : step) : list N :=
  if existsb (fun p => (p =? x) || memN p d) (consumed st) then d ++ outs st else d.
Definition script_down (x : N) (steps : list step) : list N := fold_left (sdown_step x) steps [].

Fixpoint ordered (steps : list step) : Prop :=
  match steps with
  | [] => True
  | st :: post => (forall p, In p (consumed st) -> ~ In p (flat_map outs (st :: post))) /\ ordered post
  end.

(* well-formed script: simple steps of the shapes the builtins create; one producer per file (what C05 proves of the
   emitters: a script with two producers is rejected); every consumed file is a source or produced EARLIER *)
Definition wf_script (steps : list step) : Prop :=
  Forall (fun st => simple st = true /\ shape_ok st = true) steps /\
  NoDup (flat_map outs steps) /\
  ordered steps.

(* ------------------------------------------------------------------ the rule of a simple step *)
Lemma simple_sem st : simple st = true ->
  exists o D ord,
    s_outputs st = [o] /\
    sem_step fx st = [mkRule (encF (o_file o)) (map encF D) (map enc ord) true false] /\
    (forall n, In n ord -> exists d, n = NDir d) /\
    (shape_ok st = true -> set_eq D (consumed st)).
Proof.
  unfold simple. intros H. apply andb_true_iff in H as [Ho Hk].
  destruct (s_outputs st) as [|o [|]] eqn:Eo; try discriminate. clear Ho.
  assert (Hdir : forall n, In n (directory_deps [o]) -> exists d, n = NDir d).
  { intros n Hn. unfold directory_deps in Hn. apply in_map_iff in Hn as [d [<- _]]. now exists d. }
  assert (G : forall D ord ph, ph = false -> emit_make_step fx st = Some [mkM [NF (o_file o)] (fs_ D) ord true ph] ->
              (forall n, In n ord -> exists d, n = NDir d) ->
              exists o0 D0 ord0, [o] = [o0] /\
                sem_step fx st = [mkRule (encF (o_file o0)) (map encF D0) (map enc ord0) true false] /\
                (forall n, In n ord0 -> exists d, n = NDir d) /\ (shape_ok st = true -> set_eq D0 (consumed st))).
  { intros D ord ph -> E Hord. exists o, D, ord. split; [reflexivity|]. split.
    - unfold sem_step. rewrite E. unfold sem_rules, expand, expand1, sem_multi. cbn.
      unfold fs_. rewrite map_map. reflexivity.
    - split; [assumption|]. intros Hs.
      destruct (deps_exact_make fx st _ (o_file o) Hs E) as [l [El Sl]]; [unfold outs; rewrite Eo; now left|].
      rewrite make_prereqs_single in El by (cbn; now rewrite N.eqb_refl). now injection El as <-. }
  unfold emit_make_step in G. rewrite Eo in G. destruct (s_kind st); try discriminate.
  - eapply G; [reflexivity|reflexivity|assumption].
  - eapply G; [reflexivity|reflexivity|assumption].
  - eapply G; [|reflexivity|intros n []]. now destruct (s_phony st).
  - eapply G; [|reflexivity|assumption]. now destruct (s_phony st).
  - eapply G; [reflexivity|reflexivity|assumption].
Qed.

Lemma sem_targets steps : Forall (fun st => simple st = true /\ shape_ok st = true) steps ->
  targets (sem_steps fx steps) = map encF (flat_map outs steps).
Proof.
  induction 1 as [|st r [Hs _] _ IH]; [reflexivity|].
  cbn [sem_steps flat_map]. unfold targets in *. rewrite !map_app. fold (sem_steps fx r). rewrite IH. f_equal.
  destruct (simple_sem st Hs) as (o & D & ord & Eo & E & _). rewrite E. unfold outs. rewrite Eo. reflexivity.
Qed.

Lemma memf_enc_map x l : memf (encF x) (map encF l) = memN x l.
Proof.
  unfold memf, memN. induction l as [|y l IH]; [reflexivity|]. cbn [map existsb]. rewrite IH. f_equal.
  unfold encF. cbn [enc]. destruct (N.eqb_spec x y); [subst; apply N.eqb_refl|]. apply N.eqb_neq. lia.
Qed.

Lemma memN_In x l : memN x l = true <-> In x l.
Proof.
  unfold memN. rewrite existsb_exists. split; [intros [y [H E]]; apply N.eqb_eq in E; now subst|].
  intros H. exists x. split; [assumption|apply N.eqb_refl].
Qed.

Lemma memf_dir_map d l : memf (enc (NDir d)) (map encF l) = false.
Proof.
  apply memf_false. intros H. apply in_map_iff in H as [y [E _]]. unfold encF in E. cbn [enc] in E. lia.
Qed.

(* ------------------------------------------------------------------ wfb *)
Lemma nodup_app_r {T} (a b : list T) : NoDup (a ++ b) -> NoDup b.
Proof. induction a as [|x a IH]; cbn; [auto|]. intros H. inversion H. auto. Qed.

Lemma wf_wfb steps : wf_script steps -> wfb (sem_steps fx steps) = true.
Proof.
  intros (Hs & Hnd & Hord). induction Hs as [|st r [Hsim Hshape] Hr IH]; [reflexivity|].
  cbn [flat_map] in Hnd. pose proof (nodup_app_r _ _ Hnd) as Hnd'. destruct Hord as [Hp Hord'].
  specialize (IH Hnd' Hord').
  destruct (simple_sem st Hsim) as (o & D & ord & Eo & E & Hdir & HD). specialize (HD Hshape).
  cbn [sem_steps flat_map]. rewrite E. fold (sem_steps fx r). cbn [app wfb].
  rewrite IH, andb_true_r. apply andb_true_iff. split.
  - apply forallb_forall. intros p Hin. cbn [r_prereqs r_order] in Hin. apply negb_true_iff.
    change (mkRule (encF (o_file o)) (map encF D) (map enc ord) true false :: sem_steps fx r)
      with ([mkRule (encF (o_file o)) (map encF D) (map enc ord) true false] ++ sem_steps fx r).
    unfold targets. rewrite map_app. fold (targets (sem_steps fx r)). rewrite (sem_targets r Hr). cbn [map r_target app].
    change (encF (o_file o) :: map encF (flat_map outs r)) with (map encF (o_file o :: flat_map outs r)).
    apply in_app_or in Hin as [Hin|Hin].
    + apply in_map_iff in Hin as [q [<- Hq]]. rewrite memf_enc_map.
      destruct (memN q (o_file o :: flat_map outs r)) eqn:Em; [|reflexivity]. exfalso.
      apply memN_In in Em. apply (Hp q); [now apply HD|]. cbn [flat_map]. unfold outs at 1. rewrite Eo. exact Em.
    + apply in_map_iff in Hin as [n [<- Hn]]. destruct (Hdir n Hn) as [d ->]. apply memf_dir_map.
  - cbn [r_target]. rewrite (sem_targets r Hr), memf_enc_map. apply negb_true_iff.
    destruct (memN (o_file o) (flat_map outs r)) eqn:Em; [|reflexivity]. exfalso. apply memN_In in Em.
    unfold outs at 1 in Hnd. rewrite Eo in Hnd. cbn [map app] in Hnd. inversion Hnd. contradiction.
Qed.

Lemma sem_all_recipes steps : Forall (fun st => simple st = true /\ shape_ok st = true) steps ->
  forall r, In r (sem_steps fx steps) -> r_recipe r = true /\ r_phony r = false.
Proof.
  induction 1 as [|st l [Hs _] _ IH]; intros r Hr; [destruct Hr|].
  cbn [sem_steps flat_map] in Hr. apply in_app_or in Hr as [Hr|Hr]; [|now apply IH].
  destruct (simple_sem st Hs) as (o & D & ord & _ & E & _). rewrite E in Hr. destruct Hr as [<-|[]]. now split.
Qed.

(* ------------------------------------------------------------------ down = script_down *)
Lemma existsb_set_eq {T} (f : T -> bool) a b : set_eq a b -> existsb f a = existsb f b.
Proof.
  intros H. apply Bool.eq_iff_eq_true. rewrite !existsb_exists.
  split; intros [x [Hx Fx]]; exists x; (split; [now apply H|assumption]).
Qed.

Lemma existsb_enc x d D :
  existsb (fun p => (p =? encF x) || memf p (map encF d)) (map encF D) = existsb (fun p => (p =? x) || memN p d) D.
Proof.
  induction D as [|q D IHD]; [reflexivity|].
  cbn [map existsb]. rewrite IHD, memf_enc_map. f_equal. f_equal.
  unfold encF. cbn [enc]. destruct (N.eqb_spec q x); [subst; apply N.eqb_refl|]. apply N.eqb_neq. lia.
Qed.

Lemma down_script x steps : Forall (fun st => simple st = true /\ shape_ok st = true) steps ->
  forall d, fold_left (down_step (encF x)) (sem_steps fx steps) (map encF d) =
            map encF (fold_left (sdown_step x) steps d).
Proof.
  induction 1 as [|st l [Hs Hsh] _ IH]; intros d; [reflexivity|].
  cbn [sem_steps flat_map]. rewrite fold_left_app. fold (sem_steps fx l). cbn [fold_left].
  destruct (simple_sem st Hs) as (o & D & ord & Eo & E & _ & HD). specialize (HD Hsh). rewrite E.
  cbn [fold_left]. unfold down_step at 2. cbn [r_recipe r_prereqs r_target andb].
  assert (Ex : existsb (fun p => (p =? encF x) || memf p (map encF d)) (map encF D) =
               existsb (fun p => (p =? x) || memN p d) (consumed st)).
  { rewrite <- (existsb_set_eq _ D (consumed st) HD). apply existsb_enc. }
  rewrite Ex. unfold sdown_step at 2. destruct (existsb _ (consumed st)).
  - unfold outs. rewrite Eo. cbn [map]. rewrite <- IH. now rewrite map_app.
  - apply IH.
Qed.

Lemma run_below all todo s : fs_below (b_fs s) (b_clk s) -> fs_below (b_fs (run all todo s)) (b_clk (run all todo s)).
Proof.
  revert s; induction todo as [|r post IH]; intros s H; [assumption|]. rewrite run_cons. apply IH. now apply step_below.
Qed.

(* ------------------------------------------------------------------ C03_rebuild_exact *)
Theorem rebuild_exact steps f clk x :
  wf_script steps -> fs_below f clk ->
  let rs := sem_steps fx steps in
  let s1 := build rs f clk in
  b_fail s1 = None ->
  b_log (build rs (b_fs s1) (b_clk s1)) = [] /\
  (let s2 := build rs (upd (b_fs s1) (encF x) (b_clk s1)) (b_clk s1 + 1) in
   b_fail s2 = None /\ b_log s2 = map encF (script_down x steps)).
Proof.
  intros Hwf Hb rs s1 Hf. pose proof (wf_wfb steps Hwf) as Hw. destruct Hwf as (Hs & _ & _).
  pose proof (sem_all_recipes steps Hs) as Hrec.
  assert (Hnp : nophony rs) by (intros r Hr; now apply Hrec).
  assert (Hle : leaves_exist rs f) by (intros r Hr E; apply Hrec in Hr as [Hr _]; congruence).
  assert (Hlf : leaves_flat rs) by (intros r Hr E; apply Hrec in Hr as [Hr _]; congruence).
  split.
  - now apply (build_idempotent rs f clk Hw Hnp Hle Hb).
  - assert (Hb1 : fs_below (b_fs s1) (b_clk s1)) by (apply run_below; exact Hb).
    pose proof (build_quiescent rs f clk Hw Hnp Hle Hb Hf) as Hq.
    destruct (touch_rebuilds_downstream rs (b_fs s1) (b_clk s1) (encF x) Hw Hnp Hlf Hb1 Hq) as [F L].
    split; [exact F|]. cbn zeta. rewrite L. unfold down, script_down.
    exact (down_script x steps Hs []).
Qed.
End WithVariant.
