(* The Make rules of a script under the depth-first walk with cached mtimes (Graph/StampSem.v dmake), INCLUDING
   multi-output steps: how the Rule tuples registered by one step (Graph/Emit.v emit_make_step) are read as rules of
   the walk semantics.  Definitions only; proofs in EmitStampProofs.v.

   A step registers one rule (one target list, its recipe creates the targets), or - multitarget_rule with several
   outputs - two:  outs: stamp  and  stamp: deps | order.  In the second shape the recipe of the stamp rule writes the
   targets of the first rule and then (lag ticks later: touch $@ is its last line) the stamp; the recipe of the first
   rule, when it has one (the repaired multitarget_rule, fx = true), is the no-op  @: . *)
From BFG Require Import Base.Chars Make.MakeSem Graph.Steps Graph.Emit Graph.EmitSem Graph.StampSem.
Local Open Scope N_scope.

Definition xk (has_recipe : bool) (k : rkind) : rkind := if has_recipe then k else RNone.

Definition xrules_of (r : mrule) (k : rkind) (also : list file) (lag : N) : list xrule :=
  map (fun t => mkX (enc t) (map enc (mr_deps r)) (map enc (mr_order r)) (xk (mr_recipe r) k) (mr_phony r) also lag)
      (mr_targets r).

Definition xsem_rules (lag : N) (rs : list mrule) : list xrule :=
  match rs with
  | [r] => xrules_of r RReal [] 0
  | [ro; rst] => xrules_of ro RNoop [] 0 ++ xrules_of rst RReal (map enc (mr_targets ro)) lag
  | _ => []
  end.

Definition xsem_step (fx : bool) (lag : N) (st : step) : list xrule :=
  match emit_make_step fx st with Some rs => xsem_rules lag rs | None => [] end.
Definition xsem_steps (fx : bool) (lag : N) (steps : list step) : list xrule := flat_map (xsem_step fx lag) steps.

(* several outputs through the stamp, not phony (compile with a second output, link with an import library,
   build_step / command with several outputs) *)
Definition multi (st : step) : bool :=
  match s_outputs st with _ :: _ :: _ => true | _ => false end &&
  match s_kind st with
  | KCompile | KLink => true
  | KCommand | KBuildStep => negb (s_phony st)
  | _ => false
  end.

(* well-formed script, multi-output steps allowed *)
Definition wf_script_multi (steps : list step) : Prop :=
  Forall (fun st => (simple st = true \/ multi st = true) /\ shape_ok st = true) steps /\
  NoDup (flat_map outs steps) /\
  ordered steps.

(* the target whose (real) recipe is the step: the output, or the stamp of a multi-output step.  A run of the no-op
   recipe of an output is not a step: it is recorded in d_nlog, not in d_log. *)
Definition step_target (st : step) : file :=
  match s_outputs st with
  | [] => 0
  | [o] => encF (o_file o)
  | o :: _ => enc (NStamp (o_file o))
  end.

(* the steps that re-run when x changes, on the script alone (the list of their outputs is EmitSem.script_down) *)
Definition sdown_steps_step (x : N) (acc : list N * list step) (st : step) : list N * list step :=
  if existsb (fun p => (p =? x) || memN p (fst acc)) (consumed st)
  then (fst acc ++ outs st, snd acc ++ [st]) else acc.
Definition script_down_steps (x : N) (steps : list step) : list step :=
  snd (fold_left (sdown_steps_step x) steps ([], [])).

(* the goals: every output, in script order (make all, with all depending on everything) *)
Definition script_goals (steps : list step) : list file := map encF (flat_map outs steps).

(* a fresh build directory: no output and no stamp exists yet *)
Definition clean_for (rs : list xrule) (f : fs) : Prop := forall r, In r rs -> f (x_target r) = None.
