(* Rebuild exactness of the emitted Make rules INCLUDING multi-output steps, for the repaired multitarget_rule
   (the rule  outs: stamp  carries the no-op recipe), under the depth-first walk with cached mtimes of
   Graph/StampSem.v (dmake, validated against GNU Make 4.3).
     blocks            the rules of one step as a block: one rule, or  outs: stamp (no-op)  +  stamp: deps (real)
     block_run         what one block does to the state of the walk (cache coherent again afterwards: the no-op
                       recipe makes Make look at the output it had seen before the stamp's recipe ran)
     blocks_run        invariant over the goals in script order
     run_clean / run_quiet / run_touched   first build, build of an up-to-date tree, build after touching one file
     rebuild_exact_multi                   the same for scripts (Graph/EmitStamp.v xsem_steps)
   The no-op recipe is not a step: its runs are recorded in d_nlog, the theorems speak about d_log. *)
From BFG Require Import Base.Chars Make.MakeSem Make.MakeSemProofs Graph.Steps Graph.Emit Graph.EmitProofs
  Graph.EmitSem Graph.StampSem Graph.EmitStamp.
Local Open Scope N_scope.

(* ---------------------------------------------------------------- part 1 *)
(* ================================================================== blocks *)
Inductive block :=
| BS (o : file) (D ord : list file)
| BM (o1 : file) (os : list file) (K : file) (D ord : list file) (lag : N).

Definition b_outs b := match b with BS o _ _ => [o] | BM o1 os _ _ _ _ => o1 :: os end.
Definition b_key b := match b with BS o _ _ => o | BM _ _ K _ _ _ => K end.
Definition b_deps b := match b with BS _ D _ => D | BM _ _ _ D _ _ => D end.
Definition b_ord b := match b with BS _ _ ord => ord | BM _ _ _ _ ord _ => ord end.
Definition b_targets b := match b with BS o _ _ => [o] | BM o1 os K _ _ _ => (o1 :: os) ++ [K] end.
Definition noop_rule (K o : file) : xrule := mkX o [K] [] RNoop false [] 0.
Definition b_rules b : list xrule :=
  match b with
  | BS o D ord => [mkX o D ord RReal false [] 0]
  | BM o1 os K D ord lag => map (noop_rule K) (o1 :: os) ++ [mkX K D ord RReal false (o1 :: os) lag]
  end.
Definition rules bs := flat_map b_rules bs.
Definition goals bs := flat_map b_outs bs.
Definition tgts bs := flat_map b_targets bs.

Lemma b_rules_targets b : map x_target (b_rules b) = b_targets b.
Proof.
  destruct b as [o D ord|o1 os S D ord lag]; [reflexivity|]. cbn [b_rules b_targets].
  rewrite map_app, map_map. cbn [map x_target noop_rule]. f_equal. f_equal. induction os; cbn; congruence.
Qed.

Lemma rules_targets bs : map x_target (rules bs) = tgts bs.
Proof.
  induction bs as [|b bs IH]; [reflexivity|]. cbn [rules tgts flat_map]. rewrite map_app, b_rules_targets. f_equal. exact IH.
Qed.

Lemma rules_nophony bs r : In r (rules bs) -> x_phony r = false.
Proof.
  unfold rules. rewrite in_flat_map. intros [b [_ Hr]]. destruct b as [o D ord|o1 os S D ord lag]; cbn [b_rules] in Hr.
  - destruct Hr as [<-|[]]. reflexivity.
  - apply in_app_or in Hr as [Hr|[<-|[]]]; [|reflexivity]. apply in_map_iff in Hr as [o [<- _]]. reflexivity.
Qed.

Lemma outs_targets b y : In y (b_outs b) -> In y (b_targets b).
Proof. destruct b; cbn; [tauto|]. intros H. rewrite in_app_iff. cbn. tauto. Qed.
Lemma key_targets b : In (b_key b) (b_targets b).
Proof. destruct b; cbn; [now left|]. right. apply in_or_app. right. now left. Qed.

(* ================================================================== find_x *)
Lemma find_x_none rs t : ~ In t (map x_target rs) -> find_x rs t = None.
Proof.
  intros H. unfold find_x. apply find_none_all. intros r Hr. apply N.eqb_neq. intros E. apply H.
  apply in_map_iff. now exists r.
Qed.

Lemma find_x_some rs r : NoDup (map x_target rs) -> In r rs -> find_x rs (x_target r) = Some r.
Proof.
  unfold find_x. induction rs as [|a rs IH]; intros Hnd Hin; [contradiction|]. cbn [map] in Hnd. inversion Hnd as [|? ? Hna Hnd']; subst.
  cbn [find]. destruct Hin as [->|Hin]; [now rewrite N.eqb_refl|].
  destruct (N.eqb_spec (x_target a) (x_target r)) as [E|E]; [|now apply IH].
  exfalso. apply Hna. rewrite E. apply in_map_iff. now exists r.
Qed.

Lemma phony_in_false rs p : (forall r, In r rs -> x_phony r = false) -> x_phony_in rs p = false.
Proof.
  intros H. unfold x_phony_in. induction rs as [|r l IH]; [reflexivity|]. cbn [existsb].
  rewrite (H r (or_introl eq_refl)), andb_false_r. apply IH. intros r' Hr'. apply H. now right.
Qed.

(* ================================================================== cache coherence *)
Definition coh (s : dst) : Prop := forall y v, assoc y (d_cache s) = Some v -> v = d_fs s y.

Lemma coh_mt s y : coh s -> mt s y = d_fs s y.
Proof. intros H. unfold mt. destruct (assoc y (d_cache s)) as [v|] eqn:E; [now apply H|reflexivity]. Qed.

Definition needf (f : fs) (t : file) (D : list file) : bool :=
  is_none (f t) || existsb (fun p => is_none (f p) || newer_o (f p) (f t)) D.

Lemma must_coh rs r t s : coh s -> (forall r', In r' rs -> x_phony r' = false) -> x_phony r = false ->
  must_remake rs r t s = needf (d_fs s) t (x_prereqs r).
Proof.
  intros Hc Hnp Hr. unfold must_remake, needf. rewrite Hr, (coh_mt s t Hc). cbn [orb]. f_equal.
  apply existsb_ext_in. intros p _. now rewrite (coh_mt s p Hc), (phony_in_false rs p Hnp), orb_false_r.
Qed.

(* ================================================================== visiting prerequisites that are done or leaves *)
Definition same_core (s s' : dst) : Prop :=
  d_fs s' = d_fs s /\ d_clk s' = d_clk s /\ d_log s' = d_log s /\ d_fail s' = d_fail s.

(* s' extends s by visiting files of l: nothing but cache and done changed, and those only at l *)
Definition ext (l : list file) (s s' : dst) : Prop :=
  same_core s s' /\ coh s' /\
  (forall y, memf y (d_done s) = true -> memf y (d_done s') = true) /\
  (forall y, memf y (d_done s') = true -> memf y (d_done s) = true \/ In y l) /\
  (forall y, ~ In y l -> assoc y (d_cache s') = assoc y (d_cache s)).

Lemma assoc_cons x y v c : assoc x ((y, v) :: c) = if x =? y then Some v else assoc x c.
Proof. reflexivity. Qed.

Lemma memf_cons y p l : memf y (p :: l) = (y =? p) || memf y l.
Proof. reflexivity. Qed.

Lemma visit_one rs n p s :
  d_fail s = false -> coh s -> d_fs s p <> None ->
  (memf p (d_done s) = true \/ find_x rs p = None) ->
  ext [p] s (update (S n) rs p s).
Proof.
  intros Hf Hc Hex Hp. cbn [update]. rewrite Hf.
  destruct (memf p (d_done s)) eqn:Ed.
  - repeat split; auto.
  - destruct Hp as [Hp|Hp]; [discriminate|]. rewrite Hp.
    assert (Hm : mt (stat p s) p = d_fs s p).
    { unfold stat, mt. destruct (assoc p (d_cache s)) as [v|] eqn:E.
      - rewrite E. now apply Hc.
      - cbn [d_cache]. rewrite assoc_cons, N.eqb_refl. reflexivity. }
    rewrite Hm. destruct (d_fs s p) eqn:Ep; [|congruence]. cbn [is_none].
    unfold mark, stat. destruct (assoc p (d_cache s)) as [v|] eqn:E; unfold ext, same_core, coh;
      cbn [d_fs d_clk d_log d_fail d_cache d_done].
    + repeat split; auto.
      * intros y Hy. rewrite memf_cons, Hy. apply orb_true_r.
      * intros y Hy. rewrite memf_cons in Hy. apply orb_true_iff in Hy as [Hy|Hy]; [|now left].
        right. left. apply N.eqb_eq in Hy. now symmetry.
    + repeat split; auto.
      * intros y v Hy. rewrite assoc_cons in Hy. destruct (N.eqb_spec y p) as [->|Hne].
        -- inversion Hy. now rewrite Ep.
        -- now apply Hc.
      * intros y Hy. rewrite memf_cons, Hy. apply orb_true_r.
      * intros y Hy. rewrite memf_cons in Hy. apply orb_true_iff in Hy as [Hy|Hy]; [|now left].
        right. left. apply N.eqb_eq in Hy. now symmetry.
      * intros y Hy. rewrite assoc_cons. destruct (N.eqb_spec y p) as [->|Hne]; [|reflexivity].
        exfalso. apply Hy. now left.
Qed.

Lemma visit_pre rs n l : forall s,
  d_fail s = false -> coh s ->
  (forall p, In p l -> d_fs s p <> None) ->
  (forall p, In p l -> memf p (d_done s) = true \/ find_x rs p = None) ->
  ext l s (fold_left (fun a p => update (S n) rs p a) l s).
Proof.
  induction l as [|p l IH]; intros s Hf Hc Hex Hp.
  - cbn [fold_left]. repeat split; auto.
  - cbn [fold_left].
    destruct (visit_one rs n p s Hf Hc (Hex p (or_introl eq_refl)) (Hp p (or_introl eq_refl)))
      as ((E1 & E2 & E3 & E4) & Hc1 & Hd1 & Hd2 & Hca).
    set (s1 := update (S n) rs p s) in *.
    destruct (IH s1) as ((F1 & F2 & F3 & F4) & Hc2 & He1 & He2 & Hcb).
    + congruence.
    + exact Hc1.
    + intros q Hq. rewrite E1. apply Hex. now right.
    + intros q Hq. destruct (Hp q (or_intror Hq)) as [H|H]; [left; now apply Hd1|now right].
    + repeat split; try congruence; auto.
      * intros y Hy. apply He2 in Hy as [Hy|Hy]; [|right; now right].
        apply Hd2 in Hy as [Hy|[<-|[]]]; [now left|right; now left].
      * intros y Hy. rewrite Hcb by (intros H; apply Hy; now right). apply Hca. intros [<-|[]]. apply Hy. now left.
Qed.

(* ---------------------------------------------------------------- part 2 *)
(* ================================================================== ext: composition *)
Lemma ext_refl l s : coh s -> ext l s s.
Proof. intros H. repeat split; auto. Qed.

Lemma ext_trans a b s s1 s2 : ext a s s1 -> ext b s1 s2 -> ext (a ++ b) s s2.
Proof.
  intros ((E1 & E2 & E3 & E4) & _ & Hd1 & Hd2 & Hca) ((F1 & F2 & F3 & F4) & Hc2 & He1 & He2 & Hcb).
  repeat split; try congruence; auto.
  - intros y Hy. apply He2 in Hy as [Hy|Hy]; [|right; apply in_or_app; now right].
    apply Hd2 in Hy as [Hy|Hy]; [now left|right; apply in_or_app; now left].
  - intros y Hy. rewrite Hcb by (intros H; apply Hy; apply in_or_app; now right).
    apply Hca. intros H. apply Hy. apply in_or_app. now left.
Qed.

Lemma ext_weaken a b s s' : ext a s s' -> incl a b -> ext b s s'.
Proof.
  intros (Hs & Hc & Hd1 & Hd2 & Hca) Hi. split; [exact Hs|]. split; [exact Hc|]. split; [exact Hd1|]. split.
  - intros y Hy. apply Hd2 in Hy as [Hy|Hy]; [now left|right; now apply Hi].
  - intros y Hy. apply Hca. intros H. apply Hy. now apply Hi.
Qed.

Lemma ext_fold (f : dst -> file -> dst) (P : file -> dst -> Prop) :
  (forall p s, P p s -> ext [p] s (f s p) /\ memf p (d_done (f s p)) = true) ->
  (forall p q s s', p <> q -> P p s -> ext [q] s s' -> P p s') ->
  forall l s, NoDup l -> coh s -> (forall p, In p l -> P p s) ->
  ext l s (fold_left f l s) /\ (forall p, In p l -> memf p (d_done (fold_left f l s)) = true).
Proof.
  intros Hstep Hpres. induction l as [|p l IH]; intros s Hnd Hc HP.
  - cbn [fold_left]. split; [now apply ext_refl|intros p []].
  - cbn [fold_left]. inversion Hnd as [|? ? Hnp Hnd']; subst.
    destruct (Hstep p s (HP p (or_introl eq_refl))) as [He Hd].
    destruct (IH (f s p) Hnd') as [He2 Hd2].
    + apply He.
    + intros q Hq. apply (Hpres q p s); [intros ->; contradiction|apply HP; now right|exact He].
    + split; [exact (ext_trans [p] l _ _ _ He He2)|].
      intros q [<-|Hq]; [|now apply Hd2]. destruct He2 as (_ & _ & Hm & _). now apply Hm.
Qed.

(* ================================================================== stat *)
Lemma stat_none t s : assoc t (d_cache s) = None ->
  stat t s = mkD (d_fs s) (d_clk s) (d_log s) (d_nlog s) ((t, d_fs s t) :: d_cache s) (d_done s) (d_fail s).
Proof. intros H. unfold stat. now rewrite H. Qed.

Lemma coh_push s t v c : coh s -> v = d_fs s t ->
  coh (mkD (d_fs s) (d_clk s) (d_log s) (d_nlog s) ((t, v) :: d_cache s) c (d_fail s)).
Proof.
  intros Hc -> y w. cbn [d_cache d_fs]. rewrite assoc_cons. destruct (N.eqb_spec y t) as [->|Hne].
  - intros H. now inversion H.
  - apply Hc.
Qed.

(* ================================================================== a target all of whose prerequisites are done or leaves *)
Definition leafy (rs : list xrule) (s : dst) (l : list file) : Prop :=
  forall p, In p l -> d_fs s p <> None /\ (memf p (d_done s) = true \/ find_x rs p = None).

Lemma upd_target rs n r s :
  (forall r', In r' rs -> x_phony r' = false) ->
  d_fail s = false -> coh s -> memf (x_target r) (d_done s) = false -> assoc (x_target r) (d_cache s) = None ->
  find_x rs (x_target r) = Some r -> x_phony r = false ->
  leafy rs s (x_prereqs r ++ x_order r) ->
  exists s1, ext (x_prereqs r ++ x_order r) (stat (x_target r) s) s1 /\
    update (S (S n)) rs (x_target r) s =
      if needf (d_fs s) (x_target r) (x_prereqs r) then run_recipe r (x_target r) s1 else mark (x_target r) s1.
Proof.
  intros Hnp Hf Hc Hnd Hnc Hfind Hph Hleaf. set (t := x_target r) in *.
  set (s0 := stat t s).
  assert (E0 : s0 = mkD (d_fs s) (d_clk s) (d_log s) (d_nlog s) ((t, d_fs s t) :: d_cache s) (d_done s) (d_fail s))
    by (apply stat_none; exact Hnc).
  assert (Hc0 : coh s0). { rewrite E0. apply coh_push; [exact Hc|reflexivity]. }
  assert (Hext : ext (x_prereqs r ++ x_order r) s0 (fold_left (fun a p => update (S n) rs p a) (x_prereqs r ++ x_order r) s0)).
  { apply visit_pre.
    - rewrite E0. exact Hf.
    - exact Hc0.
    - intros p Hp. rewrite E0. exact (proj1 (Hleaf p Hp)).
    - intros p Hp. rewrite E0. exact (proj2 (Hleaf p Hp)). }
  set (s1 := fold_left (fun a p => update (S n) rs p a) (x_prereqs r ++ x_order r) s0) in *.
  exists s1. split; [exact Hext|].
  change (update (S (S n)) rs t s) with
    (if d_fail s then s else if memf t (d_done s) then s else
     match find_x rs t with
     | None => if is_none (mt (stat t s) t) then failed (stat t s) else mark t (stat t s)
     | Some r0 =>
         let s1 := fold_left (fun a p => update (S n) rs p a) (x_prereqs r0 ++ x_order r0) (stat t s) in
         if d_fail s1 then s1 else if must_remake rs r0 t s1 then run_recipe r0 t s1 else mark t s1
     end).
  rewrite Hf, Hnd, Hfind. cbn zeta. fold s0. fold s1.
  destruct Hext as ((E1 & E2 & E3 & E4) & Hc1 & _).
  assert (Hf1 : d_fail s1 = false) by (rewrite E4, E0; exact Hf).
  rewrite Hf1, (must_coh rs r t s1 Hc1 Hnp Hph), E1, E0. reflexivity.
Qed.

Lemma write_all_spec l : forall f c y, write_all f l c y = if memf y l then Some c else f y.
Proof.
  unfold write_all. induction l as [|x l IH]; intros f c y; [reflexivity|]. cbn [fold_left]. rewrite IH, memf_cons.
  destruct (memf y l); [now rewrite orb_true_r|]. rewrite orb_false_r. reflexivity.
Qed.

(* ---------------------------------------------------------------- part 3 *)
Lemma update_unfold n rs t s :
  update (S n) rs t s =
    if d_fail s then s else if memf t (d_done s) then s else
    match find_x rs t with
    | None => if is_none (mt (stat t s) t) then failed (stat t s) else mark t (stat t s)
    | Some r =>
        let s1 := fold_left (fun a p => update n rs p a) (x_prereqs r ++ x_order r) (stat t s) in
        if d_fail s1 then s1 else if must_remake rs r t s1 then run_recipe r t s1 else mark t s1
    end.
Proof. reflexivity. Qed.

(* ================================================================== a target with a real recipe *)
Definition tpost (r : xrule) (L : list file) (fires : bool) (s s' : dst) : Prop :=
  let t := x_target r in
  d_fail s' = false /\
  (if fires then d_log s' = d_log s ++ [t] /\ d_clk s' = d_clk s + x_lag r + 1 /\
                 d_fs s' = upd (write_all (d_fs s) (x_also r) (d_clk s)) t (d_clk s + x_lag r) /\
                 assoc t (d_cache s') = Some (Some (d_clk s + x_lag r))
   else d_log s' = d_log s /\ d_clk s' = d_clk s /\ d_fs s' = d_fs s /\ assoc t (d_cache s') = Some (d_fs s t)) /\
  (forall y v, y <> t -> assoc y (d_cache s') = Some v -> v = d_fs s y) /\
  (forall y, memf y (d_done s) = true -> memf y (d_done s') = true) /\
  memf t (d_done s') = true /\
  (forall y, memf y (d_done s') = true -> memf y (d_done s) = true \/ y = t \/ In y L) /\
  (forall y, y <> t -> ~ In y L -> assoc y (d_cache s') = assoc y (d_cache s)).

Lemma real_target rs n r s :
  (forall r', In r' rs -> x_phony r' = false) ->
  d_fail s = false -> coh s -> memf (x_target r) (d_done s) = false -> assoc (x_target r) (d_cache s) = None ->
  find_x rs (x_target r) = Some r -> x_phony r = false -> x_recipe r = RReal ->
  leafy rs s (x_prereqs r ++ x_order r) -> ~ In (x_target r) (x_prereqs r ++ x_order r) ->
  tpost r (x_prereqs r ++ x_order r) (needf (d_fs s) (x_target r) (x_prereqs r)) s (update (S (S n)) rs (x_target r) s).
Proof.
  intros Hnp Hf Hc Hnd Hnc Hfind Hph Hk Hleaf Hself.
  destruct (upd_target rs n r s Hnp Hf Hc Hnd Hnc Hfind Hph Hleaf) as (s1 & Hext & ->).
  set (t := x_target r) in *. set (L := x_prereqs r ++ x_order r) in *.
  destruct Hext as ((E1 & E2 & E3 & E4) & Hc1 & Hd1 & Hd2 & Hca).
  rewrite (stat_none t s Hnc) in *. cbn [d_fs d_clk d_log d_fail d_cache d_done] in *.
  assert (Ht1 : assoc t (d_cache s1) = Some (d_fs s t)).
  { rewrite (Hca t Hself), assoc_cons, N.eqb_refl. reflexivity. }
  assert (Hold : forall y v, y <> t -> assoc y (d_cache s1) = Some v -> v = d_fs s y).
  { intros y v _ Hy. rewrite <- E1. now apply Hc1. }
  assert (Hfr : forall y, y <> t -> ~ In y L -> assoc y (d_cache s1) = assoc y (d_cache s)).
  { intros y Hy HL. rewrite (Hca y HL), assoc_cons. apply N.eqb_neq in Hy. now rewrite Hy. }
  unfold tpost. fold t. destruct (needf (d_fs s) t (x_prereqs r)).
  - unfold run_recipe. rewrite Hk, Hph. cbn [d_fs d_clk d_log d_fail d_cache d_done]. rewrite E1, E2, E3.
    split; [reflexivity|]. split; [repeat split; now rewrite ?assoc_cons, ?N.eqb_refl|]. split.
    { intros y v Hy. rewrite assoc_cons. apply N.eqb_neq in Hy. rewrite Hy. apply N.eqb_neq in Hy. now apply Hold. }
    split. { intros y Hy. rewrite memf_cons, (Hd1 y Hy). apply orb_true_r. }
    split. { now rewrite memf_cons, N.eqb_refl. }
    split. { intros y Hy. rewrite memf_cons in Hy. apply orb_true_iff in Hy as [Hy|Hy].
             - right. left. now apply N.eqb_eq.
             - apply Hd2 in Hy as [Hy|Hy]; [now left|right; now right]. }
    intros y Hy HL. rewrite assoc_cons. apply N.eqb_neq in Hy. rewrite Hy. apply N.eqb_neq in Hy. now apply Hfr.
  - unfold mark. cbn [d_fs d_clk d_log d_fail d_cache d_done]. rewrite E1, E2, E3, E4.
    split; [exact Hf|]. split; [repeat split; exact Ht1|]. split; [exact Hold|].
    split. { intros y Hy. rewrite memf_cons, (Hd1 y Hy). apply orb_true_r. }
    split. { now rewrite memf_cons, N.eqb_refl. }
    split. { intros y Hy. rewrite memf_cons in Hy. apply orb_true_iff in Hy as [Hy|Hy].
             - right. left. now apply N.eqb_eq.
             - apply Hd2 in Hy as [Hy|Hy]; [now left|right; now right]. }
    exact Hfr.
Qed.

(* ================================================================== blocks *)
Definition block_pre (rs : list xrule) (b : block) (s : dst) : Prop :=
  d_fail s = false /\ coh s /\ fs_below (d_fs s) (d_clk s) /\
  (forall y, In y (b_targets b) -> assoc y (d_cache s) = None /\ memf y (d_done s) = false) /\
  (forall r, In r (b_rules b) -> find_x rs (x_target r) = Some r) /\
  (forall r, In r rs -> x_phony r = false) /\
  NoDup (b_targets b) /\
  (forall p, In p (b_deps b ++ b_ord b) -> ~ In p (b_targets b)) /\
  leafy rs s (b_deps b ++ b_ord b).

Definition block_post (b : block) (fires : bool) (s s' : dst) : Prop :=
  d_fail s' = false /\
  (if fires then
     exists lag, d_log s' = d_log s ++ [b_key b] /\ d_clk s' = d_clk s + lag + 1 /\
       d_fs s' (b_key b) = Some (d_clk s + lag) /\
       (forall y, In y (b_outs b) -> y <> b_key b -> d_fs s' y = Some (d_clk s)) /\
       (forall y, ~ In y (b_targets b) -> d_fs s' y = d_fs s y)
   else d_log s' = d_log s /\ d_clk s' = d_clk s /\ d_fs s' = d_fs s) /\
  coh s' /\
  (forall y, memf y (d_done s) = true -> memf y (d_done s') = true) /\
  (forall y, In y (b_targets b) -> memf y (d_done s') = true) /\
  (forall y, memf y (d_done s') = true -> memf y (d_done s) = true \/ In y (b_targets b ++ b_deps b ++ b_ord b)) /\
  (forall y, ~ In y (b_targets b ++ b_deps b ++ b_ord b) -> assoc y (d_cache s') = assoc y (d_cache s)).

Definition bfires (b : block) (s : dst) : bool := needf (d_fs s) (b_key b) (b_deps b).

Lemma upd_ne f x t y : y <> x -> upd f x t y = f y.
Proof. intros H. unfold upd. apply N.eqb_neq in H. now rewrite H. Qed.
Lemma upd_eq f x t : upd f x t x = Some t.
Proof. unfold upd. now rewrite N.eqb_refl. Qed.

Lemma block_run_single rs n o D ord s :
  block_pre rs (BS o D ord) s ->
  block_post (BS o D ord) (bfires (BS o D ord) s) s (fold_left (fun a g => update (S (S (S n))) rs g a) [o] s).
Proof.
  intros (Hf & Hc & Hb & Hfresh & Hfind & Hnp & Hnd & Hself & Hleaf).
  cbn [b_targets b_rules b_deps b_ord b_key b_outs fold_left] in *.
  set (r := mkX o D ord RReal false [] 0) in *.
  destruct (Hfresh o (or_introl eq_refl)) as [Hnc Hndone].
  assert (Hs : ~ In o (D ++ ord)) by (intros H; apply (Hself o H); now left).
  pose proof (real_target rs (S n) r s Hnp Hf Hc Hndone Hnc (Hfind r (or_introl eq_refl)) eq_refl eq_refl Hleaf Hs) as T.
  cbn [x_target x_prereqs x_order r] in T. unfold bfires. cbn [b_key b_deps].
  destruct T as (Tf & Tm & Told & Td1 & Tdt & Td2 & Tfr). fold r in Tm.
  set (s' := update (S (S (S n))) rs o s) in *.
  assert (Hcoh : coh s').
  { intros y v Hy. destruct (N.eqb_spec y o) as [->|Hne].
    - destruct (needf (d_fs s) o D).
      + destruct Tm as (_ & _ & Efs & Ec). cbn [x_target x_lag r] in *. rewrite Ec in Hy. inversion Hy. rewrite Efs. now rewrite upd_eq.
      + destruct Tm as (_ & _ & Efs & Ec). cbn [x_target r] in *. rewrite Ec in Hy. inversion Hy. now rewrite Efs.
    - rewrite (Told y v Hne Hy). destruct (needf (d_fs s) o D).
      + destruct Tm as (_ & _ & Efs & _). cbn [x_target x_also r] in Efs. rewrite Efs, upd_ne by exact Hne. reflexivity.
      + destruct Tm as (_ & _ & Efs & _). now rewrite Efs. }
  unfold block_post. cbn [b_targets b_deps b_ord b_key b_outs].
  split; [exact Tf|]. split.
  { destruct (needf (d_fs s) o D).
    - destruct Tm as (El & Ek & Efs & _). cbn [x_target x_lag x_also r] in *. exists 0. rewrite Efs.
      split; [exact El|]. split; [exact Ek|]. split; [apply upd_eq|]. split.
      + intros y [<-|[]] Hy. contradiction.
      + intros y Hy. rewrite upd_ne; [reflexivity|]. intros ->. apply Hy. now left.
    - destruct Tm as (El & Ek & Efs & _). auto. }
  split; [exact Hcoh|]. split; [exact Td1|]. split.
  { intros y [<-|[]]. exact Tdt. }
  split.
  { intros y Hy. apply Td2 in Hy as [Hy|[->|Hy]]; [now left|right; now left|right; now right]. }
  intros y Hy. apply Tfr.
  - intros ->. apply Hy. now left.
  - intros H. apply Hy. now right.
Qed.

(* ---------------------------------------------------------------- part 4 *)
Lemma mt_assoc s y v : assoc y (d_cache s) = Some v -> mt s y = v.
Proof. intros H. unfold mt. now rewrite H. Qed.

(* ================================================================== a further output of a step whose stamp is done *)
Definition restP (rs : list xrule) (K o : file) (s : dst) : Prop :=
  find_x rs o = Some (noop_rule K o) /\ d_fail s = false /\ coh s /\ memf K (d_done s) = true /\
  memf o (d_done s) = false /\ assoc o (d_cache s) = None.

Lemma out_rest rs n K o s :
  restP rs K o s ->
  ext [o] s (update (S (S (S n))) rs o s) /\ memf o (d_done (update (S (S (S n))) rs o s)) = true.
Proof.
  intros (Hfind & Hf & Hc & HK & Hnd & Hnc).
  rewrite update_unfold, Hf, Hnd, Hfind. cbn [x_prereqs x_order noop_rule app fold_left].
  rewrite (stat_none o s Hnc).
  set (s0 := mkD (d_fs s) (d_clk s) (d_log s) (d_nlog s) ((o, d_fs s o) :: d_cache s) (d_done s) (d_fail s)).
  assert (E : update (S (S n)) rs K s0 = s0).
  { rewrite update_unfold. change (d_fail s0) with (d_fail s). change (d_done s0) with (d_done s). now rewrite Hf, HK. }
  cbn zeta. rewrite E. change (d_fail s0) with (d_fail s). rewrite Hf.
  assert (Hc0 : coh s0) by (apply coh_push; [exact Hc|reflexivity]).
  assert (G : forall s', d_fs s' = d_fs s -> d_clk s' = d_clk s -> d_log s' = d_log s -> d_fail s' = false ->
                d_done s' = o :: d_done s -> coh s' ->
                (forall y, y <> o -> assoc y (d_cache s') = assoc y (d_cache s)) ->
                ext [o] s s' /\ memf o (d_done s') = true).
  { intros s' G1 G2 G3 G4 G5 G6 G7. split.
    - split; [repeat split; congruence|]. split; [exact G6|]. split.
      + intros y Hy. rewrite G5, memf_cons, Hy. apply orb_true_r.
      + split.
        * intros y Hy. rewrite G5, memf_cons in Hy. apply orb_true_iff in Hy as [Hy|Hy]; [|now left].
          right. left. apply N.eqb_eq in Hy. now symmetry.
        * intros y Hy. apply G7. intros ->. apply Hy. now left.
    - now rewrite G5, memf_cons, N.eqb_refl. }
  destruct (must_remake rs (noop_rule K o) o s0).
  - unfold run_recipe. cbn [x_recipe x_phony noop_rule]. apply G; try reflexivity.
    + unfold s0. cbn [d_fs d_clk d_log d_nlog d_cache d_done d_fail].
      intros y v. cbn [d_cache d_fs]. rewrite !assoc_cons. destruct (N.eqb_spec y o) as [->|Hne].
      * intros H. now inversion H.
      * apply Hc.
    + intros y Hy. unfold s0. cbn [d_cache]. rewrite !assoc_cons. apply N.eqb_neq in Hy. now rewrite Hy.
  - unfold mark, s0. cbn [d_fs d_clk d_log d_nlog d_cache d_done d_fail]. apply G; try reflexivity; try exact Hf.
    + exact Hc0.
    + intros y Hy. cbn [d_cache]. rewrite assoc_cons. apply N.eqb_neq in Hy. now rewrite Hy.
Qed.

Lemma restP_pres rs K p q s s' : p <> q -> restP rs K p s -> ext [q] s s' -> restP rs K p s'.
Proof.
  intros Hne (Hfind & Hf & Hc & HK & Hnd & Hnc) ((E1 & E2 & E3 & E4) & Hc' & Hd1 & Hd2 & Hca).
  split; [exact Hfind|]. split; [congruence|]. split; [exact Hc'|]. split; [now apply Hd1|]. split.
  - destruct (memf p (d_done s')) eqn:E; [|reflexivity]. apply Hd2 in E as [E|[E|[]]]; congruence.
  - rewrite Hca; [exact Hnc|]. intros [E|[]]. congruence.
Qed.

(* ================================================================== a multi-output block *)
Lemma block_run_multi rs n o1 os K D ord lag s :
  block_pre rs (BM o1 os K D ord lag) s ->
  block_post (BM o1 os K D ord lag) (bfires (BM o1 os K D ord lag) s) s
             (fold_left (fun a g => update (S (S (S n))) rs g a) (o1 :: os) s).
Proof.
  intros (Hf & Hc & Hb & Hfresh & Hfind & Hnp & Hnd & Hself & Hleaf).
  cbn [b_targets b_rules b_deps b_ord b_key b_outs] in *. unfold bfires. cbn [b_key b_deps].
  set (L := D ++ ord) in *.
  set (rK := mkX K D ord RReal false (o1 :: os) lag) in *.
  assert (HKt : In K ((o1 :: os) ++ [K])) by (apply in_or_app; right; now left).
  assert (Ho1t : In o1 ((o1 :: os) ++ [K])) by now left.
  assert (Host : forall o, In o os -> In o ((o1 :: os) ++ [K])) by (intros o Ho; right; apply in_or_app; now left).
  assert (HKo : ~ In K (o1 :: os)).
  { apply NoDup_remove_2 with (l := o1 :: os) (l' := []) in Hnd. now rewrite app_nil_r in Hnd. }
  assert (Hndo : NoDup (o1 :: os)).
  { apply NoDup_remove_1 with (l := o1 :: os) (l' := []) in Hnd. now rewrite app_nil_r in Hnd. }
  inversion Hndo as [|? ? Ho1os Hndos]; subst.
  assert (HKo1 : K <> o1) by (intros ->; apply HKo; now left).
  assert (HfK : find_x rs K = Some rK).
  { apply (Hfind rK). apply in_or_app. right. now left. }
  assert (Hfo : forall o, In o (o1 :: os) -> find_x rs o = Some (noop_rule K o)).
  { intros o Ho. apply (Hfind (noop_rule K o)). apply in_or_app. left. apply in_map_iff. now exists o. }
  destruct (Hfresh o1 Ho1t) as [Hnc1 Hnd1]. destruct (Hfresh K HKt) as [HncK HndK].
  cbn [fold_left].
  (* ---- the first output: its stamp is brought up to date inside *)
  set (s0 := mkD (d_fs s) (d_clk s) (d_log s) (d_nlog s) ((o1, d_fs s o1) :: d_cache s) (d_done s) (d_fail s)).
  assert (Hc0 : coh s0) by (apply coh_push; [exact Hc|reflexivity]).
  assert (T : tpost rK L (needf (d_fs s) K D) s0 (update (S (S n)) rs K s0)).
  { apply (real_target rs n rK s0 Hnp); try reflexivity; try assumption.
    - change (assoc K (d_cache s0) = None). unfold s0. cbn [d_cache]. rewrite assoc_cons. apply N.eqb_neq in HKo1. now rewrite HKo1.
    - intros H. apply (Hself K H). exact HKt. }
  set (sA := update (S (S n)) rs K s0) in *.
  destruct T as (Tf & Tm & Told & Td1 & Tdt & Td2 & Tfr).
  cbn [x_target x_lag x_also rK] in Tm, Told, Td1, Tdt, Td2, Tfr.
  unfold s0 in Tm, Told, Td1, Td2, Tfr. cbn [d_fs d_clk d_log d_cache d_done] in Tm, Told, Td1, Td2, Tfr.
  assert (Ho1L : ~ In o1 L) by (intros H; apply (Hself o1 H); exact Ho1t).
  assert (Hmt1 : mt sA o1 = d_fs s o1).
  { apply mt_assoc. rewrite Tfr by auto. rewrite assoc_cons, N.eqb_refl. reflexivity. }
  set (sB := update (S (S (S n))) rs o1 s).
  assert (EB : sB = if must_remake rs (noop_rule K o1) o1 sA then run_recipe (noop_rule K o1) o1 sA else mark o1 sA).
  { unfold sB. rewrite update_unfold, Hf, Hnd1, (Hfo o1 (or_introl eq_refl)).
    cbn [x_prereqs x_order noop_rule app fold_left]. rewrite (stat_none o1 s Hnc1). fold s0. fold sA. cbn zeta.
    now rewrite Tf. }
  (* summary of the state after the first output *)
  assert (HB : d_fail sB = false /\ d_fs sB = d_fs sA /\ d_clk sB = d_clk sA /\ d_log sB = d_log sA /\ coh sB /\
               d_done sB = o1 :: d_done sA /\
               (forall y, y <> o1 -> assoc y (d_cache sB) = assoc y (d_cache sA))).
  { assert (HcA : needf (d_fs s) K D = false -> coh sA).
    { intros En. rewrite En in Tm. destruct Tm as (_ & _ & Efs & EcK). intros y v Hy.
      destruct (N.eqb_spec y K) as [->|Hne]; [rewrite EcK in Hy; inversion Hy; now rewrite Efs|].
      rewrite Efs. now apply Told. }
    assert (Hpush : coh (mkD (d_fs sA) (d_clk sA) (d_log sA) (d_nlog sA ++ [o1]) ((o1, d_fs sA o1) :: d_cache sA)
                             (o1 :: d_done sA) false)).
    { intros y v. cbn [d_cache d_fs]. rewrite assoc_cons. destruct (N.eqb_spec y o1) as [->|Hne1].
      { intros H. now inversion H. }
      intros Hy. destruct (needf (d_fs s) K D) eqn:En; [|now apply (HcA eq_refl)].
      destruct Tm as (_ & _ & Efs & EcK).
      destruct (N.eqb_spec y K) as [->|HneK].
      { rewrite EcK in Hy. inversion Hy. now rewrite Efs, upd_eq. }
      rewrite (Told y v HneK Hy), Efs, upd_ne, write_all_spec by exact HneK.
      destruct (memf y (o1 :: os)) eqn:Em; [|reflexivity]. exfalso.
      apply memf_In in Em. destruct Em as [Em|Em]; [congruence|].
      assert (HyL : ~ In y L) by (intros H; apply (Hself y H); now apply Host).
      rewrite (Tfr y HneK HyL), assoc_cons in Hy. apply N.eqb_neq in Hne1. rewrite Hne1 in Hy.
      rewrite (proj1 (Hfresh y (Host y Em))) in Hy. discriminate. }
    rewrite EB. destruct (must_remake rs (noop_rule K o1) o1 sA) eqn:Emust.
    - unfold run_recipe. cbn [x_recipe x_phony noop_rule d_fail d_fs d_clk d_log d_done d_cache].
      repeat split; try exact Hpush.
      intros y Hy. rewrite assoc_cons. apply N.eqb_neq in Hy. now rewrite Hy.
    - unfold mark. cbn [d_fail d_fs d_clk d_log d_done d_cache]. repeat split; try exact Tf.
      destruct (needf (d_fs s) K D) eqn:En; [|intros y v; now apply (HcA eq_refl)].
      (* the stamp's recipe ran: the output must be looked at again *)
      exfalso. destruct Tm as (_ & _ & _ & EcK).
      unfold must_remake in Emust. cbn [x_phony x_prereqs noop_rule existsb] in Emust.
      rewrite Hmt1, (mt_assoc sA K _ EcK) in Emust. cbn [is_none orb] in Emust.
      destruct (d_fs s o1) as [t1|] eqn:E1; [|discriminate]. cbn [is_none orb newer_o] in Emust.
      rewrite (phony_in_false rs K Hnp) in Emust. cbn [orb] in Emust. rewrite orb_false_r in Emust.
      apply N.ltb_ge in Emust. apply Hb in E1. lia. }
  destruct HB as (HBf & HBfs & HBclk & HBlog & HBcoh & HBdone & HBca).
  (* ---- the remaining outputs *)
  destruct (ext_fold (fun a g => update (S (S (S n))) rs g a) (restP rs K)) with (l := os) (s := sB)
    as [Hext Hdone_os].
  { intros p s1 HP. exact (out_rest rs n K p s1 HP). }
  { intros p q s1 s2. apply (restP_pres rs K). }
  { exact Hndos. }
  { exact HBcoh. }
  { intros o Ho. split; [apply Hfo; now right|]. split; [exact HBf|]. split; [exact HBcoh|].
    assert (HoK : o <> K) by (intros ->; apply HKo; now right).
    assert (Ho1 : o <> o1) by (intros ->; contradiction).
    assert (HoL : ~ In o L) by (intros H; apply (Hself o H); now apply Host).
    split; [rewrite HBdone, memf_cons, Tdt; apply orb_true_r|]. split.
    - rewrite HBdone, memf_cons. apply N.eqb_neq in Ho1. rewrite Ho1. cbn [orb].
      destruct (memf o (d_done sA)) eqn:E; [|reflexivity]. apply Td2 in E as [E|[E|E]]; try contradiction.
      rewrite (proj2 (Hfresh o (Host o Ho))) in E. discriminate.
    - rewrite HBca by exact Ho1. rewrite Tfr by assumption. rewrite assoc_cons. apply N.eqb_neq in Ho1. rewrite Ho1.
      exact (proj1 (Hfresh o (Host o Ho))). }
  set (s' := fold_left (fun a g => update (S (S (S n))) rs g a) os sB) in *.
  destruct Hext as ((E1 & E2 & E3 & E4) & Hc' & He1 & He2 & Hca).
  unfold block_post. cbn [b_targets b_deps b_ord b_key b_outs]. fold L.
  split; [congruence|]. split.
  { rewrite E1, E2, E3, HBfs, HBclk, HBlog. destruct (needf (d_fs s) K D).
    - destruct Tm as (El & Ek & Efs & _). exists lag. rewrite Efs.
      split; [exact El|]. split; [exact Ek|]. split; [apply upd_eq|]. split.
      + intros y Hy HyK. rewrite upd_ne by exact HyK. rewrite write_all_spec.
        apply memf_In in Hy. now rewrite Hy.
      + intros y Hy. assert (HyK : y <> K) by (intros ->; apply Hy; exact HKt).
        rewrite upd_ne by exact HyK. rewrite write_all_spec.
        destruct (memf y (o1 :: os)) eqn:Em; [|reflexivity]. exfalso. apply Hy. apply memf_In in Em.
        apply in_or_app. now left.
    - destruct Tm as (El & Ek & Efs & _). auto. }
  split; [exact Hc'|]. split.
  { intros y Hy. apply He1. rewrite HBdone, memf_cons, (Td1 y Hy). apply orb_true_r. }
  split.
  { intros y Hy. apply in_app_or in Hy as [[<-|Hy]|[<-|[]]].
    - apply He1. now rewrite HBdone, memf_cons, N.eqb_refl.
    - now apply Hdone_os.
    - apply He1. rewrite HBdone, memf_cons, Tdt. apply orb_true_r. }
  split.
  { intros y Hy. apply He2 in Hy as [Hy|Hy].
    - rewrite HBdone, memf_cons in Hy. apply orb_true_iff in Hy as [Hy|Hy].
      + apply N.eqb_eq in Hy. subst y. right. now left.
      + apply Td2 in Hy as [Hy|[->|Hy]]; [now left|right; apply in_or_app; left; exact HKt|].
        right. apply in_or_app. now right.
    - right. apply in_or_app. left. now apply Host. }
  intros y Hy.
  assert (Hyt : ~ In y ((o1 :: os) ++ [K])) by (intros H; apply Hy; apply in_or_app; now left).
  assert (HyL : ~ In y L) by (intros H; apply Hy; apply in_or_app; now right).
  assert (Hy1 : y <> o1) by (intros ->; apply Hyt; exact Ho1t).
  assert (HyK : y <> K) by (intros ->; apply Hyt; exact HKt).
  rewrite Hca by (intros H; apply Hyt; now apply Host).
  rewrite HBca by exact Hy1. rewrite Tfr by assumption. rewrite assoc_cons. apply N.eqb_neq in Hy1. now rewrite Hy1.
Qed.

Lemma block_run rs n b s :
  block_pre rs b s -> block_post b (bfires b s) s (fold_left (fun a g => update (S (S (S n))) rs g a) (b_outs b) s).
Proof.
  destruct b as [o D ord|o1 os K D ord lag]; [apply block_run_single|apply block_run_multi].
Qed.

(* ---------------------------------------------------------------- part 5 *)
Lemma nd_app_r {T} (a b : list T) : NoDup (a ++ b) -> NoDup b.
Proof. induction a as [|x a IH]; cbn; [auto|]. intros H. inversion H. auto. Qed.
Lemma nd_app_l {T} (a b : list T) : NoDup (a ++ b) -> NoDup a.
Proof.
  induction a as [|x a IH]; cbn; intros H; [constructor|]. inversion H; subst.
  constructor; [intros Hin; apply H2; apply in_or_app; now left|auto].
Qed.

Lemma nd_disj {T} (a b : list T) y : NoDup (a ++ b) -> In y a -> In y b -> False.
Proof.
  induction a as [|x a IH]; cbn; intros H H1 H2; [contradiction|]. inversion H as [|? ? Hn Hd]; subst.
  destruct H1 as [->|H1]; [apply Hn; apply in_or_app; now right|now apply IH].
Qed.

Fixpoint ordered_b (bs : list block) : Prop :=
  match bs with
  | [] => True
  | b :: post => (forall p, In p (b_deps b ++ b_ord b) -> ~ In p (tgts (b :: post))) /\ ordered_b post
  end.

Lemma tgts_app a b : tgts (a ++ b) = tgts a ++ tgts b.
Proof. unfold tgts. apply flat_map_app. Qed.

Lemma ordered_b_app pre b post : ordered_b (pre ++ b :: post) ->
  (forall p, In p (b_deps b ++ b_ord b) -> ~ In p (tgts (b :: post))) /\
  (forall b', In b' pre -> forall p, In p (b_deps b' ++ b_ord b') -> ~ In p (tgts (b :: post))).
Proof.
  induction pre as [|a pre IH]; cbn [app ordered_b]; intros [H1 H2].
  - split; [exact H1|intros b' []].
  - destruct (IH H2) as [I1 I2]. split; [exact I1|]. intros b' [<-|Hb'] p Hp; [|now apply (I2 b')].
    intros Hin. apply (H1 p Hp). change (a :: pre ++ b :: post) with ([a] ++ pre ++ b :: post).
    rewrite !tgts_app. apply in_or_app. right. apply in_or_app. now right.
Qed.

(* quiescent block: key and outputs exist, the key is at least as new as the prerequisites, which all exist *)
Definition xq (f : fs) (b : block) : Prop :=
  (exists tk, f (b_key b) = Some tk /\ forall p, In p (b_deps b) -> exists tp, f p = Some tp /\ tp <= tk) /\
  (forall p, In p (b_ord b) -> f p <> None) /\
  (forall y, In y (b_targets b) -> f y <> None).

Lemma target_cases b y : In y (b_targets b) -> y = b_key b \/ (In y (b_outs b) /\ y <> b_key b).
Proof.
  destruct b as [o D ord|o1 os K D ord lag]; cbn [b_targets b_key b_outs].
  - intros [<-|[]]. now left.
  - intros H. destruct (N.eq_dec y K) as [->|Hne]; [now left|]. right. split; [|exact Hne].
    apply in_app_or in H as [H|[H|[]]]; [exact H|congruence].
Qed.

Section Run.
Variable all : list block.
Variable f2 : fs.
Variable c0 : time.
Variable tx : block -> file -> bool.   (* per block: which prerequisites are newer than its key *)
Hypothesis Hnd : NoDup (tgts all).
Hypothesis Hord : ordered_b all.
Hypothesis Hbelow : fs_below f2 c0.
Hypothesis Hsrc : forall b, In b all -> forall p, In p (b_deps b ++ b_ord b) -> ~ In p (tgts all) -> f2 p <> None.
Hypothesis Hq2 : forall b, In b all -> forall p, In p (b_deps b) -> newer_o (f2 p) (f2 (b_key b)) = tx b p.
Hypothesis Hq3 : forall b, In b all -> f2 (b_key b) <> None -> forall y, In y (b_targets b) -> f2 y <> None.

Definition bfire (d : list file) (b : block) : bool :=
  is_none (f2 (b_key b)) || existsb (fun p => tx b p || memf p d) (b_deps b).
Definition bd_step (acc : list file * list block) (b : block) : list file * list block :=
  if bfire (fst acc) b then (fst acc ++ b_targets b, snd acc ++ [b]) else acc.

Record Inv (pre post : list block) (d : list file) (ran : list block) (s : dst) : Prop := {
  i_fail : d_fail s = false;
  i_log : d_log s = map b_key ran;
  i_below : fs_below (d_fs s) (d_clk s);
  i_clk : c0 <= d_clk s;
  i_same : forall y, memf y d = false -> d_fs s y = f2 y;
  i_new : forall y, memf y d = true -> exists t, d_fs s y = Some t /\ c0 <= t;
  i_dsub : forall y, memf y d = true -> In y (tgts pre);
  i_coh : coh s;
  i_fresh : forall y, In y (tgts post) -> assoc y (d_cache s) = None /\ memf y (d_done s) = false;
  i_done : forall y, In y (tgts pre) -> memf y (d_done s) = true;
  i_ex : forall y, In y (tgts pre) -> d_fs s y <> None;
  i_q : forall b, In b pre -> xq (d_fs s) b
}.

Lemma inv_step n pre b post d ran s :
  all = pre ++ b :: post -> Inv pre (b :: post) d ran s ->
  Inv (pre ++ [b]) post (fst (bd_step (d, ran) b)) (snd (bd_step (d, ran) b))
      (fold_left (fun a g => update (S (S (S n))) (rules all) g a) (b_outs b) s).
Proof.
  intros Eall I. set (rs := rules all).
  assert (Etg : tgts all = tgts pre ++ b_targets b ++ tgts post).
  { rewrite Eall, tgts_app. reflexivity. }
  assert (Hball : In b all) by (rewrite Eall; apply in_or_app; right; now left).
  assert (Hndb : NoDup (b_targets b)).
  { rewrite Etg in Hnd. apply nd_app_r in Hnd. now apply nd_app_l in Hnd. }
  assert (Hdisj1 : forall y, In y (tgts pre) -> ~ In y (b_targets b ++ tgts post)).
  { intros y H1 H2. rewrite Etg in Hnd. exact (nd_disj _ _ y Hnd H1 H2). }
  assert (Hdisj2 : forall y, In y (b_targets b) -> ~ In y (tgts post)).
  { intros y H1 H2. rewrite Etg in Hnd. apply nd_app_r in Hnd. exact (nd_disj _ _ y Hnd H1 H2). }
  rewrite Eall in Hord. destruct (ordered_b_app pre b post Hord) as [Hob Hopre].
  change (tgts (b :: post)) with (b_targets b ++ tgts post) in Hob, Hopre.
  assert (Hbt_nd : forall y, In y (b_targets b) -> memf y d = false).
  { intros y Hy. destruct (memf y d) eqn:E; [|reflexivity]. exfalso.
    apply (Hdisj1 y (i_dsub _ _ _ _ _ I y E)). apply in_or_app. now left. }
  (* the prerequisites are done targets or existing leaves *)
  assert (Hleaf : leafy rs s (b_deps b ++ b_ord b)).
  { intros p Hp. destruct (in_dec N.eq_dec p (tgts all)) as [Hin|Hnin].
    - rewrite Etg in Hin. apply in_app_or in Hin as [Hin|Hin]; [|exfalso; exact (Hob p Hp Hin)].
      split; [exact (i_ex _ _ _ _ _ I p Hin)|left; exact (i_done _ _ _ _ _ I p Hin)].
    - split.
      + rewrite (i_same _ _ _ _ _ I).
        * exact (Hsrc b Hball p Hp Hnin).
        * destruct (memf p d) eqn:E; [|reflexivity]. exfalso. apply Hnin. rewrite Etg. apply in_or_app. left.
          exact (i_dsub _ _ _ _ _ I p E).
      + right. apply find_x_none. unfold rs. now rewrite rules_targets. }
  assert (Hpre : block_pre rs b s).
  { split; [exact (i_fail _ _ _ _ _ I)|]. split; [exact (i_coh _ _ _ _ _ I)|]. split; [exact (i_below _ _ _ _ _ I)|].
    split. { intros y Hy. apply (i_fresh _ _ _ _ _ I). apply in_or_app. now left. }
    split. { intros r Hr. apply find_x_some; [unfold rs; now rewrite rules_targets|].
             unfold rs, rules. apply in_flat_map. now exists b. }
    split. { intros r Hr. exact (rules_nophony all r Hr). }
    split; [exact Hndb|]. split; [|exact Hleaf].
    intros p Hp Hin. apply (Hob p Hp). apply in_or_app. now left. }
  pose proof (block_run rs n b s Hpre) as P.
  set (s' := fold_left (fun a g => update (S (S (S n))) rs g a) (b_outs b) s) in *.
  (* the decision, in terms of the script *)
  assert (Hkey : d_fs s (b_key b) = f2 (b_key b)).
  { apply (i_same _ _ _ _ _ I). apply Hbt_nd. apply key_targets. }
  assert (Hfire : bfires b s = bfire d b).
  { unfold bfires, bfire, needf. rewrite Hkey. destruct (f2 (b_key b)) as [tk|] eqn:Ek; [|reflexivity].
    cbn [is_none orb]. apply existsb_ext_in. intros p Hp.
    destruct (Hleaf p (in_or_app _ _ _ (or_introl Hp))) as [Hex _].
    destruct (memf p d) eqn:Ed.
    - destruct (i_new _ _ _ _ _ I p Ed) as (t & Et & Hle). rewrite Et. cbn [is_none orb newer_o].
      rewrite orb_true_r. apply N.ltb_lt. apply Hbelow in Ek. lia.
    - rewrite (i_same _ _ _ _ _ I p Ed) in *. rewrite orb_false_r. rewrite <- (Hq2 b Hball p Hp), Ek.
      destruct (f2 p); [reflexivity|congruence]. }
  rewrite Hfire in P. unfold bd_step. cbn [fst snd]. destruct P as (Pf & Pm & Pcoh & Pd1 & Pdt & Pd2 & Pca).
  assert (Hpost_fresh : forall y, In y (tgts post) -> ~ In y (b_targets b ++ b_deps b ++ b_ord b)).
  { intros y Hy H. apply in_app_or in H as [H|H]; [exact (Hdisj2 y H Hy)|].
    apply (Hob y H). apply in_or_app. now right. }
  assert (Hfresh' : forall y, In y (tgts post) -> assoc y (d_cache s') = None /\ memf y (d_done s') = false).
  { intros y Hy. destruct (i_fresh _ _ _ _ _ I y (in_or_app _ _ _ (or_intror Hy))) as [F1 F2]. split.
    - now rewrite (Pca y (Hpost_fresh y Hy)).
    - destruct (memf y (d_done s')) eqn:E; [|reflexivity]. apply Pd2 in E as [E|E]; [congruence|].
      exfalso. exact (Hpost_fresh y Hy E). }
  assert (Hdone' : forall y, In y (tgts (pre ++ [b])) -> memf y (d_done s') = true).
  { intros y Hy. rewrite tgts_app in Hy. apply in_app_or in Hy as [Hy|Hy].
    - apply Pd1. exact (i_done _ _ _ _ _ I y Hy).
    - cbn [tgts flat_map] in Hy. rewrite app_nil_r in Hy. now apply Pdt. }
  assert (Hsub' : forall y, In y (tgts pre) -> In y (tgts (pre ++ [b]))).
  { intros y Hy. rewrite tgts_app. apply in_or_app. now left. }
  assert (Hbsub : forall y, In y (b_targets b) -> In y (tgts (pre ++ [b]))).
  { intros y Hy. rewrite tgts_app. apply in_or_app. right. cbn [tgts flat_map]. now rewrite app_nil_r. }
  (* files of earlier blocks are not targets of this one *)
  assert (Hpre_nt : forall b', In b' pre -> forall y, (In y (b_targets b') \/ In y (b_deps b' ++ b_ord b')) -> ~ In y (b_targets b)).
  { intros b' Hb' y [Hy|Hy] Hin.
    - apply (Hdisj1 y); [unfold tgts; apply in_flat_map; now exists b'|apply in_or_app; now left].
    - apply (Hopre b' Hb' y Hy). apply in_or_app. now left. }
  destruct (bfire d b) eqn:Efire; cbn [fst snd].
  - (* the block runs *)
    destruct Pm as (lag & Plog & Pclk & Pkey & Pouts & Pframe).
    assert (Hnewt : forall y, In y (b_targets b) -> exists t, d_fs s' y = Some t /\ d_clk s <= t /\ t < d_clk s').
    { intros y Hy. destruct (target_cases b y Hy) as [->|[Ho Hne]].
      - exists (d_clk s + lag). rewrite Pkey, Pclk. repeat split; lia.
      - exists (d_clk s). rewrite (Pouts y Ho Hne), Pclk. repeat split; lia. }
    assert (Hmem : forall y, memf y (d ++ b_targets b) = memf y d || memf y (b_targets b)) by (intros; apply memf_app).
    constructor.
    + exact Pf.
    + rewrite Plog, (i_log _ _ _ _ _ I), map_app. reflexivity.
    + intros y t Hy. destruct (in_dec N.eq_dec y (b_targets b)) as [Hin|Hnin].
      * destruct (Hnewt y Hin) as (t' & Et & _ & Hlt). congruence.
      * rewrite (Pframe y Hnin) in Hy. apply (i_below _ _ _ _ _ I) in Hy. lia.
    + pose proof (i_clk _ _ _ _ _ I). lia.
    + intros y Hy. rewrite Hmem in Hy. apply orb_false_iff in Hy as [Hy1 Hy2].
      rewrite Pframe by (apply memf_false; exact Hy2). exact (i_same _ _ _ _ _ I y Hy1).
    + intros y Hy. rewrite Hmem in Hy. apply orb_true_iff in Hy as [Hy|Hy].
      * assert (Hnt : ~ In y (b_targets b)).
        { intros H. apply (Hdisj1 y (i_dsub _ _ _ _ _ I y Hy)). apply in_or_app. now left. }
        rewrite (Pframe y Hnt). exact (i_new _ _ _ _ _ I y Hy).
      * apply memf_In in Hy. destruct (Hnewt y Hy) as (t & Et & Hle & _). exists t. split; [exact Et|].
        pose proof (i_clk _ _ _ _ _ I). lia.
    + intros y Hy. rewrite Hmem in Hy. apply orb_true_iff in Hy as [Hy|Hy].
      * apply Hsub'. exact (i_dsub _ _ _ _ _ I y Hy).
      * apply Hbsub. now apply memf_In.
    + exact Pcoh.
    + exact Hfresh'.
    + exact Hdone'.
    + intros y Hy. rewrite tgts_app in Hy. apply in_app_or in Hy as [Hy|Hy].
      * rewrite Pframe; [exact (i_ex _ _ _ _ _ I y Hy)|]. intros H. apply (Hdisj1 y Hy). apply in_or_app. now left.
      * cbn [tgts flat_map] in Hy. rewrite app_nil_r in Hy. destruct (Hnewt y Hy) as (t & Et & _). congruence.
    + intros b' Hb'. apply in_app_or in Hb' as [Hb'|[<-|[]]].
      * destruct (i_q _ _ _ _ _ I b' Hb') as ((tk & Ek & Hdeps) & Hords & Htg).
        assert (Hk' : ~ In (b_key b') (b_targets b)) by (apply (Hpre_nt b' Hb'); left; apply key_targets).
        split; [|split].
        -- exists tk. split; [now rewrite Pframe|]. intros p Hp. destruct (Hdeps p Hp) as (tp & Ep & Hle).
           exists tp. split; [|exact Hle]. rewrite Pframe; [exact Ep|].
           apply (Hpre_nt b' Hb'). right. apply in_or_app. now left.
        -- intros p Hp. rewrite Pframe; [now apply Hords|]. apply (Hpre_nt b' Hb'). right. apply in_or_app. now right.
        -- intros y Hy. rewrite Pframe; [now apply Htg|]. apply (Hpre_nt b' Hb'). now left.
      * split; [|split].
        -- exists (d_clk s + lag). split; [exact Pkey|]. intros p Hp.
           destruct (Hleaf p (in_or_app _ _ _ (or_introl Hp))) as [Hex _].
           destruct (d_fs s p) as [tp|] eqn:Ep; [|congruence]. exists tp.
           rewrite Pframe by (intros H; apply (Hob p (in_or_app _ _ _ (or_introl Hp))); apply in_or_app; now left).
           split; [exact Ep|]. apply (i_below _ _ _ _ _ I) in Ep. lia.
        -- intros p Hp. rewrite Pframe by (intros H; apply (Hob p (in_or_app _ _ _ (or_intror Hp))); apply in_or_app; now left).
           exact (proj1 (Hleaf p (in_or_app _ _ _ (or_intror Hp)))).
        -- intros y Hy. destruct (Hnewt y Hy) as (t & Et & _). congruence.
  - (* the block is up to date *)
    destruct Pm as (Plog & Pclk & Pfs).
    unfold bfire in Efire. apply orb_false_iff in Efire as [Ekn Edeps].
    destruct (f2 (b_key b)) as [tk|] eqn:Ek; [|discriminate].
    assert (Htex : forall y, In y (b_targets b) -> d_fs s y <> None).
    { intros y Hy. rewrite (i_same _ _ _ _ _ I y (Hbt_nd y Hy)). apply (Hq3 b Hball); [congruence|exact Hy]. }
    constructor; rewrite ?Pfs, ?Pclk, ?Plog.
    + exact Pf.
    + exact (i_log _ _ _ _ _ I).
    + exact (i_below _ _ _ _ _ I).
    + exact (i_clk _ _ _ _ _ I).
    + exact (i_same _ _ _ _ _ I).
    + exact (i_new _ _ _ _ _ I).
    + intros y Hy. apply Hsub'. exact (i_dsub _ _ _ _ _ I y Hy).
    + exact Pcoh.
    + exact Hfresh'.
    + exact Hdone'.
    + intros y Hy. rewrite tgts_app in Hy. apply in_app_or in Hy as [Hy|Hy]; [exact (i_ex _ _ _ _ _ I y Hy)|].
      cbn [tgts flat_map] in Hy. rewrite app_nil_r in Hy. now apply Htex.
    + intros b' Hb'. apply in_app_or in Hb' as [Hb'|[<-|[]]]; [exact (i_q _ _ _ _ _ I b' Hb')|].
      split; [|split].
      * exists tk. split; [now rewrite Hkey|]. intros p Hp.
        pose proof (existsb_exists (fun p => tx b p || memf p d) (b_deps b)) as Hex.
        assert (Hp2 : tx b p || memf p d = false).
        { destruct (tx b p || memf p d) eqn:E; [|reflexivity]. rewrite <- Edeps. symmetry. apply Hex. now exists p. }
        apply orb_false_iff in Hp2 as [Htx Hd].
        destruct (Hleaf p (in_or_app _ _ _ (or_introl Hp))) as [Hexi _].
        rewrite (i_same _ _ _ _ _ I p Hd) in *. destruct (f2 p) as [tp|] eqn:Ep; [|congruence].
        exists tp. split; [reflexivity|]. pose proof (Hq2 b Hball p Hp) as Hn. rewrite Ep, Ek, Htx in Hn.
        cbn [newer_o] in Hn. now apply N.ltb_ge.
      * intros p Hp. exact (proj1 (Hleaf p (in_or_app _ _ _ (or_intror Hp)))).
      * exact Htex.
Qed.

Lemma inv_run n : forall post pre d ran s,
  all = pre ++ post -> Inv pre post d ran s ->
  let r := fold_left bd_step post (d, ran) in
  Inv all [] (fst r) (snd r) (fold_left (fun a g => update (S (S (S n))) (rules all) g a) (goals post) s).
Proof.
  induction post as [|b post IH]; intros pre d ran s Eall I.
  - cbn [fold_left goals flat_map fst snd]. rewrite app_nil_r in Eall. now rewrite Eall.
  - cbn [fold_left goals flat_map]. rewrite fold_left_app.
    pose proof (inv_step n pre b post d ran s Eall I) as I'.
    destruct (bd_step (d, ran) b) as [d' ran'] eqn:Eb. cbn [fst snd] in I'.
    apply (IH (pre ++ [b]) d' ran'); [now rewrite <- app_assoc|exact I'].
Qed.

(* the same for a part of the goals (used by StampFailProofs.v: the build up to the step that fails) *)
Lemma inv_run_part n : forall mid pre post d ran s,
  all = pre ++ mid ++ post -> Inv pre (mid ++ post) d ran s ->
  let r := fold_left bd_step mid (d, ran) in
  Inv (pre ++ mid) post (fst r) (snd r) (fold_left (fun a g => update (S (S (S n))) (rules all) g a) (goals mid) s).
Proof.
  induction mid as [|b mid IH]; intros pre post d ran s Eall I.
  - cbn [fold_left goals flat_map fst snd app] in *. now rewrite app_nil_r.
  - cbn [fold_left goals flat_map]. rewrite fold_left_app.
    pose proof (inv_step n pre b (mid ++ post) d ran s Eall I) as I'.
    destruct (bd_step (d, ran) b) as [d' ran'] eqn:Eb. cbn [fst snd] in I'.
    replace (pre ++ b :: mid) with ((pre ++ [b]) ++ mid) by now rewrite <- app_assoc.
    apply (IH (pre ++ [b]) post d' ran'); [now rewrite <- app_assoc|exact I'].
Qed.

Lemma inv_init : Inv [] all [] [] (mkD f2 c0 [] [] [] [] false).
Proof.
  constructor; cbn [d_fail d_log d_fs d_clk d_cache d_done map tgts flat_map]; auto; try lia;
    try (intros y H; discriminate H); try (intros y v H; discriminate H); try (intros y []); try (intros b []).
Qed.

(* what the invariant says about the next block: it can be run, and it fires as the fold predicts *)
Lemma inv_pre pre b post d ran s :
  all = pre ++ b :: post -> Inv pre (b :: post) d ran s ->
  block_pre (rules all) b s /\ bfires b s = bfire d b.
Proof.
  intros Eall I. set (rs := rules all).
  assert (Etg : tgts all = tgts pre ++ b_targets b ++ tgts post).
  { rewrite Eall, tgts_app. reflexivity. }
  assert (Hball : In b all) by (rewrite Eall; apply in_or_app; right; now left).
  assert (Hndb : NoDup (b_targets b)).
  { rewrite Etg in Hnd. apply nd_app_r in Hnd. now apply nd_app_l in Hnd. }
  assert (Hdisj1 : forall y, In y (tgts pre) -> ~ In y (b_targets b ++ tgts post)).
  { intros y H1 H2. rewrite Etg in Hnd. exact (nd_disj _ _ y Hnd H1 H2). }
  rewrite Eall in Hord. destruct (ordered_b_app pre b post Hord) as [Hob Hopre].
  change (tgts (b :: post)) with (b_targets b ++ tgts post) in Hob, Hopre.
  assert (Hbt_nd : forall y, In y (b_targets b) -> memf y d = false).
  { intros y Hy. destruct (memf y d) eqn:E; [|reflexivity]. exfalso.
    apply (Hdisj1 y (i_dsub _ _ _ _ _ I y E)). apply in_or_app. now left. }
  assert (Hleaf : leafy rs s (b_deps b ++ b_ord b)).
  { intros p Hp. destruct (in_dec N.eq_dec p (tgts all)) as [Hin|Hnin].
    - rewrite Etg in Hin. apply in_app_or in Hin as [Hin|Hin]; [|exfalso; exact (Hob p Hp Hin)].
      split; [exact (i_ex _ _ _ _ _ I p Hin)|left; exact (i_done _ _ _ _ _ I p Hin)].
    - split.
      + rewrite (i_same _ _ _ _ _ I).
        * exact (Hsrc b Hball p Hp Hnin).
        * destruct (memf p d) eqn:E; [|reflexivity]. exfalso. apply Hnin. rewrite Etg. apply in_or_app. left.
          exact (i_dsub _ _ _ _ _ I p E).
      + right. apply find_x_none. unfold rs. now rewrite rules_targets. }
  split.
  { split; [exact (i_fail _ _ _ _ _ I)|]. split; [exact (i_coh _ _ _ _ _ I)|]. split; [exact (i_below _ _ _ _ _ I)|].
    split. { intros y Hy. apply (i_fresh _ _ _ _ _ I). apply in_or_app. now left. }
    split. { intros r Hr. apply find_x_some; [unfold rs; now rewrite rules_targets|].
             unfold rs, rules. apply in_flat_map. now exists b. }
    split. { intros r Hr. exact (rules_nophony all r Hr). }
    split; [exact Hndb|]. split; [|exact Hleaf].
    intros p Hp Hin. apply (Hob p Hp). apply in_or_app. now left. }
  assert (Hkey : d_fs s (b_key b) = f2 (b_key b)).
  { apply (i_same _ _ _ _ _ I). apply Hbt_nd. apply key_targets. }
  unfold bfires, bfire, needf. rewrite Hkey. destruct (f2 (b_key b)) as [tk|] eqn:Ek; [|reflexivity].
  cbn [is_none orb]. apply existsb_ext_in. intros p Hp.
  destruct (Hleaf p (in_or_app _ _ _ (or_introl Hp))) as [Hex _].
  destruct (memf p d) eqn:Ed.
  - destruct (i_new _ _ _ _ _ I p Ed) as (t & Et & Hle). rewrite Et. cbn [is_none orb newer_o].
    rewrite orb_true_r. apply N.ltb_lt. apply Hbelow in Ek. lia.
  - rewrite (i_same _ _ _ _ _ I p Ed) in *. rewrite orb_false_r. rewrite <- (Hq2 b Hball p Hp), Ek.
    destruct (f2 p); [reflexivity|congruence].
Qed.

Theorem blocks_run :
  let s' := dmake (rules all) (goals all) f2 c0 in
  let r := fold_left bd_step all ([], []) in
  d_fail s' = false /\ d_log s' = map b_key (snd r) /\
  (forall b, In b all -> xq (d_fs s') b) /\ fs_below (d_fs s') (d_clk s') /\ c0 <= d_clk s' /\
  (forall y, ~ In y (tgts all) -> d_fs s' y = f2 y).
Proof.
  cbn zeta. unfold dmake. change (3 + length (rules all))%nat with (S (S (S (length (rules all))))).
  assert (I0 : Inv [] all [] [] (mkD f2 c0 [] [] [] [] false)).
  { constructor; cbn [d_fail d_log d_fs d_clk d_cache d_done map tgts flat_map]; auto; try lia;
      try (intros y H; discriminate H); try (intros y v H; discriminate H); try (intros y []); try (intros b []). }
  pose proof (inv_run (length (rules all)) all [] [] [] _ eq_refl I0) as I. cbn zeta in I.
  destruct (fold_left bd_step all ([], [])) as [d ran]. cbn [fst snd] in *.
  split; [exact (i_fail _ _ _ _ _ I)|]. split; [exact (i_log _ _ _ _ _ I)|]. split; [exact (i_q _ _ _ _ _ I)|].
  split; [exact (i_below _ _ _ _ _ I)|]. split; [exact (i_clk _ _ _ _ _ I)|].
  intros y Hy. apply (i_same _ _ _ _ _ I). destruct (memf y d) eqn:E; [|reflexivity].
  exfalso. apply Hy. exact (i_dsub _ _ _ _ _ I y E).
Qed.
End Run.

(* ---------------------------------------------------------------- part 6 *)
(* ================================================================== the three situations, on blocks *)
Definition wf_blocks (all : list block) : Prop := NoDup (tgts all) /\ ordered_b all.
Definition quiet (all : list block) (f : fs) : Prop := forall b, In b all -> xq f b.

Lemma xq_src all f : quiet all f ->
  forall b, In b all -> forall p, In p (b_deps b ++ b_ord b) -> f p <> None.
Proof.
  intros Hq b Hb p Hp. destruct (Hq b Hb) as ((tk & _ & Hd) & Ho & _). apply in_app_or in Hp as [Hp|Hp].
  - destruct (Hd p Hp) as (tp & E & _). congruence.
  - now apply Ho.
Qed.

Lemma fold_quiet f tx bs : (forall b, In b bs -> bfire f tx [] b = false) ->
  fold_left (bd_step f tx) bs ([], []) = ([], []).
Proof.
  induction bs as [|b bs IH]; intros H; [reflexivity|]. cbn [fold_left]. unfold bd_step at 2. cbn [fst].
  rewrite (H b (or_introl eq_refl)). apply IH. intros b' Hb'. apply H. now right.
Qed.

(* a build of an up-to-date tree runs no step and leaves it up to date *)
Theorem run_quiet all f1 clk :
  wf_blocks all -> fs_below f1 clk -> quiet all f1 ->
  let s' := dmake (rules all) (goals all) f1 clk in
  d_fail s' = false /\ d_log s' = [] /\ quiet all (d_fs s') /\ fs_below (d_fs s') (d_clk s') /\
  (forall y, ~ In y (tgts all) -> d_fs s' y = f1 y).
Proof.
  intros [Hnd Hord] Hb Hq.
  assert (Hq2 : forall b, In b all -> forall p, In p (b_deps b) -> newer_o (f1 p) (f1 (b_key b)) = false).
  { intros b Hb' p Hp. destruct (Hq b Hb') as ((tk & Ek & Hd) & _). destruct (Hd p Hp) as (tp & Ep & Hle).
    rewrite Ek, Ep. cbn [newer_o]. now apply N.ltb_ge. }
  destruct (blocks_run all f1 clk (fun _ _ => false) Hnd Hord Hb) as (F & L & Q & B & _ & Fr).
  - intros b Hb' p Hp _. exact (xq_src all f1 Hq b Hb' p Hp).
  - exact Hq2.
  - intros b Hb' _ y Hy. destruct (Hq b Hb') as (_ & _ & Ht). now apply Ht.
  - rewrite fold_quiet in L.
    + cbn [snd map] in L. cbn zeta. split; [exact F|]. split; [exact L|]. split; [exact Q|]. split; [exact B|exact Fr].
    + intros b Hb'. unfold bfire. destruct (Hq b Hb') as ((tk & Ek & _) & _). rewrite Ek. cbn [is_none orb].
      clear. induction (b_deps b); [reflexivity|assumption].
Qed.

(* after touching X: the steps the fold predicts, and the tree is up to date again *)
Theorem run_touched all f1 clk X :
  wf_blocks all -> fs_below f1 clk -> quiet all f1 ->
  let f2 := upd f1 X clk in let tx := fun (_ : block) p => p =? X in
  let s' := dmake (rules all) (goals all) f2 (clk + 1) in
  d_fail s' = false /\ d_log s' = map b_key (snd (fold_left (bd_step f2 tx) all ([], []))) /\
  quiet all (d_fs s') /\ fs_below (d_fs s') (d_clk s').
Proof.
  intros [Hnd Hord] Hb Hq. cbn zeta.
  assert (Hb2 : fs_below (upd f1 X clk) (clk + 1)).
  { intros y t. unfold upd. destruct (y =? X); intros H; [inversion H; lia|apply Hb in H; lia]. }
  (* a prerequisite is not a target of its own block *)
  assert (Hself : forall b, In b all -> forall p, In p (b_deps b) -> p <> b_key b).
  { intros b Hb' p Hp ->. apply in_split in Hb' as (pre & post & ->).
    destruct (ordered_b_app pre b post Hord) as [Ho _]. apply (Ho (b_key b) (in_or_app _ _ _ (or_introl Hp))).
    cbn [tgts flat_map]. apply in_or_app. left. apply key_targets. }
  destruct (blocks_run all (upd f1 X clk) (clk + 1) (fun _ p => p =? X) Hnd Hord Hb2) as (F & L & Q & B & _ & _).
  - intros b Hb' p Hp _. unfold upd. destruct (p =? X); [discriminate|]. exact (xq_src all f1 Hq b Hb' p Hp).
  - intros b Hb' p Hp. destruct (Hq b Hb') as ((tk & Ek & Hd) & _). destruct (Hd p Hp) as (tp & Ep & Hle).
    pose proof (Hself b Hb' p Hp) as Hne. unfold upd. destruct (N.eqb_spec p X) as [->|HpX].
    + apply N.eqb_neq in Hne. rewrite N.eqb_sym in Hne. rewrite Hne, Ek. cbn [newer_o]. apply N.ltb_lt.
      apply Hb in Ek. exact Ek.
    + rewrite Ep. destruct (b_key b =? X).
      * cbn [newer_o]. apply N.ltb_ge. apply Hb in Ep. lia.
      * rewrite Ek. cbn [newer_o]. now apply N.ltb_ge.
  - intros b Hb' _ y Hy. destruct (Hq b Hb') as (_ & _ & Ht). unfold upd. destruct (y =? X); [discriminate|now apply Ht].
  - split; [exact F|]. split; [exact L|]. split; [exact Q|exact B].
Qed.

Lemma fold_all f tx bs : (forall b, In b bs -> f (b_key b) = None) ->
  forall d ran, snd (fold_left (bd_step f tx) bs (d, ran)) = ran ++ bs.
Proof.
  induction bs as [|b bs IH]; intros H d ran; [cbn; now rewrite app_nil_r|]. cbn [fold_left]. unfold bd_step at 2, bfire.
  cbn [fst snd]. rewrite (H b (or_introl eq_refl)). cbn [is_none orb]. rewrite IH by (intros b' Hb'; apply H; now right).
  now rewrite <- app_assoc.
Qed.

(* the first build in a fresh build directory: every step runs once, and the tree is up to date *)
Theorem run_clean all f clk :
  wf_blocks all -> fs_below f clk ->
  (forall y, In y (tgts all) -> f y = None) ->
  (forall b, In b all -> forall p, In p (b_deps b ++ b_ord b) -> ~ In p (tgts all) -> f p <> None) ->
  let s' := dmake (rules all) (goals all) f clk in
  d_fail s' = false /\ d_log s' = map b_key all /\ quiet all (d_fs s') /\ fs_below (d_fs s') (d_clk s') /\
  (forall y, ~ In y (tgts all) -> d_fs s' y = f y).
Proof.
  intros [Hnd Hord] Hb Hclean Hsrc.
  assert (Hk : forall b, In b all -> f (b_key b) = None).
  { intros b Hb'. apply Hclean. unfold tgts. apply in_flat_map. exists b. split; [exact Hb'|apply key_targets]. }
  destruct (blocks_run all f clk (fun _ _ => false) Hnd Hord Hb Hsrc) as (F & L & Q & B & _ & Fr).
  - intros b Hb' p Hp. rewrite (Hk b Hb'). now destruct (f p).
  - intros b Hb' H. now rewrite (Hk b Hb') in H.
  - rewrite (fold_all f _ all Hk) in L. cbn [app] in L. cbn zeta.
    split; [exact F|]. split; [exact L|]. split; [exact Q|]. split; [exact B|exact Fr].
Qed.

(* ---------------------------------------------------------------- part 7 *)
(* ================================================================== steps as blocks *)
Definition step_deps (st : step) : list N :=
  match s_kind st with
  | KCompile => make_compile_deps st
  | KLink => make_link_deps st
  | KCommand | KBuildStep => s_files st ++ s_extra_deps st
  | KCopyFile => oN (s_file st) ++ s_extra_deps st
  | KAlias => s_extra_deps st
  end.
Definition step_ord (st : step) : list node :=
  match s_kind st with KCommand | KAlias => [] | _ => directory_deps (s_outputs st) end.
Definition blk (lag : N) (st : step) : block :=
  match s_outputs st with
  | [] => BS 0 [] []
  | [o] => BS (encF (o_file o)) (map encF (step_deps st)) (map enc (step_ord st))
  | o1 :: os => BM (encF (o_file o1)) (map (fun o => encF (o_file o)) os) (enc (NStamp (o_file o1)))
                   (map encF (step_deps st)) (map enc (step_ord st)) lag
  end.
Definition tnodes (st : step) : list node :=
  map NF (outs st) ++ match s_outputs st with o1 :: _ :: _ => [NStamp (o_file o1)] | _ => [] end.

Definition sm (st : step) : Prop := simple st = true \/ multi st = true.

Lemma xsem_blk lag st : sm st -> xsem_step true lag st = b_rules (blk lag st).
Proof.
  intros [H|H]; [unfold simple in H|unfold multi in H]; apply andb_true_iff in H as [Ho Hk];
    unfold xsem_step, emit_make_step, blk, step_deps, step_ord;
    destruct (s_outputs st) as [|o [|o2 os]] eqn:Eo; try discriminate; destruct (s_kind st); try discriminate;
    try (apply negb_true_iff in Hk; rewrite Hk);
    cbn [multitarget_rule xsem_rules xrules_of map app xk mr_targets mr_deps mr_order mr_recipe mr_phony b_rules noop_rule];
    unfold fs_; rewrite ?map_map; reflexivity.
Qed.

Lemma blk_outs lag st : sm st -> b_outs (blk lag st) = map encF (outs st).
Proof.
  intros [H|H]; [unfold simple in H|unfold multi in H]; apply andb_true_iff in H as [Ho _]; unfold blk, outs;
    destruct (s_outputs st) as [|o [|o2 os]]; try discriminate; cbn [b_outs map]; rewrite ?map_map; reflexivity.
Qed.

Lemma blk_key lag st : sm st -> b_key (blk lag st) = step_target st.
Proof.
  intros [H|H]; [unfold simple in H|unfold multi in H]; apply andb_true_iff in H as [Ho _]; unfold blk, step_target;
    destruct (s_outputs st) as [|o [|o2 os]]; try discriminate; reflexivity.
Qed.

Lemma blk_deps lag st : sm st -> b_deps (blk lag st) = map encF (step_deps st) /\ b_ord (blk lag st) = map enc (step_ord st).
Proof.
  intros [H|H]; [unfold simple in H|unfold multi in H]; apply andb_true_iff in H as [Ho _]; unfold blk;
    destruct (s_outputs st) as [|o [|o2 os]]; try discriminate; split; reflexivity.
Qed.

Lemma blk_targets lag st : sm st -> b_targets (blk lag st) = map enc (tnodes st).
Proof.
  intros [H|H]; [unfold simple in H|unfold multi in H]; apply andb_true_iff in H as [Ho _]; unfold blk, tnodes, outs;
    destruct (s_outputs st) as [|o [|o2 os]]; try discriminate; cbn [b_targets map app]; rewrite ?map_app, ?map_map;
    reflexivity.
Qed.

Lemma step_deps_consumed st : shape_ok st = true -> set_eq (step_deps st) (consumed st).
Proof.
  intros Hs. unfold shape_ok, step_deps in *. destruct (s_kind st); shape Hs; try match type of Hs with negb _ = true => clear Hs end; seteqm.
Qed.

Lemma step_ord_dirs st n : In n (step_ord st) -> exists d, n = NDir d.
Proof.
  unfold step_ord. intros H.
  assert (G : In n (directory_deps (s_outputs st)) -> exists d, n = NDir d).
  { unfold directory_deps. intros Hn. apply in_map_iff in Hn as [d [<- _]]. now exists d. }
  destruct (s_kind st); auto; contradiction.
Qed.

Lemma tnodes_in st n : In n (tnodes st) ->
  (exists o, n = NF o /\ In o (outs st)) \/ (exists o, n = NStamp o /\ In o (outs st)).
Proof.
  unfold tnodes. intros H. apply in_app_or in H as [H|H].
  - left. apply in_map_iff in H as [o [<- Ho]]. now exists o.
  - right. unfold outs. destruct (s_outputs st) as [|o1 [|o2 os]]; try contradiction. destruct H as [<-|[]].
    exists (o_file o1). split; [reflexivity|now left].
Qed.

Lemma nodup_map_inj {A B} (f : A -> B) l : (forall a b, f a = f b -> a = b) -> NoDup l -> NoDup (map f l).
Proof.
  intros Hi. induction 1 as [|x l Hx _ IH]; cbn; constructor; [|exact IH].
  intros H. apply in_map_iff in H as [y [E Hy]]. apply Hi in E. now subst.
Qed.

Lemma nodup_snoc {T} (l : list T) x : NoDup l -> ~ In x l -> NoDup (l ++ [x]).
Proof.
  induction l as [|a l IH]; cbn; intros H Hx; [constructor; [tauto|constructor]|]. inversion H; subst. constructor.
  - intros Hin. apply in_app_or in Hin as [Hin|[->|[]]]; [contradiction|]. apply Hx. now left.
  - apply IH; [assumption|]. intros Hin. apply Hx. now right.
Qed.

Section Script.
Variable lag : N.
Variable steps : list step.
Hypothesis Hwf : wf_script_multi steps.

Let Hsm : Forall sm steps.
Proof. destruct Hwf as (H & _). eapply Forall_impl; [|exact H]. intros st [H1 _]. exact H1. Qed.

Definition blocks : list block := map (blk lag) steps.

Lemma tgts_blocks_gen l : Forall sm l -> tgts (map (blk lag) l) = map enc (flat_map tnodes l).
Proof.
  induction 1 as [|st l Hst _ IH]; [reflexivity|]. cbn [map tgts flat_map]. rewrite map_app, (blk_targets lag st Hst).
  f_equal. exact IH.
Qed.

Lemma rules_blocks_gen l : Forall sm l -> xsem_steps true lag l = rules (map (blk lag) l).
Proof.
  unfold xsem_steps, rules. induction 1 as [|st l' Hst _ IH]; [reflexivity|].
  cbn [map flat_map]. now rewrite (xsem_blk lag st Hst), IH.
Qed.
Lemma rules_blocks : xsem_steps true lag steps = rules blocks.
Proof. exact (rules_blocks_gen steps Hsm). Qed.

Lemma goals_blocks_gen l : Forall sm l -> script_goals l = goals (map (blk lag) l).
Proof.
  unfold script_goals, goals. induction 1 as [|st l' Hst _ IH]; [reflexivity|].
  cbn [map flat_map]. now rewrite map_app, (blk_outs lag st Hst), IH.
Qed.
Lemma goals_blocks : script_goals steps = goals blocks.
Proof. exact (goals_blocks_gen steps Hsm). Qed.

Lemma nodup_tnodes_gen l : NoDup (flat_map outs l) -> NoDup (flat_map tnodes l).
Proof.
  intros Hnd. induction l as [|st l IH]; [constructor|].
  cbn [flat_map] in *. pose proof (nodup_app_r _ _ Hnd) as Hnd'.
  assert (Hdisj : forall o, In o (outs st) -> ~ In o (flat_map outs l)).
  { intros o H1 H2. exact (nd_disj _ _ o Hnd H1 H2). }
  assert (Hown : NoDup (tnodes st)).
  { unfold tnodes. pose proof (nd_app_l _ _ Hnd) as Ho.
    assert (Hm : NoDup (map NF (outs st))).
    { apply nodup_map_inj; [|exact Ho]. intros a b E. now inversion E. }
    destruct (s_outputs st) as [|o1 [|o2 os]]; rewrite ?app_nil_r; try exact Hm.
    apply nodup_snoc; [exact Hm|]. intros H. apply in_map_iff in H as [? [E _]]. discriminate. }
  revert Hown. generalize (tnodes_in st). generalize (tnodes st). intros tn Htn Hown.
  induction tn as [|n tn IHt]; [exact (IH Hnd')|]. cbn [app]. inversion Hown; subst. constructor.
  - intros Hin. apply in_app_or in Hin as [Hin|Hin]; [contradiction|].
    apply in_flat_map in Hin as (st' & Hst' & Hn').
    destruct (Htn n (or_introl eq_refl)) as [(o & -> & Ho)|(o & -> & Ho)];
      destruct (tnodes_in st' _ Hn') as [(o' & E & Ho')|(o' & E & Ho')]; inversion E; subst;
      apply (Hdisj o' Ho); apply in_flat_map; now exists st'.
  - apply IHt; [intros m Hm; apply Htn; now right|assumption].
Qed.
Lemma nodup_tnodes : NoDup (flat_map tnodes steps).
Proof. destruct Hwf as (_ & Hnd & _). now apply nodup_tnodes_gen. Qed.
End Script.

(* ---------------------------------------------------------------- part 8 *)
Lemma blk_key_all lag st : b_key (blk lag st) = step_target st.
Proof. unfold blk, step_target. destruct (s_outputs st) as [|o [|o2 os]]; reflexivity. Qed.

Lemma key_rule b : exists r, In r (b_rules b) /\ x_prereqs r = b_deps b /\ x_order r = b_ord b.
Proof.
  destruct b as [o D ord|o1 os K D ord lag]; cbn [b_rules b_deps b_ord].
  - eexists. split; [now left|split; reflexivity].
  - eexists. split; [apply in_or_app; right; now left|split; reflexivity].
Qed.

Definition sms (st : step) : Prop := sm st /\ shape_ok st = true.

Lemma ordered_b_gen lag l : Forall sms l -> ordered l -> ordered_b (map (blk lag) l).
Proof.
  induction 1 as [|st l [Hst Hsh] Hl IH]; intros Hord; [exact I|]. destruct Hord as [Hp Hord']. cbn [map ordered_b].
  split; [|now apply IH]. intros p Hin Htg.
  assert (Hsm' : Forall sm (st :: l)).
  { constructor; [exact Hst|]. eapply Forall_impl; [|exact Hl]. now intros a [H _]. }
  change (blk lag st :: map (blk lag) l) with (map (blk lag) (st :: l)) in Htg.
  rewrite (tgts_blocks_gen lag (st :: l) Hsm') in Htg.
  apply in_map_iff in Htg as (n & En & Hn). apply in_flat_map in Hn as (st' & Hst' & Hn).
  destruct (blk_deps lag st Hst) as [Ed Eo]. rewrite Ed, Eo in Hin. apply in_app_or in Hin as [Hin|Hin].
  - apply in_map_iff in Hin as (q & <- & Hq). change (encF q) with (enc (NF q)) in En. apply enc_inj in En. subst n.
    destruct (tnodes_in st' _ Hn) as [(o & E & Ho)|(o & E & _)]; [|discriminate]. inversion E; subst o.
    apply (Hp q); [now apply (step_deps_consumed st Hsh)|]. apply in_flat_map. now exists st'.
  - apply in_map_iff in Hin as (m & <- & Hm). destruct (step_ord_dirs st m Hm) as [d ->]. apply enc_inj in En. subst n.
    destruct (tnodes_in st' _ Hn) as [(o & E & _)|(o & E & _)]; discriminate.
Qed.

(* ================================================================== the predicted steps *)
Lemma existsb_map {A B} (f : B -> bool) (g : A -> B) l : existsb f (map g l) = existsb (fun a => f (g a)) l.
Proof. induction l as [|a l IH]; [reflexivity|]. cbn. now rewrite IH. Qed.

Lemma encF_eqb p x : (encF p =? encF x) = (p =? x).
Proof. unfold encF. cbn [enc]. destruct (N.eqb_spec p x); [subst; apply N.eqb_refl|]. apply N.eqb_neq. lia. Qed.

Lemma memN_app x a b : memN x (a ++ b) = memN x a || memN x b.
Proof. apply existsb_app. Qed.

Definition drel (dB : list file) (dS : list N) : Prop := forall p, memf (encF p) dB = memN p dS.

Lemma drel_step lag st dB dS : sm st -> drel dB dS -> drel (dB ++ b_targets (blk lag st)) (dS ++ outs st).
Proof.
  intros Hst R p. rewrite memf_app, memN_app, (R p), (blk_targets lag st Hst). f_equal.
  unfold tnodes. rewrite map_app, map_map, memf_app. change (fun x => enc (NF x)) with encF. rewrite memf_enc_map.
  destruct (s_outputs st) as [|o1 [|o2 os]]; cbn [map memf existsb]; rewrite ?orb_false_r; try reflexivity.
  assert (E : (encF p =? enc (NStamp (o_file o1))) = false) by (apply N.eqb_neq; unfold encF; cbn [enc]; lia).
  rewrite E. apply orb_false_r.
Qed.

Lemma bfire_script lag f2 x dB dS st :
  sms st -> f2 (b_key (blk lag st)) <> None -> drel dB dS ->
  bfire f2 (fun _ p => p =? encF x) dB (blk lag st) = existsb (fun p => (p =? x) || memN p dS) (consumed st).
Proof.
  intros [Hst Hsh] Hk R. unfold bfire. destruct (f2 (b_key (blk lag st))); [|congruence]. cbn [is_none orb].
  rewrite (proj1 (blk_deps lag st Hst)), existsb_map.
  rewrite <- (existsb_set_eq _ _ _ (step_deps_consumed st Hsh)). apply existsb_ext_in. intros p _.
  now rewrite encF_eqb, (R p).
Qed.

Lemma fold_rel lag f2 x l : Forall sms l -> (forall st, In st l -> f2 (b_key (blk lag st)) <> None) ->
  forall dB dS ranS, drel dB dS ->
  exists dB', fold_left (bd_step f2 (fun _ p => p =? encF x)) (map (blk lag) l) (dB, map (blk lag) ranS) =
              (dB', map (blk lag) (snd (fold_left (sdown_steps_step x) l (dS, ranS)))) /\
              drel dB' (fst (fold_left (sdown_steps_step x) l (dS, ranS))).
Proof.
  induction 1 as [|st l Hst Hl IH]; intros Hk dB dS ranS R.
  - cbn [fold_left map fst snd]. now exists dB.
  - cbn [fold_left map]. unfold bd_step at 2, sdown_steps_step at 2 4. cbn [fst snd].
    rewrite (bfire_script lag f2 x dB dS st Hst (Hk st (or_introl eq_refl)) R).
    destruct (existsb (fun p => (p =? x) || memN p dS) (consumed st)).
    + replace (map (blk lag) ranS ++ [blk lag st]) with (map (blk lag) (ranS ++ [st])) by now rewrite map_app.
      apply IH; [intros st' Hst'; apply Hk; now right|]. apply drel_step; [exact (proj1 Hst)|exact R].
    + apply IH; [intros st' Hst'; apply Hk; now right|exact R].
Qed.

Lemma sdown_fst x l : forall d r, fst (fold_left (sdown_steps_step x) l (d, r)) = fold_left (sdown_step x) l d.
Proof.
  induction l as [|st l IH]; intros d r; [reflexivity|]. cbn [fold_left]. unfold sdown_steps_step at 2, sdown_step at 2.
  cbn [fst snd]. destruct (existsb _ (consumed st)); apply IH.
Qed.

Lemma sdown_outs x l : forall d r, d = flat_map outs r ->
  fst (fold_left (sdown_steps_step x) l (d, r)) = flat_map outs (snd (fold_left (sdown_steps_step x) l (d, r))).
Proof.
  induction l as [|st l IH]; intros d r E; [exact E|]. cbn [fold_left]. unfold sdown_steps_step at 2 4. cbn [fst snd].
  destruct (existsb _ (consumed st)); apply IH; [|exact E]. rewrite flat_map_app, E. cbn [flat_map]. now rewrite app_nil_r.
Qed.

Lemma script_down_steps_outs x steps : flat_map outs (script_down_steps x steps) = script_down x steps.
Proof.
  unfold script_down_steps, script_down. rewrite <- (sdown_outs x steps [] [] eq_refl). apply sdown_fst.
Qed.

(* ================================================================== the theorem *)
Definition inputs_exist (rs : list xrule) (f : fs) : Prop :=
  forall r, In r rs -> forall p, In p (x_prereqs r ++ x_order r) -> ~ In p (map x_target rs) -> f p <> None.

Theorem rebuild_exact_multi lag steps f clk x :
  wf_script_multi steps -> fs_below f clk ->
  let rs := xsem_steps true lag steps in
  let goals := script_goals steps in
  clean_for rs f -> inputs_exist rs f ->
  let b1 := dmake rs goals f clk in
  d_fail b1 = false /\ d_log b1 = map step_target steps /\
  d_log (dmake rs goals (d_fs b1) (d_clk b1)) = [] /\
  (let b3 := dmake rs goals (upd (d_fs b1) (encF x) (d_clk b1)) (d_clk b1 + 1) in
   d_fail b3 = false /\ d_log b3 = map step_target (script_down_steps x steps) /\
   d_log (dmake rs goals (d_fs b3) (d_clk b3)) = []).
Proof.
  intros Hwf Hb rs goals0 Hclean Hin.
  assert (Hsms : Forall sms steps).
  { destruct Hwf as (H & _). eapply Forall_impl; [|exact H]. intros st [H1 H2]. now split. }
  assert (Hsm : Forall sm steps) by (eapply Forall_impl; [|exact Hsms]; now intros a [H _]).
  set (bs := blocks lag steps).
  assert (Ers : rs = rules bs) by (apply rules_blocks; exact Hwf).
  assert (Eg : goals0 = goals bs) by (apply goals_blocks; exact Hwf).
  assert (Etg : tgts bs = map x_target rs) by (now rewrite Ers, rules_targets).
  assert (Hwfb : wf_blocks bs).
  { split.
    - unfold bs, blocks. rewrite (tgts_blocks_gen lag steps Hsm). apply nodup_map_inj; [exact enc_inj|].
      now apply nodup_tnodes.
    - apply ordered_b_gen; [exact Hsms|]. now destruct Hwf as (_ & _ & H). }
  clearbody rs goals0. subst rs goals0.
  destruct (run_clean bs f clk Hwfb Hb) as (F1 & L1 & Q1 & B1 & _).
  { intros y Hy. rewrite Etg in Hy. apply in_map_iff in Hy as (r & <- & Hr). now apply Hclean. }
  { intros b Hb' p Hp Hnt. destruct (key_rule b) as (r & Hr & E1 & E2).
    apply (Hin r); [unfold rules; apply in_flat_map; now exists b|now rewrite E1, E2|now rewrite <- Etg]. }
  set (b1 := dmake (rules bs) (goals bs) f clk) in *.
  assert (Hkeys : map b_key bs = map step_target steps).
  { unfold bs, blocks. rewrite map_map. apply map_ext. intros st. apply blk_key_all. }
  split; [exact F1|]. split; [now rewrite L1|].
  destruct (run_quiet bs (d_fs b1) (d_clk b1) Hwfb B1 Q1) as (_ & L2 & _). split; [exact L2|].
  destruct (run_touched bs (d_fs b1) (d_clk b1) (encF x) Hwfb B1 Q1) as (F3 & L3 & Q3 & B3). cbn zeta.
  set (b3 := dmake (rules bs) (goals bs) (upd (d_fs b1) (encF x) (d_clk b1)) (d_clk b1 + 1)) in *.
  split; [exact F3|]. split.
  - rewrite L3.
    destruct (fold_rel lag (upd (d_fs b1) (encF x) (d_clk b1)) x steps Hsms) with (dB := @nil file) (dS := @nil N) (ranS := @nil step)
      as (dB' & E & _).
    + intros st Hst. unfold upd. destruct (_ =? _); [discriminate|].
      destruct (Q1 (blk lag st)) as ((tk & Ek & _) & _); [unfold bs, blocks; now apply in_map|]. congruence.
    + intros p. reflexivity.
    + cbn [map] in E. fold (blocks lag steps) in E. fold bs in E. change (fun p : file => p =? encF x) with (fun p : N => p =? encF x) in E. rewrite E. cbn [snd].
      unfold script_down_steps. rewrite map_map. apply map_ext. intros st. apply blk_key_all.
  - destruct (run_quiet bs (d_fs b3) (d_clk b3) Hwfb B3 Q3) as (_ & L4 & _). exact L4.
Qed.
