(* W model: the variable definitions the Make backend writes for one kind of flags (CFLAGS, LDFLAGS, LDLIBS, ...):
     backends/make/writer.py flags_vars(name, value, buildfile)
        GLOBAL_X := value                     Section.flags, once per kind
        %: X := $(GLOBAL_X)                   pattern-specific, once per kind, ALWAYS (also when value is empty)
     builtins/compile.py make_compile, builtins/link.py make_link (via _get_flags, multitarget_rule, Makefile._write_rule)
        tgt: X := $(GLOBAL_X) own...          only for a step whose own list is not empty; tgt is the (first) output, or its
                                              .stamp when the step has several outputs
   The definitions are Make.MakeTVars.vdef records (scope, name, right-hand side text); [def_line] renders the line of the
   Makefile.  A target is named by its path below the build directory; Make identifies it by the name it reads back from
   the escaped text (C04_make_target_rt).
   [pat = false] is the Makefile without the pattern-specific line (regression witness, C01_flags_without_pattern_line_refuted). *)
From BFG Require Import Base.Chars Shell.PosixQuote Make.MakeWrite Make.MakeRead Make.MakeTVars Graph.BackendAgree.
Local Open Scope N_scope.

(* GLOBAL_ *)
Definition s_global_ : str := [71; 76; 79; 66; 65; 76; 95].
Definition global_name (fname : str) : str := s_global_ ++ fname.
(* " := "  and  ": "  and  "%" *)
Definition s_assign : str := [32; 58; 61; 32].
Definition s_colon_sp : str := [58; 32].
Definition s_percent : str := [37].

(* $(GLOBAL_X) followed by typed items; BackendAgree.make_target_items is the instance for plain words *)
Definition make_target_items_gen (gname : str) (ws : list (list mfrag)) : list (list mfrag) :=
  [MLit (mk_ref gname)] :: ws.

Definition is_nil_items (ws : list (list mfrag)) : bool := match ws with [] => true | _ => false end.

Section W.
Variable uw us : char -> bool.

Definition flag_global_def (gname : str) (g : list (list mfrag)) : option vdef :=
  option_map (mkDef ScGlobal gname) (write_value uw us g SynShell).
Definition flag_pattern_def (gname fname : str) : option vdef :=
  option_map (mkDef ScPattern fname) (write_value uw us (make_target_items_gen gname []) SynShell).
Definition flag_target_def (gname fname t : str) (ws : list (list mfrag)) : option vdef :=
  option_map (mkDef (ScTarget t) fname) (write_value uw us (make_target_items_gen gname ws) SynShell).

(* one line per step with own values, in rule order *)
Fixpoint flag_target_lines (gname fname : str) (own : list (str * list (list mfrag))) : option (list vdef) :=
  match own with
  | [] => Some []
  | p :: r =>
    match flag_target_def gname fname (fst p) (snd p), flag_target_lines gname fname r with
    | Some d, Some ds => Some (d :: ds)
    | _, _ => None
    end
  end.

Definition with_own (own : list (str * list (list mfrag))) : list (str * list (list mfrag)) :=
  filter (fun p => negb (is_nil_items (snd p))) own.

Definition flag_defs_gen (pat : bool) (gname fname : str) (g : list (list mfrag)) (own : list (str * list (list mfrag)))
  : option (list vdef) :=
  match flag_global_def gname g, flag_pattern_def gname fname, flag_target_lines gname fname (with_own own) with
  | Some dg, Some dp, Some dt => Some (dg :: (if pat then [dp] else []) ++ dt)
  | _, _, _ => None
  end.

(* flags_vars + the per-target lines for the flag variable fname (already upper case) *)
Definition flag_defs (pat : bool) (fname : str) (g : list (list mfrag)) (own : list (str * list (list mfrag)))
  : option (list vdef) := flag_defs_gen pat (global_name fname) fname g own.

(* Makefile._write_variable: the line without its newline *)
Definition def_line (d : vdef) : option str :=
  let rhs := d_name d ++ s_assign ++ d_text d in
  match d_scope d with
  | ScGlobal => Some rhs
  | ScPattern => Some (s_percent ++ s_colon_sp ++ rhs)
  | ScTarget t => option_map (fun tt => tt ++ s_colon_sp ++ rhs) (escape_str us t SynTarget)
  end.

Fixpoint def_lines (ds : list vdef) : option (list str) :=
  match ds with
  | [] => Some []
  | d :: r => match def_line d, def_lines r with Some x, Some xs => Some (x :: xs) | _, _ => None end
  end.

Definition flag_lines (pat : bool) (fname : str) (g : list (list mfrag)) (own : list (str * list (list mfrag)))
  : option (list str) :=
  match flag_defs pat fname g own with Some ds => def_lines ds | None => None end.
End W.

(* guard of the goal-independence theorem: no ; in the text of a target- / pattern-specific line (GNU Make reads such a line
   as a rule line first, see MakeTVars.strip_tline; the complement is the open finding C01-target-flag-semicolon) *)
Definition tline_plain (d : vdef) : bool :=
  match d_scope d with ScGlobal => true | _ => negb (mem_char c_semi (d_text d)) end.

(* plain words *)
Definition own_items (own : list (str * list str)) : list (str * list (list mfrag)) :=
  map (fun p => (fst p, words_items (snd p))) own.
(* the own words of target t ([] when it has none) *)
Definition own_words (own : list (str * list str)) (t : str) : list str :=
  match find (fun p => str_eqb (fst p) t) own with Some p => snd p | None => [] end.
