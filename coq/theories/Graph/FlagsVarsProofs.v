(* Goal independence of the flag variables: with the lines flags_vars / make_compile / make_link write, the value the recipe
   of a target sees does not depend on the dependents on whose behalf GNU Make builds it (Make.MakeTVars.lookup). *)
From Coq Require Import Lia.
From BFG Require Import Base.Chars Shell.PosixQuote Shell.Sh Shell.PosixQuoteProofs
  Make.MakeWrite Make.MakeRead Make.MakeProofs Make.MakeTVars Graph.BackendAgree Graph.FlagsVars.
Local Open Scope N_scope.

(* ------------------------------------------------------------------ expansion depends on the variables extensionally *)
Lemma expand_go_ext v v' : (forall n, v n = v' n) -> forall s st, expand_go v st s = expand_go v' st s.
Proof.
  intros E. induction s as [|c r IH]; intros st; [reflexivity|].
  destruct st as [| |acc]; cbn [expand_go]; rewrite ?IH, ?E; reflexivity.
Qed.

Lemma assign_value_ext v v' text : (forall n, v n = v' n) -> assign_value v text = assign_value v' text.
Proof. intros E. unfold assign_value, expand. now apply expand_go_ext. Qed.

(* ------------------------------------------------------------------ association lists *)
Lemma str_eqb_neq a b : a <> b -> str_eqb a b = false.
Proof. intros H. destruct (str_eqb a b) eqn:E; [|reflexivity]. apply str_eqb_eq in E. contradiction. Qed.

Lemma str_eqb_sym a b : str_eqb a b = str_eqb b a.
Proof.
  destruct (str_eqb a b) eqn:E.
  - apply str_eqb_eq in E. subst. now rewrite str_eqb_refl.
  - destruct (str_eqb b a) eqn:E'; [|reflexivity]. apply str_eqb_eq in E'. subst. now rewrite str_eqb_refl in E.
Qed.

Lemma alookup_cons n m x l : alookup n ((m, x) :: l) = if str_eqb m n then Some x else alookup n l.
Proof. unfold alookup. cbn [find fst snd]. now destruct (str_eqb m n). Qed.

Lemma tlookup_cons t n t' m x l :
  tlookup t n ((t', m, x) :: l) = if str_eqb t' t && str_eqb m n then Some x else tlookup t n l.
Proof. unfold tlookup. cbn [find fst snd]. now destruct (str_eqb t' t && str_eqb m n). Qed.

(* with a pattern-specific value, the chain of dependents is never consulted *)
Lemma lookup_with_pattern st n x t chain :
  alookup n (vs_pat st) = Some x ->
  lookup st n t chain = match tlookup t n (vs_tgt st) with Some y => y | None => x end.
Proof. intros H. destruct chain; cbn [lookup]; rewrite H; reflexivity. Qed.

Lemma ref_no_semi n : name_ok n = true -> mem_char c_semi (mk_ref n) = false.
Proof.
  intros H. unfold mk_ref, mem_char. cbn [existsb]. rewrite existsb_app. cbn [existsb].
  change (N.eqb c_semi c_dollar) with false. change (N.eqb c_semi c_lp) with false. change (N.eqb c_semi c_rp) with false.
  cbn [orb]. rewrite Bool.orb_false_r.
  unfold name_ok in H. induction n as [|c n IH]; [reflexivity|]. cbn [forallb] in H. apply andb_true_iff in H as [Hc Hr].
  cbn [existsb]. rewrite (IH Hr), Bool.orb_false_r.
  unfold is_ascii_word, is_digit, is_upper, is_lower, c_us, c_semi in *. lia.
Qed.

Lemma tassign_plain v text : mem_char c_semi text = false -> tassign_value v text = assign_value v text.
Proof. intros H. unfold tassign_value, strip_tline, assign_value. now rewrite H. Qed.

Section Proofs.
Variable uw us : char -> bool.

(* ------------------------------------------------------------------ the value of one written line *)
(* tgt: X := $(G) words, read in a scope where G has the value of the global line *)
Lemma target_line_value v gname g ws text_g text_t :
  name_ok gname = true ->
  write_value uw us (words_items g) SynShell = Some text_g ->
  write_value uw us (make_target_items_gen gname (words_items ws)) SynShell = Some text_t ->
  v gname = join uw g ->
  mem_char c_semi text_t = false ->
  exists x, tassign_value v text_t = Some x /\ sh_words uw x = Some (g ++ ws).
Proof.
  intros Hn Hg Ht Hv Hsemi. rewrite (tassign_plain v text_t Hsemi).
  pose proof (make_flags_words uw us v gname g ws text_g text_t Hn Hg Ht) as M.
  rewrite (assign_roundtrip uw us v g text_g Hg) in M.
  assert (E : assign_value (upd v gname (join uw g)) text_t = assign_value v text_t).
  { apply assign_value_ext. intros n. unfold upd. destruct (str_eqb n gname) eqn:En; [|reflexivity].
    apply str_eqb_eq in En. subst n. now rewrite Hv. }
  rewrite E in M. destruct (assign_value v text_t) as [x|]; [|discriminate]. now exists x.
Qed.

(* %: X := $(G) *)
Lemma pattern_line_value v gname text_p :
  name_ok gname = true ->
  write_value uw us (make_target_items_gen gname []) SynShell = Some text_p ->
  tassign_value v text_p = Some (v gname).
Proof.
  intros Hn Hp. unfold write_value, make_target_items_gen in Hp.
  cbn [write_each write_jbos write cat2 option_map fst] in Hp. rewrite app_nil_r in Hp.
  assert (Hsemi : mem_char c_semi text_p = false).
  { rewrite hash_free_ref in Hp by assumption. injection Hp as <-. now apply ref_no_semi. }
  rewrite (tassign_plain v text_p Hsemi).
  assert (Hs : strip_comment 0 text_p = mk_ref gname)
    by (assert (E : text_p = bs_esc hash_special 0 (mk_ref gname)) by congruence;
        rewrite E; exact (strip_comment_hash_esc (mk_ref gname) 0)).
  unfold assign_value. rewrite Hs, drop_blanks_ok by reflexivity.
  unfold expand. rewrite <- (app_nil_r (mk_ref gname)), expand_ref by (now apply name_ok_ref).
  cbn [expand_go option_map]. now rewrite app_nil_r.
Qed.

(* ------------------------------------------------------------------ the projection of a state on one flag kind *)
Variable gname fname : str.
Hypothesis Hgn : name_ok gname = true.
Hypothesis Hne : gname <> fname.

Definition about (d : vdef) : bool := str_eqb (d_name d) gname || str_eqb (d_name d) fname.

Definition Gv (st : vstate) : str := glob_vars st gname.
Definition Pv (st : vstate) : option str := alookup fname (vs_pat st).
Definition Tv (st : vstate) (t : str) : option str := tlookup t fname (vs_tgt st).
Definition Tg (st : vstate) (t : str) : option str := tlookup t gname (vs_tgt st).

(* a definition of another variable changes nothing the flag kind can see *)
Lemma other_frame st d st' :
  about d = false -> read_def st d = Some st' ->
  Gv st' = Gv st /\ Pv st' = Pv st /\ (forall t, Tv st' t = Tv st t) /\ (forall t, Tg st' t = Tg st t).
Proof.
  unfold about. intros A R. apply Bool.orb_false_iff in A as [Ag Af].
  unfold read_def in R. destruct (d_scope d) as [| |t0].
  - destruct (assign_value (glob_vars st) (d_text d)) as [x|]; [|discriminate]. inversion R; subst st'. clear R.
    unfold Gv, Pv, Tv, Tg, glob_vars. cbn [vs_glob vs_pat vs_tgt]. rewrite alookup_cons, Ag. repeat split.
  - destruct (tassign_value (glob_vars st) (d_text d)) as [x|]; [|discriminate]. inversion R; subst st'. clear R.
    unfold Gv, Pv, Tv, Tg, glob_vars. cbn [vs_glob vs_pat vs_tgt]. rewrite alookup_cons, Af. repeat split.
  - destruct (tassign_value (read_scope st t0) (d_text d)) as [x|]; [|discriminate]. inversion R; subst st'. clear R.
    unfold Gv, Pv, Tv, Tg, glob_vars. cbn [vs_glob vs_pat vs_tgt]. repeat split; intros t; rewrite tlookup_cons.
    + now rewrite Af, Bool.andb_false_r.
    + now rewrite Ag, Bool.andb_false_r.
Qed.

Variable g : list str.
Variable text_g : str.
Hypothesis Hg : write_value uw us (words_items g) SynShell = Some text_g.

(* ------------------------------------------------------------------ phase c: the target-specific lines *)
Lemma phase_targets : forall defs st st' own tl,
  flag_target_lines uw us gname fname (own_items own) = Some tl ->
  filter about defs = tl ->
  forallb tline_plain tl = true ->
  NoDup (map fst own) ->
  read_defs st defs = Some st' ->
  Gv st = join uw g -> (forall t, Tg st t = None) ->
  Pv st' = Pv st /\
  forall t, (forall ws, In (t, ws) own -> exists x, Tv st' t = Some x /\ sh_words uw x = Some (g ++ ws)) /\
            (~ In t (map fst own) -> Tv st' t = Tv st t).
Proof.
  induction defs as [|d defs IH]; intros st st' own tl Hl Hf Hpl Hnd Hr HG HT.
  - cbn in Hf, Hr. inversion Hr; subst st'. subst tl. split; [reflexivity|]. intros t. split; [|reflexivity].
    destruct own as [|p own']; [intros ws []|]. cbn [own_items map flag_target_lines fst snd] in Hl.
    destruct (flag_target_def uw us gname fname (fst p) (words_items (snd p))); [|discriminate].
    match type of Hl with match ?X with _ => _ end = _ => destruct X end; discriminate.
  - cbn [read_defs] in Hr. destruct (read_def st d) as [st1|] eqn:R1; [|discriminate].
    cbn [filter] in Hf. destruct (about d) eqn:A.
    + (* one of the written lines *)
      destruct own as [|[t1 ws1] own']; [cbn in Hl; injection Hl as <-; discriminate|].
      cbn [own_items map flag_target_lines fst snd] in Hl. fold (own_items own') in Hl.
      destruct (flag_target_def uw us gname fname t1 (words_items ws1)) as [d1|] eqn:D1; [|discriminate].
      destruct (flag_target_lines uw us gname fname (own_items own')) as [tl'|] eqn:L'; [|discriminate].
      injection Hl as Etl. rewrite <- Etl in Hf, Hpl. clear Etl. injection Hf as Hd Hf'. subst d1.
      cbn [forallb] in Hpl. apply andb_true_iff in Hpl as [Hp1 Hpl'].
      unfold flag_target_def in D1.
      destruct (write_value uw us (make_target_items_gen gname (words_items ws1)) SynShell) as [text_t|] eqn:W1; [|discriminate].
      cbn [option_map] in D1. inversion D1 as [Dd]. clear D1.
      unfold read_def in R1. rewrite <- Dd in R1, Hp1. cbn [d_scope d_name d_text] in R1.
      unfold tline_plain in Hp1. cbn [d_scope d_text] in Hp1. apply Bool.negb_true_iff in Hp1.
      assert (Hsc : read_scope st t1 gname = join uw g).
      { unfold read_scope. fold (Tg st t1). rewrite HT. exact HG. }
      destruct (target_line_value (read_scope st t1) gname g ws1 text_g text_t Hgn Hg W1 Hsc Hp1) as [x [Ex Sx]].
      rewrite Ex in R1. cbn [option_map] in R1. inversion R1; subst st1. clear R1.
      cbn [map fst] in Hnd. apply NoDup_cons_iff in Hnd as [Hnin Hnd'].
      assert (HG1 : Gv (mkVS (vs_glob st) (vs_pat st) ((t1, fname, x) :: vs_tgt st)) = join uw g) by exact HG.
      assert (HT1 : forall t, Tg (mkVS (vs_glob st) (vs_pat st) ((t1, fname, x) :: vs_tgt st)) t = None).
      { intros t. unfold Tg. cbn [vs_tgt]. rewrite tlookup_cons.
        rewrite (str_eqb_neq fname gname) by (intros E; now apply Hne). rewrite Bool.andb_false_r. apply HT. }
      destruct (IH _ st' own' tl' L' Hf' Hpl' Hnd' Hr HG1 HT1) as [IP IT].
      split; [exact IP|]. intros t. destruct (IT t) as [IT1 IT2]. split.
      * intros ws [E|Hin].
        -- inversion E; subst t ws. exists x. split; [|exact Sx].
           rewrite (IT2 Hnin). unfold Tv. cbn [vs_tgt]. rewrite tlookup_cons, !str_eqb_refl. reflexivity.
        -- now apply IT1.
      * intros Hn. cbn [map fst] in Hn. rewrite IT2 by (intros X; apply Hn; now right).
        unfold Tv. cbn [vs_tgt]. rewrite tlookup_cons.
        rewrite (str_eqb_neq t1 t) by (intros E; apply Hn; now left). reflexivity.
    + destruct (other_frame st d st1 A R1) as [F1 [F2 [F3 F4]]].
      assert (HG1 : Gv st1 = join uw g) by now rewrite F1.
      assert (HT1 : forall t, Tg st1 t = None) by (intros t; now rewrite F4).
      destruct (IH st1 st' own tl Hl Hf Hpl Hnd Hr HG1 HT1) as [IP IT].
      split; [now rewrite IP|]. intros t. destruct (IT t) as [IT1 IT2]. split; [exact IT1|].
      intros Hn. now rewrite IT2, F3.
Qed.

(* ------------------------------------------------------------------ phase b: the pattern-specific line, then phase c *)
Lemma phase_pattern : forall defs st st' own tl dp,
  flag_pattern_def uw us gname fname = Some dp ->
  flag_target_lines uw us gname fname (own_items own) = Some tl ->
  filter about defs = dp :: tl ->
  forallb tline_plain tl = true ->
  NoDup (map fst own) ->
  read_defs st defs = Some st' ->
  Gv st = join uw g -> (forall t, Tg st t = None) ->
  Pv st' = Some (join uw g) /\
  forall t, (forall ws, In (t, ws) own -> exists x, Tv st' t = Some x /\ sh_words uw x = Some (g ++ ws)) /\
            (~ In t (map fst own) -> Tv st' t = Tv st t).
Proof.
  induction defs as [|d defs IH]; intros st st' own tl dp Hp Hl Hf Hpl Hnd Hr HG HT; [discriminate|].
  cbn [read_defs] in Hr. destruct (read_def st d) as [st1|] eqn:R1; [|discriminate].
  cbn [filter] in Hf. destruct (about d) eqn:A.
  - inversion Hf as [[Hd Hf']]. subst d.
    unfold flag_pattern_def in Hp.
    destruct (write_value uw us (make_target_items_gen gname []) SynShell) as [text_p|] eqn:Wp; [|discriminate].
    cbn [option_map] in Hp. inversion Hp as [Dd]. clear Hp.
    unfold read_def in R1. rewrite <- Dd in R1. cbn [d_scope d_name d_text] in R1.
    rewrite (pattern_line_value (glob_vars st) gname text_p Hgn Wp) in R1. cbn [option_map] in R1.
    inversion R1; subst st1. clear R1. fold (Gv st) in Hr, Hf'. rewrite HG in Hr.
    set (st1 := mkVS (vs_glob st) ((fname, join uw g) :: vs_pat st) (vs_tgt st)) in *.
    destruct (phase_targets defs st1 st' own tl Hl Hf' Hpl Hnd Hr HG HT) as [IP IT].
    split; [|exact IT]. rewrite IP. unfold Pv, st1. cbn [vs_pat]. now rewrite alookup_cons, str_eqb_refl.
  - destruct (other_frame st d st1 A R1) as [F1 [F2 [F3 F4]]].
    assert (HG1 : Gv st1 = join uw g) by now rewrite F1.
    assert (HT1 : forall t, Tg st1 t = None) by (intros t; now rewrite F4).
    destruct (IH st1 st' own tl dp Hp Hl Hf Hpl Hnd Hr HG1 HT1) as [IP IT].
    split; [exact IP|]. intros t. destruct (IT t) as [IT1 IT2]. split; [exact IT1|].
    intros Hn. now rewrite IT2, F3.
Qed.

(* ------------------------------------------------------------------ phase a: the global line, then phase b *)
Lemma phase_global : forall defs st st' own tl dg dp,
  flag_global_def uw us gname (words_items g) = Some dg ->
  flag_pattern_def uw us gname fname = Some dp ->
  flag_target_lines uw us gname fname (own_items own) = Some tl ->
  filter about defs = dg :: dp :: tl ->
  forallb tline_plain tl = true ->
  NoDup (map fst own) ->
  read_defs st defs = Some st' ->
  (forall t, Tg st t = None) ->
  Pv st' = Some (join uw g) /\
  forall t, (forall ws, In (t, ws) own -> exists x, Tv st' t = Some x /\ sh_words uw x = Some (g ++ ws)) /\
            (~ In t (map fst own) -> Tv st' t = Tv st t).
Proof.
  induction defs as [|d defs IH]; intros st st' own tl dg dp Hgd Hp Hl Hf Hpl Hnd Hr HT; [discriminate|].
  cbn [read_defs] in Hr. destruct (read_def st d) as [st1|] eqn:R1; [|discriminate].
  cbn [filter] in Hf. destruct (about d) eqn:A.
  - inversion Hf as [[Hd Hf']]. subst d.
    unfold flag_global_def in Hgd. rewrite Hg in Hgd. cbn [option_map] in Hgd. inversion Hgd as [Dd]. clear Hgd.
    unfold read_def in R1. rewrite <- Dd in R1. cbn [d_scope d_name d_text] in R1.
    rewrite (assign_roundtrip uw us (glob_vars st) g text_g Hg) in R1. cbn [option_map] in R1.
    inversion R1; subst st1. clear R1.
    set (st1 := mkVS ((gname, join uw g) :: vs_glob st) (vs_pat st) (vs_tgt st)) in *.
    assert (HG1 : Gv st1 = join uw g).
    { unfold Gv, glob_vars, st1. cbn [vs_glob]. now rewrite alookup_cons, str_eqb_refl. }
    exact (phase_pattern defs st1 st' own tl dp Hp Hl Hf' Hpl Hnd Hr HG1 HT).
  - destruct (other_frame st d st1 A R1) as [F1 [F2 [F3 F4]]].
    assert (HT1 : forall t, Tg st1 t = None) by (intros t; now rewrite F4).
    destruct (IH st1 st' own tl dg dp Hgd Hp Hl Hf Hpl Hnd Hr HT1) as [IP IT].
    split; [exact IP|]. intros t. destruct (IT t) as [IT1 IT2]. split; [exact IT1|].
    intros Hn. now rewrite IT2, F3.
Qed.
End Proofs.

(* ------------------------------------------------------------------ own words *)
Lemma own_words_in own t ws : NoDup (map fst own) -> In (t, ws) own -> own_words own t = ws.
Proof.
  unfold own_words. induction own as [|[t1 w1] own IH]; intros Hnd Hin; [contradiction|].
  cbn [find fst snd]. inversion Hnd as [|? ? Hnin Hnd']. subst. destruct Hin as [E|Hin].
  - inversion E; subst. now rewrite str_eqb_refl.
  - rewrite str_eqb_neq; [now apply IH|]. intros E. subst t1. apply Hnin. cbn [fst].
    change t with (fst (t, ws)). now apply in_map.
Qed.

Lemma own_words_notin own t : ~ In t (map fst own) -> own_words own t = [].
Proof.
  unfold own_words. induction own as [|[t1 w1] own IH]; intros Hn; [reflexivity|].
  cbn [find fst snd]. rewrite str_eqb_neq; [apply IH; intros X; apply Hn; now right|].
  intros E. apply Hn. now left.
Qed.

Definition has_own (p : str * list str) : bool := match snd p with [] => false | _ => true end.

Lemma with_own_items own : with_own (own_items own) = own_items (filter has_own own).
Proof.
  unfold with_own, own_items. induction own as [|[t ws] own IH]; [reflexivity|].
  cbn [map filter fst snd]. unfold has_own at 1. cbn [snd]. destruct ws as [|w ws]; cbn [words_items map is_nil_items negb].
  - exact IH.
  - cbn [map fst snd]. f_equal. exact IH.
Qed.

Lemma NoDup_map_filter {A B} (f : A -> B) (p : A -> bool) l : NoDup (map f l) -> NoDup (map f (filter p l)).
Proof.
  induction l as [|a l IH]; intros H; [constructor|]. inversion H as [|? ? Hn Hd]. subst. cbn [filter].
  destruct (p a); [|now apply IH]. cbn [map]. constructor; [|now apply IH].
  intros X. apply Hn. apply in_map_iff in X as [y [E Hy]]. apply filter_In in Hy as [Hy _].
  apply in_map_iff. now exists y.
Qed.

Lemma global_name_neq fname : global_name fname <> fname.
Proof.
  unfold global_name. intros E. apply (f_equal (@length _)) in E. rewrite app_length in E. cbn in E. lia.
Qed.

Lemma global_name_ok fname : name_ok fname = true -> name_ok (global_name fname) = true.
Proof. unfold name_ok, global_name. intros H. rewrite forallb_app, H. reflexivity. Qed.

(* ------------------------------------------------------------------ the theorem *)
(* [defs] is any sequence of definitions whose part about GLOBAL_X and X is what the backend writes for the kind X: other
   definitions (the other kinds, tool variables, ...) may stand anywhere in between. *)
Theorem flags_goal_independent uw us fname g own written defs gl st :
  name_ok fname = true ->
  NoDup (map fst own) ->
  flag_defs uw us true fname (words_items g) (own_items own) = Some written ->
  forallb tline_plain written = true ->
  filter (about (global_name fname) fname) defs = written ->
  read_defs (mkVS gl [] []) defs = Some st ->
  forall t chain, sh_words uw (lookup st fname t chain) = Some (g ++ own_words own t).
Proof.
  intros Hn Hnd Hw Hpl Hf Hr t chain.
  unfold flag_defs, flag_defs_gen in Hw.
  destruct (flag_global_def uw us (global_name fname) (words_items g)) as [dg|] eqn:Dg; [|discriminate].
  destruct (flag_pattern_def uw us (global_name fname) fname) as [dp|] eqn:Dp; [|discriminate].
  rewrite with_own_items in Hw.
  destruct (flag_target_lines uw us (global_name fname) fname (own_items (filter has_own own))) as [tl|] eqn:Tl; [|discriminate].
  injection Hw as Ew. rewrite <- Ew in Hf, Hpl. clear Ew. cbn [app] in Hf, Hpl.
  cbn [forallb] in Hpl. apply andb_true_iff in Hpl as [_ Hpl]. apply andb_true_iff in Hpl as [_ Hpl].
  assert (Htg : exists text_g, write_value uw us (words_items g) SynShell = Some text_g).
  { unfold flag_global_def in Dg. destruct (write_value uw us (words_items g) SynShell) as [x|]; [now exists x|discriminate]. }
  destruct Htg as [text_g Hg].
  destruct (phase_global uw us (global_name fname) fname (global_name_ok fname Hn) (global_name_neq fname) g text_g Hg
              defs (mkVS gl [] []) st (filter has_own own) tl dg dp Dg Dp Tl Hf Hpl
              (NoDup_map_filter fst has_own own Hnd) Hr (fun _ => eq_refl)) as [HP HT].
  rewrite (lookup_with_pattern st fname (join uw g) t chain HP).
  destruct (HT t) as [H1 H2]. fold (Tv fname st t).
  destruct (find (fun p => str_eqb (fst p) t) own) as [[t' ws]|] eqn:Fd.
  - pose proof (find_some _ _ Fd) as [Hin Heq]. cbn [fst] in Heq. apply str_eqb_eq in Heq. subst t'.
    rewrite (own_words_in own t ws Hnd Hin).
    destruct ws as [|w ws].
    + rewrite H2.
      * cbn. rewrite app_nil_r. apply join_words.
      * intros X. apply in_map_iff in X as [[t2 w2] [E Hy]]. cbn [fst] in E. subst t2.
        apply filter_In in Hy as [Hy Ho]. pose proof (own_words_in own t w2 Hnd Hy) as E2.
        rewrite (own_words_in own t [] Hnd Hin) in E2. subst w2. discriminate.
    + destruct (H1 (w :: ws)) as [x [Ex Sx]]; [apply filter_In; split; [exact Hin|reflexivity]|].
      now rewrite Ex.
  - assert (Hnot : ~ In t (map fst own)).
    { intros X. apply in_map_iff in X as [[t2 w2] [E Hy]]. cbn [fst] in E. subst t2.
      pose proof (find_none _ _ Fd _ Hy) as Z. cbn [fst] in Z. now rewrite str_eqb_refl in Z. }
    rewrite (own_words_notin own t Hnot), app_nil_r. rewrite H2.
    + cbn. apply join_words.
    + intros X. apply Hnot. apply in_map_iff in X as [y [E Hy]]. apply filter_In in Hy as [Hy _].
      apply in_map_iff. now exists y.
Qed.

(* the Makefile made of the written lines only *)
Corollary flags_goal_independent_plain uw us fname g own written gl st :
  name_ok fname = true ->
  NoDup (map fst own) ->
  flag_defs uw us true fname (words_items g) (own_items own) = Some written ->
  forallb tline_plain written = true ->
  read_defs (mkVS gl [] []) written = Some st ->
  forall t chain, sh_words uw (lookup st fname t chain) = Some (g ++ own_words own t).
Proof.
  intros Hn Hnd Hw Hpl Hr. apply (flags_goal_independent uw us fname g own written written gl st Hn Hnd Hw Hpl); [|exact Hr].
  clear Hpl.
  (* every written line is about the kind *)
  unfold flag_defs, flag_defs_gen in Hw.
  destruct (flag_global_def uw us (global_name fname) (words_items g)) as [dg|] eqn:Dg; [|discriminate].
  destruct (flag_pattern_def uw us (global_name fname) fname) as [dp|] eqn:Dp; [|discriminate].
  destruct (flag_target_lines uw us (global_name fname) fname (with_own (own_items own))) as [tl|] eqn:Tl; [|discriminate].
  inversion Hw; subst written. clear Hw. cbn [app filter].
  unfold flag_global_def in Dg. destruct (write_value uw us (words_items g) SynShell); [|discriminate]. inversion Dg; subst dg.
  unfold flag_pattern_def in Dp. destruct (write_value uw us (make_target_items_gen (global_name fname) []) SynShell); [|discriminate].
  inversion Dp; subst dp. unfold about at 1 2. cbn [d_name]. rewrite !str_eqb_refl, Bool.orb_true_r. cbn [orb].
  do 2 f_equal. clear Dg Dp Hr.
  revert tl Tl. generalize (with_own (own_items own)) as l. induction l as [|p l IH]; intros tl Tl.
  - cbn in Tl. now inversion Tl.
  - cbn [flag_target_lines] in Tl. unfold flag_target_def in Tl.
    destruct (write_value uw us (make_target_items_gen (global_name fname) (snd p)) SynShell); [|discriminate].
    cbn [option_map] in Tl. destruct (flag_target_lines uw us (global_name fname) fname l) as [tl'|]; [|discriminate].
    inversion Tl; subst tl. cbn [filter]. unfold about at 1. cbn [d_name]. rewrite str_eqb_refl, Bool.orb_true_r.
    f_equal. now apply IH.
Qed.
