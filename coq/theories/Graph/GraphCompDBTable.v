(* Dispatch entries for the compilation-database model (Graph/CompDB.v). *)
From BFG Require Import Base.Chars Base.Sx Shell.PosixQuote Make.MakeWrite Ninja.NinjaWrite Graph.CompDB.
From Coq Require Import String.
Local Open Scope N_scope.

Definition cdb_cls (x : sx) : char -> bool := fun c => mem_char c (un_str x).

(* bit: [0 s] literal, [1 s] shell_literal, [2 s] str, [3 root sfx] path (root 0 srcdir, 1 builddir, 2 absolute) *)
Definition un_croot (x : sx) : croot := match un_N x with 0 => RSrc | 1 => RBld | _ => RAbs end.
Definition un_cbit (x : sx) : cbit :=
  match un_N (nth_sx 0 x) with
  | 0 => CLit (un_str (nth_sx 1 x))
  | 1 => CShLit (un_str (nth_sx 1 x))
  | 2 => CStr (un_str (nth_sx 1 x))
  | _ => CPath (un_croot (nth_sx 1 x)) (un_str (nth_sx 2 x))
  end.
Definition un_carg (x : sx) : carg := List.map un_cbit (un_list x).
Definition un_cargs (x : sx) : list carg := List.map un_carg (un_list x).
Definition un_cpath (x : sx) : croot * str := (un_croot (nth_sx 0 x), un_str (nth_sx 1 x)).

Definition sx_rbit (b : rbit) : sx :=
  match b with RL s => L [A 0; sx_str s] | RSL s => L [A 1; sx_str s] | RS s => L [A 2; sx_str s] end.
Definition sx_rbits (l : list rbit) : sx := sx_list sx_rbit l.
Definition sx_entry (e : centry) : sx :=
  L [sx_rbits (e_directory e); sx_list sx_rbits (e_arguments e); sx_rbits (e_file e); sx_rbits (e_output e)].

(* compile step: [cmd; always; color; g; t; [root sfx]; out; deps] *)
Definition un_compile (x : sx) : compile_step :=
  mkCompile (un_strs (nth_sx 0 x)) (un_strs (nth_sx 1 x)) (un_strs (nth_sx 2 x)) (un_cargs (nth_sx 3 x))
            (un_cargs (nth_sx 4 x)) (un_cpath (nth_sx 5 x)) (un_str (nth_sx 6 x)) (un_bool (nth_sx 7 x)).
(* link step: [static; cmd; always; g; t; glibs; tlibs; files; userlib; out] *)
Definition un_link (x : sx) : link_step :=
  mkLink (un_bool (nth_sx 0 x)) (un_strs (nth_sx 1 x)) (un_strs (nth_sx 2 x)) (un_cargs (nth_sx 3 x))
         (un_cargs (nth_sx 4 x)) (un_cargs (nth_sx 5 x)) (un_cargs (nth_sx 6 x))
         (List.map un_cpath (un_list (nth_sx 7 x))) (un_cpath (nth_sx 8 x)) (un_str (nth_sx 9 x)).

Definition un_dirs (a b : sx) : cdirs := mkDirs (un_str a) (un_str b).

Definition table : list (string * (sx -> sx)) := [
  (* [src; bld; args] -> the stringified arguments, bit by bit *)
  ("compdb.stringify_args", fun a =>
     sx_list sx_rbits (stringify_args (un_dirs (nth_sx 0 a) (nth_sx 1 a)) (un_cargs (nth_sx 2 a))));
  (* [src; bld; args] -> the JSON list, [] when an argument is not a str *)
  ("compdb.arguments", fun a =>
     sx_opt (sx_list sx_str) (arguments (un_dirs (nth_sx 0 a) (nth_sx 1 a)) (un_cargs (nth_sx 2 a))));
  (* [uw; src; bld; args] -> the command form *)
  ("compdb.command", fun a =>
     sx_opt sx_str (command (cdb_cls (nth_sx 0 a)) (un_dirs (nth_sx 1 a) (nth_sx 2 a)) (un_cargs (nth_sx 3 a))));
  (* [src; bld; ninja; step] *)
  ("compdb.entry_compile", fun a =>
     sx_entry (compdb_compile (un_dirs (nth_sx 0 a) (nth_sx 1 a)) (un_bool (nth_sx 2 a)) (un_compile (nth_sx 3 a))));
  (* [src; bld; step] *)
  ("compdb.entry_link", fun a => sx_entry (compdb_link (un_dirs (nth_sx 0 a) (nth_sx 1 a)) (un_link (nth_sx 2 a))));
  (* [uw; us; cname; gname; fname; step] -> [tool value; global flags value; target flags value; define body line] *)
  ("compdb.make_compile_texts", fun a =>
     sx_list (sx_opt sx_str)
       (make_compile_texts (cdb_cls (nth_sx 0 a)) (cdb_cls (nth_sx 1 a)) (un_str (nth_sx 2 a)) (un_str (nth_sx 3 a))
          (un_str (nth_sx 4 a)) (un_compile (nth_sx 5 a))));
  (* [uw; cname; gname; fname; step] *)
  ("compdb.ninja_compile_texts", fun a =>
     sx_list (sx_opt sx_str)
       (ninja_compile_texts (cdb_cls (nth_sx 0 a)) (un_str (nth_sx 1 a)) (un_str (nth_sx 2 a)) (un_str (nth_sx 3 a))
          (un_compile (nth_sx 4 a))));
  (* [uw; us; cname; gname; fname; glname; lname; step] *)
  ("compdb.make_link_texts", fun a =>
     sx_list (sx_opt sx_str)
       (make_link_texts (cdb_cls (nth_sx 0 a)) (cdb_cls (nth_sx 1 a)) (un_str (nth_sx 2 a)) (un_str (nth_sx 3 a))
          (un_str (nth_sx 4 a)) (un_str (nth_sx 5 a)) (un_str (nth_sx 6 a)) (un_link (nth_sx 7 a))));
  (* [uw; cname; gname; fname; glname; lname; step] *)
  ("compdb.ninja_link_texts", fun a =>
     sx_list (sx_opt sx_str)
       (ninja_link_texts (cdb_cls (nth_sx 0 a)) (un_str (nth_sx 1 a)) (un_str (nth_sx 2 a)) (un_str (nth_sx 3 a))
          (un_str (nth_sx 4 a)) (un_str (nth_sx 5 a)) (un_link (nth_sx 6 a))))
]%string.
