From BFG Require Import Base.Chars Base.Sx Graph.Defaults.
From Coq Require Import String.
Local Open Scope N_scope.

Definition un_dop (x : sx) : dop :=
  if N.eqb (un_N (nth_sx 0 x)) 0
  then DAdd (List.map (fun p => (un_N (nth_sx 0 p), un_bool (nth_sx 1 p))) (un_list (nth_sx 1 x))) (un_bool (nth_sx 2 x))
  else DRemove (un_N (nth_sx 1 x)) (un_bool (nth_sx 2 x)).

Definition table : list (string * (sx -> sx)) := [
  ("defaults.run", fun a =>
     let s := run_dops (List.map un_dop (un_list (nth_sx 0 a))) in
     L [sx_list A (d_explicit s); sx_list A (d_fallback s); sx_list A (d_outputs s)])
]%string.
