(* Dispatch entries (name -> sx wrapper) for Graph/Dist.v (property C18). *)
From Coq Require Import String.
From BFG Require Import Base.Chars Base.Sx Graph.Dist.
Local Open Scope N_scope.

Definition un_root (x : sx) : root := match un_N x with 0 => RSrc | 1 => RBuild | _ => RAbs end.
Definition sx_root (r : root) : sx := A (match r with RSrc => 0 | RBuild => 1 | RAbs => 2 end).
Definition un_node (x : sx) : node := mkNode (un_root (nth_sx 0 x)) (un_str (nth_sx 1 x)).
Definition sx_node (n : node) : sx := L [sx_root (n_root n); sx_str (n_path n)].
Definition un_farg (x : sx) : farg :=
  match un_N (nth_sx 0 x) with 0 => AName (un_node (nth_sx 1 x)) | _ => AObj (un_nat (nth_sx 1 x)) end.
Definition un_fargs (x : sx) : list farg := map un_farg (un_list x).
Definition un_kind (x : sx) : fkind :=
  match un_N x with
  | 0 => KGeneric | 1 => KSource | 2 => KHeader | 3 => KModuleDef | 4 => KAuto | 5 => KDirectory | 6 => KHeaderDir
  | 7 => KManPage | 8 => KPch | 9 => KObject | 10 => KExe | 11 => KShared | 12 => KStatic | _ => KLibrary
  end.
Definition un_ev (x : sx) : walkev := mkEv (un_node (nth_sx 0 x)) (un_bool (nth_sx 1 x)).
Definition un_find (x : sx) : findcall :=
  mkFind (map un_ev (un_list (nth_sx 0 x))) (un_bool (nth_sx 1 x)) (un_bool (nth_sx 2 x)).
Definition un_fb (x : sx) : farg * bool := (un_farg (nth_sx 0 x), un_bool (nth_sx 1 x)).
Definition un_nf (x : sx) : node * findcall := (un_node (nth_sx 0 x), un_find (nth_sx 1 x)).

Definition un_call (x : sx) : call :=
  let a := nth_sx 1 x in let b := nth_sx 2 x in let c := nth_sx 3 x in let d := nth_sx 4 x in
  let e := nth_sx 5 x in let f := nth_sx 6 x in
  match un_N (nth_sx 0 x) with
  | 0 => CFile (un_kind a) (un_farg b) (un_bool c)
  | 1 => CDirInc (un_bool a) (un_node b) (un_opt un_find c) (un_bool d)
  | 2 => CFind (un_find a) (un_bool b)
  | 3 => CFindPaths (un_find a) (un_bool b)
  | 4 => CExtraDist (un_fargs a) (map un_nf (un_list b))
  | 5 => CObject (un_farg a) (un_bool b) (un_fargs c) (un_opt un_farg d) (un_fargs e) (un_str f)
  | 6 => CObjects (map un_fb (un_list a)) (un_fargs b) (un_opt un_farg c) (un_strs d)
  | 7 => CPch (un_farg a) (un_opt un_farg b) (un_fargs c) (un_str d)
  | 8 => CLink (map un_fb (un_list a)) (un_fargs b) (un_fargs c) (un_opt un_farg d) (un_fargs e) (un_str f)
  | 9 => CCopy (un_farg a) (un_fargs b) (un_str c)
  | 10 => CManZ (un_farg a) (un_bool b) (un_str c)
  | 11 => CCommand (un_fargs a) (map un_nat (un_list b)) (un_fargs c) (un_str d)
  | 12 => CSub (un_node a)
  | _ => CUse (un_nat a)
  end.

Definition sx_word (w : word) : sx :=
  match w with WStr s => L [A 0; sx_str s] | WSrcdir => L [A 1] | WBuildFile s => L [A 2; sx_str s] end.

(* input: [fixed, bfg, script, opts, fmt, ext, name, version?]
   output: [] on a dangling object reference, else
           [[members, marked nodist, srcdir refs (edges), listed by find, scripts read, dist command?]] *)
Definition dist_run (x : sx) : sx :=
  let fixed := un_bool (nth_sx 0 x) in
  let bfg := un_node (nth_sx 1 x) in
  let script := map un_call (un_list (nth_sx 2 x)) in
  let opts := map un_node (un_list (nth_sx 3 x)) in
  match run fixed bfg script with
  | None => L []
  | Some st =>
      L [L [sx_list sx_node (dist_members st opts);
            sx_list sx_node (nodist st);
            sx_list sx_node (filter is_src (refs st));
            sx_list sx_node (listed st);
            sx_list sx_node (scripts_read st opts);
            sx_opt (sx_list sx_word)
              (dist_command (un_str (nth_sx 4 x)) (un_str (nth_sx 5 x)) (un_str (nth_sx 6 x))
                            (un_opt un_str (nth_sx 7 x)) st opts)]]
  end.

Definition table : list (string * (sx -> sx)) := [
  ("dist_run"%string, dist_run)
].
