(* Dispatch entries for the emitter model (Graph/Steps.v, Graph/Emit.v). *)
From BFG Require Import Base.Chars Base.Sx Make.MakeSem Graph.Steps Graph.Emit Graph.EmitSem Graph.StampSem
  Graph.EmitStamp Graph.StampFail.
From Coq Require Import String.
Local Open Scope N_scope.

Definition un_Ns (x : sx) : list N := List.map un_N (un_list x).
Definition un_kind (x : sx) : kind :=
  match un_N x with 0 => KCompile | 1 => KLink | 2 => KCommand | 3 => KBuildStep | 4 => KCopyFile | _ => KAlias end.

(* step: [kind; [[file; dir]..]; file?; pch_source?; pch?; include_deps; libs; pkg_deps; files; module_defs; manifest;
          extra_deps; phony; depsflavor]   (an optional value is [] or [x]) *)
Definition un_step (x : sx) : step :=
  mkStep (un_kind (nth_sx 0 x))
         (List.map (fun o => mkOut (un_N (nth_sx 0 o)) (un_N (nth_sx 1 o))) (un_list (nth_sx 1 x)))
         (un_opt un_N (nth_sx 2 x)) (un_opt un_N (nth_sx 3 x)) (un_opt un_N (nth_sx 4 x))
         (un_Ns (nth_sx 5 x)) (un_Ns (nth_sx 6 x)) (un_Ns (nth_sx 7 x)) (un_Ns (nth_sx 8 x)) (un_Ns (nth_sx 9 x))
         (un_Ns (nth_sx 10 x)) (un_Ns (nth_sx 11 x)) (un_bool (nth_sx 12 x)) (un_bool (nth_sx 13 x)).

Definition sx_node (n : node) : sx :=
  match n with
  | NF f => L [A 0; A f] | NStamp f => L [A 1; A f] | NDir d => L [A 2; A d] | NPhony => L [A 3; A 0]
  end.
Definition sx_nodes (l : list node) : sx := sx_list sx_node l.
Definition sx_mrule (r : mrule) : sx :=
  L [sx_nodes (mr_targets r); sx_nodes (mr_deps r); sx_nodes (mr_order r); sx_bool (mr_recipe r); sx_bool (mr_phony r)].
Definition sx_nbuild (b : nbuild) : sx :=
  L [sx_nodes (nb_outputs b); sx_bool (nb_phony_rule b); sx_nodes (nb_inputs b); sx_nodes (nb_implicit b);
     sx_nodes (nb_order b)].

(* script: [steps; [all; tests; test; install; uninstall]; defaults; tests? = [[deps; extra]]; install; uninstall] *)
Definition un_script (x : sx) : script :=
  let names := nth_sx 1 x in
  mkScript (List.map un_step (un_list (nth_sx 0 x)))
           (un_N (nth_sx 0 names)) (un_N (nth_sx 1 names)) (un_N (nth_sx 2 names)) (un_N (nth_sx 3 names))
           (un_N (nth_sx 4 names))
           (un_Ns (nth_sx 2 x))
           (un_opt (fun t => (un_Ns (nth_sx 0 t), un_Ns (nth_sx 1 t))) (nth_sx 3 x))
           (un_bool (nth_sx 4 x)) (un_bool (nth_sx 5 x)).

Definition un_cmdnodes (x : sx) : list (N * bool) :=
  List.map (fun p => (un_N (nth_sx 0 p), un_bool (nth_sx 1 p))) (un_list x).

(* xrule: [target; prereqs; order-only; recipe (0 none, 1 real, 2 the no-op); phony; also; lag] *)
Definition un_rkind (x : sx) : rkind := match un_N x with 0 => RNone | 1 => RReal | _ => RNoop end.
Definition sx_rkind (k : rkind) : sx := A (match k with RNone => 0 | RReal => 1 | RNoop => 2 end).
Definition un_xrule (x : sx) : xrule :=
  mkX (un_N (nth_sx 0 x)) (un_Ns (nth_sx 1 x)) (un_Ns (nth_sx 2 x)) (un_rkind (nth_sx 3 x)) (un_bool (nth_sx 4 x))
      (un_Ns (nth_sx 5 x)) (un_N (nth_sx 6 x)).
Definition sx_xrule (r : xrule) : sx :=
  L [A (x_target r); sx_list A (x_prereqs r); sx_list A (x_order r); sx_rkind (x_recipe r); sx_bool (x_phony r);
     sx_list A (x_also r); A (x_lag r)].
Definition un_rcmd (x : sx) : rcmd := match un_N x with 0 => RcStep | 1 => RcTouch | _ => RcNoop end.
Definition sx_rcmd (k : rcmd) : sx := A (match k with RcStep => 0 | RcTouch => 1 | RcNoop => 2 end).
Definition un_fsl (x : sx) : fs := fs_of (List.map (fun e => (un_N (nth_sx 0 e), un_N (nth_sx 1 e))) (un_list x)).

Definition table : list (string * (sx -> sx)) := [
  (* [rules; goals; fs; clk; ops]  ops: [0; 0] = make, [1; f] = touch f, [2; f] = delete f
     -> per make: [steps run; targets whose no-op recipe ran; failed] *)
  ("stamp.session", fun a =>
     sx_list (fun r => L [sx_list A (fst (fst r)); sx_list A (snd (fst r)); sx_bool (snd r)])
       (run_session (List.map un_xrule (un_list (nth_sx 0 a))) (un_Ns (nth_sx 1 a)) (un_fsl (nth_sx 2 a))
                    (un_N (nth_sx 3 a))
                    (List.map (fun o => (un_N (nth_sx 0 o), un_N (nth_sx 1 o))) (un_list (nth_sx 4 a)))));
  (* the same with explicit recipes and failing runs (Graph/StampFail.v):
     [rules; goals; fs; clk; ops; recipes = [[target; [cmd..]]..]]  cmd: 0 = the step's own command, 1 = touch $@, 2 = the no-op;
     ops as above and [3; t] = make in which the own command of rule t fails
     -> per make: [steps whose command ran and succeeded; targets whose recipe ran without an own command; make stopped] *)
  ("stamp.fsession", fun a =>
     sx_list (fun r => L [sx_list A (fst (fst r)); sx_list A (snd (fst r)); sx_bool (snd r)])
       (frun_session
          (cm_of (List.map (fun e => (un_N (nth_sx 0 e), List.map un_rcmd (un_list (nth_sx 1 e)))) (un_list (nth_sx 5 a))))
          (List.map un_xrule (un_list (nth_sx 0 a))) (un_Ns (nth_sx 1 a)) (un_fsl (nth_sx 2 a))
          (un_N (nth_sx 3 a))
          (List.map (fun o => (un_N (nth_sx 0 o), un_N (nth_sx 1 o))) (un_list (nth_sx 4 a)))));
  (* [tb; rules] -> the recipe of each rule as the semantics reads it (cmds_of) *)
  ("stamp.cmds_of", fun a =>
     sx_list (fun r => sx_list sx_rcmd (cmds_of (un_bool (nth_sx 0 a)) (un_xrule r))) (un_list (nth_sx 1 a)));
  (* [tb; fx; step] -> the recipe lines of each registered rule, in order *)
  ("emit.make_recipes", fun a =>
     sx_opt (sx_list (sx_list sx_rcmd))
            (emit_make_recipes (un_bool (nth_sx 0 a)) (un_bool (nth_sx 1 a)) (un_step (nth_sx 2 a))));
  (* [steps; x] -> [simple for each step; script_down x steps; multi for each step; step_target of the steps that re-run] *)
  ("emit.script_down", fun a =>
     let steps := List.map un_step (un_list (nth_sx 0 a)) in
     L [sx_list sx_bool (List.map simple steps); sx_list A (script_down (un_N (nth_sx 1 a)) steps);
        sx_list sx_bool (List.map multi steps);
        sx_list A (List.map step_target (script_down_steps (un_N (nth_sx 1 a)) steps))]);
  (* [fx; lag; steps] -> [rules of the walk semantics; goals] *)
  ("emit.xsem", fun a =>
     let steps := List.map un_step (un_list (nth_sx 2 a)) in
     L [sx_list sx_xrule (xsem_steps (un_bool (nth_sx 0 a)) (un_N (nth_sx 1 a)) steps); sx_list A (script_goals steps)]);
  (* [fx; step]: fx = the variant of multitarget_rule found in the tree under test *)
  ("emit.make_step", fun a =>
     sx_opt (sx_list sx_mrule) (emit_make_step (un_bool (nth_sx 0 a)) (un_step (nth_sx 1 a))));
  ("emit.ninja_step", fun a =>
     let r := emit_ninja_step (un_bool (nth_sx 0 a)) (un_step (nth_sx 1 a)) in
     L [sx_list sx_nbuild (fst r); sx_bool (snd r)]);
  ("emit.step_info", fun a =>
     let st := un_step (nth_sx 0 a) in L [sx_bool (shape_ok st); sx_list A (consumed st)]);
  ("emit.make", fun a => sx_opt (sx_list sx_mrule) (emit_make (un_bool (nth_sx 0 a)) (un_script (nth_sx 1 a))));
  ("emit.ninja", fun a => sx_list sx_nbuild (emit_ninja (un_script (nth_sx 0 a))));
  ("emit.command_extra_deps", fun a =>
     sx_list A (command_extra_deps (un_bool (nth_sx 0 a)) (un_cmdnodes (nth_sx 1 a)) (un_Ns (nth_sx 2 a))));
  ("emit.command_lines_extra_deps", fun a =>
     sx_list A (command_lines_extra_deps (un_bool (nth_sx 0 a)) (List.map un_cmdnodes (un_list (nth_sx 1 a)))
                                         (un_Ns (nth_sx 2 a))));
  ("emit.test_inputs", fun a => sx_list A (test_inputs (un_cmdnodes (nth_sx 0 a))))
]%string.
