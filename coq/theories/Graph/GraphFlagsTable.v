(* Dispatch entries for the flag-variable lines of the Make backend (Graph/FlagsVars.v). *)
From BFG Require Import Base.Chars Base.Sx Shell.PosixQuote Make.MakeWrite Make.MakeTVars Graph.CompDB Graph.FlagsVars.
From BFG Require Graph.GraphCompDBTable.
From Coq Require Import String.
Local Open Scope N_scope.

(* own: [[target [typed argument ...]] ...] with the argument encoding of GraphCompDBTable *)
Definition un_own (x : sx) : list (str * list (list mfrag)) :=
  map (fun p => (un_str (nth_sx 0 p), mitems (GraphCompDBTable.un_cargs (nth_sx 1 p)))) (un_list x).

Definition sx_vscope (s : vscope) : sx :=
  match s with ScGlobal => L [A 0] | ScPattern => L [A 1] | ScTarget t => L [A 2; sx_str t] end.
Definition sx_vdef (d : vdef) : sx := L [sx_vscope (d_scope d); sx_str (d_name d); sx_str (d_text d)].

Definition table : list (string * (sx -> sx)) := [
  (* [uw us pat fname g own] -> the variable lines of the kind, in the order written *)
  ("flags.lines", fun a => sx_opt (sx_list sx_str)
      (flag_lines (GraphCompDBTable.cdb_cls (nth_sx 0 a)) (GraphCompDBTable.cdb_cls (nth_sx 1 a)) (un_bool (nth_sx 2 a))
                  (un_str (nth_sx 3 a)) (mitems (GraphCompDBTable.un_cargs (nth_sx 4 a))) (un_own (nth_sx 5 a))));
  (* the same as definition records (scope, name, text) *)
  ("flags.defs", fun a => sx_opt (sx_list sx_vdef)
      (flag_defs (GraphCompDBTable.cdb_cls (nth_sx 0 a)) (GraphCompDBTable.cdb_cls (nth_sx 1 a)) (un_bool (nth_sx 2 a))
                 (un_str (nth_sx 3 a)) (mitems (GraphCompDBTable.un_cargs (nth_sx 4 a))) (un_own (nth_sx 5 a))))
]%string.
