(* Dispatch entries for the install model (C15). *)
From BFG Require Import Base.Chars Base.Sx Graph.Install.
From Coq Require Import String.
Local Open Scope N_scope.

Definition un_iroot (n : N) : iroot :=
  match n with 0 => IPrefix | 1 => IExecPrefix | 2 => IBindir | 3 => ILibdir | 4 => IIncludedir
             | 5 => IDatadir | _ => IMandir end.
Definition un_root (n : N) : root :=
  match n with 0 => RSrc | 1 => RBuild | 2 => RAbs | _ => RInst (un_iroot (n - 10)) end.
Definition root_N (r : root) : N :=
  match r with RSrc => 0 | RBuild => 1 | RAbs => 2 | RInst k => 10 + iroot_N k end.
Definition un_ftype (n : N) : ftype :=
  match n with 0 => TPhony | 1 => TGeneric | 2 => TDirectory | 3 => THeader | 4 => TPch | 5 => THeaderDir
             | 6 => TMan | 7 => TObject | 8 => TExe | 9 => TShared | 10 => TLinkLib | 11 => TVerLib
             | 12 => TStatic | _ => TPc end.
Definition un_path (x : sx) : path :=
  mkPath (un_root (un_N (nth_sx 0 x))) (un_strs (nth_sx 1 x)) (un_bool (nth_sx 2 x)).
Definition un_key (x : sx) : key := (un_ftype (un_N (nth_sx 0 x)), un_path (nth_sx 1 x)).
Definition un_lopt (x : sx) : lopt :=
  if N.eqb (un_N (nth_sx 0 x)) 0 then OLib (un_opt un_key (nth_sx 1 x))
  else ORpath (un_path (nth_sx 1 x)) (un_N (nth_sx 2 x)).
Fixpoint un_file (fuel : nat) (x : sx) : file :=
  File (un_ftype (un_N (nth_sx 0 x))) (un_path (nth_sx 1 x)) (un_str (nth_sx 2 x))
       (un_opt (fun y => map un_key (un_list y)) (nth_sx 3 x))
       (un_opt (fun y => map un_lopt (un_list y)) (nth_sx 4 x))
       (match fuel with O => [] | S n => map (un_file n) (un_list (nth_sx 5 x)) end).
Definition un_dirarg (x : sx) : dirarg :=
  match un_N (nth_sx 0 x) with
  | 0 => DNone
  | 1 => DStr (un_bool (nth_sx 1 x)) (un_strs (nth_sx 2 x))
  | _ => DPath (un_path (nth_sx 1 x))
  end.
Definition un_call (x : sx) : call := (un_dirarg (nth_sx 0 x), map (un_file 40) (un_list (nth_sx 1 x))).

Definition sx_res {T} (f : T -> sx) (r : res T) : sx :=
  match r with Ok a => L [A 0; f a] | Err e => L [A 1; A e] end.
Definition sx_path (p : path) : sx := L [A (root_N (p_root p)); sx_list sx_str (p_comps p); sx_bool (p_dest p)].
Definition var_N (v : var) : N :=
  match v with VDestdir => 0 | VSrcdir => 1 | VInst k => 10 + iroot_N k | VDoppelData => 20 | VDoppelProg => 21
             | VPatchelf => 22 | VRm => 23 end.
Definition sx_piece (x : piece) : sx := match x with PV v => L [A 0; A (var_N v)] | PL s => L [A 1; sx_str s] end.
Definition sx_word (w : word) : sx := sx_list sx_piece w.
Definition sx_host (h : host) : sx :=
  sx_list (fun e => L [A (ftype_N (f_ty (fst e))); sx_path (f_path (fst e)); sx_path (snd e)]) h.

Definition un_idirs (x : sx) : iroot -> path := fun k => un_path (nth_sx (N.to_nat (iroot_N k)) x).
Definition sx_content (e : str * content) : sx :=
  L [sx_str (fst e); sx_str (fst (snd e)); sx_opt sx_str (snd (snd e))].

Definition table : list (string * (sx -> sx)) := [
  (* [calls] -> host map *)
  ("install.add", fun a => sx_res sx_host (add_calls (map un_call (un_list (nth_sx 0 a))) []));
  (* [dirarg; file] -> installify(file, directory).path *)
  ("install.installify", fun a => sx_res sx_path (installify (un_dirarg (nth_sx 0 a)) (un_file 40 (nth_sx 1 a))));
  (* [calls; dd] -> host, words of the install commands, words of the uninstall commands *)
  ("install.plan", fun a =>
     let dd := un_bool (nth_sx 1 a) in
     sx_res (fun r => L [sx_host (fst (fst r));
                         sx_list (fun c => sx_list sx_word (cmd_words dd c)) (snd (fst r));
                         sx_list (fun c => sx_list sx_word (cmd_words dd c)) (snd r)])
            (plan (map un_call (un_list (nth_sx 0 a)))));
  (* [calls; destdir; srcdir; idirs] -> evaluated argv lists, destinations, removed paths, file system after
     install (from empty) and after uninstall . install *)
  ("install.run", fun a =>
     let env := mkenv (un_str (nth_sx 1 a)) (un_str (nth_sx 2 a)) (un_idirs (nth_sx 3 a)) in
     sx_res (fun r =>
               let ic := snd (fst r) in let uc := snd r in
               let iops := cmds_ops env ic in let uops := cmds_ops env uc in
               L [sx_list (fun c => sx_list sx_str (cmd_argv env c)) ic;
                  sx_list (fun c => sx_list sx_str (cmd_argv env c)) uc;
                  sx_list sx_str (copy_dests iops);
                  sx_list sx_str (rm_paths uops);
                  sx_list sx_content (run_ops iops []);
                  sx_list sx_content (run_ops uops (run_ops iops []))])
            (plan (map un_call (un_list (nth_sx 0 a)))));
  (* [idirs] -> the seven directory values *)
  ("install.ival", fun a =>
     sx_list (fun k => sx_str (ival (un_idirs (nth_sx 0 a)) 8 k))
             [IPrefix; IExecPrefix; IBindir; ILibdir; IIncludedir; IDatadir; IMandir])
]%string.
