(* Dispatch entries (name -> sx wrapper) for the C14 models (Graph/LinkOrder.v).
   Wire format of a project: [mode_shared; mode_static; nodes; pkgopts]
     node    = [kind (0 static, 1 shared, 2 dual, 3 default); deps; lopts; pkgs; dir; uses]
     deps    = list of [node index; whole_archive (0/1)]
     opt     = [tag (0 string, 1 option object, 2 lib); id]
     pkgopts = list of [package id; list of opt]
   A concrete library is the number 3 * node + (0 shared, 1 static, 2 whole-archive). *)
From BFG Require Import Base.Chars Base.Sx Graph.LinkOrder Graph.LinkLangs.
From Coq Require Import String.
Local Open Scope N_scope.

Definition un_opt1 (x : sx) : opt :=
  let id := un_N (nth_sx 1 x) in
  match un_N (nth_sx 0 x) with 0 => OStr id | 1 => OObj id | _ => OLib id end.
Definition sx_opt1 (o : opt) : sx :=
  match o with OStr i => L [A 0; A i] | OObj i => L [A 1; A i] | OLib i => L [A 2; A i] end.

Definition un_pkind (x : sx) : pkind :=
  match un_N x with 0 => PStatic | 1 => PShared | 2 => PDual | _ => PDefault end.

Definition un_pnode (x : sx) : pnode :=
  {| pn_kind := un_pkind (nth_sx 0 x);
     pn_deps := map (fun d => (un_nat (nth_sx 0 d), un_bool (nth_sx 1 d))) (un_list (nth_sx 1 x));
     pn_lopts := map un_opt1 (un_list (nth_sx 2 x));
     pn_pkgs := map un_N (un_list (nth_sx 3 x));
     pn_dir := un_strs (nth_sx 4 x);
     pn_uses := map un_nat (un_list (nth_sx 5 x)) |}.

Definition pj_ms (p : sx) : bool := un_bool (nth_sx 0 p).
Definition pj_mt (p : sx) : bool := un_bool (nth_sx 1 p).
Definition pj_nodes (p : sx) : list pnode := map un_pnode (un_list (nth_sx 2 p)).
Fixpoint assoc_opts (t : list sx) (k : N) : list opt :=
  match t with
  | [] => []
  | e :: r => if N.eqb (un_N (nth_sx 0 e)) k then map un_opt1 (un_list (nth_sx 1 e)) else assoc_opts r k
  end.
Definition pj_pkgopts (p : sx) : N -> list opt := assoc_opts (un_list (nth_sx 3 p)).

Definition sx_libs (l : list lib) : sx := sx_list A l.
Definition un_libs (x : sx) : list lib := map un_N (un_list x).
Definition sx_ltok (t : ltok) : sx :=
  match t with TPath l => L [A 0; A l] | TWholeOpen => L [A 1] | TWholeClose => L [A 2] end.

(* arguments: [project; fixed; node; consumer_static] *)
Definition table : list (string * (sx -> sx)) := [
  ("link.recurse_libs", fun a => let p := nth_sx 0 a in
      sx_opt sx_libs (p_recurse_libs (pj_ms p) (pj_mt p) (pj_nodes p) (un_nat (nth_sx 2 a)) (un_bool (nth_sx 3 a))));
  ("link.libs", fun a => let p := nth_sx 0 a in
      sx_opt sx_libs (p_link_libs (pj_ms p) (pj_mt p) (pj_nodes p) (un_bool (nth_sx 1 a)) (un_nat (nth_sx 2 a))
                                  (un_bool (nth_sx 3 a))));
  ("link.final_libs", fun a => let p := nth_sx 0 a in
      sx_opt sx_libs (p_final_libs (pj_ms p) (pj_mt p) (pj_nodes p) (un_bool (nth_sx 1 a)) (un_nat (nth_sx 2 a))
                                   (un_bool (nth_sx 3 a))));
  ("link.pkgs", fun a => let p := nth_sx 0 a in
      sx_opt (sx_list A) (p_link_pkgs (pj_ms p) (pj_mt p) (pj_nodes p) (un_nat (nth_sx 2 a)) (un_bool (nth_sx 3 a))));
  ("link.final_opts", fun a => let p := nth_sx 0 a in
      sx_opt (sx_list sx_opt1) (p_final_opts (pj_ms p) (pj_mt p) (pj_nodes p) (pj_pkgopts p) (un_bool (nth_sx 1 a))
                                             (un_nat (nth_sx 2 a))));
  ("link.opt_flags", fun a => let p := nth_sx 0 a in
      sx_opt (sx_list sx_opt1) (p_final_flags (pj_ms p) (pj_mt p) (pj_nodes p) (pj_pkgopts p) (un_bool (nth_sx 1 a))
                                              (un_nat (nth_sx 2 a))));
  ("link.lib_flags", fun a => sx_list sx_ltok (lib_flags (un_libs (nth_sx 0 a))));
  ("link.rpaths", fun a => let p := nth_sx 0 a in
      sx_opt (sx_list sx_str) (p_rpaths (pj_ms p) (pj_mt p) (pj_nodes p) (un_bool (nth_sx 1 a)) (un_nat (nth_sx 2 a))));
  (* [project; root libs; line; as_needed] *)
  ("ld.links", fun a => let p := nth_sx 0 a in
      sx_bool (p_ld_links (pj_ms p) (pj_mt p) (pj_nodes p) (un_bool (nth_sx 3 a)) (un_libs (nth_sx 1 a))
                          (un_libs (nth_sx 2 a))));
  (* [languages of the own objects; what each library says about its languages] *)
  ("link.input_langs", fun a => sx_libs (input_langs (un_libs (nth_sx 0 a)) (map un_libs (un_list (nth_sx 1 a)))));
  ("link.driver", fun a => sx_opt A (binary_lang (un_libs (nth_sx 0 a)) (map un_libs (un_list (nth_sx 1 a)))));
  (* [driver language; languages] *)
  ("link.can_link", fun a => sx_bool (can_link (un_N (nth_sx 0 a)) (un_libs (nth_sx 1 a))));
  ("dedup.first", fun a => sx_libs (dedup_first (un_libs (nth_sx 0 a))));
  ("dedup.last", fun a => sx_libs (dedup_last (un_libs (nth_sx 0 a))));
  (* [libdir components; outdir components] *)
  ("rpath.relpath", fun a => sx_list sx_str (relpath (un_strs (nth_sx 0 a)) (un_strs (nth_sx 1 a))));
  ("rpath.local", fun a => sx_str (local_rpath (un_strs (nth_sx 0 a)) (un_strs (nth_sx 1 a))));
  ("rpath.join", fun a => sx_str (join_colon (un_strs (nth_sx 0 a))));
  (* [origin components; entry] *)
  ("rpath.ldso_dir", fun a => sx_opt (sx_list sx_str) (ldso_dir (un_strs (nth_sx 0 a)) (un_str (nth_sx 1 a))))
]%string.
