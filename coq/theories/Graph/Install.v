(* C15 - model of bfg9000/builtins/install.py (installify, InstallOutputs.add/_add_implicit,
   _install_files, _uninstall_files), file_types.py (install_kind / install_root / install_suffix /
   install_deps), tools/doppel.py, tools/patchelf.py (post_install, installed_rpath), tools/rm.py,
   platforms/basepath.py realize (with DESTDIR), plus a specification of what the spawned tools do to a
   file system (finite map path string -> content).

   Paths are modelled locally as (root, component list, destdir flag): the suffix of a bfg9000 Path is
   always normalised, so it is the list of its components joined by a slash.  The full path algebra
   (normalisation of user strings) is a separate model (C12); the harness feeds already split paths. *)
From BFG Require Import Base.Chars.
Local Open Scope N_scope.

(* ------------------------------------------------------------------ roots and paths *)
Inductive iroot := IPrefix | IExecPrefix | IBindir | ILibdir | IIncludedir | IDatadir | IMandir.
Inductive root := RSrc | RBuild | RAbs | RInst (k : iroot).

Definition iroot_N (k : iroot) : N :=
  match k with IPrefix => 0 | IExecPrefix => 1 | IBindir => 2 | ILibdir => 3 | IIncludedir => 4
             | IDatadir => 5 | IMandir => 6 end.
Definition iroot_eqb (a b : iroot) : bool := N.eqb (iroot_N a) (iroot_N b).
Definition root_eqb (a b : root) : bool :=
  match a, b with
  | RSrc, RSrc | RBuild, RBuild | RAbs, RAbs => true
  | RInst k, RInst l => iroot_eqb k l
  | _, _ => false
  end.

Definition comps := list str.
Fixpoint comps_eqb (a b : comps) : bool :=
  match a, b with
  | [], [] => true
  | x :: a', y :: b' => str_eqb x y && comps_eqb a' b'
  | _, _ => false
  end.

Record path := mkPath { p_root : root; p_comps : comps; p_dest : bool }.
(* BasePath.__eq__: root, suffix and destdir *)
Definition path_eqb (a b : path) : bool :=
  root_eqb (p_root a) (p_root b) && comps_eqb (p_comps a) (p_comps b) && Bool.eqb (p_dest a) (p_dest b).

(* ------------------------------------------------------------------ file types *)
Inductive ftype := TPhony | TGeneric | TDirectory | THeader | TPch | THeaderDir | TMan | TObject | TExe
                 | TShared | TLinkLib | TVerLib | TStatic | TPc.
Definition ftype_N (t : ftype) : N :=
  match t with TPhony => 0 | TGeneric => 1 | TDirectory => 2 | THeader => 3 | TPch => 4 | THeaderDir => 5
             | TMan => 6 | TObject => 7 | TExe => 8 | TShared => 9 | TLinkLib => 10 | TVerLib => 11
             | TStatic => 12 | TPc => 13 end.
Definition ftype_eqb (a b : ftype) : bool := N.eqb (ftype_N a) (ftype_N b).

(* file_types.py: class attribute install_root *)
Definition install_root (t : ftype) : option iroot :=
  match t with
  | THeader | THeaderDir => Some IIncludedir
  | TMan => Some IMandir
  | TExe => Some IBindir
  | TObject | TShared | TLinkLib | TVerLib | TStatic | TPc => Some ILibdir
  | TPhony | TGeneric | TDirectory | TPch => None
  end.
(* install_kind: true = 'program', false = 'data' *)
Definition kind_program (t : ftype) : bool :=
  match t with TExe | TShared | TLinkLib | TVerLib => true | _ => false end.
Definition is_dir (t : ftype) : bool := match t with TDirectory | THeaderDir => true | _ => false end.

Definition key := (ftype * path)%type.
(* Node.__eq__: same type and same path *)
Definition key_eqb (a b : key) : bool := ftype_eqb (fst a) (fst b) && path_eqb (snd a) (snd b).

(* options of the link step that post_install looks at: lib(library) with the key of library.runtime_file
   (None for a static library), rpath_dir(path, when) with when = 1 installed, 2 uninstalled, 3 always *)
Inductive lopt := OLib (rt : option key) | ORpath (p : path) (when : N).

(* A file object with what install looks at: type, path, man level, the files of a directory (None when no
   include pattern was given), the options of the step that has a post_install, and install_deps
   (runtime_deps ++ linktime_deps; a DualUseLibrary dependency is flattened to its two members). *)
Inductive file := File (ty : ftype) (p : path) (level : str) (files : option (list key))
                       (post : option (list lopt)) (deps : list file).
Definition f_ty (f : file) := let 'File t _ _ _ _ _ := f in t.
Definition f_path (f : file) := let 'File _ p _ _ _ _ := f in p.
Definition f_level (f : file) := let 'File _ _ l _ _ _ := f in l.
Definition f_files (f : file) := let 'File _ _ _ fs _ _ := f in fs.
Definition f_post (f : file) := let 'File _ _ _ _ po _ := f in po.
Definition f_deps (f : file) := let 'File _ _ _ _ _ d := f in d.
Definition f_key (f : file) : key := (f_ty f, f_path f).

(* Python exceptions: 1 ValueError, 2 TypeError, 3 KeyError *)
Inductive res (A : Type) := Ok (a : A) | Err (e : N).
Arguments Ok {A} a.
Arguments Err {A} e.
Definition bind {A B} (r : res A) (f : A -> res B) : res B :=
  match r with Ok a => f a | Err e => Err e end.

(* ------------------------------------------------------------------ install_suffix, installify *)
Definition basename_comps (c : comps) : comps := match rev c with [] => [] | b :: _ => [b] end.

(* "man" *)
Definition s_man : str := [109; 97; 110].

(* File.install_suffix / Directory.install_suffix / ManPage.install_suffix, as the component list the Path
   constructor makes of it *)
Definition install_suffix (t : ftype) (p : path) (level : str) : comps :=
  if is_dir t then []
  else match t with
       | TMan => (s_man ++ level) :: basename_comps (p_comps p)
       | _ => match p_root p with RSrc => basename_comps (p_comps p) | _ => p_comps p end
       end.

(* the directory= argument of install(): absent (or empty), a string (already split; absolute or not), or a
   Path object *)
Inductive dirarg := DNone | DStr (abs : bool) (c : comps) | DPath (p : path).

(* pathfn inside installify (host flavour: destdir = True) for a non-private file *)
Definition pathfn (d : dirarg) (t : ftype) (p : path) (level : str) : res path :=
  match p_root p with
  | RSrc | RBuild =>
      bind (match d with
            | DPath ip => match p_root ip with RInst _ => Ok ip | _ => Err 1 end
            | _ => match install_root t with
                   | None => Err 2
                   | Some k => Ok (match d with
                                   | DStr true c => mkPath RAbs c false
                                   | DStr false c => mkPath (RInst k) c false
                                   | _ => mkPath (RInst k) [] false
                                   end)
                   end
            end)
           (fun ir => Ok (mkPath (p_root ir) (p_comps ir ++ install_suffix t p level) true))
  | _ => Err 1
  end.

Fixpoint check_files (d : dirarg) (l : list key) : res unit :=
  match l with
  | [] => Ok tt
  | (t, p) :: r => bind (pathfn d t p []) (fun _ => check_files d r)
  end.

(* installify(file, directory=d).path ; the recursive clone also maps the files of a directory *)
Definition installify (d : dirarg) (f : file) : res path :=
  match f_ty f with
  | TPhony => Err 2
  | _ => bind (pathfn d (f_ty f) (f_path f) (f_level f))
              (fun dst => bind (match f_files f with Some l => check_files d l | None => Ok tt end)
                               (fun _ => Ok dst))
  end.

(* ------------------------------------------------------------------ InstallOutputs *)
Definition host := list (file * path).

Fixpoint lookup (k : key) (h : host) : option (file * path) :=
  match h with
  | [] => None
  | e :: r => if key_eqb (f_key (fst e)) k then Some e else lookup k r
  end.

Definition record (f : file) (dst : path) (h : host) : res host :=
  match lookup (f_key f) h with
  | Some (_, old) => if path_eqb old dst then Ok h else Err 1
  | None => Ok (h ++ [(f, dst)])
  end.

(* InstallOutputs._add_implicit for one member of item.all *)
Fixpoint add_implicit (d : dirarg) (f : file) (h : host) {struct f} : res host :=
  bind (installify d f) (fun dst =>
  bind (record f dst h) (fun h1 =>
    (fix go (ds : list file) (h : host) {struct ds} : res host :=
       match ds with
       | [] => Ok h
       | x :: r => bind (add_implicit d x h) (go r)
       end) (f_deps f) h1)).

Fixpoint add_all (d : dirarg) (fs : list file) (h : host) : res host :=
  match fs with
  | [] => Ok h
  | x :: r => bind (add_implicit d x h) (add_all d r)
  end.

(* a sequence of install(item, directory=d) calls; an item is the list item.all *)
Definition call := (dirarg * list file)%type.
Fixpoint add_calls (cs : list call) (h : host) : res host :=
  match cs with
  | [] => Ok h
  | (d, fs) :: r => bind (add_all d fs h) (add_calls r)
  end.

(* ------------------------------------------------------------------ commands *)
Definition s_dot : str := [46].
Definition s_dotdot : str := [46; 46].

Fixpoint strip_common (a b : comps) : comps * comps :=
  match a, b with
  | x :: a', y :: b' => if str_eqb x y then strip_common a' b' else (a, b)
  | _, _ => (a, b)
  end.
(* posixpath.relpath(a or '.', b or '.') on normalised relative paths *)
Definition relcomps (a b : comps) : comps :=
  let '(a', b') := strip_common a b in
  match repeat s_dotdot (length b') ++ a' with [] => [s_dot] | l => l end.

(* i.path.relpath(src.path) for files under a source/build directory *)
Definition relpath (fp dp : path) : res comps :=
  if root_eqb (p_root fp) (p_root dp) then Ok (relcomps (p_comps fp) (p_comps dp)) else Err 1.

Inductive cmd :=
| COnto (prog : bool) (isdir : bool) (src dst : path)
| CInto (prog : bool) (cdir : option path) (rels : list comps) (dst : path)
| CPatch (rpaths : list path) (f : path)
| CRm (ps : list path).

Fixpoint map_res {A B} (f : A -> res B) (l : list A) : res (list B) :=
  match l with
  | [] => Ok []
  | x :: r => bind (f x) (fun y => bind (map_res f r) (fun ys => Ok (y :: ys)))
  end.

(* tools/common.py not_buildroot *)
Definition not_buildroot (p : path) : bool := negb (path_eqb p (mkPath RBuild [] false)).

Definition install_line (e : file * path) : res cmd :=
  let '(src, dst) := e in
  let prog := kind_program (f_ty src) in
  match (if is_dir (f_ty src) then f_files src else None) with
  | Some l => bind (map_res (fun k => relpath (snd k) (f_path src)) l) (fun rels =>
              Ok (CInto prog (if not_buildroot (f_path src) then Some (f_path src) else None) rels dst))
  | None => Ok (COnto prog (is_dir (f_ty src)) (f_path src) dst)
  end.

Definition parent (p : path) : res path :=
  match p_comps p with [] => Err 1 | _ => Ok (mkPath (p_root p) (removelast (p_comps p)) (p_dest p)) end.
Definition undest (p : path) : path := mkPath (p_root p) (p_comps p) false.

Fixpoint uniques (seen : list path) (l : list path) : list path :=
  match l with
  | [] => []
  | x :: r => if existsb (path_eqb x) seen then uniques seen r else x :: uniques (x :: seen) r
  end.

(* patchelf.post_install over the options, accumulating (rpaths, changed) *)
Fixpoint post_opts (h : host) (out : path) (os : list lopt) (acc : list path) (changed : bool)
  : res (list path * bool) :=
  match os with
  | [] => Ok (acc, changed)
  | OLib None :: r => post_opts h out r acc changed
  | OLib (Some k) :: r =>
      bind (parent (undest (snd k))) (fun rp =>
      let local_is_str := match p_root rp with RSrc | RBuild => root_eqb (p_root rp) (p_root out) | _ => false end in
      bind (match lookup k h with
            | Some (_, dst) => parent (undest dst)
            | None => match p_root (snd k) with RAbs => Ok rp | _ => Err 3 end
            end) (fun inst =>
      post_opts h out r (acc ++ [inst]) (changed || local_is_str || negb (path_eqb rp inst))))
  | ORpath p w :: r =>
      post_opts h out r (if N.testbit w 0 then acc ++ [p] else acc) (changed || negb (N.eqb w 3))
  end.

Definition post_install (h : host) (f : file) : res (option cmd) :=
  match f_post f with
  | None => Ok None
  | Some os =>
      bind (post_opts h (f_path f) os [] false) (fun r =>
      if snd r then
        match lookup (f_key f) h with
        | Some (_, dst) => Ok (Some (CPatch (uniques [] (fst r)) dst))
        | None => Err 3
        end
      else Ok None)
  end.

Fixpoint somes {A} (l : list (option A)) : list A :=
  match l with [] => [] | Some x :: r => x :: somes r | None :: r => somes r end.

(* _install_files *)
Definition install_files (h : host) : res (list cmd) :=
  bind (map_res install_line h) (fun lines =>
  bind (map_res (fun e => post_install h (fst e)) h) (fun posts =>
  Ok (lines ++ somes posts))).

(* BasePath.append(rel) for a relative string: join and normalise; leaving the root is a ValueError, except
   that normpath keeps an absolute path at the root *)
Fixpoint append_rev (isabs : bool) (stack : comps) (rel : comps) : res comps :=
  match rel with
  | [] => Ok (rev stack)
  | c :: r =>
      if str_eqb c s_dot then append_rev isabs stack r
      else if str_eqb c s_dotdot then
             match stack with
             | _ :: st => append_rev isabs st r
             | [] => if isabs then append_rev isabs [] r else Err 1
             end
           else append_rev isabs (c :: stack) r
  end.
Definition append (p : path) (rel : comps) : res path :=
  bind (append_rev (match p_root p with RAbs => true | _ => false end) (rev (p_comps p)) rel)
       (fun c => Ok (mkPath (p_root p) c (p_dest p))).

Definition uninstall_line (e : file * path) : res (list path) :=
  let '(src, dst) := e in
  if is_dir (f_ty src) then
    match f_files src with
    | None => Ok []
    | Some l => map_res (fun k => bind (relpath (snd k) (f_path src)) (append dst)) l
    end
  else Ok [dst].

(* _uninstall_files; explicit_nonempty = bool(install_outputs) *)
Definition uninstall_files (explicit_nonempty : bool) (h : host) : res (list cmd) :=
  if explicit_nonempty then
    bind (map_res uninstall_line h) (fun ls => Ok [CRm (concat ls)])
  else Ok [].

(* ------------------------------------------------------------------ realisation as words of the build file *)
Inductive var := VDestdir | VSrcdir | VInst (k : iroot) | VDoppelData | VDoppelProg | VPatchelf | VRm.
Inductive piece := PV (v : var) | PL (s : str).
Definition word := list piece.

Fixpoint join_sep (sep : str) (l : list str) : str :=
  match l with
  | [] => []
  | [x] => x
  | x :: r => x ++ sep ++ join_sep sep r
  end.
Definition s_slash : str := [c_slash].
Definition sfx (c : comps) : str := join_sep s_slash c.

(* BasePath.realize(path_vars, executable); dd = DestDir.destdir in path_vars (env.supports_destdir);
   the build directory has no variable in either backend *)
Definition realize (dd exe : bool) (p : path) : word :=
  let isabs := match p_root p with RAbs => true | _ => false end in
  let suffix := if isabs then c_slash :: sfx (p_comps p) else sfx (p_comps p) in
  let base0 : option word :=
    match p_root p with
    | RAbs | RBuild => None
    | RSrc => Some [PV VSrcdir]
    | RInst k => Some [PV (VInst k)]
    end in
  let base1 := match base0 with
               | None => if exe && negb isabs && match p_comps p with _ :: _ :: _ => false | _ => true end
                         then Some [PL s_dot] else None
               | b => b
               end in
  let base2 := if p_dest p && dd then Some (PV VDestdir :: match base1 with None => [] | Some b => b end)
               else base1 in
  match base2 with
  | None => [PL (match suffix with [] => s_dot | _ => suffix end)]
  | Some b => match suffix with
              | [] => b
              | _ => b ++ [PL (if isabs then suffix else c_slash :: suffix)]
              end
  end.

Fixpoint tween (sep : word) (l : list word) : word :=
  match l with
  | [] => []
  | [x] => x
  | x :: r => x ++ sep ++ tween sep r
  end.

Definition s_p : str := [45; 112].                 (* -p *)
Definition s_ipN : str := [45; 105; 112; 78].      (* -ipN *)
Definition s_C : str := [45; 67].                  (* -C *)
Definition s_set_rpath : str := [45; 45; 115; 101; 116; 45; 114; 112; 97; 116; 104].
Definition s_colon : str := [c_colon].

(* doppel._call_onto / _call_into, patchelf._call, rm._call: the argument words of one command *)
Definition cmd_words (dd : bool) (c : cmd) : list word :=
  match c with
  | COnto prog _ s d =>
      [[PV (if prog then VDoppelProg else VDoppelData)]; [PL s_p]; realize dd true s; realize dd true d]
  | CInto prog cdir rels d =>
      [[PV (if prog then VDoppelProg else VDoppelData)]; [PL s_ipN]] ++
      (match cdir with Some cd => [[PL s_C]; realize dd true cd] | None => [] end) ++
      map (fun r => [PL (sfx r)]) rels ++ [realize dd true d]
  | CPatch rps f =>
      [[PV VPatchelf]; [PL s_set_rpath]; tween [PL s_colon] (map (realize dd true) rps); realize dd true f]
  | CRm ps => [PV VRm] :: map (realize dd true) ps
  end.

(* evaluation of a word under a variable valuation (what Make + sh deliver; C01 covers that channel) *)
Definition eval_piece (env : var -> str) (x : piece) : str := match x with PV v => env v | PL s => s end.
Definition eval_word (env : var -> str) (w : word) : str := concat (map (eval_piece env) w).
Definition ev (env : var -> str) (p : path) : str := eval_word env (realize true true p).

(* value of the install-directory variables: prefix := ..., exec_prefix := $(prefix), bindir := $(exec_prefix)/bin ...
   from the table env.install_dirs; fuel = length of the longest chain + 1 *)
Fixpoint ival (idirs : iroot -> path) (fuel : nat) (k : iroot) : str :=
  match fuel with
  | O => []
  | S n => eval_word (fun v => match v with VInst k' => ival idirs n k' | _ => [] end)
                     (realize false false (idirs k))
  end.
Definition mkenv (destdir srcdir : str) (idirs : iroot -> path) (v : var) : str :=
  match v with
  | VDestdir => destdir
  | VSrcdir => srcdir
  | VInst k => ival idirs 8 k
  | _ => []
  end.

(* ------------------------------------------------------------------ what the tools do (specification) *)
(* content of an installed file: the name of the source it was copied from, and the rpath patchelf set *)
Definition content := (str * option str)%type.
Definition fsys := list (str * content).

Fixpoint fs_get (k : str) (fs : fsys) : option content :=
  match fs with
  | [] => None
  | (k', v) :: r => if str_eqb k' k then Some v else fs_get k r
  end.
Definition fs_rm (k : str) (fs : fsys) : fsys := filter (fun e => negb (str_eqb (fst e) k)) fs.
Definition fs_set (k : str) (v : content) (fs : fsys) : fsys := (k, v) :: fs_rm k fs.

Inductive op := OpCopy (src dst : str) | OpPatch (rp : str) (f : str) | OpRm (p : str).

Definition apply_op (fs : fsys) (o : op) : fsys :=
  match o with
  | OpCopy s d => fs_set d (s, None) fs
  | OpPatch rp f => match fs_get f fs with Some (s, _) => fs_set f (s, Some rp) fs | None => fs end
  | OpRm p => fs_rm p fs
  end.
Definition run_ops (ops : list op) (fs : fsys) : fsys := fold_left apply_op ops fs.

(* doppel -p SRC DST copies one file onto DST (a directory source only makes the directory: no file);
   doppel -ipN [-C DIR] F... DST copies DIR/F to DST/F for every F; patchelf --set-rpath R FILE;
   rm -f P... *)
Definition cmd_ops (env : var -> str) (c : cmd) : list op :=
  match c with
  | COnto _ isdir s d => if isdir then [] else [OpCopy (ev env s) (ev env d)]
  | CInto _ cdir rels d =>
      map (fun r => OpCopy (match cdir with Some cd => ev env cd ++ s_slash ++ sfx r | None => sfx r end)
                           (ev env d ++ s_slash ++ sfx r)) rels
  | CPatch rps f => [OpPatch (eval_word env (tween [PL s_colon] (map (realize true true) rps))) (ev env f)]
  | CRm ps => map (fun p => OpRm (ev env p)) ps
  end.
Definition cmds_ops (env : var -> str) (cs : list cmd) : list op := flat_map (cmd_ops env) cs.

Definition copy_dests (ops : list op) : list str :=
  flat_map (fun o => match o with OpCopy _ d => [d] | _ => [] end) ops.
Definition rm_paths (ops : list op) : list str :=
  flat_map (fun o => match o with OpRm p => [p] | _ => [] end) ops.

(* everything at once, for the correspondence: host map, install commands, uninstall commands *)
Definition plan (cs : list call) : res (host * list cmd * list cmd) :=
  bind (add_calls cs []) (fun h =>
  bind (install_files h) (fun ic =>
  bind (uninstall_files (existsb (fun c => match snd c with [] => false | _ => true end) cs) h) (fun uc =>
  Ok (h, ic, uc)))).

(* the command variables: DOPPEL_DATA := $(DOPPEL) -m 644, DOPPEL_PROGRAM := $(DOPPEL), PATCHELF, RM := rm -f
   (doppel.kind_args, _doppel_cmd, tools/rm.py), as argument lists *)
Definition s_doppel : str := [100; 111; 112; 112; 101; 108].
Definition s_patchelf : str := [112; 97; 116; 99; 104; 101; 108; 102].
Definition s_rm : str := [114; 109].
Definition s_f : str := [45; 102].
Definition s_m : str := [45; 109].
Definition s_644 : str := [54; 52; 52].
Definition tool_argv (v : var) : list str :=
  match v with
  | VDoppelData => [s_doppel; s_m; s_644]
  | VDoppelProg => [s_doppel]
  | VPatchelf => [s_patchelf]
  | VRm => [s_rm; s_f]
  | _ => []
  end.
(* argv of a command after evaluation: the command variable splits into its words, every other word is one
   argument *)
Definition cmd_argv (env : var -> str) (c : cmd) : list str :=
  match cmd_words true c with
  | [PV v] :: r => tool_argv v ++ map (eval_word env) r
  | l => map (eval_word env) l
  end.
