(* C15: the hypothesis dirs_ok of the symmetry theorem (uninstall names dst.append(rel), install lets doppel
   write dst/rel, and both are the same string) discharged from structural guards on the host list - what the Path
   class and find_files guarantee of an installed directory:
     - the destination is not rooted in the build directory (install roots / absolute paths only),
     - an absolute destination is not the file-system root (there realize glues a second separator: C12 finding
       realize-base-ends-with-separator),
     - components are plain (non-empty, not . or ..),
     - every listed file lies strictly below the directory (same component prefix).
   Under these, relpath is the remaining components, append is concatenation and realisation is a join. *)
From BFG Require Import Base.Chars Graph.Install Graph.InstallProofs.
From Coq Require Import List NArith Bool.
Import ListNotations.

Definition plainc (c : str) : Prop := c <> [] /\ c <> s_dot /\ c <> s_dotdot.

Lemma plainc_tests c : plainc c -> str_eqb c s_dot = false /\ str_eqb c s_dotdot = false.
Proof.
  intros (_ & H1 & H2). split.
  - destruct (str_eqb c s_dot) eqn:E; [|reflexivity]. apply str_eqb_eq in E. contradiction.
  - destruct (str_eqb c s_dotdot) eqn:E; [|reflexivity]. apply str_eqb_eq in E. contradiction.
Qed.

Lemma append_rev_plain isabs rel : Forall plainc rel -> forall stack,
  append_rev isabs stack rel = Ok (rev stack ++ rel).
Proof.
  induction 1 as [|c r Hc _ IH]; intros stack; cbn [append_rev].
  - rewrite app_nil_r. reflexivity.
  - destruct (plainc_tests c Hc) as [-> ->]. rewrite IH. cbn [rev]. rewrite <- app_assoc. reflexivity.
Qed.

Lemma append_plain p rel : Forall plainc rel ->
  append p rel = Ok (mkPath (p_root p) (p_comps p ++ rel) (p_dest p)).
Proof. intros H. unfold append. rewrite (append_rev_plain _ rel H), rev_involutive. reflexivity. Qed.

Lemma strip_common_prefix d : forall t, strip_common (d ++ t) d = (t, []).
Proof.
  induction d as [|x d IH]; intros t; cbn.
  - destruct t; reflexivity.
  - rewrite str_eqb_refl. apply IH.
Qed.

Lemma relcomps_below d t : t <> [] -> relcomps (d ++ t) d = t.
Proof. intros H. unfold relcomps. rewrite strip_common_prefix. cbn. destruct t; [congruence|reflexivity]. Qed.

Lemma join_sep_app sep a b : a <> [] -> b <> [] -> join_sep sep (a ++ b) = join_sep sep a ++ sep ++ join_sep sep b.
Proof.
  induction a as [|x a IH]; intros Ha Hb; [congruence|].
  destruct a as [|y a].
  - cbn [app]. destruct b as [|z b]; [congruence|]. reflexivity.
  - change ((x :: y :: a) ++ b) with (x :: (y :: a) ++ b).
    change (join_sep sep (x :: (y :: a) ++ b)) with (x ++ sep ++ join_sep sep ((y :: a) ++ b)).
    rewrite IH; [|discriminate|exact Hb].
    change (join_sep sep (x :: y :: a)) with (x ++ sep ++ join_sep sep (y :: a)).
    rewrite <- !app_assoc. reflexivity.
Qed.

Lemma sfx_nonnil c : c <> [] -> Forall plainc c -> sfx c <> [].
Proof.
  intros Hn Hp. destruct c as [|x r]; [congruence|]. inversion Hp as [|? ? [Hx _] _]; subst.
  unfold sfx. destruct r; cbn; destruct x; try congruence; discriminate.
Qed.

Ltac fin := cbn; repeat (progress (rewrite ?app_nil_r, <- ?app_assoc; cbn)); reflexivity.

(* the structural guard on one destination *)
Definition dest_ok (d : path) : Prop :=
  p_root d <> RBuild /\ (p_root d = RAbs -> p_comps d <> []) /\ Forall plainc (p_comps d).

(* realisation of dst/rel is the realisation of dst, a separator, and the joined rel *)
Lemma ev_append env d rel : dest_ok d -> rel <> [] -> Forall plainc rel ->
  ev env (mkPath (p_root d) (p_comps d ++ rel) (p_dest d)) = ev env d ++ s_slash ++ sfx rel.
Proof.
  intros (Hb & Ha & Hp) Hn Hr.
  assert (Hq : Forall plainc (p_comps d ++ rel)) by (apply Forall_app; split; assumption).
  assert (Nq : p_comps d ++ rel <> []) by (destruct (p_comps d); [exact Hn|discriminate]).
  assert (Sq := sfx_nonnil _ Nq Hq). assert (Sr := sfx_nonnil _ Hn Hr).
  destruct d as [r cs dd]. cbn [p_root p_comps p_dest] in *. unfold ev, realize. cbn [p_root p_comps p_dest].
  destruct cs as [|c0 cs'].
  - (* the destination is the root directory of its (non-absolute, non-build) root *)
    cbn [app] in *. destruct r as [| | |k]; [|congruence|exfalso; apply Ha; reflexivity|].
    + destruct (sfx rel) eqn:E; [congruence|]. cbn [sfx join_sep].
      destruct dd; fin.
    + destruct (sfx rel) eqn:E; [congruence|]. cbn [sfx join_sep].
      destruct dd; fin.
  - assert (Nc : c0 :: cs' <> []) by discriminate.
    assert (Sc := sfx_nonnil _ Nc Hp).
    assert (J : sfx ((c0 :: cs') ++ rel) = sfx (c0 :: cs') ++ s_slash ++ sfx rel)
      by (unfold sfx; apply join_sep_app; assumption).
    destruct r as [| | |k]; [|congruence| |].
    + rewrite J. destruct (sfx (c0 :: cs')) eqn:E1; [congruence|].
      destruct dd; fin.
    + rewrite J. destruct dd; fin.
    + rewrite J. destruct (sfx (c0 :: cs')) eqn:E1; [congruence|].
      destruct dd; fin.
Qed.

(* the structural guard on one host entry (source file object, destination) *)
Definition dir_entry_ok (e : file * path) : Prop :=
  is_dir (f_ty (fst e)) = true ->
  dest_ok (snd e) /\
  forall l k, f_files (fst e) = Some l -> In k l ->
    p_root (snd k) = p_root (f_path (fst e)) /\
    exists t, p_comps (snd k) = p_comps (f_path (fst e)) ++ t /\ t <> [] /\ Forall plainc t.

Lemma root_eqb_true a b : a = b -> root_eqb a b = true.
Proof. intros ->. destruct b as [| | |k]; try reflexivity. cbn. unfold iroot_eqb. apply N.eqb_refl. Qed.

Theorem dirs_ok_structural env h : Forall dir_entry_ok h -> dirs_ok env h.
Proof.
  unfold dirs_ok. intros H. rewrite Forall_forall in *. intros e He l k rel q D F I R A.
  destruct (H e He D) as [Hd Hf]. destruct (Hf l k F I) as (Er & t & Et & Nt & Pt).
  unfold relpath in R. rewrite (root_eqb_true _ _ Er), Et, (relcomps_below _ _ Nt) in R.
  inversion R; subst rel. rewrite (append_plain _ t Pt) in A. inversion A; subst q.
  apply ev_append; assumption.
Qed.

(* C15_symmetry with dirs_ok replaced by the structural guard *)
Theorem symmetry_structural : forall cs h ic ps env fs,
  plan cs = Ok (h, ic, [CRm ps]) -> Forall dir_entry_ok h -> posts_on_files h ->
  map (ev env) ps = copy_dests (cmds_ops env ic) /\
  ((forall k, In k (copy_dests (cmds_ops env ic)) -> fs_get k fs = None) ->
   run_ops (cmds_ops env [CRm ps]) (run_ops (cmds_ops env ic) fs) = fs).
Proof.
  intros cs h ic ps env fs P D PF.
  exact (InstallProofs.symmetry cs h ic ps env fs P (dirs_ok_structural env h D) PF).
Qed.
