(* C15 - proofs about the install model. *)
From BFG Require Import Base.Chars Graph.Install.
From Coq Require Import Lia.
Local Open Scope N_scope.

(* ------------------------------------------------------------------ boolean equalities *)
Lemma iroot_eqb_eq a b : iroot_eqb a b = true <-> a = b.
Proof. unfold iroot_eqb. rewrite N.eqb_eq. destruct a, b; cbn; split; intros H; try reflexivity; try discriminate. Qed.

Lemma root_eqb_eq a b : root_eqb a b = true <-> a = b.
Proof.
  destruct a, b; cbn; try (split; [discriminate|discriminate]); try (split; reflexivity).
  rewrite iroot_eqb_eq. split; [intros ->; reflexivity|intros H; inversion H; reflexivity].
Qed.

Lemma comps_eqb_eq a b : comps_eqb a b = true <-> a = b.
Proof.
  revert b; induction a as [|x a IH]; intros [|y b]; cbn; try (split; congruence).
  rewrite andb_true_iff, str_eqb_eq, IH. split; [intros [-> ->]; reflexivity|intros H; inversion H; auto].
Qed.

Lemma path_eqb_eq a b : path_eqb a b = true <-> a = b.
Proof.
  destruct a as [r c d], b as [r' c' d']. unfold path_eqb; cbn.
  rewrite !andb_true_iff, root_eqb_eq, comps_eqb_eq, Bool.eqb_true_iff.
  split; [intros [[-> ->] ->]; reflexivity|intros H; inversion H; auto].
Qed.

Lemma ftype_eqb_eq a b : ftype_eqb a b = true <-> a = b.
Proof. unfold ftype_eqb. rewrite N.eqb_eq. destruct a, b; cbn; split; intros H; try reflexivity; try discriminate. Qed.

Lemma key_eqb_eq a b : key_eqb a b = true <-> a = b.
Proof.
  destruct a as [t p], b as [t' p']. unfold key_eqb; cbn. rewrite andb_true_iff, ftype_eqb_eq, path_eqb_eq.
  split; [intros [-> ->]; reflexivity|intros H; inversion H; auto].
Qed.

(* ------------------------------------------------------------------ induction on file trees *)
Section FileInd.
  Variable P : file -> Prop.
  Hypothesis step : forall t p l fs po ds, Forall P ds -> P (File t p l fs po ds).
  Fixpoint file_ind' (f : file) : P f :=
    match f with
    | File t p l fs po ds =>
        step t p l fs po ds
             ((fix go (ds : list file) : Forall P ds :=
                 match ds with
                 | [] => Forall_nil P
                 | x :: r => Forall_cons x (file_ind' x) (go r)
                 end) ds)
    end.
End FileInd.

(* g is f or one of its transitive install_deps *)
Inductive reach : file -> file -> Prop :=
| reach_refl f : reach f f
| reach_dep f x g : In x (f_deps f) -> reach x g -> reach f g.

Definition keys (h : host) : list key := map (fun e => f_key (fst e)) h.

Lemma lookup_some k h e : lookup k h = Some e -> In e h /\ f_key (fst e) = k.
Proof.
  induction h as [|x h IH]; cbn; [discriminate|].
  destruct (key_eqb (f_key (fst x)) k) eqn:E.
  - intros H; inversion H; subst. split; [now left|now apply key_eqb_eq].
  - intros H. destruct (IH H). split; [now right|assumption].
Qed.

Lemma lookup_none k h : lookup k h = None -> ~ In k (keys h).
Proof.
  induction h as [|x h IH]; cbn; [tauto|].
  destruct (key_eqb (f_key (fst x)) k) eqn:E; [discriminate|].
  intros H [A|A]; [|exact (IH H A)]. apply key_eqb_eq in A. congruence.
Qed.

Lemma record_keys f dst h h1 : record f dst h = Ok h1 ->
  forall k, In k (keys h1) <-> In k (keys h) \/ k = f_key f.
Proof.
  unfold record. destruct (lookup (f_key f) h) as [[g old]|] eqn:L.
  - destruct (path_eqb old dst); [|discriminate]. intros H; inversion H; subst h1. intros k.
    destruct (lookup_some _ _ _ L) as [I K]. split; [tauto|]. intros [A|A]; [assumption|]. subst k.
    unfold keys. rewrite <- K. apply (in_map (fun e => f_key (fst e)) _ _ I).
  - intros H; inversion H; subst h1. intros k. unfold keys. rewrite map_app, in_app_iff. cbn. intuition.
Qed.

Lemma record_inv (Q : file * path -> Prop) f dst h h1 :
  record f dst h = Ok h1 -> Forall Q h -> Q (f, dst) -> Forall Q h1.
Proof.
  unfold record. destruct (lookup (f_key f) h) as [[g old]|].
  - destruct (path_eqb old dst); [|discriminate]. intros H; inversion H; subst; auto.
  - intros H; inversion H; subst. intros A B. apply Forall_app. split; [assumption|]. constructor; [assumption|constructor].
Qed.

(* unfolding of add_implicit *)
Fixpoint add_deps (d : dirarg) (ds : list file) (h : host) : res host :=
  match ds with
  | [] => Ok h
  | x :: r => bind (add_implicit d x h) (add_deps d r)
  end.

Lemma add_implicit_unfold d f h :
  add_implicit d f h = bind (installify d f) (fun dst => bind (record f dst h) (fun h1 => add_deps d (f_deps f) h1)).
Proof.
  destruct f as [t p l fs po ds]. cbn [add_implicit f_deps].
  destruct (installify d (File t p l fs po ds)) as [dst|e]; cbn [bind]; [|reflexivity].
  destruct (record (File t p l fs po ds) dst h) as [h1|e]; cbn [bind]; [|reflexivity].
  revert h1. induction ds as [|x r IH]; intros h1; cbn; [reflexivity|].
  destruct (add_implicit d x h1); cbn; [apply IH|reflexivity].
Qed.

Lemma add_all_is_add_deps d fs h : add_all d fs h = add_deps d fs h.
Proof. revert h; induction fs as [|x r IH]; intros h; cbn; [reflexivity|]. destruct (add_implicit d x h); cbn; auto. Qed.

(* the keys added by one _add_implicit call are exactly those of the files reachable from the item *)
Lemma add_implicit_keys d f : forall h h', add_implicit d f h = Ok h' ->
  forall k, In k (keys h') <-> In k (keys h) \/ exists g, reach f g /\ f_key g = k.
Proof.
  induction f as [t p l fs po ds IH] using file_ind'. intros h h'. rewrite add_implicit_unfold.
  set (f := File t p l fs po ds) in *.
  destruct (installify d f) as [dst|e]; cbn [bind]; [|discriminate].
  destruct (record f dst h) as [h1|e] eqn:R; cbn [bind]; [|discriminate].
  pose proof (record_keys _ _ _ _ R) as RK. cbn [f_deps f].
  assert (G : forall ds', (forall x, In x ds' -> In x ds) -> Forall (fun x => forall h h', add_implicit d x h = Ok h' ->
              forall k, In k (keys h') <-> In k (keys h) \/ exists g, reach x g /\ f_key g = k) ds' ->
            forall h1 h', add_deps d ds' h1 = Ok h' ->
            forall k, In k (keys h') <-> In k (keys h1) \/ exists x g, In x ds' /\ reach x g /\ f_key g = k).
  { clear. induction ds' as [|x r IHr]; intros Sub F h1 h' H k.
    - cbn in H. inversion H; subst. split; [tauto|]. intros [A|[x [g [[] _]]]]. assumption.
    - cbn in H. destruct (add_implicit d x h1) as [h2|e] eqn:E; cbn in H; [|discriminate].
      inversion F as [|? ? Fx Fr]; subst.
      rewrite (IHr (fun y Hy => Sub y (or_intror Hy)) Fr _ _ H k), (Fx _ _ E k). split.
      + intros [[A|[g [A B]]]|[y [g [A [B C]]]]]; [now left| |].
        * right. exists x, g. split; [now left|tauto].
        * right. exists y, g. split; [now right|tauto].
      + intros [A|[y [g [[A|A] [B C]]]]]; [tauto| |].
        * subst y. left. right. exists g. tauto.
        * right. exists y, g. tauto. }
  intros H k. rewrite (G ds (fun x Hx => Hx) IH _ _ H k), RK. split.
  - intros [[A|A]|[x [g [A [B C]]]]]; [now left| |].
    + right. exists f. split; [constructor|congruence].
    + right. exists g. split; [|assumption]. apply reach_dep with x; assumption.
  - intros [A|[g [A B]]]; [tauto|]. inversion A; subst.
    + left. right. reflexivity.
    + right. exists x, g. tauto.
Qed.

Lemma add_deps_keys d fs : forall h h', add_deps d fs h = Ok h' ->
  forall k, In k (keys h') <-> In k (keys h) \/ exists f g, In f fs /\ reach f g /\ f_key g = k.
Proof.
  induction fs as [|x r IH]; intros h h' H k; cbn in H.
  - inversion H; subst. split; [tauto|]. intros [A|[f [g [[] _]]]]. assumption.
  - destruct (add_implicit d x h) as [h2|e] eqn:E; cbn in H; [|discriminate].
    rewrite (IH _ _ H k), (add_implicit_keys _ _ _ _ E k). split.
    + intros [[A|[g [A B]]]|[f [g [A [B C]]]]]; [now left| |].
      * right. exists x, g. split; [now left|tauto].
      * right. exists f, g. split; [now right|tauto].
    + intros [A|[f [g [[A|A] [B C]]]]]; [tauto| |].
      * subst f. left. right. exists g. tauto.
      * right. exists f, g. tauto.
Qed.

Lemma add_calls_keys cs : forall h h', add_calls cs h = Ok h' ->
  forall k, In k (keys h') <->
            In k (keys h) \/ exists d fs f g, In (d, fs) cs /\ In f fs /\ reach f g /\ f_key g = k.
Proof.
  induction cs as [|[d fs] r IH]; intros h h' H k; cbn in H.
  - inversion H; subst. split; [tauto|]. intros [A|[d [fs [f [g [[] _]]]]]]. assumption.
  - rewrite add_all_is_add_deps in H. destruct (add_deps d fs h) as [h2|e] eqn:E; cbn in H; [|discriminate].
    rewrite (IH _ _ H k), (add_deps_keys _ _ _ _ E k). split.
    + intros [[A|[f [g [A [B C]]]]]|[d' [fs' [f [g [A B]]]]]]; [now left| |].
      * right. exists d, fs, f, g. split; [now left|tauto].
      * right. exists d', fs', f, g. split; [now right|tauto].
    + intros [A|[d' [fs' [f [g [[A|A] B]]]]]]; [tauto| |].
      * inversion A; subst. left. right. exists f, g. tauto.
      * right. exists d', fs', f, g. tauto.
Qed.

(* C15_closure: the installed set is exactly the closure of the explicitly installed items under install_deps *)
Theorem closure : forall cs h, add_calls cs [] = Ok h ->
  forall k, In k (keys h) <-> exists d fs f g, In (d, fs) cs /\ In f fs /\ reach f g /\ f_key g = k.
Proof.
  intros cs h H k. rewrite (add_calls_keys _ _ _ H k). cbn. tauto.
Qed.

(* invariants of the host map: every destination was computed by installify for the directory= of some call *)
Lemma add_implicit_inv (Q : file * path -> Prop) d :
  (forall g dst, installify d g = Ok dst -> Q (g, dst)) ->
  forall f h h', Forall Q h -> add_implicit d f h = Ok h' -> Forall Q h'.
Proof.
  intros HQ f. induction f as [t p l fs po ds IH] using file_ind'. intros h h' Fh. rewrite add_implicit_unfold.
  set (f := File t p l fs po ds) in *.
  destruct (installify d f) as [dst|e] eqn:I; cbn [bind]; [|discriminate].
  destruct (record f dst h) as [h1|e] eqn:R; cbn [bind]; [|discriminate].
  pose proof (record_inv Q _ _ _ _ R Fh (HQ _ _ I)) as F1. cbn [f_deps f]. clear R Fh I.
  revert h1 F1. induction ds as [|x r IHr]; intros h1 F1 H; cbn in H.
  - inversion H; subst; assumption.
  - destruct (add_implicit d x h1) as [h2|e] eqn:E; cbn in H; [|discriminate].
    inversion IH as [|? ? Px Pr]; subst. apply (IHr Pr h2); [|assumption]. apply (Px h1); assumption.
Qed.

Lemma add_calls_inv (Q : file * path -> Prop) cs :
  (forall d fs g dst, In (d, fs) cs -> installify d g = Ok dst -> Q (g, dst)) ->
  forall h h', Forall Q h -> add_calls cs h = Ok h' -> Forall Q h'.
Proof.
  induction cs as [|[d fs] r IH]; intros HQ h h' Fh H; cbn in H.
  - inversion H; subst; assumption.
  - destruct (add_all d fs h) as [h2|e] eqn:E; cbn in H; [|discriminate].
    apply (IH (fun d' fs' g dst A => HQ d' fs' g dst (or_intror A)) h2); [|assumption].
    clear H. revert h Fh E. induction fs as [|x fs' IHf]; intros h Fh E; cbn in E.
    + inversion E; subst; assumption.
    + destruct (add_implicit d x h) as [h3|e] eqn:E3; cbn in E; [|discriminate].
      assert (HQ' : forall d0 fs0 g dst, In (d0, fs0) ((d, fs') :: r) -> installify d0 g = Ok dst -> Q (g, dst)).
      { intros d0 fs0 g dst [A|A]; [inversion A; subst; apply (HQ d0 (x :: fs0)); now left|apply (HQ d0 fs0); now right]. }
      apply (IHf HQ' h3); [|assumption].
      apply (add_implicit_inv Q d (fun g dst => HQ d (x :: fs') g dst (or_introl eq_refl)) x h); assumption.
Qed.

Theorem host_dests : forall cs h, add_calls cs [] = Ok h ->
  Forall (fun e => exists d fs, In (d, fs) cs /\ installify d (fst e) = Ok (snd e)) h.
Proof.
  intros cs h H.
  apply (add_calls_inv (fun e => exists d fs, In (d, fs) cs /\ installify d (fst e) = Ok (snd e)) cs) with (h := []); auto.
  intros d fs g dst A B. exists d, fs. auto.
Qed.

(* ------------------------------------------------------------------ location *)
Definition slash_sfx (c : comps) : str := match sfx c with [] => [] | s => c_slash :: s end.

Lemma eval_word_app env a b : eval_word env (a ++ b) = eval_word env a ++ eval_word env b.
Proof. unfold eval_word. rewrite map_app, concat_app. reflexivity. Qed.

(* a destdir path under an install root evaluates to DESTDIR ++ value of the root ++ / ++ suffix *)
Lemma ev_inst env k c : ev env (mkPath (RInst k) c true) = env VDestdir ++ env (VInst k) ++ slash_sfx c.
Proof.
  unfold ev, realize, slash_sfx, sfx; cbn. destruct (join_sep s_slash c); cbn; rewrite ?app_nil_r; reflexivity.
Qed.

Lemma ev_abs env c : ev env (mkPath RAbs c true) = env VDestdir ++ c_slash :: sfx c.
Proof. unfold ev, realize; cbn. rewrite app_nil_r. reflexivity. Qed.

Lemma installify_pathfn d f dst : installify d f = Ok dst -> pathfn d (f_ty f) (f_path f) (f_level f) = Ok dst.
Proof.
  unfold installify. destruct (f_ty f) eqn:T; try discriminate;
  (destruct (pathfn d _ (f_path f) (f_level f)) as [x|e]; cbn [bind]; [|discriminate];
   destruct (match f_files f with Some l => check_files d l | None => Ok tt end); cbn [bind]; congruence).
Qed.

(* where pathfn puts a file, by the directory= argument *)
Definition dir_of (d : dirarg) (t : ftype) : res (root * comps) :=
  match d with
  | DPath ip => match p_root ip with RInst k => Ok (RInst k, p_comps ip) | _ => Err 1 end
  | DStr true c => match install_root t with Some _ => Ok (RAbs, c) | None => Err 2 end
  | DStr false c => match install_root t with Some k => Ok (RInst k, c) | None => Err 2 end
  | DNone => match install_root t with Some k => Ok (RInst k, []) | None => Err 2 end
  end.

Lemma pathfn_spec d t p l dst : pathfn d t p l = Ok dst ->
  (p_root p = RSrc \/ p_root p = RBuild) /\
  exists r c, dir_of d t = Ok (r, c) /\ dst = mkPath r (c ++ install_suffix t p l) true.
Proof.
  unfold pathfn, dir_of. intros H.
  assert (R : p_root p = RSrc \/ p_root p = RBuild) by (destruct (p_root p); try discriminate; auto).
  split; [assumption|].
  assert (H' : bind (match d with
            | DPath ip => match p_root ip with RInst _ => Ok ip | _ => Err 1 end
            | _ => match install_root t with
                   | None => Err 2
                   | Some k => Ok (match d with
                                   | DStr true c => mkPath RAbs c false
                                   | DStr false c => mkPath (RInst k) c false
                                   | _ => mkPath (RInst k) [] false
                                   end)
                   end
            end) (fun ir => Ok (mkPath (p_root ir) (p_comps ir ++ install_suffix t p l) true)) = Ok dst).
  { destruct R as [R|R]; rewrite R in H; exact H. }
  clear H. destruct d as [|ab c|ip].
  - destruct (install_root t) as [k|]; cbn in H'; [|discriminate]. inversion H'; subst. eauto.
  - destruct (install_root t) as [k|]; cbn in H'; [|discriminate]. destruct ab; inversion H'; subst; eauto.
  - destruct (p_root ip) eqn:E; cbn in H'; try discriminate. inversion H'; subst. rewrite E. eauto.
Qed.

(* C15_location: install(f) without directory= goes to DESTDIR + directory of the kind + / + install_suffix *)
Theorem location : forall env t p l dst,
  pathfn DNone t p l = Ok dst ->
  exists k, install_root t = Some k /\
            ev env dst = env VDestdir ++ env (VInst k) ++ slash_sfx (install_suffix t p l).
Proof.
  intros env t p l dst H. destruct (pathfn_spec _ _ _ _ _ H) as [_ [r [c [D E]]]].
  cbn in D. destruct (install_root t) as [k|]; [|discriminate]. inversion D; subst. exists k. split; [reflexivity|].
  apply ev_inst.
Qed.

(* with directory=: a relative string goes below the directory of the kind, a Path below its install root, an
   absolute string below DESTDIR *)
Theorem location_directory : forall env d t p l dst,
  pathfn d t p l = Ok dst ->
  exists r c, dir_of d t = Ok (r, c) /\ p_dest dst = true /\
    ev env dst = env VDestdir ++ match r with
                                 | RInst k => env (VInst k) ++ slash_sfx (c ++ install_suffix t p l)
                                 | _ => c_slash :: sfx (c ++ install_suffix t p l)
                                 end.
Proof.
  intros env d t p l dst H. destruct (pathfn_spec _ _ _ _ _ H) as [_ [r [c [D E]]]].
  exists r, c. split; [assumption|]. subst dst. split; [reflexivity|].
  destruct r.
  - destruct d as [|[] ?|ip]; cbn in D; try destruct (install_root t); try destruct (p_root ip); discriminate.
  - destruct d as [|[] ?|ip]; cbn in D; try destruct (install_root t); try destruct (p_root ip); discriminate.
  - apply ev_abs.
  - apply ev_inst.
Qed.
