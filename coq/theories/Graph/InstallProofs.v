(* C15 - proofs about the install model. *)
From BFG Require Import Base.Chars Graph.Install.
From Coq Require Import Lia.
Local Open Scope N_scope.

(* ------------------------------------------------------------------ boolean equalities *)
Lemma iroot_eqb_eq a b : iroot_eqb a b = true <-> a = b.
Proof. unfold iroot_eqb. rewrite N.eqb_eq. destruct a, b; cbn; split; intros H; try reflexivity; try discriminate. Qed.

Lemma root_eqb_eq a b : root_eqb a b = true <-> a = b.
Proof.
  destruct a, b; cbn; try (split; [discriminate|discriminate]); try (split; reflexivity).
  rewrite iroot_eqb_eq. split; [intros ->; reflexivity|intros H; inversion H; reflexivity].
Qed.

Lemma comps_eqb_eq a b : comps_eqb a b = true <-> a = b.
Proof.
  revert b; induction a as [|x a IH]; intros [|y b]; cbn; try (split; congruence).
  rewrite andb_true_iff, str_eqb_eq, IH. split; [intros [-> ->]; reflexivity|intros H; inversion H; auto].
Qed.

Lemma path_eqb_eq a b : path_eqb a b = true <-> a = b.
Proof.
  destruct a as [r c d], b as [r' c' d']. unfold path_eqb; cbn.
  rewrite !andb_true_iff, root_eqb_eq, comps_eqb_eq, Bool.eqb_true_iff.
  split; [intros [[-> ->] ->]; reflexivity|intros H; inversion H; auto].
Qed.

Lemma ftype_eqb_eq a b : ftype_eqb a b = true <-> a = b.
Proof. unfold ftype_eqb. rewrite N.eqb_eq. destruct a, b; cbn; split; intros H; try reflexivity; try discriminate. Qed.

Lemma key_eqb_eq a b : key_eqb a b = true <-> a = b.
Proof.
  destruct a as [t p], b as [t' p']. unfold key_eqb; cbn. rewrite andb_true_iff, ftype_eqb_eq, path_eqb_eq.
  split; [intros [-> ->]; reflexivity|intros H; inversion H; auto].
Qed.

(* ------------------------------------------------------------------ induction on file trees *)
Section FileInd.
  Variable P : file -> Prop.
  Hypothesis step : forall t p l fs po ds, Forall P ds -> P (File t p l fs po ds).
  Fixpoint file_ind' (f : file) : P f :=
    match f with
    | File t p l fs po ds =>
        step t p l fs po ds
             ((fix go (ds : list file) : Forall P ds :=
                 match ds with
                 | [] => Forall_nil P
                 | x :: r => Forall_cons x (file_ind' x) (go r)
                 end) ds)
    end.
End FileInd.

(* g is f or one of its transitive install_deps *)
Inductive reach : file -> file -> Prop :=
| reach_refl f : reach f f
| reach_dep f x g : In x (f_deps f) -> reach x g -> reach f g.

Definition keys (h : host) : list key := map (fun e => f_key (fst e)) h.

Lemma lookup_some k h e : lookup k h = Some e -> In e h /\ f_key (fst e) = k.
Proof.
  induction h as [|x h IH]; cbn; [discriminate|].
  destruct (key_eqb (f_key (fst x)) k) eqn:E.
  - intros H; inversion H; subst. split; [now left|now apply key_eqb_eq].
  - intros H. destruct (IH H). split; [now right|assumption].
Qed.

Lemma lookup_none k h : lookup k h = None -> ~ In k (keys h).
Proof.
  induction h as [|x h IH]; cbn; [tauto|].
  destruct (key_eqb (f_key (fst x)) k) eqn:E; [discriminate|].
  intros H [A|A]; [|exact (IH H A)]. apply key_eqb_eq in A. congruence.
Qed.

Lemma record_keys f dst h h1 : record f dst h = Ok h1 ->
  forall k, In k (keys h1) <-> In k (keys h) \/ k = f_key f.
Proof.
  unfold record. destruct (lookup (f_key f) h) as [[g old]|] eqn:L.
  - destruct (path_eqb old dst); [|discriminate]. intros H; inversion H; subst h1. intros k.
    destruct (lookup_some _ _ _ L) as [I K]. split; [tauto|]. intros [A|A]; [assumption|]. subst k.
    unfold keys. rewrite <- K. apply (in_map (fun e => f_key (fst e)) _ _ I).
  - intros H; inversion H; subst h1. intros k. unfold keys. rewrite map_app, in_app_iff. cbn. intuition.
Qed.

Lemma record_inv (Q : file * path -> Prop) f dst h h1 :
  record f dst h = Ok h1 -> Forall Q h -> Q (f, dst) -> Forall Q h1.
Proof.
  unfold record. destruct (lookup (f_key f) h) as [[g old]|].
  - destruct (path_eqb old dst); [|discriminate]. intros H; inversion H; subst; auto.
  - intros H; inversion H; subst. intros A B. apply Forall_app. split; [assumption|]. constructor; [assumption|constructor].
Qed.

(* unfolding of add_implicit *)
Fixpoint add_deps (d : dirarg) (ds : list file) (h : host) : res host :=
  match ds with
  | [] => Ok h
  | x :: r => bind (add_implicit d x h) (add_deps d r)
  end.

Lemma add_implicit_unfold d f h :
  add_implicit d f h = bind (installify d f) (fun dst => bind (record f dst h) (fun h1 => add_deps d (f_deps f) h1)).
Proof.
  destruct f as [t p l fs po ds]. cbn [add_implicit f_deps].
  destruct (installify d (File t p l fs po ds)) as [dst|e]; cbn [bind]; [|reflexivity].
  destruct (record (File t p l fs po ds) dst h) as [h1|e]; cbn [bind]; [|reflexivity].
  revert h1. induction ds as [|x r IH]; intros h1; cbn; [reflexivity|].
  destruct (add_implicit d x h1); cbn; [apply IH|reflexivity].
Qed.

Lemma add_all_is_add_deps d fs h : add_all d fs h = add_deps d fs h.
Proof. revert h; induction fs as [|x r IH]; intros h; cbn; [reflexivity|]. destruct (add_implicit d x h); cbn; auto. Qed.

(* the keys added by one _add_implicit call are exactly those of the files reachable from the item *)
Lemma add_implicit_keys d f : forall h h', add_implicit d f h = Ok h' ->
  forall k, In k (keys h') <-> In k (keys h) \/ exists g, reach f g /\ f_key g = k.
Proof.
  induction f as [t p l fs po ds IH] using file_ind'. intros h h'. rewrite add_implicit_unfold.
  set (f := File t p l fs po ds) in *.
  destruct (installify d f) as [dst|e]; cbn [bind]; [|discriminate].
  destruct (record f dst h) as [h1|e] eqn:R; cbn [bind]; [|discriminate].
  pose proof (record_keys _ _ _ _ R) as RK. cbn [f_deps f].
  assert (G : forall ds', (forall x, In x ds' -> In x ds) -> Forall (fun x => forall h h', add_implicit d x h = Ok h' ->
              forall k, In k (keys h') <-> In k (keys h) \/ exists g, reach x g /\ f_key g = k) ds' ->
            forall h1 h', add_deps d ds' h1 = Ok h' ->
            forall k, In k (keys h') <-> In k (keys h1) \/ exists x g, In x ds' /\ reach x g /\ f_key g = k).
  { clear. induction ds' as [|x r IHr]; intros Sub F h1 h' H k.
    - cbn in H. inversion H; subst. split; [tauto|]. intros [A|[x [g [[] _]]]]. assumption.
    - cbn in H. destruct (add_implicit d x h1) as [h2|e] eqn:E; cbn in H; [|discriminate].
      inversion F as [|? ? Fx Fr]; subst.
      rewrite (IHr (fun y Hy => Sub y (or_intror Hy)) Fr _ _ H k), (Fx _ _ E k). split.
      + intros [[A|[g [A B]]]|[y [g [A [B C]]]]]; [now left| |].
        * right. exists x, g. split; [now left|tauto].
        * right. exists y, g. split; [now right|tauto].
      + intros [A|[y [g [[A|A] [B C]]]]]; [tauto| |].
        * subst y. left. right. exists g. tauto.
        * right. exists y, g. tauto. }
  intros H k. rewrite (G ds (fun x Hx => Hx) IH _ _ H k), RK. split.
  - intros [[A|A]|[x [g [A [B C]]]]]; [now left| |].
    + right. exists f. split; [constructor|congruence].
    + right. exists g. split; [|assumption]. apply reach_dep with x; assumption.
  - intros [A|[g [A B]]]; [tauto|]. inversion A; subst.
    + left. right. reflexivity.
    + right. exists x, g. tauto.
Qed.

Lemma add_deps_keys d fs : forall h h', add_deps d fs h = Ok h' ->
  forall k, In k (keys h') <-> In k (keys h) \/ exists f g, In f fs /\ reach f g /\ f_key g = k.
Proof.
  induction fs as [|x r IH]; intros h h' H k; cbn in H.
  - inversion H; subst. split; [tauto|]. intros [A|[f [g [[] _]]]]. assumption.
  - destruct (add_implicit d x h) as [h2|e] eqn:E; cbn in H; [|discriminate].
    rewrite (IH _ _ H k), (add_implicit_keys _ _ _ _ E k). split.
    + intros [[A|[g [A B]]]|[f [g [A [B C]]]]]; [now left| |].
      * right. exists x, g. split; [now left|tauto].
      * right. exists f, g. split; [now right|tauto].
    + intros [A|[f [g [[A|A] [B C]]]]]; [tauto| |].
      * subst f. left. right. exists g. tauto.
      * right. exists f, g. tauto.
Qed.

Lemma add_calls_keys cs : forall h h', add_calls cs h = Ok h' ->
  forall k, In k (keys h') <->
            In k (keys h) \/ exists d fs f g, In (d, fs) cs /\ In f fs /\ reach f g /\ f_key g = k.
Proof.
  induction cs as [|[d fs] r IH]; intros h h' H k; cbn in H.
  - inversion H; subst. split; [tauto|]. intros [A|[d [fs [f [g [[] _]]]]]]. assumption.
  - rewrite add_all_is_add_deps in H. destruct (add_deps d fs h) as [h2|e] eqn:E; cbn in H; [|discriminate].
    rewrite (IH _ _ H k), (add_deps_keys _ _ _ _ E k). split.
    + intros [[A|[f [g [A [B C]]]]]|[d' [fs' [f [g [A B]]]]]]; [now left| |].
      * right. exists d, fs, f, g. split; [now left|tauto].
      * right. exists d', fs', f, g. split; [now right|tauto].
    + intros [A|[d' [fs' [f [g [[A|A] B]]]]]]; [tauto| |].
      * inversion A; subst. left. right. exists f, g. tauto.
      * right. exists d', fs', f, g. tauto.
Qed.

(* C15_closure: the installed set is exactly the closure of the explicitly installed items under install_deps *)
Theorem closure : forall cs h, add_calls cs [] = Ok h ->
  forall k, In k (keys h) <-> exists d fs f g, In (d, fs) cs /\ In f fs /\ reach f g /\ f_key g = k.
Proof.
  intros cs h H k. rewrite (add_calls_keys _ _ _ H k). cbn. tauto.
Qed.

(* invariants of the host map: every destination was computed by installify for the directory= of some call *)
Lemma add_implicit_inv (Q : file * path -> Prop) d :
  (forall g dst, installify d g = Ok dst -> Q (g, dst)) ->
  forall f h h', Forall Q h -> add_implicit d f h = Ok h' -> Forall Q h'.
Proof.
  intros HQ f. induction f as [t p l fs po ds IH] using file_ind'. intros h h' Fh. rewrite add_implicit_unfold.
  set (f := File t p l fs po ds) in *.
  destruct (installify d f) as [dst|e] eqn:I; cbn [bind]; [|discriminate].
  destruct (record f dst h) as [h1|e] eqn:R; cbn [bind]; [|discriminate].
  pose proof (record_inv Q _ _ _ _ R Fh (HQ _ _ I)) as F1. cbn [f_deps f]. clear R Fh I.
  revert h1 F1. induction ds as [|x r IHr]; intros h1 F1 H; cbn in H.
  - inversion H; subst; assumption.
  - destruct (add_implicit d x h1) as [h2|e] eqn:E; cbn in H; [|discriminate].
    inversion IH as [|? ? Px Pr]; subst. apply (IHr Pr h2); [|assumption]. apply (Px h1); assumption.
Qed.

Lemma add_calls_inv (Q : file * path -> Prop) cs :
  (forall d fs g dst, In (d, fs) cs -> installify d g = Ok dst -> Q (g, dst)) ->
  forall h h', Forall Q h -> add_calls cs h = Ok h' -> Forall Q h'.
Proof.
  induction cs as [|[d fs] r IH]; intros HQ h h' Fh H; cbn in H.
  - inversion H; subst; assumption.
  - destruct (add_all d fs h) as [h2|e] eqn:E; cbn in H; [|discriminate].
    apply (IH (fun d' fs' g dst A => HQ d' fs' g dst (or_intror A)) h2); [|assumption].
    clear H. revert h Fh E. induction fs as [|x fs' IHf]; intros h Fh E; cbn in E.
    + inversion E; subst; assumption.
    + destruct (add_implicit d x h) as [h3|e] eqn:E3; cbn in E; [|discriminate].
      assert (HQ' : forall d0 fs0 g dst, In (d0, fs0) ((d, fs') :: r) -> installify d0 g = Ok dst -> Q (g, dst)).
      { intros d0 fs0 g dst [A|A]; [inversion A; subst; apply (HQ d0 (x :: fs0)); now left|apply (HQ d0 fs0); now right]. }
      apply (IHf HQ' h3); [|assumption].
      apply (add_implicit_inv Q d (fun g dst => HQ d (x :: fs') g dst (or_introl eq_refl)) x h); assumption.
Qed.

Theorem host_dests : forall cs h, add_calls cs [] = Ok h ->
  Forall (fun e => exists d fs, In (d, fs) cs /\ installify d (fst e) = Ok (snd e)) h.
Proof.
  intros cs h H.
  apply (add_calls_inv (fun e => exists d fs, In (d, fs) cs /\ installify d (fst e) = Ok (snd e)) cs) with (h := []); auto.
  intros d fs g dst A B. exists d, fs. auto.
Qed.

(* ------------------------------------------------------------------ location *)
Definition slash_sfx (c : comps) : str := match sfx c with [] => [] | s => c_slash :: s end.

Lemma eval_word_app env a b : eval_word env (a ++ b) = eval_word env a ++ eval_word env b.
Proof. unfold eval_word. rewrite map_app, concat_app. reflexivity. Qed.

(* a destdir path under an install root evaluates to DESTDIR ++ value of the root ++ / ++ suffix *)
Lemma ev_inst env k c : ev env (mkPath (RInst k) c true) = env VDestdir ++ env (VInst k) ++ slash_sfx c.
Proof.
  unfold ev, realize, slash_sfx, sfx; cbn. destruct (join_sep s_slash c); cbn; rewrite ?app_nil_r; reflexivity.
Qed.

Lemma ev_abs env c : ev env (mkPath RAbs c true) = env VDestdir ++ c_slash :: sfx c.
Proof. unfold ev, realize; cbn. rewrite app_nil_r. reflexivity. Qed.

Lemma installify_pathfn d f dst : installify d f = Ok dst -> pathfn d (f_ty f) (f_path f) (f_level f) = Ok dst.
Proof.
  unfold installify. destruct (f_ty f) eqn:T; try discriminate;
  (destruct (pathfn d _ (f_path f) (f_level f)) as [x|e]; cbn [bind]; [|discriminate];
   destruct (match f_files f with Some l => check_files d l | None => Ok tt end); cbn [bind]; congruence).
Qed.

(* where pathfn puts a file, by the directory= argument *)
Definition dir_of (d : dirarg) (t : ftype) : res (root * comps) :=
  match d with
  | DPath ip => match p_root ip with RInst k => Ok (RInst k, p_comps ip) | _ => Err 1 end
  | DStr true c => match install_root t with Some _ => Ok (RAbs, c) | None => Err 2 end
  | DStr false c => match install_root t with Some k => Ok (RInst k, c) | None => Err 2 end
  | DNone => match install_root t with Some k => Ok (RInst k, []) | None => Err 2 end
  end.

Lemma pathfn_spec d t p l dst : pathfn d t p l = Ok dst ->
  (p_root p = RSrc \/ p_root p = RBuild) /\
  exists r c, dir_of d t = Ok (r, c) /\ dst = mkPath r (c ++ install_suffix t p l) true.
Proof.
  unfold pathfn, dir_of. intros H.
  assert (R : p_root p = RSrc \/ p_root p = RBuild) by (destruct (p_root p); try discriminate; auto).
  split; [assumption|].
  assert (H' : bind (match d with
            | DPath ip => match p_root ip with RInst _ => Ok ip | _ => Err 1 end
            | _ => match install_root t with
                   | None => Err 2
                   | Some k => Ok (match d with
                                   | DStr true c => mkPath RAbs c false
                                   | DStr false c => mkPath (RInst k) c false
                                   | _ => mkPath (RInst k) [] false
                                   end)
                   end
            end) (fun ir => Ok (mkPath (p_root ir) (p_comps ir ++ install_suffix t p l) true)) = Ok dst).
  { destruct R as [R|R]; rewrite R in H; exact H. }
  clear H. destruct d as [|ab c|ip].
  - destruct (install_root t) as [k|]; cbn in H'; [|discriminate]. inversion H'; subst. eauto.
  - destruct (install_root t) as [k|]; cbn in H'; [|discriminate]. destruct ab; inversion H'; subst; eauto.
  - destruct (p_root ip) eqn:E; cbn in H'; try discriminate. inversion H'; subst. rewrite E. eauto.
Qed.

(* C15_location: install(f) without directory= goes to DESTDIR + directory of the kind + / + install_suffix *)
Theorem location : forall env t p l dst,
  pathfn DNone t p l = Ok dst ->
  exists k, install_root t = Some k /\
            ev env dst = env VDestdir ++ env (VInst k) ++ slash_sfx (install_suffix t p l).
Proof.
  intros env t p l dst H. destruct (pathfn_spec _ _ _ _ _ H) as [_ [r [c [D E]]]].
  cbn in D. destruct (install_root t) as [k|]; [|discriminate]. inversion D; subst. exists k. split; [reflexivity|].
  apply ev_inst.
Qed.

(* with directory=: a relative string goes below the directory of the kind, a Path below its install root, an
   absolute string below DESTDIR *)
Theorem location_directory : forall env d t p l dst,
  pathfn d t p l = Ok dst ->
  exists r c, dir_of d t = Ok (r, c) /\ p_dest dst = true /\
    ev env dst = env VDestdir ++ match r with
                                 | RInst k => env (VInst k) ++ slash_sfx (c ++ install_suffix t p l)
                                 | _ => c_slash :: sfx (c ++ install_suffix t p l)
                                 end.
Proof.
  intros env d t p l dst H. destruct (pathfn_spec _ _ _ _ _ H) as [_ [r [c [D E]]]].
  exists r, c. split; [assumption|]. subst dst. split; [reflexivity|].
  destruct r.
  - destruct d as [|[] ?|ip]; cbn in D; try destruct (install_root t); try destruct (p_root ip); discriminate.
  - destruct d as [|[] ?|ip]; cbn in D; try destruct (install_root t); try destruct (p_root ip); discriminate.
  - apply ev_abs.
  - apply ev_inst.
Qed.

(* ------------------------------------------------------------------ file-system operations *)
Definition mem (k : str) (D : list str) : bool := existsb (str_eqb k) D.
Lemma mem_In k D : mem k D = true <-> In k D.
Proof.
  unfold mem. rewrite existsb_exists. split.
  - intros [x [I E]]. apply str_eqb_eq in E. now subst.
  - intros I. exists k. split; [assumption|apply str_eqb_refl].
Qed.

Definition rm_all (D : list str) (fs : fsys) : fsys := filter (fun e => negb (mem (fst e) D)) fs.

Definition writes (ops : list op) : list str :=
  map (fun o => match o with OpCopy _ d => d | OpPatch _ f => f | OpRm p => p end) ops.

Lemma str_eqb_sym a b : str_eqb a b = str_eqb b a.
Proof.
  destruct (str_eqb a b) eqn:E.
  - apply str_eqb_eq in E. subst. symmetry. apply str_eqb_refl.
  - destruct (str_eqb b a) eqn:E'; [|reflexivity]. apply str_eqb_eq in E'. subst. rewrite str_eqb_refl in E. discriminate.
Qed.

Lemma rm_all_rm d D fs : In d D -> rm_all D (fs_rm d fs) = rm_all D fs.
Proof.
  intros I. unfold rm_all, fs_rm. induction fs as [|[k v] r IH]; cbn; [reflexivity|].
  destruct (str_eqb k d) eqn:E; cbn.
  - apply str_eqb_eq in E. subst k. apply mem_In in I. rewrite I. cbn. exact IH.
  - destruct (mem k D); cbn; [exact IH|now rewrite IH].
Qed.

Lemma rm_all_set d v D fs : In d D -> rm_all D (fs_set d v fs) = rm_all D fs.
Proof.
  intros I. unfold fs_set. unfold rm_all at 1. cbn. pose proof I as I'. apply mem_In in I'. rewrite I'. cbn.
  now apply rm_all_rm.
Qed.

Lemma rm_all_run D ops : forall fs, (forall k, In k (writes ops) -> In k D) -> rm_all D (run_ops ops fs) = rm_all D fs.
Proof.
  induction ops as [|o r IH]; intros fs W; [reflexivity|].
  change (run_ops (o :: r) fs) with (run_ops r (apply_op fs o)).
  rewrite IH by (intros k A; apply W; now right).
  assert (I : In (match o with OpCopy _ d => d | OpPatch _ f => f | OpRm p => p end) D) by (apply W; now left).
  destruct o as [s d|rp f|p]; cbn.
  - now apply rm_all_set.
  - destruct (fs_get f fs) as [[s ?]|]; [now apply rm_all_set|reflexivity].
  - now apply rm_all_rm.
Qed.

Lemma rm_all_cons k D fs : rm_all D (fs_rm k fs) = rm_all (k :: D) fs.
Proof.
  unfold rm_all, fs_rm. induction fs as [|[k' v] r IHr]; [reflexivity|].
  cbn [filter fst].
  change (mem k' (k :: D)) with (str_eqb k' k || mem k' D).
  destruct (str_eqb k' k); cbn [negb orb filter fst]; [exact IHr|].
  destruct (mem k' D); cbn [negb]; [exact IHr|now rewrite IHr].
Qed.

Lemma run_rm D : forall fs, run_ops (map OpRm D) fs = rm_all D fs.
Proof.
  induction D as [|k D IH]; intros fs.
  - unfold rm_all. cbn. induction fs as [|e r IHr]; cbn; [reflexivity|now rewrite <- IHr].
  - change (run_ops (map OpRm (k :: D)) fs) with (run_ops (map OpRm D) (fs_rm k fs)).
    rewrite IH. apply rm_all_cons.
Qed.

Lemma fs_get_cons k k' v r : fs_get k ((k', v) :: r) = if str_eqb k' k then Some v else fs_get k r.
Proof. reflexivity. Qed.

Lemma rm_all_fresh D fs : (forall k, In k D -> fs_get k fs = None) -> rm_all D fs = fs.
Proof.
  induction fs as [|[k v] r IH]; intros F; cbn; [reflexivity|].
  destruct (mem k D) eqn:M; cbn.
  - apply mem_In in M. specialize (F k M). rewrite fs_get_cons, str_eqb_refl in F. discriminate.
  - f_equal. apply IH. intros k' I. specialize (F k' I). rewrite fs_get_cons in F.
    destruct (str_eqb k k') eqn:E; [discriminate|assumption].
Qed.

Lemma rm_all_ext D D' fs : (forall k, In k D' <-> In k D) -> rm_all D' fs = rm_all D fs.
Proof.
  intros H. unfold rm_all. apply filter_ext. intros e. f_equal.
  destruct (mem (fst e) D) eqn:A.
  - apply mem_In. apply H. now apply mem_In.
  - destruct (mem (fst e) D') eqn:B; [|reflexivity]. apply mem_In in B. apply H in B. apply mem_In in B. congruence.
Qed.

(* removing exactly the written paths after writing them restores a file system in which they were fresh *)
Theorem ops_symmetry : forall D D' iops fs,
  (forall k, In k (writes iops) -> In k D) ->
  (forall k, In k D' <-> In k D) ->
  (forall k, In k D -> fs_get k fs = None) ->
  run_ops (map OpRm D') (run_ops iops fs) = fs.
Proof.
  intros D D' iops fs W E F. rewrite run_rm, (rm_all_ext D D' _ E), rm_all_run by assumption. now apply rm_all_fresh.
Qed.

Lemma fs_get_rm k d fs : fs_get k (fs_rm d fs) = if str_eqb d k then None else fs_get k fs.
Proof.
  unfold fs_rm. induction fs as [|[k' v] r IH]; cbn; [now destruct (str_eqb d k)|].
  destruct (str_eqb k' d) eqn:E; cbn.
  - apply str_eqb_eq in E. subst k'. rewrite IH. destruct (str_eqb d k); reflexivity.
  - rewrite IH. destruct (str_eqb k' k) eqn:E2; [|reflexivity].
    apply str_eqb_eq in E2. subst k'. rewrite (str_eqb_sym d k), E. reflexivity.
Qed.

Lemma fs_get_set k d v fs : fs_get k (fs_set d v fs) = if str_eqb d k then Some v else fs_get k fs.
Proof. unfold fs_set. rewrite fs_get_cons, fs_get_rm. destruct (str_eqb d k); reflexivity. Qed.

(* frame: paths that no operation names keep their content *)
Theorem ops_frame : forall ops fs k, ~ In k (writes ops) -> fs_get k (run_ops ops fs) = fs_get k fs.
Proof.
  induction ops as [|o r IH]; intros fs k N; [reflexivity|].
  change (run_ops (o :: r) fs) with (run_ops r (apply_op fs o)).
  rewrite IH by (intros A; apply N; now right).
  assert (D : (match o with OpCopy _ d => d | OpPatch _ f => f | OpRm p => p end) <> k) by (intros A; apply N; now left).
  assert (X : forall d, d <> k -> str_eqb d k = false).
  { intros d Hd. destruct (str_eqb d k) eqn:E; [|reflexivity]. apply str_eqb_eq in E. contradiction. }
  destruct o as [s d|rp f|p]; cbn [apply_op].
  - rewrite fs_get_set, (X d D). reflexivity.
  - destruct (fs_get f fs) as [[s ?]|]; [|reflexivity]. rewrite fs_get_set, (X f D). reflexivity.
  - rewrite fs_get_rm, (X p D). reflexivity.
Qed.

Definition no_rm (ops : list op) : Prop := Forall (fun o => match o with OpRm _ => False | _ => True end) ops.

(* every copy destination exists after a run without removals *)
Theorem ops_created : forall ops fs k, no_rm ops ->
  (In k (copy_dests ops) \/ fs_get k fs <> None) -> fs_get k (run_ops ops fs) <> None.
Proof.
  induction ops as [|o r IH]; intros fs k NR H.
  - destruct H as [[]|H]; assumption.
  - inversion NR as [|? ? No Nr]; subst.
    change (run_ops (o :: r) fs) with (run_ops r (apply_op fs o)). apply IH; [assumption|].
    destruct o as [s d|rp f|p]; cbn [apply_op]; cbn in H, No; try contradiction.
    + destruct H as [[A|A]|A]; [subst d; right|left; assumption|right].
      * rewrite fs_get_set, str_eqb_refl. discriminate.
      * rewrite fs_get_set. destruct (str_eqb d k); [discriminate|assumption].
    + destruct H as [A|A]; [left; assumption|right].
      destruct (fs_get f fs) as [[s ?]|] eqn:G; [|assumption].
      rewrite fs_get_set. destruct (str_eqb f k); [discriminate|assumption].
Qed.

(* ------------------------------------------------------------------ shape of the emitted commands *)
Lemma map_res_Forall2 {A B} (f : A -> res B) : forall l l', map_res f l = Ok l' -> Forall2 (fun x y => f x = Ok y) l l'.
Proof.
  induction l as [|x r IH]; intros l' H; cbn in H.
  - inversion H. constructor.
  - destruct (f x) as [y|e] eqn:E; cbn in H; [|discriminate].
    destruct (map_res f r) as [ys|e]; cbn in H; [|discriminate]. inversion H; subst. constructor; auto.
Qed.

(* a destination: flagged destdir, below an install root or absolute *)
Definition dest_path (p : path) : Prop :=
  p_dest p = true /\ match p_root p with RInst _ | RAbs => True | _ => False end.

Definition cmd_ok (c : cmd) : Prop :=
  match c with
  | COnto _ _ s d => p_dest s = false /\ dest_path d
  | CInto _ cd _ d => match cd with Some x => p_dest x = false | None => True end /\ dest_path d
  | CPatch rps f => Forall (fun p => p_dest p = false) rps /\ dest_path f
  | CRm ps => Forall dest_path ps
  end.

Lemma pathfn_dest d t p l dst : pathfn d t p l = Ok dst -> dest_path dst.
Proof.
  intros H. destruct (pathfn_spec _ _ _ _ _ H) as [_ [r [c [D E]]]]. subst dst. split; [reflexivity|]. cbn.
  destruct d as [|[] ?|ip]; cbn in D; try destruct (install_root t); try destruct (p_root ip); inversion D; exact I.
Qed.

Theorem host_dest_paths : forall cs h, add_calls cs [] = Ok h -> Forall (fun e => dest_path (snd e)) h.
Proof.
  intros cs h H. pose proof (host_dests _ _ H) as F. rewrite Forall_forall in *. intros e I.
  destruct (F e I) as [d [fs [_ X]]]. apply installify_pathfn in X. eapply pathfn_dest; eassumption.
Qed.

Definition srcs_ok (h : host) : Prop := Forall (fun e => p_dest (f_path (fst e)) = false) h.
(* rpath_dir options carry plain (non-destdir) paths *)
Definition rpaths_ok (h : host) : Prop :=
  Forall (fun e => forall os, f_post (fst e) = Some os ->
                   Forall (fun o => match o with ORpath p _ => p_dest p = false | _ => True end) os) h.

Lemma install_line_ok e c : p_dest (f_path (fst e)) = false -> dest_path (snd e) -> install_line e = Ok c -> cmd_ok c.
Proof.
  destruct e as [src dst]. cbn [fst snd]. intros S D. unfold install_line.
  destruct (if is_dir (f_ty src) then f_files src else None) as [l|].
  - match goal with |- context [map_res ?g l] => destruct (map_res g l) as [rels|e] end; cbn [bind]; [|discriminate].
    intros H; inversion H; subst. cbn.
    split; [|assumption]. destruct (not_buildroot (f_path src)); [assumption|exact I].
  - intros H; inversion H; subst. cbn. auto.
Qed.

Lemma parent_undest_nodest p q : parent (undest p) = Ok q -> p_dest q = false.
Proof. unfold parent, undest; cbn. destruct (p_comps p); [discriminate|]. intros H; inversion H; reflexivity. Qed.

Lemma post_opts_nodest h out : forall os acc ch acc' ch',
  Forall (fun o => match o with ORpath p _ => p_dest p = false | _ => True end) os ->
  Forall (fun p => p_dest p = false) acc ->
  post_opts h out os acc ch = Ok (acc', ch') -> Forall (fun p => p_dest p = false) acc'.
Proof.
  induction os as [|o r IH]; intros acc ch acc' ch' Fo Fa H; cbn in H.
  - inversion H; subst; assumption.
  - inversion Fo as [|? ? Po Pr]; subst. destruct o as [[k|]|p w].
    + destruct (parent (undest (snd k))) as [rp|e] eqn:P; cbn [bind] in H; [|discriminate].
      destruct (match lookup k h with Some (_, dst) => parent (undest dst)
                | None => match p_root (snd k) with RAbs => Ok rp | _ => Err 3 end end) as [inst|e] eqn:L;
        cbn [bind] in H; [|discriminate].
      eapply IH; [exact Pr| |exact H]. apply Forall_app. split; [assumption|]. constructor; [|constructor].
      destruct (lookup k h) as [[g dst]|].
      * eapply parent_undest_nodest; eassumption.
      * destruct (p_root (snd k)); try discriminate. inversion L; subst. eapply parent_undest_nodest; eassumption.
    + eapply IH; eassumption.
    + eapply IH; [exact Pr| |exact H]. destruct (N.testbit w 0); [|assumption].
      apply Forall_app. split; [assumption|]. constructor; [assumption|constructor].
Qed.

Lemma uniques_Forall (P : path -> Prop) : forall l seen, Forall P l -> Forall P (uniques seen l).
Proof.
  induction l as [|x r IH]; intros seen F; cbn; [constructor|]. inversion F; subst.
  destruct (existsb (path_eqb x) seen); [auto|constructor; auto].
Qed.

Lemma post_install_ok h f c :
  Forall (fun e => dest_path (snd e)) h ->
  (forall os, f_post f = Some os -> Forall (fun o => match o with ORpath p _ => p_dest p = false | _ => True end) os) ->
  post_install h f = Ok (Some c) -> cmd_ok c.
Proof.
  intros Fd Fr. unfold post_install. destruct (f_post f) as [os|]; [|discriminate].
  destruct (post_opts h (f_path f) os [] false) as [[acc ch]|e] eqn:P; cbn [bind]; [|discriminate].
  cbn [snd fst]. destruct ch; [|discriminate].
  destruct (lookup (f_key f) h) as [[g dst]|] eqn:L; [|discriminate]. intros H; inversion H; subst. cbn. split.
  - apply uniques_Forall. eapply post_opts_nodest; [apply (Fr os eq_refl)|constructor|exact P].
  - destruct (lookup_some _ _ _ L) as [I _]. rewrite Forall_forall in Fd. exact (Fd _ I).
Qed.

Lemma somes_In {A} (l : list (option A)) x : In x (somes l) -> In (Some x) l.
Proof.
  induction l as [|[y|] r IH]; cbn; [tauto| |].
  - intros [E|I]; [left; congruence|right; auto].
  - intros I. right. auto.
Qed.

Lemma Forall2_In_r {A B} (R : A -> B -> Prop) l l' y : Forall2 R l l' -> In y l' -> exists x, In x l /\ R x y.
Proof.
  induction 1 as [|a b l l' Rab F IH]; cbn; [tauto|]. intros [E|I].
  - subst. exists a. auto.
  - destruct (IH I) as [x [Ix Rx]]. exists x. auto.
Qed.

Lemma append_keeps p r q : append p r = Ok q -> p_root q = p_root p /\ p_dest q = p_dest p.
Proof.
  unfold append. destruct (append_rev _ _ r); cbn [bind]; [|discriminate]. intros H; inversion H; auto.
Qed.

Lemma uninstall_line_ok e ps : dest_path (snd e) -> uninstall_line e = Ok ps -> Forall dest_path ps.
Proof.
  destruct e as [src dst]. cbn [snd]. intros D. unfold uninstall_line.
  destruct (is_dir (f_ty src)).
  - destruct (f_files src) as [l|]; [|intros H; inversion H; constructor].
    intros H. apply map_res_Forall2 in H. rewrite Forall_forall. intros q I.
    destruct (Forall2_In_r _ _ _ _ H I) as [k [_ X]].
    destruct (relpath (snd k) (f_path src)) as [r|e]; cbn [bind] in X; [|discriminate].
    destruct (append_keeps _ _ _ X) as [A B]. destruct D as [D1 D2]. split; [congruence|now rewrite A].
  - intros H; inversion H. constructor; [assumption|constructor].
Qed.

(* C15_destdir_override, structural half: in every emitted command the destinations are destdir paths below an
   install root (or absolute), every other path (sources, -C directory, rpath entries) is not *)
Theorem plan_cmds_ok : forall cs h ic uc, plan cs = Ok (h, ic, uc) -> srcs_ok h -> rpaths_ok h ->
  Forall cmd_ok (ic ++ uc).
Proof.
  intros cs h ic uc H S R. unfold plan in H.
  destruct (add_calls cs []) as [h0|e] eqn:A; cbn [bind] in H; [|discriminate].
  destruct (install_files h0) as [ic0|e] eqn:I; cbn [bind] in H; [|discriminate].
  destruct (uninstall_files _ h0) as [uc0|e] eqn:U; cbn [bind] in H; [|discriminate].
  inversion H; subst h0 ic0 uc0. clear H.
  pose proof (host_dest_paths _ _ A) as D.
  apply Forall_app. split.
  - unfold install_files in I.
    destruct (map_res install_line h) as [lines|e] eqn:L; cbn [bind] in I; [|discriminate].
    destruct (map_res (fun e => post_install h (fst e)) h) as [posts|e] eqn:P; cbn [bind] in I; [|discriminate].
    inversion I; subst ic. apply Forall_app. split; rewrite Forall_forall; intros c Ic.
    + destruct (Forall2_In_r _ _ _ _ (map_res_Forall2 _ _ _ L) Ic) as [e [Ie X]].
      unfold srcs_ok in S. rewrite Forall_forall in S, D. eapply install_line_ok; [apply S|apply D|exact X]; assumption.
    + apply somes_In in Ic. destruct (Forall2_In_r _ _ _ _ (map_res_Forall2 _ _ _ P) Ic) as [e [Ie X]].
      unfold rpaths_ok in R. rewrite Forall_forall in R. eapply post_install_ok; [exact D|apply (R e Ie)|exact X].
  - unfold uninstall_files in U.
    match type of U with (if ?b then _ else _) = _ => destruct b end; [|inversion U; constructor].
    destruct (map_res uninstall_line h) as [ls|e] eqn:L; cbn [bind] in U; [|discriminate].
    inversion U; subst uc. constructor; [|constructor]. cbn. rewrite Forall_forall. intros q Iq.
    apply in_concat in Iq. destruct Iq as [ps [Ips Iq]].
    destruct (Forall2_In_r _ _ _ _ (map_res_Forall2 _ _ _ L) Ips) as [e [Ie X]].
    rewrite Forall_forall in D. pose proof (uninstall_line_ok _ _ (D e Ie) X) as F. rewrite Forall_forall in F. auto.
Qed.

(* word-level meaning: a destination is the DESTDIR reference followed by a word that does not mention DESTDIR;
   other paths do not mention it at all *)
Definition no_dd (w : word) : Prop := Forall (fun x => x <> PV VDestdir) w.

Lemma realize_nodd exe p : no_dd (realize false exe p).
Proof.
  unfold realize, no_dd. rewrite andb_false_r.
  destruct p as [r c dflag]; cbn [p_root p_comps p_dest].
  destruct exe; destruct c as [|[|x c1] [|c2 c3]]; destruct r; cbn;
    repeat (apply Forall_cons || apply Forall_nil || (apply Forall_app; split)); discriminate.
Qed.

Lemma realize_dest exe p : dest_path p -> realize true exe p = PV VDestdir :: realize false exe p.
Proof.
  intros [D R]. unfold realize. rewrite D. cbn [andb].
  destruct (p_root p); try contradiction; cbn.
  - rewrite andb_false_r. reflexivity.
  - destruct (sfx (p_comps p)); reflexivity.
Qed.

Lemma realize_nodest exe p : p_dest p = false -> realize true exe p = realize false exe p.
Proof. intros D. unfold realize. rewrite D. reflexivity. Qed.

Definition override (env : var -> str) (d : str) (v : var) : str :=
  match v with VDestdir => d | _ => env v end.

Lemma eval_nodd env d w : no_dd w -> eval_word (override env d) w = eval_word env w.
Proof.
  unfold eval_word. induction 1 as [|x r Hx F IH]; cbn; [reflexivity|]. rewrite IH. f_equal.
  destruct x as [v|s]; cbn; [|reflexivity]. destruct v; try reflexivity. congruence.
Qed.

(* C15_destdir_override, semantic half: a DESTDIR given on the command line replaces the configured one in front
   of every destination and changes nothing else *)
Theorem override_dest : forall env d p, dest_path p ->
  ev (override env d) p = d ++ eval_word env (realize false true p).
Proof.
  intros env d p D. unfold ev. rewrite (realize_dest true p D). unfold eval_word at 1. cbn.
  f_equal. apply eval_nodd. apply realize_nodd.
Qed.

Theorem override_other : forall env d p, p_dest p = false -> ev (override env d) p = ev env p.
Proof.
  intros env d p D. unfold ev. rewrite (realize_nodest true p D). apply eval_nodd. apply realize_nodd.
Qed.

Lemma tween_nodd sep : no_dd sep -> forall l, Forall no_dd l -> no_dd (tween sep l).
Proof.
  intros S. induction l as [|x r IH]; intros F; [constructor|]. inversion F; subst.
  destruct r as [|y r']; [assumption|]. change (tween sep (x :: y :: r')) with (x ++ sep ++ tween sep (y :: r')).
  unfold no_dd in *. apply Forall_app. split; [assumption|]. apply Forall_app. split; auto.
Qed.

(* C15_rpath_installed: the rpath written by patchelf does not depend on DESTDIR *)
Theorem rpath_no_destdir : forall h f rps file env d,
  Forall (fun e => dest_path (snd e)) h ->
  (forall os, f_post f = Some os -> Forall (fun o => match o with ORpath p _ => p_dest p = false | _ => True end) os) ->
  post_install h f = Ok (Some (CPatch rps file)) ->
  eval_word (override env d) (tween [PL s_colon] (map (realize true true) rps)) =
  eval_word env (tween [PL s_colon] (map (realize true true) rps)).
Proof.
  intros h f rps file env d Fd Fr H. pose proof (post_install_ok _ _ _ Fd Fr H) as [F _].
  apply eval_nodd. apply tween_nodd; [constructor; [discriminate|constructor]|].
  rewrite Forall_forall in *. intros w Iw. apply in_map_iff in Iw. destruct Iw as [p [E Ip]]. subst w.
  rewrite (realize_nodest true p (F p Ip)). apply realize_nodd.
Qed.

Lemma uniques_In : forall l seen x, In x (uniques seen l) -> In x l.
Proof.
  induction l as [|y r IH]; intros seen x; cbn; [tauto|].
  destruct (existsb (path_eqb y) seen); [intros I; right; eauto|]. intros [E|I]; [now left|right; eauto].
Qed.

(* ... and consists of the installed directories of the runtime libraries (or their own directory when they are
   absolute, not installed files) and of the rpath_dir options that apply when installed *)
Definition rpath_source (h : host) (os : list lopt) (rp : path) : Prop :=
  (exists k g dst, In (OLib (Some k)) os /\ lookup k h = Some (g, dst) /\ parent (undest dst) = Ok rp) \/
  (exists k, In (OLib (Some k)) os /\ lookup k h = None /\ p_root (snd k) = RAbs /\ parent (undest (snd k)) = Ok rp) \/
  (exists w, In (ORpath rp w) os /\ N.testbit w 0 = true).

Lemma post_opts_sources h out : forall os acc ch acc' ch',
  post_opts h out os acc ch = Ok (acc', ch') ->
  forall rp, In rp acc' -> In rp acc \/ rpath_source h os rp.
Proof.
  induction os as [|o r IH]; intros acc ch acc' ch' H rp I; cbn in H.
  - inversion H; subst. now left.
  - assert (W : forall rp, rpath_source h r rp -> rpath_source h (o :: r) rp).
    { intros q [[k [g [dst [A B]]]]|[[k [A B]]|[w [A B]]]]; [left; exists k, g, dst|right; left; exists k|right; right; exists w];
        (split; [now right|assumption]). }
    destruct o as [[k|]|p w].
    + destruct (parent (undest (snd k))) as [rp0|e] eqn:P; cbn [bind] in H; [|discriminate].
      destruct (match lookup k h with Some (_, dst) => parent (undest dst)
                | None => match p_root (snd k) with RAbs => Ok rp0 | _ => Err 3 end end) as [inst|e] eqn:L;
        cbn [bind] in H; [|discriminate].
      destruct (IH _ _ _ _ H rp I) as [A|A]; [|right; auto].
      apply in_app_iff in A. destruct A as [A|[A|[]]]; [now left|]. subst inst. right.
      destruct (lookup k h) as [[g dst]|] eqn:LK.
      * left. exists k, g, dst. split; [now left|auto].
      * right. left. exists k. destruct (p_root (snd k)) eqn:RK; try discriminate. inversion L; subst.
        split; [now left|auto].
    + destruct (IH _ _ _ _ H rp I) as [A|A]; [now left|right; auto].
    + destruct (IH _ _ _ _ H rp I) as [A|A]; [|right; auto].
      destruct (N.testbit w 0) eqn:TB; [|now left].
      apply in_app_iff in A. destruct A as [A|[A|[]]]; [now left|]. subst p. right. right. right. exists w. split; [now left|assumption].
Qed.

Theorem rpath_sources : forall h f os rps file,
  f_post f = Some os -> post_install h f = Ok (Some (CPatch rps file)) ->
  lookup (f_key f) h = Some (f, file) \/ (exists g, lookup (f_key f) h = Some (g, file)) ->
  forall rp, In rp rps -> rpath_source h os rp.
Proof.
  intros h f os rps file Po H _ rp I. unfold post_install in H. rewrite Po in H.
  destruct (post_opts h (f_path f) os [] false) as [[acc ch]|e] eqn:P; cbn [bind] in H; [|discriminate].
  cbn [snd fst] in H. destruct ch; [|discriminate].
  destruct (lookup (f_key f) h) as [[g dst]|]; [|discriminate]. inversion H; subst.
  apply uniques_In in I. destruct (post_opts_sources _ _ _ _ _ _ _ P rp I) as [[]|A]. exact A.
Qed.

(* ------------------------------------------------------------------ nothing else, symmetry *)
Lemma ev_dest_prefix env p : dest_path p -> ev env p = env VDestdir ++ eval_word env (realize false true p).
Proof. intros D. unfold ev. rewrite (realize_dest true p D). reflexivity. Qed.

Lemma cmd_ok_writes env c : cmd_ok c -> forall k, In k (writes (cmd_ops env c)) -> exists r, k = env VDestdir ++ r.
Proof.
  destruct c as [prog isdir s d|prog cd rels d|rps f|ps]; cbn [cmd_ok cmd_ops]; intros H k I.
  - destruct isdir; [destruct I|]. destruct I as [E|[]]. subst k. rewrite (ev_dest_prefix env d (proj2 H)). eauto.
  - unfold writes in I. rewrite map_map in I. apply in_map_iff in I. destruct I as [r [E _]]. subst k.
    rewrite (ev_dest_prefix env d (proj2 H)), <- app_assoc. eauto.
  - destruct I as [E|[]]. subst k. rewrite (ev_dest_prefix env f (proj2 H)). eauto.
  - unfold writes in I. rewrite map_map in I. apply in_map_iff in I. destruct I as [p [E Ip]]. subst k.
    rewrite Forall_forall in H. rewrite (ev_dest_prefix env p (H p Ip)). eauto.
Qed.

Lemma writes_app a b : writes (a ++ b) = writes a ++ writes b.
Proof. unfold writes. apply map_app. Qed.

Lemma cmds_ok_writes env cs : Forall cmd_ok cs -> forall k, In k (writes (cmds_ops env cs)) -> exists r, k = env VDestdir ++ r.
Proof.
  induction 1 as [|c r Hc F IH]; intros k I; [destruct I|].
  unfold cmds_ops in I. cbn [flat_map] in I. rewrite writes_app, in_app_iff in I.
  destruct I as [I|I]; [eapply cmd_ok_writes; eassumption|apply IH; exact I].
Qed.

(* C15_nothing_else: running the install (or uninstall) commands changes no path that does not start with the
   DESTDIR value; more precisely no path other than the ones the commands name *)
Theorem nothing_else : forall cs h ic uc, plan cs = Ok (h, ic, uc) -> srcs_ok h -> rpaths_ok h ->
  forall env fs k, (forall r, k <> env VDestdir ++ r) ->
    fs_get k (run_ops (cmds_ops env ic) fs) = fs_get k fs /\ fs_get k (run_ops (cmds_ops env uc) fs) = fs_get k fs.
Proof.
  intros cs h ic uc H S R env fs k N. pose proof (plan_cmds_ok _ _ _ _ H S R) as F.
  apply Forall_app in F. destruct F as [Fi Fu].
  split; apply ops_frame; intros I.
  - destruct (cmds_ok_writes env ic Fi k I) as [r E]. exact (N r E).
  - destruct (cmds_ok_writes env uc Fu k I) as [r E]. exact (N r E).
Qed.

(* the files of an installed directory: uninstall names dst.append(rel), install lets doppel write dst/rel *)
Definition dirs_ok (env : var -> str) (h : host) : Prop :=
  Forall (fun e => forall l k rel q, is_dir (f_ty (fst e)) = true -> f_files (fst e) = Some l -> In k l ->
                   relpath (snd k) (f_path (fst e)) = Ok rel -> append (snd e) rel = Ok q ->
                   ev env q = ev env (snd e) ++ s_slash ++ sfx rel) h.

Lemma entry_sym env e c ps :
  (forall l k rel q, is_dir (f_ty (fst e)) = true -> f_files (fst e) = Some l -> In k l ->
                     relpath (snd k) (f_path (fst e)) = Ok rel -> append (snd e) rel = Ok q ->
                     ev env q = ev env (snd e) ++ s_slash ++ sfx rel) ->
  install_line e = Ok c -> uninstall_line e = Ok ps ->
  map (ev env) ps = copy_dests (cmd_ops env c) /\ writes (cmd_ops env c) = copy_dests (cmd_ops env c).
Proof.
  destruct e as [src dst]. cbn [fst snd]. intros Hd. unfold install_line, uninstall_line.
  destruct (is_dir (f_ty src)) eqn:ID.
  - destruct (f_files src) as [l|] eqn:FL.
    + intros I U.
      match type of I with bind (map_res ?g l) _ = _ => destruct (map_res g l) as [rels|e] eqn:M end; cbn [bind] in I; [|discriminate].
      inversion I; subst c. cbn [cmd_ops]. clear I.
      assert (G : forall l0, (forall k, In k l0 -> In k l) -> forall rels0 ps0,
                 map_res (fun k : key => relpath (snd k) (f_path src)) l0 = Ok rels0 ->
                 map_res (fun k : key => bind (relpath (snd k) (f_path src)) (append dst)) l0 = Ok ps0 ->
                 map (ev env) ps0 = map (fun r => ev env dst ++ s_slash ++ sfx r) rels0).
      { induction l0 as [|k l0 IH]; intros Sub rels0 ps0 A B; cbn in A, B.
        - inversion A; inversion B; reflexivity.
        - destruct (relpath (snd k) (f_path src)) as [rel|e] eqn:RP; cbn [bind] in A, B; [|discriminate].
          destruct (map_res (fun k : key => relpath (snd k) (f_path src)) l0) as [rs|e]; cbn [bind] in A; [|discriminate].
          destruct (append dst rel) as [q|e] eqn:AP; cbn [bind] in B; [|discriminate].
          destruct (map_res (fun k : key => bind (relpath (snd k) (f_path src)) (append dst)) l0) as [qs|e]; cbn [bind] in B; [|discriminate].
          inversion A; inversion B; subst. cbn [map]. f_equal.
          + apply (Hd l k rel q eq_refl eq_refl (Sub k (or_introl eq_refl)) RP AP).
          + apply IH; auto. intros k' Ik. apply Sub. now right. }
      pose proof (G l (fun k Ik => Ik) rels ps M U) as E.
      assert (CD : forall (f : comps -> str) rs, copy_dests (map (fun r => OpCopy (f r) (ev env dst ++ s_slash ++ sfx r)) rs) =
                                            map (fun r => ev env dst ++ s_slash ++ sfx r) rs).
      { intros f rs. unfold copy_dests. induction rs as [|r rs IHr]; [reflexivity|].
        cbn [map flat_map app]. f_equal. exact IHr. }
      assert (WR : forall (f : comps -> str) rs, writes (map (fun r => OpCopy (f r) (ev env dst ++ s_slash ++ sfx r)) rs) =
                                            map (fun r => ev env dst ++ s_slash ++ sfx r) rs).
      { intros f rs. unfold writes. rewrite map_map. reflexivity. }
      rewrite CD, WR. auto.
    + intros I U. inversion I; inversion U; subst. cbn. auto.
  - intros I U. inversion I; inversion U; subst. cbn. auto.
Qed.

Lemma copy_dests_app a b : copy_dests (a ++ b) = copy_dests a ++ copy_dests b.
Proof. unfold copy_dests. apply flat_map_app. Qed.

Lemma lines_sym env : forall h lines ls, dirs_ok env h ->
  map_res install_line h = Ok lines -> map_res uninstall_line h = Ok ls ->
  map (ev env) (concat ls) = copy_dests (cmds_ops env lines) /\
  writes (cmds_ops env lines) = copy_dests (cmds_ops env lines).
Proof.
  induction h as [|e h IH]; intros lines ls D A B; cbn in A, B.
  - inversion A; inversion B. cbn. auto.
  - destruct (install_line e) as [c|x] eqn:IL; cbn [bind] in A; [|discriminate].
    destruct (map_res install_line h) as [cs|x]; cbn [bind] in A; [|discriminate].
    destruct (uninstall_line e) as [ps|x] eqn:UL; cbn [bind] in B; [|discriminate].
    destruct (map_res uninstall_line h) as [pss|x]; cbn [bind] in B; [|discriminate].
    inversion A; inversion B; subst. inversion D as [|? ? De Dh]; subst.
    destruct (entry_sym env e c ps De IL UL) as [E1 E2]. destruct (IH cs pss Dh eq_refl eq_refl) as [E3 E4].
    unfold cmds_ops. cbn [flat_map concat]. fold (cmds_ops env cs).
    rewrite map_app, copy_dests_app, writes_app, E1, E2, E3, E4. auto.
Qed.

(* post_install commands only patch: they copy nothing, and they patch the destination of a host entry with the
   same key *)
Lemma posts_shape env h : forall (l : host) posts, map_res (fun e : file * path => post_install h (fst e)) l = Ok posts ->
  copy_dests (cmds_ops env (somes posts)) = [] /\
  forall k, In k (writes (cmds_ops env (somes posts))) ->
            exists f g dst, In f (map fst l) /\ f_post f <> None /\ lookup (f_key f) h = Some (g, dst) /\ k = ev env dst.
Proof.
  induction l as [|e l IH]; intros posts H; cbn in H.
  - inversion H. cbn. split; [reflexivity|intros k []].
  - destruct (post_install h (fst e)) as [o|x] eqn:P; cbn [bind] in H; [|discriminate].
    destruct (map_res (fun e : file * path => post_install h (fst e)) l) as [os|x]; cbn [bind] in H; [|discriminate].
    inversion H; subst. destruct (IH os eq_refl) as [C W].
    destruct o as [c|]; cbn [somes]; [|split; [exact C|]; intros k I; destruct (W k I) as [f [g [dst [A B]]]];
                                       exists f, g, dst; split; [now right|exact B]].
    unfold post_install in P. destruct (f_post (fst e)) as [opts|] eqn:FP; [|discriminate].
    destruct (post_opts h (f_path (fst e)) opts [] false) as [[acc ch]|x]; cbn [bind] in P; [|discriminate].
    cbn [snd fst] in P. destruct ch; [|discriminate].
    destruct (lookup (f_key (fst e)) h) as [[g dst]|] eqn:L; [|discriminate]. inversion P; subst c.
    unfold cmds_ops. cbn [flat_map cmd_ops]. fold (cmds_ops env (somes os)). split.
    + cbn. exact C.
    + intros k [E|I].
      * exists (fst e), g, dst. split; [now left|]. split; [congruence|]. split; [exact L|now symmetry].
      * destruct (W k I) as [f [g' [dst' [A B]]]]. exists f, g', dst'. split; [now right|exact B].
Qed.

Definition posts_on_files (h : host) : Prop :=
  Forall (fun e => f_post (fst e) <> None -> is_dir (f_ty (fst e)) = false) h.

Lemma nondir_dest env : forall h lines g dst, map_res install_line h = Ok lines -> In (g, dst) h ->
  is_dir (f_ty g) = false -> In (ev env dst) (copy_dests (cmds_ops env lines)).
Proof.
  induction h as [|e h IH]; intros lines g dst A I ND; [destruct I|]. cbn in A.
  destruct (install_line e) as [c|x] eqn:IL; cbn [bind] in A; [|discriminate].
  destruct (map_res install_line h) as [cs|x]; cbn [bind] in A; [|discriminate]. inversion A; subst.
  unfold cmds_ops. cbn [flat_map]. fold (cmds_ops env cs). rewrite copy_dests_app, in_app_iff.
  destruct I as [E|I]; [left|right; eapply IH; eauto].
  subst e. unfold install_line in IL. rewrite ND in IL. inversion IL; subst. cbn. now left.
Qed.

(* C15_symmetry: uninstall names exactly the paths install creates, and removing them after an install into
   fresh destinations gives back the file system *)
Theorem symmetry : forall cs h ic ps env fs,
  plan cs = Ok (h, ic, [CRm ps]) -> dirs_ok env h -> posts_on_files h ->
  map (ev env) ps = copy_dests (cmds_ops env ic) /\
  ((forall k, In k (copy_dests (cmds_ops env ic)) -> fs_get k fs = None) ->
   run_ops (cmds_ops env [CRm ps]) (run_ops (cmds_ops env ic) fs) = fs).
Proof.
  intros cs h ic ps env fs H DO PF. unfold plan in H.
  destruct (add_calls cs []) as [h0|e] eqn:A; cbn [bind] in H; [|discriminate].
  destruct (install_files h0) as [ic0|e] eqn:I; cbn [bind] in H; [|discriminate].
  destruct (uninstall_files _ h0) as [uc0|e] eqn:U; cbn [bind] in H; [|discriminate].
  inversion H; subst h0 ic0 uc0. clear H.
  unfold install_files in I.
  destruct (map_res install_line h) as [lines|e] eqn:L; cbn [bind] in I; [|discriminate].
  destruct (map_res (fun e => post_install h (fst e)) h) as [posts|e] eqn:P; cbn [bind] in I; [|discriminate].
  inversion I; subst ic. clear I.
  unfold uninstall_files in U.
  match type of U with (if ?b then _ else _) = _ => destruct b end; [|discriminate].
  destruct (map_res uninstall_line h) as [ls|e] eqn:UL; cbn [bind] in U; [|discriminate].
  inversion U; subst ps. clear U.
  destruct (lines_sym env h lines ls DO L UL) as [E1 E2].
  destruct (posts_shape env h h posts P) as [C W].
  assert (CD : copy_dests (cmds_ops env (lines ++ somes posts)) = copy_dests (cmds_ops env lines)).
  { unfold cmds_ops. rewrite flat_map_app. fold (cmds_ops env lines). fold (cmds_ops env (somes posts)).
    rewrite copy_dests_app, C, app_nil_r. reflexivity. }
  split; [rewrite CD; exact E1|]. intros F.
  assert (RM : cmds_ops env [CRm (concat ls)] = map OpRm (map (ev env) (concat ls))).
  { unfold cmds_ops. cbn. rewrite app_nil_r, map_map. reflexivity. }
  rewrite RM. apply ops_symmetry with (D := copy_dests (cmds_ops env (lines ++ somes posts))).
  - intros k Ik. rewrite CD. unfold cmds_ops in Ik. rewrite flat_map_app in Ik.
    fold (cmds_ops env lines) in Ik. fold (cmds_ops env (somes posts)) in Ik.
    rewrite writes_app, in_app_iff in Ik. destruct Ik as [Ik|Ik]; [now rewrite <- E2|].
    destruct (W k Ik) as [f [g [dst [If [NP [LK Ek]]]]]]. subst k.
    destruct (lookup_some _ _ _ LK) as [Ig Kg]. cbn [fst] in Kg.
    apply in_map_iff in If. destruct If as [e [Ee Ie]]. subst f.
    unfold posts_on_files in PF. rewrite Forall_forall in PF. pose proof (PF e Ie NP) as ND.
    eapply nondir_dest; [exact L|exact Ig|]. unfold f_key in Kg. inversion Kg. congruence.
  - intros k. rewrite CD, E1. tauto.
  - exact F.
Qed.
