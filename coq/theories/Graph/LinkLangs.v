(* C14 - languages of link steps and of the library files they produce (bfg9000/builtins/link.py Link.__init__,
   tools/cc/linker.py CcLinker.can_link / output_file, tools/ar.py ArLinker.output_file).
   A language is a number: 0 c, 1 c++, 2 objc, 3 objc++, 4 f77, 5 f95, 6 java; anything else is a language the cc
   linkers do not know (ignored by can_link). *)
From BFG Require Import Base.Chars Graph.LinkOrder.
Local Open Scope N_scope.

Definition lang := N.
Definition l_c : lang := 0.
Definition l_cxx : lang := 1.

(* self.input_langs = uniques(chain(languages of self.files, languages of every library of self.libs)).
   own: the languages of the own objects of the step in listing order; libs: what each library of self.libs says
   about itself (an archive a list, a linked binary one language) *)
Definition input_langs (own : list lang) (libs : list (list lang)) : list lang := dedup_first (own ++ concat libs).

(* ArLinker.output_file: StaticLibrary(path, format, step.input_langs) *)
Definition archive_langs (own : list lang) (libs : list (list lang)) : list lang := input_langs own libs.

(* CcLinker.__known_langs / __allowed_langs *)
Definition known (l : lang) : bool := l <=? 6.
Definition allowed (drv l : lang) : bool :=
  match drv with
  | 0 => lib_mem l [0]
  | 1 => lib_mem l [0; 1; 4; 5]
  | 2 => lib_mem l [0; 2; 4; 5]
  | 3 => lib_mem l [0; 1; 2; 3; 4; 5]
  | 4 => lib_mem l [0; 4; 5]
  | 5 => lib_mem l [0; 4; 5]
  | 6 => lib_mem l [6; 0; 1; 2; 3; 4; 5]
  | _ => false
  end.
(* can_link (same object format): the known languages among langs are all allowed for the driver *)
Definition can_link (drv : lang) (langs : list lang) : bool :=
  forallb (fun l => negb (known l) || allowed drv l) langs.

(* Link.__find_linker: the first language of the list whose linker can link all of them *)
Fixpoint find_linker_in (cands langs : list lang) : option lang :=
  match cands with
  | [] => None
  | d :: r => if can_link d langs then Some d else find_linker_in r langs
  end.
Definition find_linker (langs : list lang) : option lang := find_linker_in langs langs.

(* CcLinker.output_file: Executable / SharedLibrary (path, format, self.lang) *)
Definition binary_lang (own : list lang) (libs : list (list lang)) : option lang := find_linker (input_langs own libs).
