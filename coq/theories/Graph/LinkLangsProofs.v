(* C14 - proofs about Graph/LinkLangs.v *)
From BFG Require Import Base.Chars Graph.LinkOrder Graph.LinkOrderProofs Graph.LinkLangs.
Local Open Scope N_scope.

Lemma input_langs_In own libs x :
  In x (input_langs own libs) <-> In x own \/ exists l, In l libs /\ In x l.
Proof.
  unfold input_langs. rewrite dedup_first_In, in_app_iff, in_concat.
  split; intros [H|[l [H1 H2]]]; auto; right; exists l; auto.
Qed.

Lemma archive_langs_complete own libs x :
  In x (archive_langs own libs) <-> In x own \/ exists l, In l libs /\ In x l.
Proof. apply input_langs_In. Qed.

Lemma archive_langs_NoDup own libs : NoDup (archive_langs own libs).
Proof. apply dedup_first_NoDup. Qed.

(* the listing order of the sources (and of the libraries) does not change WHICH languages an archive stands for *)
Lemma archive_langs_order_free own own' libs libs' :
  (forall x, In x own <-> In x own') -> (forall l, In l libs <-> In l libs') ->
  forall x, In x (archive_langs own libs) <-> In x (archive_langs own' libs').
Proof.
  intros H1 H2 x. rewrite !archive_langs_complete, H1.
  split; intros [H|[l [Ha Hb]]]; auto; right; exists l; split; auto; now apply H2.
Qed.

(* forwarding: a language of an archive is a language of every step that has the archive among its libraries *)
Lemma langs_forwarded ownA libsA ownB libsB x :
  In (archive_langs ownA libsA) libsB -> In x (archive_langs ownA libsA) -> In x (input_langs ownB libsB).
Proof. intros H1 H2. apply input_langs_In. right. eauto. Qed.

Lemma find_linker_in_sound cands langs d :
  find_linker_in cands langs = Some d -> In d cands /\ can_link d langs = true.
Proof.
  induction cands as [|c r IH]; cbn; [discriminate|].
  destruct (can_link c langs) eqn:E; intros H.
  - inversion H; subst. auto.
  - destruct (IH H). auto.
Qed.

Lemma driver_links_all langs d :
  find_linker langs = Some d -> In d langs /\ forall l, In l langs -> known l = true -> allowed d l = true.
Proof.
  intros H. apply find_linker_in_sound in H. destruct H as [H1 H2]. split; [assumption|].
  intros l Hl Hk. unfold can_link in H2. rewrite forallb_forall in H2. specialize (H2 l Hl).
  rewrite Hk in H2. exact H2.
Qed.

(* a step that takes in C++ (own objects, or anything an archive among its libraries stands for) is linked by a
   driver that is allowed to link C++ - never by the C driver *)
Lemma cxx_member_cxx_driver own libs d :
  (In l_cxx own \/ exists l, In l libs /\ In l_cxx l) -> binary_lang own libs = Some d ->
  allowed d l_cxx = true /\ d <> l_c.
Proof.
  intros H F. apply input_langs_In in H. apply driver_links_all in F. destruct F as [_ F].
  specialize (F l_cxx H eq_refl). split; [assumption|]. intros ->. discriminate.
Qed.
