(* C14 - model of the library / option forwarding of bfg9000 and of the relative run-time search path.

   Mirrors (as written):
     options.py        option_list.append / extend (first-occurrence de-duplication through `matches`,
                       strings are never de-duplicated), ForwardOptions.update / recurse (pre-order, no
                       visited set)
     builtins/link.py  Link.__init__ (libs, packages), DynamicLink._fill_options / options (order in which
                       lib options, package options, forwarded link options and user options are collected),
                       StaticLink._fill_output (what a static library forwards), library kind selection of
                       convert_args (`_preferred_lib`), library() under --enable/--disable-shared/static
     file_types.py     which objects carry forward_opts (StaticLibrary, WholeArchive through delegation,
                       DualUseLibrary through .static), identity of libraries (type + path)
     tools/cc/linker.py lib_flags/_link_lib (raw path, whole-archive bracket), flags (-Wl,-rpath,...)
     tools/patchelf.py local_rpath + platforms/basepath.py relpath(prefix=$ORIGIN) on component lists

   The boolean [fixed] selects the behaviour of Link.__init__:
     false: self.libs = user_libs + forward.libs               (before /repo commit 93acea6)
     true : self.libs = last-occurrence de-duplication of it   (commit 93acea6)
   In both cases the link line is produced from option_list (first-occurrence de-duplication). *)
From BFG Require Import Base.Chars.
Local Open Scope N_scope.

Definition lib := N.
Definition lib_mem (x : lib) (l : list lib) : bool := existsb (N.eqb x) l.

(* ------------------------------------------------------------------ de-duplication *)

(* option_list.append for lib options: appended unless an equal one is already present *)
Definition ol_append (acc : list lib) (x : lib) : list lib := if lib_mem x acc then acc else acc ++ [x].
(* option_list.extend / collect starting from the empty list *)
Definition dedup_first (l : list lib) : list lib := fold_left ol_append l [].

(* [lib for i, lib in enumerate(all_libs) if lib not in all_libs[i + 1:]] *)
Fixpoint dedup_last (l : list lib) : list lib :=
  match l with
  | [] => []
  | x :: r => if lib_mem x r then dedup_last r else x :: dedup_last r
  end.

(* ------------------------------------------------------------------ options *)
(* An element of an option_list: a plain string (never de-duplicated), an Option object (de-duplicated
   through matches = equality), or the option lib(l). *)
Inductive opt := OStr (id : N) | OObj (id : N) | OLib (l : lib).

Definition opt_eqb (a b : opt) : bool :=
  match a, b with
  | OStr x, OStr y => N.eqb x y
  | OObj x, OObj y => N.eqb x y
  | OLib x, OLib y => N.eqb x y
  | _, _ => false
  end.
Definition is_ostr (o : opt) : bool := match o with OStr _ => true | _ => false end.

Definition oappend (acc : list opt) (o : opt) : list opt :=
  if is_ostr o || negb (existsb (opt_eqb o) acc) then acc ++ [o] else acc.
Definition oextend (acc : list opt) (l : list opt) : list opt := fold_left oappend l acc.

(* Token level.  An element OStr of an option list is ONE argv token: link_options=['-u', 'sym'] is the
   two elements OStr -u, OStr sym, and a multi-token option is a run of consecutive OStr elements.
   CcLinker.flags walks the option list in order: a string is appended as it is, each modelled option
   object (pthread, debug, static) gives one flag, a lib option gives no flag here (its file goes to
   lib_flags, its directory to the rpath flag that follows).  So the option part of the argv of the
   link step is the option list without its lib options. *)
Definition is_olib (o : opt) : bool := match o with OLib _ => true | _ => false end.
Definition opt_flags (O : list opt) : list opt := filter (fun o => negb (is_olib o)) O.

Section Graph.
  (* forward_opts of a library: present iff [fwd x]; .libs = [deps x], .link_options = [lopts x],
     .packages = [pkgs x] *)
  Variable deps : lib -> list lib.
  Variable fwd : lib -> bool.
  Variable lopts : lib -> list opt.
  Variable pkgs : lib -> list N.
  Variable pkgopts : N -> list opt.      (* package.link_options(linker) *)

  (* ForwardOptions.recurse: the sequence of libraries whose forward_opts are merged into the result
     (result.update is called once per element, in this order).  No visited set: a library reachable
     along several paths is visited once per path.  Explicit fuel; None on exhaustion. *)
  Fixpoint visits (fuel : nat) (libs : list lib) : option (list lib) :=
    match fuel with
    | O => None
    | S f =>
        fold_right (fun i acc =>
                      if fwd i then
                        match visits f (deps i), acc with
                        | Some a, Some b => Some (i :: a ++ b)
                        | _, _ => None
                        end
                      else acc) (Some []) libs
    end.

  (* the four slots of the result (compile options are not modelled) *)
  Definition fwd_libs (v : list lib) : list lib := flat_map deps v.        (* plain list.extend *)
  Definition fwd_pkgs (v : list lib) : list N := flat_map pkgs v.          (* plain list.extend *)
  Definition fwd_lopts (v : list lib) : list opt := oextend [] (flat_map lopts v).  (* option_list.extend *)

  (* Link.__init__: self.libs *)
  Definition link_libs (fixed : bool) (fuel : nat) (user : list lib) : option (list lib) :=
    match visits fuel user with
    | None => None
    | Some v => let all := user ++ fwd_libs v in
                Some (if fixed then dedup_last all else all)
    end.

  (* the libraries of the lib options of the final option list, in order = the link line *)
  Definition final_libs (fixed : bool) (fuel : nat) (user : list lib) : option (list lib) :=
    option_map dedup_first (link_libs fixed fuel user).

  (* Link.__init__: self.packages *)
  Definition link_pkgs (fuel : nat) (user : list lib) (upkgs : list N) : option (list N) :=
    option_map (fun v => upkgs ++ fwd_pkgs v) (visits fuel user).

  (* DynamicLink.options = _internal_options + user_options *)
  Definition final_opts (fixed : bool) (fuel : nat) (user : list lib) (upkgs : list N) (uopts : list opt)
    : option (list opt) :=
    match visits fuel user, link_libs fixed fuel user with
    | Some v, Some ls =>
        let o1 := oextend [] (map OLib ls) in
        let o2 := oextend o1 (flat_map pkgopts (upkgs ++ fwd_pkgs v)) in
        let o3 := oextend o2 (fwd_lopts v) in
        Some (oextend o3 uopts)
    | _, _ => None
    end.
End Graph.

(* ------------------------------------------------------------------ single-pass linker (R model)
   Every library x defines one symbol [sym x] (the static, shared and whole-archive variants of one
   project library define the same symbol); the archive member that defines it references the symbols
   of [refs x] (the code need not use every declared dependency, so refs is a sub-list of deps).  An
   archive member is pulled in only when it defines a currently undefined symbol; whole-archives (and,
   without --as-needed, shared libraries) are taken without being needed: [always]; a shared library is
   already linked (its own
   references are resolved inside it or through its DT_NEEDED entries): refs is empty for it.  A
   library whose symbol is already defined is skipped (outside the model: whole-archive of an already
   defined symbol, which real ld rejects or pulls in again). *)
Section Ld.
  Variable refs : lib -> list lib.
  Variable sym : lib -> N.
  Variable always : lib -> bool.        (* whole-archive or shared: taken without being needed *)

  Fixpoint ld_pass (undef defd : list N) (line : list lib) : bool :=
    match line with
    | [] => match undef with [] => true | _ => false end
    | x :: r =>
        let s := sym x in
        if negb (lib_mem s defd) && (lib_mem s undef || always x) then
          let defd' := s :: defd in
          let new := filter (fun t => negb (lib_mem t defd')) (map sym (refs x)) in
          ld_pass (filter (fun t => negb (N.eqb t s)) undef ++ new) defd' r
        else ld_pass undef defd r
    end.
  (* [roots]: the libraries whose symbols the objects of the output itself reference *)
  Definition ld_links (roots line : list lib) : bool := ld_pass (map sym roots) [] line.
End Ld.

(* ------------------------------------------------------------------ projects
   What a build.bfg declares: nodes in creation order, each with a declared kind, a list of library
   arguments (index of an earlier node, wrapped in whole_archive() or not), link options, packages and
   an output directory.  A concrete library is (node, variant): N-encoded as 3 * node + variant. *)
Inductive pkind := PStatic | PShared | PDual | PDefault.   (* PDefault: library() without kind= *)
Inductive variant := VShared | VStatic | VWhole.

Record pnode := {
  pn_kind : pkind;
  pn_deps : list (nat * bool);      (* (earlier node, whole_archive?) in listing order *)
  pn_lopts : list opt;
  pn_pkgs : list N;
  pn_dir : list str;                (* directory of the output below the build root *)
  pn_uses : list nat                (* the nodes whose symbol the code of this node really references *)
}.

Definition enc_lib (n : nat) (v : variant) : lib :=
  3 * N.of_nat n + match v with VShared => 0 | VStatic => 1 | VWhole => 2 end.
Definition lib_node (l : lib) : nat := N.to_nat (l / 3).
Definition lib_variant (l : lib) : variant :=
  match l mod 3 with 0 => VShared | 1 => VStatic | _ => VWhole end.

(* library(): kind=None is decided by env.library_mode (shared, static) *)
Definition eff_kind (mode_shared mode_static : bool) (k : pkind) : pkind :=
  match k with
  | PDefault => if mode_shared then (if mode_static then PDual else PShared) else PStatic
  | k => k
  end.

(* convert_each(kwargs, libs, context[library], kind=cls._preferred_lib): what a consumer that is a
   static link (consumer_static) or a dynamic link gets for a library argument *)
Definition resolve_dep (kinds : list pkind) (consumer_static : bool) (d : nat * bool) : lib :=
  let (n, whole) := d in
  if whole then enc_lib n VWhole
  else match nth n kinds PStatic with
       | PStatic => enc_lib n VStatic
       | PShared => enc_lib n VShared
       | _ => enc_lib n (if consumer_static then VStatic else VShared)
       end.

Definition default_pnode : pnode := {| pn_kind := PStatic; pn_deps := []; pn_lopts := []; pn_pkgs := []; pn_dir := []; pn_uses := [] |}.

Section Project.
  Variable mode_shared mode_static : bool.
  Variable proj : list pnode.
  Definition kinds : list pkind := map (fun p => eff_kind mode_shared mode_static (pn_kind p)) proj.
  Definition node_of (l : lib) : pnode := nth (lib_node l) proj default_pnode.
  (* forward_opts exists on static libraries (StaticLink._fill_output) and, by delegation, on
     whole-archives *)
  Definition p_fwd (l : lib) : bool := match lib_variant l with VShared => false | _ => true end.
  (* forward_opts.libs = user_libs of the StaticLink that made the library *)
  Definition p_deps (l : lib) : list lib :=
    if p_fwd l then map (resolve_dep kinds true) (pn_deps (node_of l)) else [].
  Definition p_lopts (l : lib) : list opt := if p_fwd l then pn_lopts (node_of l) else [].
  Definition p_pkgs (l : lib) : list N := if p_fwd l then pn_pkgs (node_of l) else [].
  (* what the member of an archive references: the declared dependencies the code really uses *)
  Definition p_refs (l : lib) : list lib :=
    filter (fun y => existsb (Nat.eqb (lib_node y)) (pn_uses (node_of l))) (p_deps l).
  (* taken without being needed: whole-archives always; shared libraries unless the linker runs with
     --as-needed (the default of some distributions' gcc), where they behave like archives *)
  Definition p_always (as_needed : bool) (l : lib) : bool :=
    match lib_variant l with VStatic => false | VWhole => true | VShared => negb as_needed end.
  Definition p_sym (l : lib) : N := l / 3.
  (* the libs= argument of the link step that makes variant v of node n, after conversion *)
  Definition p_user (n : nat) (consumer_static : bool) : list lib :=
    map (resolve_dep kinds consumer_static) (pn_deps (nth n proj default_pnode)).
  Definition p_fuel : nat := S (length proj).
End Project.

(* ------------------------------------------------------------------ relative run-time search path
   Paths below the build root are lists of components (BasePath.suffix split at the separator; the
   constructor guarantees they are normalised: no empty, dot or dot-dot component). *)
Definition dotdot : str := [c_dot; c_dot].
Definition origin_s : str := [36; 79; 82; 73; 71; 73; 78].   (* $ORIGIN *)

(* posixpath.relpath on two normalised relative paths *)
Fixpoint relpath (p start : list str) : list str :=
  match p, start with
  | a :: p', b :: s' => if str_eqb a b then relpath p' s' else map (fun _ => dotdot) start ++ p
  | _, _ => map (fun _ => dotdot) start ++ p
  end.

Fixpoint join_slash (l : list str) : str :=
  match l with
  | [] => []
  | [a] => a
  | a :: r => a ++ c_slash :: join_slash r
  end.

(* patchelf.local_rpath for a library and an output that are both below the build root:
   libdir.relpath(outdir, prefix=$ORIGIN) *)
Definition local_rpath (libdir outdir : list str) : str :=
  match relpath libdir outdir with
  | [] => origin_s
  | rel => origin_s ++ c_slash :: join_slash rel
  end.

(* R model of the dynamic loader on one DT_RUNPATH entry: $ORIGIN is replaced by the directory of the
   loading object, the result is split at slashes and resolved component by component (no symlinks). *)
Fixpoint split_slash_aux (cur : str) (s : str) : list str :=
  match s with
  | [] => [rev cur]
  | c :: r => if N.eqb c c_slash then rev cur :: split_slash_aux [] r else split_slash_aux (c :: cur) r
  end.
Definition split_slash (s : str) : list str := split_slash_aux [] s.

Definition norm_step (stack : list str) (c : str) : list str :=    (* stack is reversed *)
  if str_eqb c [] || str_eqb c [c_dot] then stack
  else if str_eqb c dotdot then tl stack
  else c :: stack.
Definition normalise (comps : list str) : list str := rev (fold_left norm_step comps []).

Fixpoint strip_prefix (pre s : str) : option str :=
  match pre, s with
  | [], _ => Some s
  | a :: p, b :: r => if N.eqb a b then strip_prefix p r else None
  | _, [] => None
  end.

(* the directory (absolute, as components) searched for an rpath entry by an object in [origin];
   None: the entry is not $ORIGIN-relative *)
Definition ldso_dir (origin : list str) (entry : str) : option (list str) :=
  match strip_prefix origin_s entry with
  | Some rest => Some (normalise (origin ++ split_slash rest))
  | None => None
  end.

(* the rpath flag of CcLinker.flags: one entry per lib option that has a runtime file, no
   de-duplication, joined with colons *)
Fixpoint join_colon (l : list str) : str :=
  match l with
  | [] => []
  | [a] => a
  | a :: r => a ++ c_colon :: join_colon r
  end.

(* ------------------------------------------------------------------ the link step of node n of a project *)
Inductive ltok := TPath (l : lib) | TWholeOpen | TWholeClose.

(* CcLinker.lib_flags/_link_lib with raw linking: every project library is passed by path, a
   whole-archive between the two bracket flags *)
Definition lib_flags (line : list lib) : list ltok :=
  flat_map (fun l => match lib_variant l with
                     | VWhole => [TWholeOpen; TPath l; TWholeClose]
                     | _ => [TPath l]
                     end) line.

Section ProjectLink.
  Variable mode_shared mode_static : bool.
  Variable proj : list pnode.
  Variable pkgopts : N -> list opt.
  Notation pdeps := (p_deps mode_shared mode_static proj).
  Notation puser := (p_user mode_shared mode_static proj).

  Definition p_recurse_libs (n : nat) (cs : bool) : option (list lib) :=
    option_map (fwd_libs pdeps) (visits pdeps p_fwd (p_fuel proj) (puser n cs)).
  Definition p_link_libs (fixed : bool) (n : nat) (cs : bool) : option (list lib) :=
    link_libs pdeps p_fwd fixed (p_fuel proj) (puser n cs).
  Definition p_final_libs (fixed : bool) (n : nat) (cs : bool) : option (list lib) :=
    final_libs pdeps p_fwd fixed (p_fuel proj) (puser n cs).
  Definition p_link_pkgs (n : nat) (cs : bool) : option (list N) :=
    link_pkgs pdeps p_fwd (p_pkgs proj) (p_fuel proj) (puser n cs) (pn_pkgs (nth n proj default_pnode)).
  (* options of a dynamic link (executable or shared library) *)
  Definition p_final_opts (fixed : bool) (n : nat) : option (list opt) :=
    final_opts pdeps p_fwd (p_lopts proj) (p_pkgs proj) pkgopts fixed (p_fuel proj) (puser n false)
               (pn_pkgs (nth n proj default_pnode)) (pn_lopts (nth n proj default_pnode)).
  (* the option tokens of the argv of that link, in order (what CcLinker.flags puts before -L/-rpath) *)
  Definition p_final_flags (fixed : bool) (n : nat) : option (list opt) :=
    option_map opt_flags (p_final_opts fixed n).
  (* the run-time search path entries of the link of node n: one per shared library on the line *)
  Definition p_rpaths (fixed : bool) (n : nat) : option (list str) :=
    option_map (flat_map (fun l => match lib_variant l with
                                   | VShared => [local_rpath (pn_dir (node_of proj l))
                                                             (pn_dir (nth n proj default_pnode))]
                                   | _ => []
                                   end))
               (p_final_libs fixed n false).
  Definition p_ld_links (as_needed : bool) (roots line : list lib) : bool :=
    ld_links (p_refs mode_shared mode_static proj) p_sym (p_always as_needed) roots line.
End ProjectLink.
